//! Search target for undefined behaviour (property C17), run under Miri (or
//! AddressSanitizer) by ../run_sanitizer.sh.  Every case drives xt's YAML
//! binding / decoders through the public API or the `verif` hooks and checks
//! only that the outcome is a value, an error or an unwinding panic; the
//! interpreter / sanitizer is what looks for out-of-bounds accesses, use of
//! uninitialised or freed memory, double frees and leaks.
//!
//! Each case prints `case <label>` first (run with `--nocapture
//! --test-threads=1`), so that a report can be attributed to a case.
//! `UB_ROTATE=<n>/<m>` keeps only the cases whose index ≡ n (mod m) in the
//! large groups (the runner derives it from VERIF_SEED when time-boxed).

use std::cell::Cell;
use std::io::{self, Read};
use std::panic::{catch_unwind, AssertUnwindSafe};
use std::rc::Rc;

use xt::Format;

// --------------------------------------------------------------------------- readers

/// Short reads of at most `cap` bytes; fails persistently once `fail_at` bytes were delivered.
struct Sched<'a> {
	data: &'a [u8],
	pos: usize,
	cap: usize,
	fail_at: Option<usize>,
}

impl<'a> Sched<'a> {
	fn new(data: &'a [u8], cap: usize, fail_at: Option<usize>) -> Self {
		Sched { data, pos: 0, cap: cap.max(1), fail_at }
	}
}

impl Read for Sched<'_> {
	fn read(&mut self, buf: &mut [u8]) -> io::Result<usize> {
		let mut avail = self.data.len() - self.pos;
		if let Some(k) = self.fail_at {
			if self.pos >= k {
				return Err(io::Error::new(io::ErrorKind::Other, "INJECTED-READ-FAULT"));
			}
			avail = avail.min(k - self.pos);
		}
		let n = buf.len().min(self.cap).min(avail);
		buf[..n].copy_from_slice(&self.data[self.pos..self.pos + n]);
		self.pos += n;
		Ok(n)
	}
}

/// Violates the `Read` contract: on its `nth` call reports `excess` more bytes than it wrote.
struct OverReport<'a> {
	data: &'a [u8],
	pos: usize,
	cap: usize,
	nth: usize,
	excess: usize,
	calls: usize,
	/// set when the lying call happened
	lied: Rc<Cell<bool>>,
}

impl<'a> OverReport<'a> {
	fn new(data: &'a [u8], cap: usize, nth: usize, excess: usize) -> Self {
		OverReport { data, pos: 0, cap, nth, excess, calls: 0, lied: Rc::new(Cell::new(false)) }
	}
}

impl Read for OverReport<'_> {
	fn read(&mut self, buf: &mut [u8]) -> io::Result<usize> {
		let n = buf.len().min(self.cap).min(self.data.len() - self.pos);
		buf[..n].copy_from_slice(&self.data[self.pos..self.pos + n]);
		self.pos += n;
		self.calls += 1;
		if self.calls == self.nth {
			self.lied.set(true);
			return Ok(n.saturating_add(self.excess));
		}
		Ok(n)
	}
}

// --------------------------------------------------------------------------- inputs

const DOCS: &[&str] = &[
	"a: 1\n",
	"---\na: [1, 2, {b: c}]\n---\n- x\n- \u{e9}\u{65e5}\n...\n---\n\"s\"\n",
	"k: &x [1, 2]\nl: *x\n--- # c\n  - indented\n  - \u{1f600}\n",
	"",
	"# only a comment\n",
	"plain\n",
];

const MALFORMED: &[&[u8]] = &[
	b"a: [1, 2\n",
	b"x\n...\n  y\n",
	b"a: *\n",
	b"- \"unterminated\n",
	b"*y\n",
	b"\t- x\n",
	b"a: 1\n---\n\xff\xfe\xfd\n",
	b"k: \xc3\n",
	b"\x01\x02\x03",
	// UTF-16LE: lone trailing surrogate, lone leading surrogate at the end, odd length
	b"a\x00:\x00 \x00\x00\xdc\n\x00",
	b"a\x00:\x00 \x00\x3d\xd8",
	b"a\x00:\x00 \x001\x00\n",
	// UTF-32BE: a unit beyond 0x10FFFF, a surrogate, a truncated unit
	b"\x00\x00\x00a\x00\x00\x00:\x00\x00\x00 \x00\x11\x00\x00",
	b"\x00\x00\x00a\x00\x00\x00:\x00\x00\x00 \x00\x00\xd8\x00",
	b"\x00\x00\x00a\x00\x00\x00:\x00\x00",
];

/// `code`: 1 = UTF-16BE, 2 = UTF-32BE, 3 = UTF-16LE, 4 = UTF-32LE.
fn encode(text: &str, code: u8, bom: bool) -> Vec<u8> {
	let mut out = vec![];
	let push16 = |u: u16, out: &mut Vec<u8>| out.extend_from_slice(&if code == 1 { u.to_be_bytes() } else { u.to_le_bytes() });
	let push32 = |u: u32, out: &mut Vec<u8>| out.extend_from_slice(&if code == 2 { u.to_be_bytes() } else { u.to_le_bytes() });
	let chars = bom.then_some('\u{feff}').into_iter().chain(text.chars());
	for c in chars {
		if code == 1 || code == 3 {
			let mut b = [0u16; 2];
			for u in c.encode_utf16(&mut b) {
				push16(*u, &mut out);
			}
		} else {
			push32(c as u32, &mut out);
		}
	}
	out
}

fn rotate() -> (usize, usize) {
	std::env::var("UB_ROTATE")
		.ok()
		.and_then(|v| {
			let (a, b) = v.split_once('/')?;
			Some((a.parse().ok()?, b.parse().ok()?))
		})
		.filter(|&(_, m): &(usize, usize)| m > 0)
		.unwrap_or((0, 1))
}

struct Cases {
	index: usize,
	n: usize,
	m: usize,
	run: usize,
}

impl Cases {
	fn new() -> Self {
		let (n, m) = rotate();
		Cases { index: 0, n, m, run: 0 }
	}
	/// Whether the next case is in this run's subset; prints its label if so.
	fn take(&mut self, label: &str) -> bool {
		let i = self.index;
		self.index += 1;
		if i % self.m != self.n % self.m {
			return false;
		}
		self.run += 1;
		eprintln!("case {label}");
		true
	}
}

/// Runs `f`; a panic is an acceptable outcome only where `may_panic`.
fn guarded<T>(label: &str, may_panic: bool, f: impl FnOnce() -> T) -> Option<T> {
	match catch_unwind(AssertUnwindSafe(f)) {
		Ok(v) => Some(v),
		Err(_) => {
			assert!(may_panic, "case {label}: unexpected panic");
			None
		}
	}
}

/// Iterates a chunker the way xt does: up to the end or the first `Err` item.
/// (Calling `next()` again after an `Err` never returns — recorded finding of
/// slice C03 — so nothing here does that.)
fn docs_until_error(it: impl Iterator<Item = io::Result<(String, bool)>>) -> usize {
	let mut n = 0;
	for item in it {
		if item.is_err() {
			break;
		}
		n += 1;
	}
	n
}

const TARGETS: [Format; 3] = [Format::Json, Format::Yaml, Format::Msgpack];

// --------------------------------------------------------------------------- cases

#[test]
fn utf8_slice_and_short_reads() {
	let mut cases = Cases::new();
	for (d, doc) in DOCS.iter().enumerate() {
		// every read size, JSON target, explicit and detected
		for from in [Some(Format::Yaml), None] {
			let label = format!("utf8 doc{d} from={}", from.is_some());
			if cases.take(&format!("{label} slice")) {
				let mut out = vec![];
				let _ = guarded(&label, false, || xt::translate_slice(doc.as_bytes(), from, Format::Json, &mut out));
			}
			for cap in [1usize, 2, 3, 7, 64, 8191, 8192, 8193] {
				if cases.take(&format!("{label} reader cap={cap}")) {
					let mut out = vec![];
					let _ = guarded(&label, false, || xt::translate_reader(Sched::new(doc.as_bytes(), cap, None), from, Format::Json, &mut out));
				}
			}
		}
		// the other streaming targets
		for (t, to) in TARGETS.iter().enumerate().skip(1) {
			let label = format!("utf8 doc{d} to{t}");
			if cases.take(&format!("{label} slice")) {
				let mut out = vec![];
				let _ = guarded(&label, false, || xt::translate_slice(doc.as_bytes(), Some(Format::Yaml), *to, &mut out));
			}
			if cases.take(&format!("{label} reader cap=3")) {
				let mut out = vec![];
				let _ = guarded(&label, false, || xt::translate_reader(Sched::new(doc.as_bytes(), 3, None), Some(Format::Yaml), *to, &mut out));
			}
		}
	}
	assert!(cases.run > 0);
}

#[test]
fn utf16_utf32() {
	let mut cases = Cases::new();
	for (d, doc) in DOCS.iter().enumerate().take(3) {
		for code in 1..=4u8 {
			for bom in [false, true] {
				let bytes = encode(doc, code, bom);
				let utf8_out = {
					let mut o = vec![];
					xt::translate_slice(doc.as_bytes(), Some(Format::Yaml), Format::Json, &mut o).map(|()| o).ok()
				};
				for cap in [0usize, 1, 3, 7] {
					let label = format!("enc doc{d} code{code} bom={bom} cap={cap}");
					if !cases.take(&label) {
						continue;
					}
					let mut out = vec![];
					let r = guarded(&label, false, || {
						if cap == 0 {
							xt::translate_slice(&bytes, Some(Format::Yaml), Format::Json, &mut out)
						} else {
							xt::translate_reader(Sched::new(&bytes, cap, None), Some(Format::Yaml), Format::Json, &mut out)
						}
					});
					// With a BOM the encoding is always detected correctly (C07).
					if bom {
						if let (Some(Ok(())), Some(want)) = (r, &utf8_out) {
							assert_eq!(&out, want, "case {label}");
						}
					}
				}
			}
		}
	}
	assert!(cases.run > 0);
}

#[test]
fn malformed_inputs() {
	let mut cases = Cases::new();
	for (i, input) in MALFORMED.iter().enumerate() {
		for from in [Some(Format::Yaml), None] {
			for cap in [0usize, 1, 5] {
				let label = format!("malformed {i} from={} cap={cap}", from.is_some());
				if !cases.take(&label) {
					continue;
				}
				let mut out = vec![];
				let _ = guarded(&label, false, || {
					if cap == 0 {
						xt::translate_slice(input, from, Format::Json, &mut out)
					} else {
						xt::translate_reader(Sched::new(input, cap, None), from, Format::Json, &mut out)
					}
				});
			}
		}
	}
	assert!(cases.run > 0);
}

#[test]
fn failing_readers() {
	let mut cases = Cases::new();
	let texts: Vec<Vec<u8>> = vec![DOCS[1].as_bytes().to_vec(), encode(DOCS[2], 3, true), encode(DOCS[0], 2, false)];
	for (i, bytes) in texts.iter().enumerate() {
		let n = bytes.len();
		let mut offsets = vec![0, 1, 2, 3, 4, 5, 8, n / 2, n.saturating_sub(1), n];
		offsets.dedup();
		for k in offsets {
			for from in [Some(Format::Yaml), None] {
				for cap in [1usize, 16] {
					let label = format!("fail text{i} at={k} from={} cap={cap}", from.is_some());
					if !cases.take(&label) {
						continue;
					}
					let mut out = vec![];
					let r = guarded(&label, false, || xt::translate_reader(Sched::new(bytes, cap, Some(k)), from, Format::Json, &mut out));
					if k < n {
						// The stream needs every byte: a fault before the end is an error.
						assert!(matches!(r, Some(Err(_))), "case {label}: fault swallowed");
					}
				}
			}
		}
	}
	assert!(cases.run > 0);
}

const EVIL: &[u8] = b"---\nevil: true\n---\n- second\n- document\n";

/// The parser alone over an over-reporting reader: `read_handler`'s guard
/// answers with the `misbehaving reader` error — no copy, no panic, no leak.
#[test]
fn over_reporting_guard() {
	let mut cases = Cases::new();
	for excess in [1usize, 2, 8, 4096, usize::MAX / 2, usize::MAX] {
		for nth in [1usize, 2, 3] {
			for cap in [usize::MAX, 5, 1] {
				let label = format!("overreport-guard excess={excess} nth={nth} cap={cap}");
				if !cases.take(&label) {
					continue;
				}
				let reader = OverReport::new(EVIL, cap, nth, excess);
				let lied = reader.lied.clone();
				let r = guarded(&label, false, || xt::verif::yaml_events(Box::new(reader)));
				let (_, err) = r.expect("no panic");
				if excess > 1 << 20 && lied.get() {
					let err = err.expect("an over-report beyond any buffer must fail");
					assert!(err.to_string().contains("misbehaving reader"), "case {label}: {err}");
				}
			}
		}
	}
	assert!(cases.run > 0);
}

/// Over-reporting readers under the chunker and under whole translations: the
/// report reaches a bounds check (`ChunkReader::read`, `CaptureReader::read`,
/// `BufReader`) before `read_handler`'s guard and panics there — inside
/// libyaml's read callback.  Allowed outcomes: an error or an unwinding panic.
/// (Known finding K8: that unwind leaks libyaml's scanner temporaries; the
/// runner classifies a leak-only report of THIS group as K8.)
#[test]
fn over_reporting_panics() {
	let mut cases = Cases::new();
	for excess in [1usize, 2, 8, usize::MAX / 2] {
		for nth in [1usize, 2] {
			for cap in [usize::MAX, 5] {
				let mk = || OverReport::new(EVIL, cap, nth, excess);
				let label = format!("overreport excess={excess} nth={nth} cap={cap}");
				if cases.take(&format!("{label} chunker")) {
					let _ = guarded(&label, true, || docs_until_error(xt::verif::yaml_chunker(Box::new(mk()))));
				}
				for from in [Some(Format::Yaml), None] {
					if cases.take(&format!("{label} translate from={}", from.is_some())) {
						let mut out = vec![];
						let _ = guarded(&label, true, || xt::translate_reader(mk(), from, Format::Json, &mut out));
					}
				}
			}
		}
	}
	assert!(cases.run > 0);
}

#[test]
fn early_drops() {
	let mut cases = Cases::new();
	let streams: [&[u8]; 3] = [DOCS[1].as_bytes(), DOCS[2].as_bytes(), b"a: 1\n---\nb: [\n"];
	for (i, bytes) in streams.iter().enumerate() {
		for cap in [usize::MAX, 1] {
			// Dropped after k = 0, 1, 2, … items (an item may be the error), up to the end.
			let total = docs_until_error(xt::verif::yaml_chunker(Box::new(Sched::new(bytes, cap, None)))) + 1;
			for k in 0..=total {
				let label = format!("drop stream{i} cap={cap} after={k}");
				if !cases.take(&label) {
					continue;
				}
				guarded(&label, false, || {
					let mut it = xt::verif::yaml_chunker(Box::new(Sched::new(bytes, cap, None)));
					for _ in 0..k {
						match it.next() {
							Some(Ok(_)) => {}
							_ => break,
						}
					}
					drop(it);
				});
			}
			// Dropped after a reader error at offset j.
			for j in [0usize, 3, 9] {
				let label = format!("drop stream{i} cap={cap} fault={j}");
				if cases.take(&label) {
					guarded(&label, false, || {
						let mut it = xt::verif::yaml_chunker(Box::new(Sched::new(bytes, cap, Some(j))));
						let _ = it.next();
						drop(it);
					});
				}
			}
		}
		// Format detection abandons the chunker after one document.
		let label = format!("drop stream{i} detect");
		if cases.take(&label) {
			let _ = guarded(&label, false, || xt::verif::detect_reader(Sched::new(bytes, 7, None)));
			let _ = guarded(&label, false, || xt::verif::detect_slice(bytes));
		}
	}
	// The raw event trace (parser without the chunker), complete and failing.
	if cases.take("events complete") {
		let (events, err) = xt::verif::yaml_events(Box::new(Sched::new(DOCS[1].as_bytes(), 3, None)));
		assert!(err.is_none() && events.len() > 10);
	}
	if cases.take("events fault") {
		let (_, err) = xt::verif::yaml_events(Box::new(Sched::new(DOCS[1].as_bytes(), 3, Some(12))));
		assert!(err.expect("fault").to_string().contains("INJECTED-READ-FAULT"));
	}
	assert!(cases.run > 0);
}

/// Re-encoded YAML text longer than libyaml's 16 KiB raw buffer, made of
/// multi-byte characters, at every alignment of the text against the buffer
/// ends (a character's UTF-8 bytes straddle a read boundary, the carried-over
/// remainder shortens the next read): the re-encoder must never write outside
/// the buffer it is handed. Under Miri only one small instance runs (time).
#[test]
fn big_reencoded_alignments() {
	let mut cases = Cases::new();
	let mixed: String = "a\u{e9}\u{20ac}\u{1f600}".repeat(4);
	let fills: [&str; 4] = ["\u{e9}", "\u{20ac}", "\u{1f600}", &mixed];
	let (pads, total): (Vec<usize>, usize) = if cfg!(miri) { (vec![1], 17_000) } else { ((0..7).collect(), 50_000) };
	for (fi, fill) in fills.iter().enumerate() {
		for &pad in &pads {
			let body: String = std::iter::repeat(*fill).take(total / fill.len()).collect();
			let text = format!("p: \"{}\"\nt: \"{}\"\n---\n- \"{}\"\n", "x".repeat(pad), body, &body[..body.len() / 2 / fill.len() * fill.len()]);
			let want = {
				let mut o = vec![];
				xt::translate_slice(text.as_bytes(), Some(Format::Yaml), Format::Json, &mut o).map(|()| o).ok()
			};
			for code in 1..=4u8 {
				for cap in [0usize, usize::MAX / 4, 8191] {
					if cfg!(miri) && (code != 3 || cap != usize::MAX / 4 || fi != 1) {
						continue;
					}
					let label = format!("bigenc fill{fi} pad{pad} code{code} cap={cap}");
					if !cases.take(&label) {
						continue;
					}
					let bytes = encode(&text, code, true);
					let mut out = vec![];
					let r = guarded(&label, false, || {
						if cap == 0 {
							xt::translate_slice(&bytes, Some(Format::Yaml), Format::Json, &mut out)
						} else {
							xt::translate_reader(Sched::new(&bytes, cap, None), Some(Format::Yaml), Format::Json, &mut out)
						}
					});
					if let (Some(Ok(())), Some(want)) = (r, &want) {
						assert_eq!(&out, want, "case {label}");
					}
				}
			}
		}
	}
	assert!(cases.run > 0 || cfg!(miri));
}
