//! Empty: the cases are in tests/ub.rs.
