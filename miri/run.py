#!/usr/bin/env python3
"""Runs miri/tests/ub.rs under Miri and under AddressSanitizer (whichever are usable) and prints
verdict lines for ./check:

    SANITIZER ok tool=<miri|asan> groups=<n> cases=<n> wall=<s>s
    SANITIZER ub tool=<..> group=<g> case="<label>" class=<class or -> <first report line>
    SANITIZER unavailable <why>

Exit status 1 when any `SANITIZER ub` line was printed, 0 otherwise.

A sanitizer report is an OBSERVATION of a concrete execution (a search result
with a replay), not the verdict of property C17; the proofs are.  `unavailable`
(no nightly toolchain, no Miri sysroot, time box exceeded) does not fail.

Environment: VERIF_SEED (rotation), UB_FRACTION=m (run the cases with index ≡
VERIF_SEED mod m of every group; default 1 = all, 3 on machines with < 6
cores), UB_TIMEOUT (seconds per group, default 780), UB_TOOL=miri|asan|auto,
UB_GROUPS="g1 g2" (default: all).
Build products: <root>/.build/miri-target (git-ignored).
"""
import os
import re
import shutil
import subprocess
import sys
import time

HERE = os.path.dirname(os.path.abspath(__file__))
ROOT = os.path.dirname(HERE)
TARGET = os.path.join(ROOT, ".build", "miri-target")
LOGS = os.path.join(TARGET, "logs")
REPO = os.environ.get("XT_REPO_DIR", "/repo")
GROUPS = ["utf8_slice_and_short_reads", "utf16_utf32", "malformed_inputs", "failing_readers",
          "over_reporting_guard", "over_reporting_panics", "early_drops", "big_reencoded_alignments"]
# Leak-only reports of these groups are the recorded finding K8 (a panic raised
# inside libyaml's read callback unwinds through unsafe-libyaml's scanner and
# leaks its temporaries); anything else anywhere is unclassified.
KNOWN_LEAK_GROUPS = {"over_reporting_panics": "K8-leak-on-reader-panic"}


def env_for(tool, rotate):
    env = dict(os.environ)
    env["CARGO_NET_OFFLINE"] = "true"
    env["PATH"] = env.get("PATH", "") + ":/root/.cargo/bin"
    env["UB_ROTATE"] = rotate
    env["RUST_BACKTRACE"] = "1"
    if tool == "miri":
        env["CARGO_TARGET_DIR"] = TARGET
        env["MIRIFLAGS"] = (env.get("MIRIFLAGS", "") + " -Zmiri-env-forward=UB_ROTATE -Zmiri-env-forward=RUST_BACKTRACE").strip()
    else:
        env["CARGO_TARGET_DIR"] = os.path.join(TARGET, "asan")
        env["RUSTFLAGS"] = "-Zsanitizer=address"
        env["ASAN_OPTIONS"] = "detect_leaks=1"
    return env


def cargo_cmd(tool, extra):
    if tool == "miri":
        return ["cargo", "+nightly", "miri", "test", "--offline", "--test", "ub"] + extra
    return ["cargo", "+nightly", "test", "--offline", "--target", "x86_64-unknown-linux-gnu", "--test", "ub"] + extra


def try_build(tool, rotate):
    try:
        r = subprocess.run(cargo_cmd(tool, ["--no-run"]), cwd=HERE, env=env_for(tool, rotate), stdout=subprocess.PIPE,
                           stderr=subprocess.STDOUT, text=True, timeout=1500)
    except (OSError, subprocess.TimeoutExpired) as e:
        return False, str(e)
    tail = " | ".join(l.strip() for l in r.stdout.splitlines()[-4:])
    return r.returncode == 0, tail


def classify(group, rc, text, tool="miri"):
    """-> None (clean) or (class, case, first report line)."""
    lines = text.splitlines()
    last_case = "-"
    first = None
    kinds = set()
    for l in lines:
        if l.startswith("case "):
            if first is None:
                last_case = l[5:].strip()
            continue
        if "Undefined Behavior" in l or re.search(r"ERROR: AddressSanitizer", l):
            kinds.add("ub")
            first = first or l.strip()
        elif re.search(r"memory leaked|LeakSanitizer: detected memory leaks", l):
            kinds.add("leak")
            first = first or l.strip()
        elif re.search(r"^test \S+ \.\.\. FAILED|panicked at tests/ub\.rs", l):
            kinds.add("assertion")
            first = first or l.strip()
    if rc == 0 and not kinds:
        return None
    if rc == 124:
        return ("timeout", last_case, "time box exceeded")
    if kinds == {"leak"} and tool == "miri":
        last_case = "(leaks are reported when the process exits; see the allocation backtrace in the log)"
    if kinds == {"leak"} and group in KNOWN_LEAK_GROUPS:
        return (KNOWN_LEAK_GROUPS[group], last_case, first)
    if not kinds:
        first = next((l.strip() for l in reversed(lines) if l.strip().startswith("error")), f"exit status {rc}")
    return ("-", last_case, first)


def main():
    t0 = time.time()
    seed = int(os.environ.get("VERIF_SEED", "1") or 1)
    cores = os.cpu_count() or 1
    m = int(os.environ.get("UB_FRACTION", "1" if cores >= 6 else "3"))
    rotate = f"{seed % m}/{m}"
    timeout = int(os.environ.get("UB_TIMEOUT", "780"))
    groups = os.environ.get("UB_GROUPS", "").split() or GROUPS
    want = os.environ.get("UB_TOOL", "auto")
    if shutil.which("cargo", path=os.environ.get("PATH", "") + ":/root/.cargo/bin") is None:
        print("SANITIZER unavailable cargo not found")
        return 0
    lock = os.path.join(REPO, "Cargo.lock")
    if not os.path.exists(lock):
        print(f"SANITIZER unavailable {lock} missing")
        return 0
    shutil.copyfile(lock, os.path.join(HERE, "Cargo.lock"))
    os.makedirs(LOGS, exist_ok=True)
    # auto: Miri, and AddressSanitizer + LeakSanitizer as a second, native opinion
    # (about 20 s); either alone is enough for a verdict.
    rc_all, ran, why = 0, [], []
    for tool in (["miri", "asan"] if want == "auto" else [want]):
        ok, tail = try_build(tool, rotate)
        if not ok:
            why.append(f"{tool}: {tail}")
            continue
        ran.append(tool)
        rc_all |= run_tool(tool, groups, rotate, timeout)
    if not ran:
        print("SANITIZER unavailable " + " ;; ".join(why)[:600])
        return 0
    return rc_all


def run_tool(tool, groups, rotate, timeout):
    t0 = time.time()
    # Groups run as parallel processes of the one test binary built above.
    procs = []
    for g in groups:
        log = open(os.path.join(LOGS, f"{tool}-{g}.log"), "w")
        cmd = ["timeout", str(timeout)] + cargo_cmd(tool, ["--", "--exact", g, "--test-threads=1", "--nocapture"])
        procs.append((g, log, subprocess.Popen(cmd, cwd=HERE, env=env_for(tool, rotate), stdout=log, stderr=subprocess.STDOUT)))
        if len(procs) == 1:
            time.sleep(2)  # let the first one take cargo's lock and find everything fresh
    bad, cases, timeouts = [], 0, []
    for g, log, p in procs:
        rc = p.wait()
        log.close()
        text = open(log.name, errors="replace").read()
        cases += sum(1 for l in text.splitlines() if l.startswith("case "))
        c = classify(g, rc, text, tool)
        if c is None:
            continue
        if c[0] == "timeout":
            timeouts.append(g)
            continue
        bad.append((g,) + c)
    wall = round(time.time() - t0)
    for g, cls, case, first in bad:
        print(f'SANITIZER ub tool={tool} group={g} case="{case}" class={cls} rotate={rotate} log={os.path.relpath(os.path.join(LOGS, tool + "-" + g + ".log"), ROOT)} :: {first[:300]}')
    if timeouts:
        print(f"SANITIZER unavailable tool={tool} time box of {timeout}s exceeded in {','.join(timeouts)} (other groups: {'ub reported' if bad else 'clean'}); set UB_FRACTION to rotate")
    if not bad and not timeouts:
        print(f"SANITIZER ok tool={tool} groups={len(groups)} cases={cases} rotate={rotate} wall={wall}s")
    elif bad and all(b[1] != "-" for b in bad) and not timeouts:
        print(f"SANITIZER ok-except-classified tool={tool} groups={len(groups)} cases={cases} rotate={rotate} wall={wall}s")
    return 1 if bad else 0


if __name__ == "__main__":
    sys.exit(main())
