#!/bin/sh
# Offline build of the framework: Lean model + proofs + driver, Rust harness,
# and the real xt binaries (debug and release) from /repo's working tree.
set -e
cd "$(dirname "$0")"
export CARGO_NET_OFFLINE=true
export PATH="$PATH:/opt/veriftools/lean/bin:/root/.cargo/bin"
mkdir -p .build .work evidence replays
[ -f gen_from_source.py ] && python3 gen_from_source.py
(cd lean && lake build XtModel xtmodel)
cp /repo/Cargo.lock harness/Cargo.lock
(cd harness && cargo build --release --offline)
cargo build --offline --manifest-path /repo/Cargo.toml --target-dir .build/xt --bin xt
cargo build --offline --release --manifest-path /repo/Cargo.toml --target-dir .build/xt --bin xt
echo setup-ok
