import XtModel.Generated.PanicSites
import XtModel.Model.Sites

/-! Diagnosis helper (not part of the library, run by `./check` when the
inventory obligations fail to build): prints the generated entries that
`Xt.Sites.covered` does not account for — the functions to look at. -/
open Xt.Sites in
#eval do
  let un := uncoveredModuloMoves Xt.Generated.sites covered
  IO.println s!"UNCOVERED {un.length}"
  for (file, fn, kind, n) in un do
    IO.println s!"UNCOVERED-SITE file={file} fn={fn} kind={kind} count={n} accounted={accounted covered (file, fn, kind, n)} file-kind-total={fileKindTotal Xt.Generated.sites (file, fn, kind, n)} file-kind-accounted={fileKindAccounted covered (file, fn, kind, n)}"
  -- Informational: sites the strict per-function rule would report but that
  -- only moved inside their file.
  for (file, fn, kind, n) in uncovered Xt.Generated.sites covered do
    unless un.contains (file, fn, kind, n) do
      IO.println s!"MOVED-SITE file={file} fn={fn} kind={kind} count={n}"
  -- Informational only (removing a site never breaks an obligation): accounts
  -- whose key no longer occurs in the sources and can be deleted.
  for c in covered do
    unless Xt.Generated.sites.any (fun e => sameKey e c || wildKey e c) do
      IO.println s!"STALE-ACCOUNT file={c.1} fn={c.2.1} kind={c.2.2.1}"
