import XtModel.Model.Encoding
