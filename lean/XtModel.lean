import XtModel.Model.Wire
import XtModel.Model.Encoding
import XtModel.Props.C07
import XtModel.Model.TomlOrder
import XtModel.Props.C01
import XtModel.Model.Json
import XtModel.Props.Json
