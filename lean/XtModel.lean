import XtModel.Model.Wire
import XtModel.Model.Encoding
import XtModel.Props.C07
