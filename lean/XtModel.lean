import XtModel.Model.Wire
import XtModel.Model.Encoding
import XtModel.Props.C07
import XtModel.Model.Cli
import XtModel.Model.CliWire
import XtModel.Props.C13
