import XtModel.Model.Wire
import XtModel.Model.Encoding
import XtModel.Props.C07
import XtModel.Model.MsgpackSize
import XtModel.Model.MsgpackCodec
import XtModel.Lemmas.Msgpack
import XtModel.Props.C18
