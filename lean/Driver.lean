import XtModel.Model.Wire
import XtModel.Model.Encoding
import XtModel.Model.MsgpackSize
import XtModel.Model.MsgpackCodec

/-!
Native driver: one case per input line, one answer per output line
(`<case-id> <answer…>`).  The first field selects the engine.
-/
open Xt Xt.Wire

namespace Drv

def encName : Encoding.Enc → String
  | .utf8 => "utf8" | .utf16be => "utf16be" | .utf32be => "utf32be"
  | .utf16le => "utf16le" | .utf32le => "utf32le"

def encOfCode : Nat → Option Encoding.Enc
  | 0 => some .utf8 | 1 => some .utf16be | 2 => some .utf32be
  | 3 => some .utf16le | 4 => some .utf32le | _ => none

def rerr : Encoding.RErr → String
  | .eof => "e:eof"
  | .unit b u p => s!"e:unit:{b}:{natToHex u}:{p}"

def readTok : Except Encoding.RErr (List Nat) → String
  | .ok bs => "r:" ++ toHex bs
  | .error e => rerr e

/-- Passthrough reader over an in-memory slice. -/
def passReads : List Nat → List Nat → List String
  | _, [] => []
  | bs, n :: ns => ("r:" ++ toHex (bs.take n)) :: passReads (bs.drop n) ns

def encoding (fs : List String) : String :=
  match fs with
  | ["encdetect", hex] =>
    match parseHex hex with
    | some bs => encName (Encoding.detect bs)
    | none => "bad-case"
  | ["reencode", code, hex, ns] =>
    match code.toNat? >>= encOfCode, parseHex hex, parseNats ns with
    | some e, some bs, some ns =>
      match e with
      | .utf8 => " ".intercalate (passReads bs ns)
      | _ => " ".intercalate ((Encoding.encoderReads e bs ns).map readTok)
    | _, _, _ => "bad-case"
  | ["reencstream", hex, ns] =>
    match parseHex hex, parseNats ns with
    | some bs, some ns =>
      let e := Encoding.detect (bs.take 4)
      match e with
      | .utf8 => toHex bs ++ " ok"
      | _ =>
        let drain := List.replicate (4 * bs.length + 4) 64
        let (out, err) := Encoding.collect (Encoding.encoderReads e bs (ns ++ drain))
        toHex out ++ " " ++ (match err with | none => "ok" | some e => rerr e)
    | _, _ => "bad-case"
  | _ => "bad-case"

/-! ### MessagePack engines -/

def siteName : Msgpack.Site → String
  | .tryIntoUnwrap => "try_into_unwrap"
  | .inputSlice k => s!"input_slice_{k}"
  | .depthSub => "depth_sub"
  | .seqSlice => "seq_slice"
  | .mapSlice => "map_slice"

def resTok : Msgpack.Res → String
  | .ok n => s!"ok:{n}"
  | .truncated => "trunc"
  | .invalidMarker => "marker"
  | .depthExceeded => "depth"
  | .panic s => "panic:" ++ siteName s

/-- `format!("{:?}", Marker::from_u8(b))`. -/
def markerName : Msgpack.Marker → String
  | .fixPos v => s!"FixPos({v})"
  | .fixNeg v => s!"FixNeg(-{256 - v})"
  | .null => "Null" | .true_ => "True" | .false_ => "False"
  | .u8 => "U8" | .u16 => "U16" | .u32 => "U32" | .u64 => "U64"
  | .i8 => "I8" | .i16 => "I16" | .i32 => "I32" | .i64 => "I64"
  | .f32 => "F32" | .f64 => "F64"
  | .fixStr n => s!"FixStr({n})" | .str8 => "Str8" | .str16 => "Str16" | .str32 => "Str32"
  | .bin8 => "Bin8" | .bin16 => "Bin16" | .bin32 => "Bin32"
  | .fixArray n => s!"FixArray({n})" | .array16 => "Array16" | .array32 => "Array32"
  | .fixMap n => s!"FixMap({n})" | .map16 => "Map16" | .map32 => "Map32"
  | .fixExt1 => "FixExt1" | .fixExt2 => "FixExt2" | .fixExt4 => "FixExt4"
  | .fixExt8 => "FixExt8" | .fixExt16 => "FixExt16"
  | .ext8 => "Ext8" | .ext16 => "Ext16" | .ext32 => "Ext32"
  | .reserved => "Reserved"

def derrTok : Msgpack.DErr → String
  | .eofMarker => "eof-marker"
  | .eofData => "eof-data"
  | .reserved => "reserved"
  | .depthLimitExceeded => "depth"
  | .depthUnderflow => "underflow"
  | .extUnsupported => "ext"

def verdictTok : Msgpack.Verdict → String
  | .ok => "ok"
  | .sizeErr r => "err:" ++ resTok r
  | .decErr e => "err:" ++ derrTok e
  | .panicSplitAt => "panic:split_at"

def msgpack (fs : List String) : String :=
  match fs with
  | ["msgdecode", depth, hex] =>
    match depth.toNat?, parseHex hex with
    | some d, some bs =>
      let s := Msgpack.sliceLoop false d d bs
      let r := Msgpack.readerLoop false d bs
      s!"slice:{verdictTok s.2}:{s.1.length} reader:{verdictTok r.2}:{r.1.length} enc:{toHex (Msgpack.encodeList r.1)}"
    | _, _ => "bad-case"
  | ["msgdec1", ext, depth, hex] =>
    match depth.toNat?, parseHex hex with
    | some d, some bs =>
      match Msgpack.decodeG (ext == "1") d bs with
      | .ok (v, rest) => s!"ok:{bs.length - rest.length}:{toHex (Msgpack.encode v)}"
      | .error e => "err:" ++ derrTok e
    | _, _ => "bad-case"
  | ["msgsize", depth, hex] =>
    match depth.toNat?, parseHex hex with
    | some d, some bs => resTok (Msgpack.nextValueSize bs d)
    | _, _ => "bad-case"
  | ["msgclass", byte] =>
    match byte.toNat? with
    | some b => if b < 256 then markerName (Msgpack.Marker.ofByte b) else "bad-case"
    | none => "bad-case"
  | ["msgconst", "depth_limit"] => toString Msgpack.depthLimit
  | _ => "bad-case"

def answer (fs : List String) : String :=
  match fs with
  | "encdetect" :: _ | "reencode" :: _ | "reencstream" :: _ => encoding fs
  | "msgsize" :: _ | "msgclass" :: _ | "msgconst" :: _ | "msgdecode" :: _ | "msgdec1" :: _ => msgpack fs
  | _ => "bad-engine"

partial def loop (h : IO.FS.Stream) (out : IO.FS.Stream) : IO Unit := do
  let line ← h.getLine
  if line.isEmpty then return ()
  match fields line with
  | [] => loop h out
  | [_] => out.putStrLn "bad-line"; loop h out
  | eng :: id :: rest =>
    out.putStrLn (id ++ " " ++ answer (eng :: rest))
    loop h out

end Drv

def main : IO Unit := do
  let stdin ← IO.getStdin
  let stdout ← IO.getStdout
  Drv.loop stdin stdout
