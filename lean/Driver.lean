import XtModel.Model.Wire
import XtModel.Model.Encoding
import XtModel.Model.TomlOrder
import XtModel.Model.Json

/-!
Native driver: one case per input line, one answer per output line
(`<case-id> <answer…>`).  The first field selects the engine.
-/
open Xt Xt.Wire

namespace Drv

def encName : Encoding.Enc → String
  | .utf8 => "utf8" | .utf16be => "utf16be" | .utf32be => "utf32be"
  | .utf16le => "utf16le" | .utf32le => "utf32le"

def encOfCode : Nat → Option Encoding.Enc
  | 0 => some .utf8 | 1 => some .utf16be | 2 => some .utf32be
  | 3 => some .utf16le | 4 => some .utf32le | _ => none

def rerr : Encoding.RErr → String
  | .eof => "e:eof"
  | .unit b u p => s!"e:unit:{b}:{natToHex u}:{p}"

def readTok : Except Encoding.RErr (List Nat) → String
  | .ok bs => "r:" ++ toHex bs
  | .error e => rerr e

/-- Passthrough reader over an in-memory slice. -/
def passReads : List Nat → List Nat → List String
  | _, [] => []
  | bs, n :: ns => ("r:" ++ toHex (bs.take n)) :: passReads (bs.drop n) ns

def encoding (fs : List String) : String :=
  match fs with
  | ["encdetect", hex] =>
    match parseHex hex with
    | some bs => encName (Encoding.detect bs)
    | none => "bad-case"
  | ["reencode", code, hex, ns] =>
    match code.toNat? >>= encOfCode, parseHex hex, parseNats ns with
    | some e, some bs, some ns =>
      match e with
      | .utf8 => " ".intercalate (passReads bs ns)
      | _ => " ".intercalate ((Encoding.encoderReads e bs ns).map readTok)
    | _, _, _ => "bad-case"
  | ["reencstream", hex, ns] =>
    match parseHex hex, parseNats ns with
    | some bs, some ns =>
      let e := Encoding.detect (bs.take 4)
      match e with
      | .utf8 => toHex bs ++ " ok"
      | _ =>
        let drain := List.replicate (4 * bs.length + 4) 64
        let (out, err) := Encoding.collect (Encoding.encoderReads e bs (ns ++ drain))
        toHex out ++ " " ++ (match err with | none => "ok" | some e => rerr e)
    | _, _ => "bad-case"
  | _ => "bad-case"

/-! ### tomlorder: `s<tag>` | `a[x;y]` | `t{k=x;k=y}` -/
open Xt.TomlOrder in
partial def renderTV : TV → String
  | .scalar t => s!"s{t}"
  | .arr xs => "a[" ++ ";".intercalate (xs.map renderTV) ++ "]"
  | .tbl es => "t{" ++ ";".intercalate (es.map fun (k, v) => s!"{k}=" ++ renderTV v) ++ "}"

def takeNat (cs : List Char) : Nat × List Char :=
  let ds := cs.takeWhile Char.isDigit
  (ds.foldl (fun n c => n * 10 + (c.toNat - '0'.toNat)) 0, cs.drop ds.length)

open Xt.TomlOrder in
mutual
  partial def parseTV : List Char → Option (TV × List Char)
    | 's' :: cs => let (n, r) := takeNat cs; some (.scalar n, r)
    | 'a' :: '[' :: ']' :: cs => some (.arr [], cs)
    | 'a' :: '[' :: cs => (parseItems cs []).map fun (xs, r) => (.arr xs, r)
    | 't' :: '{' :: '}' :: cs => some (.tbl [], cs)
    | 't' :: '{' :: cs => (parseEntries cs []).map fun (es, r) => (.tbl es, r)
    | _ => none
  partial def parseItems (cs : List Char) (acc : List TV) : Option (List TV × List Char) :=
    match parseTV cs with
    | some (v, ';' :: r) => parseItems r (v :: acc)
    | some (v, ']' :: r) => some ((v :: acc).reverse, r)
    | _ => none
  partial def parseEntries (cs : List Char) (acc : List (Nat × TV)) : Option (List (Nat × TV) × List Char) :=
    let (k, r) := takeNat cs
    match r with
    | '=' :: r =>
      match parseTV r with
      | some (v, ';' :: r) => parseEntries r ((k, v) :: acc)
      | some (v, '}' :: r) => some (((k, v) :: acc).reverse, r)
      | _ => none
    | _ => none
end

def tomlorder (fs : List String) : String :=
  match fs with
  | ["tomlorder", tree] =>
    match parseTV tree.toList with
    | some (v, []) => renderTV (Xt.TomlOrder.written v)
    | _ => "bad-case"
  | _ => "bad-case"

/-! ### json / jsonstr / jsonnum -/
open Xt.Json in
def errName : Err → String
  | .eofList => "eofList" | .eofObject => "eofObject" | .eofString => "eofString"
  | .eofValue => "eofValue" | .expectedColon => "expectedColon"
  | .expectedListCommaOrEnd => "expectedListCommaOrEnd"
  | .expectedObjectCommaOrEnd => "expectedObjectCommaOrEnd"
  | .expectedIdent => "expectedIdent" | .expectedValue => "expectedValue"
  | .invalidEscape => "invalidEscape" | .invalidNumber => "invalidNumber"
  | .numberOutOfRange => "numberOutOfRange" | .invalidUnicode => "invalidUnicode"
  | .controlChar => "controlChar" | .keyMustBeString => "keyMustBeString"
  | .loneSurrogate => "loneSurrogate" | .trailingComma => "trailingComma"
  | .trailingChars => "trailingChars" | .unexpectedEndOfHexEscape => "unexpectedEndOfHexEscape"
  | .recursionLimit => "recursionLimit" | .utf8 => "utf8"

open Xt.Json in
def verdictName : Verdict → String
  | .ok => "ok"
  | .err e => errName e

open Xt.Json in
def json (fs : List String) : String :=
  match fs with
  | ["json", hex] =>
    match parseHex hex with
    | some bs =>
      let (sd, sv) := sliceLoop bs
      let (rd, rv) := readerLoop bs
      let k1 := if hasUnseparatedScalar bs then 1 else 0
      s!"slice:{verdictName sv}:{sd.length} reader:{verdictName rv}:{rd.length} k1:{k1} out:{toHex (writeDocs markerFloat rd)}"
    | none => "bad-case"
  | ["jsondetect", hex] =>
    match parseHex hex with
    | some bs =>
      let ign := match ignoreValue bs with
        | .ok rest => s!"ok:{bs.length - rest.length}"
        | .error e => "err:" ++ errName e
      let b (x : Bool) : String := if x then "1" else "0"
      s!"slice:{b (trialSlice bs)} reader:{b (trialReader bs)} ign:{ign}"
    | none => "bad-case"
  | ["jsonstr", hex] =>
    match parseHex hex with
    | some (0x22 :: bs) =>
      match parseStr bs with
      | .error e => "err:" ++ errName e
      | .ok (cps, rest) =>
        if (skipWs rest).isEmpty then "ok:" ++ toHex (cps.flatMap utf8) else "err:trailingChars"
    | _ => "bad-case"
  | ["jsonnum", hex] =>
    match parseHex hex with
    | some bs =>
      match parseValue depthLimit (0x5B :: bs ++ [0x5D]) with
      | .error e => "err:" ++ errName e
      | .ok (v, rest) =>
        if !(skipWs rest).isEmpty then "err:trailingChars" else
        match v with
        | .arr [.int i] => if i < 0 then s!"i64:{i}" else s!"u64:{i}"
        | .arr [.float src] => "float:" ++ toHex src
        | _ => "other"
    | none => "bad-case"
  | _ => "bad-case"

def answer (fs : List String) : String :=
  match fs with
  | "encdetect" :: _ | "reencode" :: _ | "reencstream" :: _ => encoding fs
  | "tomlorder" :: _ => tomlorder fs
  | "json" :: _ | "jsonstr" :: _ | "jsonnum" :: _ | "jsondetect" :: _ => json fs
  | _ => "bad-engine"

partial def loop (h : IO.FS.Stream) (out : IO.FS.Stream) : IO Unit := do
  let line ← h.getLine
  if line.isEmpty then return ()
  match fields line with
  | [] => loop h out
  | [_] => out.putStrLn "bad-line"; loop h out
  | eng :: id :: rest =>
    out.putStrLn (id ++ " " ++ answer (eng :: rest))
    loop h out

end Drv

def main : IO Unit := do
  let stdin ← IO.getStdin
  let stdout ← IO.getStdout
  Drv.loop stdin stdout
