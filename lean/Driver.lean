import XtModel.Model.Wire
import XtModel.Model.Encoding
import XtModel.Model.TranscodeWire
import XtModel.Model.Chunker
import XtModel.Model.Output
import XtModel.Model.Input
import XtModel.Model.Detect
import XtModel.Model.TomlOrder
import XtModel.Model.Faults
import XtModel.Model.Json
import XtModel.Model.MsgpackSize
import XtModel.Model.MsgpackCodec
import XtModel.Model.CliWire
import XtModel.Model.Stream
import XtModel.Model.Bridge
import XtModel.Model.Translate

/-!
Native driver: one case per input line, one answer per output line
(`<case-id> <answer…>`).  The first field selects the engine.
-/
open Xt Xt.Wire

namespace Drv

def encName : Encoding.Enc → String
  | .utf8 => "utf8" | .utf16be => "utf16be" | .utf32be => "utf32be"
  | .utf16le => "utf16le" | .utf32le => "utf32le"

def encOfCode : Nat → Option Encoding.Enc
  | 0 => some .utf8 | 1 => some .utf16be | 2 => some .utf32be
  | 3 => some .utf16le | 4 => some .utf32le | _ => none

def rerr : Encoding.RErr → String
  | .eof => "e:eof"
  | .unit b u p => s!"e:unit:{b}:{natToHex u}:{p}"

def readTok : Except Encoding.RErr (List Nat) → String
  | .ok bs => "r:" ++ toHex bs
  | .error e => rerr e

/-- Passthrough reader over an in-memory slice. -/
def passReads : List Nat → List Nat → List String
  | _, [] => []
  | bs, n :: ns => ("r:" ++ toHex (bs.take n)) :: passReads (bs.drop n) ns

def encoding (fs : List String) : String :=
  match fs with
  | ["encdetect", hex] =>
    match parseHex hex with
    | some bs => encName (Encoding.detect bs)
    | none => "bad-case"
  | ["reencode", code, hex, ns] =>
    match code.toNat? >>= encOfCode, parseHex hex, parseNats ns with
    | some e, some bs, some ns =>
      match e with
      | .utf8 => " ".intercalate (passReads bs ns)
      | _ => " ".intercalate ((Encoding.encoderReads e bs ns).map readTok)
    | _, _, _ => "bad-case"
  | ["reencstream", hex, ns] =>
    match parseHex hex, parseNats ns with
    | some bs, some ns =>
      let e := Encoding.detect (bs.take 4)
      match e with
      | .utf8 => toHex bs ++ " ok"
      | _ =>
        let drain := List.replicate (4 * bs.length + 4) 64
        let (out, err) := Encoding.collect (Encoding.encoderReads e bs (ns ++ drain))
        toHex out ++ " " ++ (match err with | none => "ok" | some e => rerr e)
    | _, _ => "bad-case"
  | _ => "bad-case"


/-! ### Engine `handle`: programs over the rewindable input handle -/

def parseOp (s : String) : Option Input.Op :=
  match s.toList with
  | ['B'] => some .borrow
  | ['C'] => some .intoCow
  | 'R' :: ds => (String.ofList ds).toNat?.map .read
  | 'P' :: ds => (String.ofList ds).toNat?.map .prefix
  | 'I' :: ds => (String.ofList ds).toNat?.map .intoInput
  | _ => none

def parseOps (s : String) : Option (List Input.Op) :=
  if s = "-" then some [] else (s.splitOn ",").mapM parseOp

/-- `-` = uncapped, `3,1,2` = caps used once each, `~3,1` = caps cycling forever. -/
def parseCaps (s : String) : Option (List Nat × Bool) :=
  match s.toList with
  | '~' :: rest => (parseNats (String.ofList rest)).map (·, true)
  | _ => (parseNats s).map (·, false)

def parseOptNat (s : String) : Option (Option Nat) :=
  if s = "-" then some none else s.toNat?.map some

def siteName : Input.Site → String
  | .unreadSub => "unread-sub" | .bufPrefix => "buf-prefix"
  | .bufRest => "buf-rest" | .bufSource => "buf-source"

def obsTok : Input.Obs → String
  | .refSlice bs => "rs:" ++ toHex bs
  | .refReader => "rr"
  | .read bs => "r:" ++ toHex bs
  | .prefix bs => "p:" ++ toHex bs
  | .inputSlice bs => "is:" ++ toHex bs
  | .inputReader bs => "ir:" ++ toHex bs
  | .cow bs => "c:" ++ toHex bs
  | .err _ _ => "e"
  | .skipped => "s"
  | .panic s => "panic:" ++ siteName s

def handle (fs : List String) : String :=
  match fs with
  | ["handle", hex, caps, fail, ops] =>
    match parseHex hex, parseCaps caps, parseOptNat fail, parseOps ops with
    | some bs, some (cs, cyc), some fa, some ops =>
      let obs := Input.handleProgram (Input.Source.new bs cs cyc fa) ops
      if obs.isEmpty then "-" else " ".intercalate (obs.map obsTok)
    | _, _, _, _ => "bad-case"
  | _ => "bad-case"


/-! ### Engines `detectlist`, `mpmarker`: the decision list and the MessagePack first-byte test -/

def parseTrial : String → Option Detect.Trial
  | "match" => some .matched
  | "nomatch" => some .noMatch
  | "ioerr" => some .ioErr
  | _ => none

def detectedTok : Detect.Detected → String
  | .fmt .msgpack => "msgpack" | .fmt .json => "json" | .fmt .yaml => "yaml" | .fmt .toml => "toml"
  | .none => "none" | .ioErr => "ioerr"

def detectEng (fs : List String) : String :=
  match fs with
  | "detectlist" :: m :: j :: y :: t :: _ =>   -- further fields (supply mode, input bytes) are for replay only
    match parseTrial m, parseTrial j, parseTrial y, parseTrial t with
    | some m, some j, some y, some t => detectedTok (Detect.detectFormat m j y t)
    | _, _, _, _ => "bad-case"
  | ["mpmarker", b] =>
    match b.toNat? with
    | some b => if Detect.markerTest b then "coll" else "other"
    | none => "bad-case"
  | _ => "bad-case"

/-! ### tomlorder: `s<tag>` | `a[x;y]` | `t{k=x;k=y}` -/
open Xt.TomlOrder in
partial def renderTV : TV → String
  | .scalar t => s!"s{t}"
  | .arr xs => "a[" ++ ";".intercalate (xs.map renderTV) ++ "]"
  | .tbl es => "t{" ++ ";".intercalate (es.map fun (k, v) => s!"{k}=" ++ renderTV v) ++ "}"

def takeNat (cs : List Char) : Nat × List Char :=
  let ds := cs.takeWhile Char.isDigit
  (ds.foldl (fun n c => n * 10 + (c.toNat - '0'.toNat)) 0, cs.drop ds.length)

open Xt.TomlOrder in
mutual
  partial def parseTV : List Char → Option (TV × List Char)
    | 's' :: cs => let (n, r) := takeNat cs; some (.scalar n, r)
    | 'a' :: '[' :: ']' :: cs => some (.arr [], cs)
    | 'a' :: '[' :: cs => (parseItems cs []).map fun (xs, r) => (.arr xs, r)
    | 't' :: '{' :: '}' :: cs => some (.tbl [], cs)
    | 't' :: '{' :: cs => (parseEntries cs []).map fun (es, r) => (.tbl es, r)
    | _ => none
  partial def parseItems (cs : List Char) (acc : List TV) : Option (List TV × List Char) :=
    match parseTV cs with
    | some (v, ';' :: r) => parseItems r (v :: acc)
    | some (v, ']' :: r) => some ((v :: acc).reverse, r)
    | _ => none
  partial def parseEntries (cs : List Char) (acc : List (Nat × TV)) : Option (List (Nat × TV) × List Char) :=
    let (k, r) := takeNat cs
    match r with
    | '=' :: r =>
      match parseTV r with
      | some (v, ';' :: r) => parseEntries r ((k, v) :: acc)
      | some (v, '}' :: r) => some (((k, v) :: acc).reverse, r)
      | _ => none
    | _ => none
end

def tomlorder (fs : List String) : String :=
  match fs with
  | ["tomlorder", tree] =>
    match parseTV tree.toList with
    | some (v, []) => renderTV (Xt.TomlOrder.written v)
    | _ => "bad-case"
  | _ => "bad-case"

/-! ### chunker: `chunker <events> <stream-hex> [debug]`, `guards <size> <reported> <written>` -/
def kindOfTok : String → Option Chunker.Kind
  | "NO" => some .noEvent | "SS" => some .streamStart | "SE" => some .streamEnd
  | "DS" => some .docStart | "DE" => some .docEnd | "AL" => some .alias | "SC" => some .scalar
  | "QS" => some .seqStart | "QE" => some .seqEnd | "MS" => some .mapStart | "ME" => some .mapEnd
  | _ => none

def chunkSiteName : Chunker.Site → String
  | .trimSub => "trimSub" | .trimTryFrom => "trimTryFrom" | .drainRange => "drainRange"
  | .trimIndex => "trimIndex" | .trimOffsetDec => "trimOffsetDec"
  | .takeSub => "takeSub" | .takeTryFrom => "takeTryFrom" | .splitOffRange => "splitOffRange"
  | .fromUtf8 => "fromUtf8" | .readSlice => "readSlice"

/-- `K:start:stop[:readOff]`; without the fourth field the whole stream has
been read when the event arrives. -/
def parseEv (total : Nat) (tok : String) : Option Chunker.Ev :=
  match tok.splitOn ":" with
  | [k, a, b] => do some ⟨← kindOfTok k, ← a.toNat?, ← b.toNat?, total⟩
  | [k, a, b, r] => do some ⟨← kindOfTok k, ← a.toNat?, ← b.toNat?, ← r.toNat?⟩
  | _ => none

def parseEvents (total : Nat) (s : String) : Option (List Chunker.Ev × Bool) :=
  if s = "-" then some ([], false) else
  let toks := s.splitOn ","
  let (toks, err) := if toks.getLast? = some "ERR" then (toks.dropLast, true) else (toks, false)
  (toks.mapM (parseEv total)).map fun evs => (evs, err)

def chunkerAnswer (r : Chunker.Result) : String :=
  let docs := r.emits.map fun e =>
    "doc:" ++ toHex e.doc.content ++ ":" ++ (if e.doc.isCollection then "c" else "n")
  let fin := match r.fin with
    | .done => "end" | .err => "err" | .incomplete => "incomplete"
    | .panic s => "panic:" ++ chunkSiteName s
  " ".intercalate (docs ++ [fin])

def chunker (fs : List String) : String :=
  match fs with
  | "chunker" :: evs :: hex :: rest =>
    match parseHex hex with
    | some stream =>
      match parseEvents stream.length evs with
      | some (evs, err) => chunkerAnswer (Chunker.chunks (rest = ["debug"]) stream evs err)
      | none => "bad-case"
    | none => "bad-case"
  | ["guards", size, reported, written] =>
    match size.toNat?, reported.toNat?, written.toNat? with
    | some size, some reported, some written =>
      let res := Chunker.ReadRes.ok reported (List.replicate written 0x61)
      let h := Chunker.readHandler false size none res
      let hTok := match h.copyLen, h.stash with
        | some _, _ => "handler:accept"
        | none, some .misbehaving => "handler:misbehaving"
        | none, _ => "handler:failure"
      let cTok := match Chunker.handlerOverChunkReader size [] none ⟨[], 0⟩ res with
        | .panic s => "chunker:panic:" ++ chunkSiteName s
        | .ok (h, _) => match h.copyLen with
          | some _ => "chunker:accept"
          | none => "chunker:failure"
      hTok ++ " " ++ cTok
    | _, _, _ => "bad-case"
  | _ => "bad-case"

/-! ### output: `frame <fmt> <script>`, `tomlout <script>`

Scripts: calls separated by `/`, items of a call by `,`; `-` is a call with no
document; a trailing item `F` is a source-side failure after the documents.
`frame` items are body hex, with a `!` suffix when the document fails after
writing those bytes.  `tomlout` items are document classes. -/
structure FrameDoc where
  body : List Nat
  fails : Bool

def frameEnv : Output.Env FrameDoc Nat Nat where
  body := fun _ d => (d.body, if d.fails then some 1 else none)
  build := fun _ => .error 0
  isTable := fun _ => false
  pretty := fun _ => .error 0

def targetOfTok : String → Option Output.Target
  | "json" => some .json | "yaml" => some .yaml | "msgpack" => some .msgpack | "toml" => some .toml
  | _ => none

def parseCall {D : Type} (item : String → Option D) (s : String) : Option (Output.Input D Nat) :=
  if s = "-" then some ⟨[], none⟩ else
  let toks := s.splitOn ","
  let (toks, fail) := if toks.getLast? = some "F" then (toks.dropLast, some 2) else (toks, none)
  (toks.mapM item).map fun ds => ⟨ds, fail⟩

def parseFrameDoc (tok : String) : Option FrameDoc :=
  if tok.endsWith "!" then (parseHex (tok.dropEnd 1).toString).map (⟨·, true⟩)
  else (parseHex tok).map (⟨·, false⟩)

def verdictTok : Except (Output.Err Nat) Unit → String
  | .ok _ => "ok"
  | .error .multiDocument => "multi"
  | .error .nonTableRoot => "nontable"
  | .error (.other _) => "other"

inductive TomlClass where
  | table | nontable | reject | srcerr | prettyerr
  deriving DecidableEq

structure TomlDoc where
  call : Nat
  idx : Nat
  cls : TomlClass

def tomlEnv : Output.Env TomlDoc Nat TomlDoc where
  body := fun _ _ => ([], none)
  build := fun d => match d.cls with
    | .reject => .error 3
    | .srcerr => .error 4
    | _ => .ok d
  isTable := fun v => v.cls = .table || v.cls = .prettyerr
  pretty := fun v => if v.cls = .prettyerr then .error 5 else .ok [v.call, v.idx]

def tomlClassOfTok : String → Option TomlClass
  | "table" => some .table | "nontable" => some .nontable | "reject" => some .reject
  | "srcerr" => some .srcerr | "prettyerr" => some .prettyerr | _ => none

def indexCalls (cs : List (Output.Input TomlClass Nat)) : List (Output.Input TomlDoc Nat) :=
  (cs.zipIdx).map fun (c, i) => ⟨(c.docs.zipIdx).map fun (k, j) => ⟨i, j, k⟩, c.fail⟩

def output (fs : List String) : String :=
  match fs with
  | ["frame", fmt, script] =>
    match targetOfTok fmt, (script.splitOn "/").mapM (parseCall parseFrameDoc) with
    | some t, some inputs =>
      let (o, rs) := Output.calls frameEnv t Output.Out.empty inputs
      " ".intercalate (toHex o.sink :: rs.map verdictTok)
    | _, _ => "bad-case"
  | ["tomlout", script] =>
    match (script.splitOn "/").mapM (parseCall tomlClassOfTok) with
    | some cs =>
      let (o, rs) := Output.calls tomlEnv .toml Output.Out.empty (indexCalls cs)
      let w := match o.pieces with
        | [] => "w:-"
        | ps => " ".intercalate (ps.map fun p => match p with
            | [i, j] => s!"w:{i}.{j}"
            | _ => "w:?")
      " ".intercalate (rs.map verdictTok ++ [w])
    | none => "bad-case"
  | _ => "bad-case"

/-! ### json / jsonstr / jsonnum -/
open Xt.Json in
def errName : Err → String
  | .eofList => "eofList" | .eofObject => "eofObject" | .eofString => "eofString"
  | .eofValue => "eofValue" | .expectedColon => "expectedColon"
  | .expectedListCommaOrEnd => "expectedListCommaOrEnd"
  | .expectedObjectCommaOrEnd => "expectedObjectCommaOrEnd"
  | .expectedIdent => "expectedIdent" | .expectedValue => "expectedValue"
  | .invalidEscape => "invalidEscape" | .invalidNumber => "invalidNumber"
  | .numberOutOfRange => "numberOutOfRange" | .invalidUnicode => "invalidUnicode"
  | .controlChar => "controlChar" | .keyMustBeString => "keyMustBeString"
  | .loneSurrogate => "loneSurrogate" | .trailingComma => "trailingComma"
  | .trailingChars => "trailingChars" | .unexpectedEndOfHexEscape => "unexpectedEndOfHexEscape"
  | .recursionLimit => "recursionLimit" | .utf8 => "utf8"

open Xt.Json in
def verdictName : Verdict → String
  | .ok => "ok"
  | .err e => errName e

open Xt.Json in
def json (fs : List String) : String :=
  match fs with
  | ["json", hex] =>
    match parseHex hex with
    | some bs =>
      let (sd, sv) := sliceLoop bs
      let (rd, rv) := readerLoop bs
      let k1 := if hasUnseparatedScalar bs then 1 else 0
      s!"slice:{verdictName sv}:{sd.length} reader:{verdictName rv}:{rd.length} k1:{k1} out:{toHex (writeDocs markerFloat rd)}"
    | none => "bad-case"
  | ["jsondetect", hex] =>
    match parseHex hex with
    | some bs =>
      let ign := match ignoreValue bs with
        | .ok rest => s!"ok:{bs.length - rest.length}"
        | .error e => "err:" ++ errName e
      let b (x : Bool) : String := if x then "1" else "0"
      s!"slice:{b (trialSlice bs)} reader:{b (trialReader bs)} ign:{ign}"
    | none => "bad-case"
  | ["jsonstr", hex] =>
    match parseHex hex with
    | some (0x22 :: bs) =>
      match parseStr bs with
      | .error e => "err:" ++ errName e
      | .ok (cps, rest) =>
        if (skipWs rest).isEmpty then "ok:" ++ toHex (cps.flatMap utf8) else "err:trailingChars"
    | _ => "bad-case"
  | ["jsonnum", hex] =>
    match parseHex hex with
    | some bs =>
      match parseValue depthLimit (0x5B :: bs ++ [0x5D]) with
      | .error e => "err:" ++ errName e
      | .ok (v, rest) =>
        if !(skipWs rest).isEmpty then "err:trailingChars" else
        match v with
        | .arr [.int i] => if i < 0 then s!"i64:{i}" else s!"u64:{i}"
        | .arr [.float src] => "float:" ++ toHex src
        | _ => "other"
    | none => "bad-case"
  | _ => "bad-case"

/-! ### writeall: `<limit|-> <pieces|-> <call-hex>/<call-hex>…` -/
def faults (fs : List String) : String :=
  match fs with
  | ["writeall", limit, pieces, calls] =>
    let lim : Option (Option Nat) := if limit = "-" then some none else limit.toNat?.map some
    match lim, parseNats pieces, (calls.splitOn "/").mapM parseHex with
    | some l, some ps, some cs =>
      let (r, w) := Xt.Faults.writeAlls ⟨[], l, ps⟩ cs
      (match r with
        | .ok () => "ok"
        | .error .fault => "err:fault"
        | .error .writeZero => "err:writezero") ++ " " ++ toHex w.accepted
    | _, _, _ => "bad-case"
  | _ => "bad-case"

/-! ### MessagePack engines -/
namespace MP

def siteName : Msgpack.Site → String
  | .tryIntoUnwrap => "try_into_unwrap"
  | .inputSlice k => s!"input_slice_{k}"
  | .depthSub => "depth_sub"
  | .seqSlice => "seq_slice"
  | .mapSlice => "map_slice"

def resTok : Msgpack.Res → String
  | .ok n => s!"ok:{n}"
  | .truncated => "trunc"
  | .invalidMarker => "marker"
  | .depthExceeded => "depth"
  | .panic s => "panic:" ++ siteName s

/-- `format!("{:?}", Marker::from_u8(b))`. -/
def markerName : Msgpack.Marker → String
  | .fixPos v => s!"FixPos({v})"
  | .fixNeg v => s!"FixNeg(-{256 - v})"
  | .null => "Null" | .true_ => "True" | .false_ => "False"
  | .u8 => "U8" | .u16 => "U16" | .u32 => "U32" | .u64 => "U64"
  | .i8 => "I8" | .i16 => "I16" | .i32 => "I32" | .i64 => "I64"
  | .f32 => "F32" | .f64 => "F64"
  | .fixStr n => s!"FixStr({n})" | .str8 => "Str8" | .str16 => "Str16" | .str32 => "Str32"
  | .bin8 => "Bin8" | .bin16 => "Bin16" | .bin32 => "Bin32"
  | .fixArray n => s!"FixArray({n})" | .array16 => "Array16" | .array32 => "Array32"
  | .fixMap n => s!"FixMap({n})" | .map16 => "Map16" | .map32 => "Map32"
  | .fixExt1 => "FixExt1" | .fixExt2 => "FixExt2" | .fixExt4 => "FixExt4"
  | .fixExt8 => "FixExt8" | .fixExt16 => "FixExt16"
  | .ext8 => "Ext8" | .ext16 => "Ext16" | .ext32 => "Ext32"
  | .reserved => "Reserved"

def derrTok : Msgpack.DErr → String
  | .eofMarker => "eof-marker"
  | .eofData => "eof-data"
  | .reserved => "reserved"
  | .depthLimitExceeded => "depth"
  | .depthUnderflow => "underflow"
  | .extUnsupported => "ext"

def verdictTok : Msgpack.Verdict → String
  | .ok => "ok"
  | .sizeErr r => "err:" ++ resTok r
  | .decErr e => "err:" ++ derrTok e
  | .panicSplitAt => "panic:split_at"

def msgpack (fs : List String) : String :=
  match fs with
  | ["msgdecode", depth, hex] =>
    match depth.toNat?, parseHex hex with
    | some d, some bs =>
      let s := Msgpack.sliceLoop false d d bs
      let r := Msgpack.readerLoop false d bs
      s!"slice:{verdictTok s.2}:{s.1.length} reader:{verdictTok r.2}:{r.1.length} enc:{toHex (Msgpack.encodeList r.1)}"
    | _, _ => "bad-case"
  | ["msgdec1", ext, depth, hex] =>
    match depth.toNat?, parseHex hex with
    | some d, some bs =>
      match Msgpack.decodeG (ext == "1") d bs with
      | .ok (v, rest) => s!"ok:{bs.length - rest.length}:{toHex (Msgpack.encode v)}"
      | .error e => "err:" ++ derrTok e
    | _, _ => "bad-case"
  | ["msgsize", depth, hex] =>
    match depth.toNat?, parseHex hex with
    | some d, some bs => resTok (Msgpack.nextValueSize bs d)
    | _, _ => "bad-case"
  | ["msgclass", byte] =>
    match byte.toNat? with
    | some b => if b < 256 then markerName (Msgpack.Marker.ofByte b) else "bad-case"
    | none => "bad-case"
  | ["msgconst", "depth_limit"] => toString Msgpack.depthLimit
  | _ => "bad-case"

end MP

/-! ### stream: `lagok <lag> <ends> <outEnds> <trace>`, `lagat <d> <la> <ends> <outEnds> <trace>`,
`loopmodel <json|msgpack|yaml> <ends> <outEnds> <packets> <C>`

Trace tokens: `r<off>:<n>` (read request at offset `off` returned `n` bytes), `w<n>`. -/
def parseStreamEv (tok : String) : Option Stream.Ev :=
  match tok.toList with
  | 'w' :: ds => (String.ofList ds).toNat?.map .wr
  | 'r' :: rest =>
    match (String.ofList rest).splitOn ":" with
    | [a, b] => do some (.rd (← a.toNat?) (← b.toNat?))
    | _ => none
  | _ => none

def parseStreamTrace (s : String) : Option (List Stream.Ev) :=
  if s = "-" then some [] else (s.splitOn ",").mapM parseStreamEv

def streamEvTok : Stream.Ev → String
  | .rd off n => s!"r{off}:{n}"
  | .wr n => s!"w{n}"

def streamTraceTok (t : List Stream.Ev) : String :=
  if t.isEmpty then "-" else ",".intercalate (t.map streamEvTok)

def lagAnswer (d la : Nat) (ends outEnds : List Nat) (tr : List Stream.Ev) : String :=
  -- one pass when `ends` is nondecreasing (`Lemmas/Stream.lagFirstBadFast_eq`: same answer)
  match Stream.lagFirstBadFast d la ends outEnds tr with
  | none => "ok"
  | some i => s!"bad:{i}"

/-- Documents from `ends` / `outEnds` (both must be nondecreasing) and a
look-ahead per position (`laLast` for the last document). -/
def docsOf (la laLast : Nat) : Nat → Nat → List Nat → List Nat → Option (List Stream.Doc)
  | _, _, [], [] => some []
  | pe, po, e :: es, o :: os =>
    if pe ≤ e ∧ po ≤ o then
      (docsOf la laLast e o es os).map (⟨e, if es.isEmpty then laLast else la, o - po⟩ :: ·)
    else none
  | _, _, _, _ => none

def stream (fs : List String) : String :=
  match fs with
  | ["lagok", lag, ends, outs, tr] =>
    match lag.toNat?, parseNats ends, parseNats outs, parseStreamTrace tr with
    | some lag, some ends, some outs, some tr => lagAnswer (2 + lag) 0 ends outs tr
    | _, _, _, _ => "bad-case"
  | ["lagat", d, la, ends, outs, tr] =>
    match d.toNat?, la.toNat?, parseNats ends, parseNats outs, parseStreamTrace tr with
    | some d, some la, some ends, some outs, some tr => lagAnswer d la ends outs tr
    | _, _, _, _, _ => "bad-case"
  | ["loopmodel", kind, ends, outs, packets, c] =>
    match parseNats ends, parseNats outs, parseNats packets, c.toNat? with
    | some ends, some outs, some packets, some c =>
      let total := packets.foldl (· + ·) 0
      let sizes := Stream.sizesOf c packets
      match kind with
      | "json" | "msgpack" =>
        match docsOf 0 0 0 0 ends outs with
        | some docs => streamTraceTok (Stream.coalesce (Stream.eagerRun total sizes docs))
        | none => "bad-case"
      | "yaml" =>
        -- the last document is complete only at the end of the stream
        let last := ends.getLast?.getD 0
        match docsOf Stream.yamlIndicatorLookahead (total + 1 - last) 0 0 ends outs with
        | some docs => streamTraceTok (Stream.coalesce (Stream.yamlRun sizes docs))
        | none => "bad-case"
      | _ => "bad-case"
    | _, _, _, _ => "bad-case"
  | _ => "bad-case"

/-! ### bridge: `j2m <hex> <slice|reader>`, `m2j <hex> <slice|reader>`

Answer: `<verdict> <output hex>`.  Floats go through `Bridge.markerIO`: a JSON
float becomes the binary64 with bits 0 (the harness zeroes the payload of every
float 64 in the implementation's output), a finite MessagePack float is written
as the token `0.5`; JSON text is then canonicalised on both sides by
`maskFloats`: every number token with a `.`, `e` or `E` becomes `F`, and so does
the content of every string that consists of number characters only and has one
of those three (a float in key position is written as a quoted float, which the
text does not tell from a string).  MessagePack → JSON answers include what was
written of a failing document (`msgpack2jsonX`).  The source error kind is
reported for JSON sources only (for MessagePack sources it is the `msgdecode`
engine's subject). -/
namespace BR
open Xt.Bridge

def modeOf : String → Option Mode
  | "slice" => some .slice
  | "reader" => some .reader
  | _ => none

def serTok : Xt.Serde.SErr → String
  | .own n => s!"ser:{n}"
  | .custom m => "ser:custom:" ++ m.replace " " "_"

/-- Finite floats as the token `0.5`. -/
def tokenIO : FloatIO := ⟨fun _ => 0, fun _ => [0x30, 0x2E, 0x35], fun _ => [0x30, 0x2E, 0x35]⟩

def isNumCh (b : Nat) : Bool :=
  (0x30 ≤ b && b ≤ 0x39) || b == 0x2B || b == 0x2D || b == 0x2E || b == 0x65 || b == 0x45

def hasFloatCh (bs : List Nat) : Bool := bs.any fun b => b == 0x2E || b == 0x65 || b == 0x45

/-- The raw content of a string up to its closing quote (escapes kept as
written), whether it was closed, and what follows. -/
def strContent : List Nat → List Nat → List Nat × Bool × List Nat
  | [], acc => (acc.reverse, false, [])
  | 0x22 :: rest, acc => (acc.reverse, true, rest)
  | 0x5C :: c :: rest, acc => strContent rest (c :: 0x5C :: acc)
  | b :: rest, acc => strContent rest (b :: acc)

def spanNum : List Nat → List Nat → List Nat × List Nat
  | [], acc => (acc.reverse, [])
  | b :: rest, acc => if isNumCh b then spanNum rest (b :: acc) else (acc.reverse, b :: rest)

partial def maskGo : List Nat → List Nat → List Nat
  | [], acc => acc.reverse
  | b :: rest, acc =>
    if b == 0x22 then
      let (content, closed, rest') := strContent rest []
      let c := if !content.isEmpty && content.all isNumCh && hasFloatCh content then [0x46] else content
      maskGo rest' ((if closed then [0x22] else []) ++ (c.reverse ++ (0x22 :: acc)))
    else if b == 0x2D || (0x30 ≤ b && b ≤ 0x39) then
      let (tok, rest') := spanNum (b :: rest) []
      maskGo rest' ((if hasFloatCh tok then [0x46] else tok).reverse ++ acc)
    else maskGo rest (b :: acc)

def maskFloats (bs : List Nat) : List Nat := maskGo bs []

def bigInput : Nat := 3000

def bridge (fs : List String) : String :=
  match fs with
  | ["j2m", hex, mode] =>
    match parseHex hex, modeOf mode with
    | some bs, some m =>
      let r := json2msgpack markerIO m bs
      let v := match r.verdict with
        | .ok => "ok"
        | .srcJson e => "src:" ++ errName e
        | .srcMsgpack _ => "src"
        | .ser e => serTok e
      v ++ " " ++ toHex r.out
    | _, _ => "bad-case"
  | ["m2j", hex, mode] =>
    match parseHex hex, modeOf mode with
    | some bs, some m =>
      -- The model's slice loop re-slices its input for every value (as the code
      -- does) and is quadratic on `List`s.  For a long input the reader loop is
      -- run first: unless it ends in a source failure, the slice answer is the
      -- same (`Xt.Props.Fidelity.m2j_slice_answer_eq_reader`: same documents,
      -- same output, `ok` / the same refusal together, and `msgpack2jsonX` is
      -- `msgpack2json` then); only on a source failure is the slice loop run.
      let r :=
        if m == .slice && bs.length > bigInput then
          match msgpack2json tokenIO .reader bs with
          | ⟨_, .srcMsgpack _⟩ => msgpack2jsonX tokenIO .slice bs
          | r => r
        else msgpack2jsonX tokenIO m bs
      let v := match r.verdict with
        | .ok => "ok"
        | .srcJson _ => "src"
        | .srcMsgpack _ => "src"
        | .ser e => serTok e
      v ++ " " ++ toHex (maskFloats r.out)
    | _, _ => "bad-case"
  | _ => "bad-case"

end BR

/-! ### translate: `translatemodel <slice|reader:<caps>:<fail>> <hex> [y=<trial> ye=<0|1> t=<trial>]`,
`trialextent <msgpack|json> <caps> <hex>`

`translatemodel` answers `<detected|none|ioerr> <slice|reader|-> <verdict class> <ndocs>` for
`Translator::translate(input, None)`.  The YAML / TOML trial answers (and whether
the YAML trial saw the end of the input) come from the real hooks on the case
line; they are only consulted when neither the MessagePack nor the JSON trial
decides.  `trialextent` answers `<trial answer> <bytes captured> <eof 0|1>` for
one concrete trial on a fresh reader. -/
namespace TR
open Xt.Translate Xt.Input

def parseMode (s : String) : Option (Option (List Nat × Bool × Option Nat)) :=
  if s = "slice" then some none else
  match s.splitOn ":" with
  | ["reader", caps, fail] =>
    match parseCaps caps, parseOptNat fail with
    | some (cs, cyc), some fa => some (some (cs, cyc, fa))
    | _, _ => none
  | _ => none

def kv (key : String) (toks : List String) : Option String :=
  toks.findSome? fun t => if t.startsWith (key ++ "=") then some (t.drop (key.length + 1)).toString else none

def extOf (toks : List String) : Option Xt.Translate.Ext :=
  match kv "y" toks, kv "ye" toks, kv "t" toks with
  | some y, some ye, some t =>
    match parseTrial y, parseTrial t with
    | some y, some t =>
      some { yamlSlice := fun _ => y
             yamlReader := fun bs => (y, if ye = "1" then bs.length + 1 else bs.length)
             tomlUtf8 := fun _ => true
             tomlParses := fun _ => t = .matched }
    | _, _ => none
  | _, _, _ => none

/-- Stand-in when the case line carries no YAML / TOML answers: must not be reached. -/
def noExt : Xt.Translate.Ext :=
  { yamlSlice := fun _ => .ioErr, yamlReader := fun _ => (.ioErr, 0), tomlUtf8 := fun _ => false,
    tomlParses := fun _ => false }

def seenTok : Seen → String
  | .slice _ => "slice"
  | .reader _ _ => "reader"

def jsonVerdictTok : Xt.Json.Verdict → String
  | .ok => "ok"
  | .err e => "err:" ++ errName e

def mpVerdictTok : Xt.Msgpack.Verdict → String
  | .ok => "ok"
  | _ => "err"

def translatemodel (fs : List String) : String :=
  match fs with
  | "translatemodel" :: mode :: hex :: toks =>
    match parseMode mode, parseHex hex with
    | some m, some bs =>
      let src : Src := match m with
        | none => .slice bs
        | some (cs, cyc, fa) => .reader (Source.new bs cs cyc fa)
      let ext := extOf toks
      let E := ext.getD noExt
      -- do the concrete trials decide?
      let mj := mpTrial src.handle
      let concreteMJ : Bool := match decided .msgpack mj.1 with
        | some _ => true
        | none => (decided .json (jsonTrial mj.2).1).isSome
      if !concreteMJ && ext.isNone then "need-ext" else
      let d := detectOn E src.handle
      match d.1 with
      | .panic s => "panic:" ++ siteName s
      | .det .none => "none - unable 0"
      | .det .ioErr => "ioerr - ioerr 0"
      | .det (.fmt f) =>
        let seen := seenOfHandle d.2
        let fm := detectedTok (.fmt f)
        match translate E (concrete (X := Unit) (fun _ => ()) (fun _ => ())) none src with
        | .ran (.json docs v) => s!"{fm} {seenTok seen} {jsonVerdictTok v} {docs.length}"
        | .ran (.msgpack docs v) => s!"{fm} {seenTok seen} {mpVerdictTok v} {docs.length}"
        | .ran .readerFault => s!"{fm} {seenTok seen} fault -"
        | .ran (.ext _) => s!"{fm} {seenTok seen} - -"
        | .unableToDetect => "none - unable 0"
        | .ioError => "ioerr - ioerr 0"
        | .panic s => "panic:" ++ siteName s
    | _, _ => "bad-case"
  | _ => "bad-case"

def stepTok : Step → String
  | .answer .matched => "match"
  | .answer .noMatch => "nomatch"
  | .answer .ioErr => "ioerr"
  | .panic s => "panic:" ++ siteName s

def trialextent (fs : List String) : String :=
  match fs with
  | ["trialextent", fmt, caps, hex] =>
    match parseCaps caps, parseHex hex with
    | some (cs, cyc), some bs =>
      let h := Handle.fromReader (Source.new bs cs cyc none)
      let r := match fmt with
        | "msgpack" => some (mpTrial h)
        | "json" => some (jsonTrial h)
        | _ => none
      match r with
      | some r => s!"{stepTok r.1} {captured r.2} {if flipped r.2 then 1 else 0}"
      | none => "bad-case"
    | _, _ => "bad-case"
  | _ => "bad-case"

end TR

def answer (fs : List String) : String :=
  match fs with
  | "translatemodel" :: _ => TR.translatemodel fs
  | "trialextent" :: _ => TR.trialextent fs
  | "encdetect" :: _ | "reencode" :: _ | "reencstream" :: _ => encoding fs
  | ["transcode", tree, script] => Xt.TranscodeWire.runTranscode tree script
  | ["valuepath", tree, script] => Xt.TranscodeWire.runValuePath tree script
  | "handle" :: _ => handle fs
  | "detectlist" :: _ | "mpmarker" :: _ => detectEng fs
  | "tomlorder" :: _ => tomlorder fs
  | "writeall" :: _ => faults fs
  | "chunker" :: _ | "guards" :: _ => chunker fs
  | "frame" :: _ | "tomlout" :: _ => output fs
  | "json" :: _ | "jsonstr" :: _ | "jsonnum" :: _ | "jsondetect" :: _ => json fs
  | "msgsize" :: _ | "msgclass" :: _ | "msgconst" :: _ | "msgdecode" :: _ | "msgdec1" :: _ => MP.msgpack fs
  | "cli" :: _ | "noflush" :: _ | "plan" :: _ | "ext" :: _ | "stdinpath" :: _ | "fmtname" :: _ | "pipecheck" :: _
  | "lexopt" :: _ => Xt.CliWire.answer fs
  | "lagok" :: _ | "lagat" :: _ | "loopmodel" :: _ => stream fs
  | "j2m" :: _ | "m2j" :: _ => BR.bridge fs
  | _ => "bad-engine"

partial def loop (h : IO.FS.Stream) (out : IO.FS.Stream) : IO Unit := do
  let line ← h.getLine
  if line.isEmpty then return ()
  match fields line with
  | [] => loop h out
  | [_] => out.putStrLn "bad-line"; loop h out
  | eng :: id :: rest =>
    out.putStrLn (id ++ " " ++ answer (eng :: rest))
    out.flush
    loop h out

end Drv

def main : IO Unit := do
  let stdin ← IO.getStdin
  let stdout ← IO.getStdout
  Drv.loop stdin stdout
