import XtModel.Model.Wire
import XtModel.Model.Encoding
import XtModel.Model.CliWire

/-!
Native driver: one case per input line, one answer per output line
(`<case-id> <answer…>`).  The first field selects the engine.
-/
open Xt Xt.Wire

namespace Drv

def encName : Encoding.Enc → String
  | .utf8 => "utf8" | .utf16be => "utf16be" | .utf32be => "utf32be"
  | .utf16le => "utf16le" | .utf32le => "utf32le"

def encOfCode : Nat → Option Encoding.Enc
  | 0 => some .utf8 | 1 => some .utf16be | 2 => some .utf32be
  | 3 => some .utf16le | 4 => some .utf32le | _ => none

def rerr : Encoding.RErr → String
  | .eof => "e:eof"
  | .unit b u p => s!"e:unit:{b}:{natToHex u}:{p}"

def readTok : Except Encoding.RErr (List Nat) → String
  | .ok bs => "r:" ++ toHex bs
  | .error e => rerr e

/-- Passthrough reader over an in-memory slice. -/
def passReads : List Nat → List Nat → List String
  | _, [] => []
  | bs, n :: ns => ("r:" ++ toHex (bs.take n)) :: passReads (bs.drop n) ns

def encoding (fs : List String) : String :=
  match fs with
  | ["encdetect", hex] =>
    match parseHex hex with
    | some bs => encName (Encoding.detect bs)
    | none => "bad-case"
  | ["reencode", code, hex, ns] =>
    match code.toNat? >>= encOfCode, parseHex hex, parseNats ns with
    | some e, some bs, some ns =>
      match e with
      | .utf8 => " ".intercalate (passReads bs ns)
      | _ => " ".intercalate ((Encoding.encoderReads e bs ns).map readTok)
    | _, _, _ => "bad-case"
  | ["reencstream", hex, ns] =>
    match parseHex hex, parseNats ns with
    | some bs, some ns =>
      let e := Encoding.detect (bs.take 4)
      match e with
      | .utf8 => toHex bs ++ " ok"
      | _ =>
        let drain := List.replicate (4 * bs.length + 4) 64
        let (out, err) := Encoding.collect (Encoding.encoderReads e bs (ns ++ drain))
        toHex out ++ " " ++ (match err with | none => "ok" | some e => rerr e)
    | _, _ => "bad-case"
  | _ => "bad-case"

def answer (fs : List String) : String :=
  match fs with
  | "encdetect" :: _ | "reencode" :: _ | "reencstream" :: _ => encoding fs
  | "cli" :: _ | "noflush" :: _ | "plan" :: _ | "ext" :: _ | "stdinpath" :: _ | "fmtname" :: _ | "pipecheck" :: _
  | "lexopt" :: _ => Xt.CliWire.answer fs
  | _ => "bad-engine"

partial def loop (h : IO.FS.Stream) (out : IO.FS.Stream) : IO Unit := do
  let line ← h.getLine
  if line.isEmpty then return ()
  match fields line with
  | [] => loop h out
  | [_] => out.putStrLn "bad-line"; loop h out
  | eng :: id :: rest =>
    out.putStrLn (id ++ " " ++ answer (eng :: rest))
    out.flush
    loop h out

end Drv

def main : IO Unit := do
  let stdin ← IO.getStdin
  let stdout ← IO.getStdout
  Drv.loop stdin stdout
