import XtModel.Model.Wire
import XtModel.Model.Encoding
import XtModel.Model.Input
import XtModel.Model.Detect
import XtModel.Model.TomlOrder

/-!
Native driver: one case per input line, one answer per output line
(`<case-id> <answer…>`).  The first field selects the engine.
-/
open Xt Xt.Wire

namespace Drv

def encName : Encoding.Enc → String
  | .utf8 => "utf8" | .utf16be => "utf16be" | .utf32be => "utf32be"
  | .utf16le => "utf16le" | .utf32le => "utf32le"

def encOfCode : Nat → Option Encoding.Enc
  | 0 => some .utf8 | 1 => some .utf16be | 2 => some .utf32be
  | 3 => some .utf16le | 4 => some .utf32le | _ => none

def rerr : Encoding.RErr → String
  | .eof => "e:eof"
  | .unit b u p => s!"e:unit:{b}:{natToHex u}:{p}"

def readTok : Except Encoding.RErr (List Nat) → String
  | .ok bs => "r:" ++ toHex bs
  | .error e => rerr e

/-- Passthrough reader over an in-memory slice. -/
def passReads : List Nat → List Nat → List String
  | _, [] => []
  | bs, n :: ns => ("r:" ++ toHex (bs.take n)) :: passReads (bs.drop n) ns

def encoding (fs : List String) : String :=
  match fs with
  | ["encdetect", hex] =>
    match parseHex hex with
    | some bs => encName (Encoding.detect bs)
    | none => "bad-case"
  | ["reencode", code, hex, ns] =>
    match code.toNat? >>= encOfCode, parseHex hex, parseNats ns with
    | some e, some bs, some ns =>
      match e with
      | .utf8 => " ".intercalate (passReads bs ns)
      | _ => " ".intercalate ((Encoding.encoderReads e bs ns).map readTok)
    | _, _, _ => "bad-case"
  | ["reencstream", hex, ns] =>
    match parseHex hex, parseNats ns with
    | some bs, some ns =>
      let e := Encoding.detect (bs.take 4)
      match e with
      | .utf8 => toHex bs ++ " ok"
      | _ =>
        let drain := List.replicate (4 * bs.length + 4) 64
        let (out, err) := Encoding.collect (Encoding.encoderReads e bs (ns ++ drain))
        toHex out ++ " " ++ (match err with | none => "ok" | some e => rerr e)
    | _, _ => "bad-case"
  | _ => "bad-case"


/-! ### Engine `handle`: programs over the rewindable input handle -/

def parseOp (s : String) : Option Input.Op :=
  match s.toList with
  | ['B'] => some .borrow
  | ['C'] => some .intoCow
  | 'R' :: ds => (String.ofList ds).toNat?.map .read
  | 'P' :: ds => (String.ofList ds).toNat?.map .prefix
  | 'I' :: ds => (String.ofList ds).toNat?.map .intoInput
  | _ => none

def parseOps (s : String) : Option (List Input.Op) :=
  if s = "-" then some [] else (s.splitOn ",").mapM parseOp

/-- `-` = uncapped, `3,1,2` = caps used once each, `~3,1` = caps cycling forever. -/
def parseCaps (s : String) : Option (List Nat × Bool) :=
  match s.toList with
  | '~' :: rest => (parseNats (String.ofList rest)).map (·, true)
  | _ => (parseNats s).map (·, false)

def parseOptNat (s : String) : Option (Option Nat) :=
  if s = "-" then some none else s.toNat?.map some

def siteName : Input.Site → String
  | .unreadSub => "unread-sub" | .bufPrefix => "buf-prefix"
  | .bufRest => "buf-rest" | .bufSource => "buf-source"

def obsTok : Input.Obs → String
  | .refSlice bs => "rs:" ++ toHex bs
  | .refReader => "rr"
  | .read bs => "r:" ++ toHex bs
  | .prefix bs => "p:" ++ toHex bs
  | .inputSlice bs => "is:" ++ toHex bs
  | .inputReader bs => "ir:" ++ toHex bs
  | .cow bs => "c:" ++ toHex bs
  | .err _ _ => "e"
  | .skipped => "s"
  | .panic s => "panic:" ++ siteName s

def handle (fs : List String) : String :=
  match fs with
  | ["handle", hex, caps, fail, ops] =>
    match parseHex hex, parseCaps caps, parseOptNat fail, parseOps ops with
    | some bs, some (cs, cyc), some fa, some ops =>
      let obs := Input.handleProgram (Input.Source.new bs cs cyc fa) ops
      if obs.isEmpty then "-" else " ".intercalate (obs.map obsTok)
    | _, _, _, _ => "bad-case"
  | _ => "bad-case"


/-! ### Engines `detectlist`, `mpmarker`: the decision list and the MessagePack first-byte test -/

def parseTrial : String → Option Detect.Trial
  | "match" => some .matched
  | "nomatch" => some .noMatch
  | "ioerr" => some .ioErr
  | _ => none

def detectedTok : Detect.Detected → String
  | .fmt .msgpack => "msgpack" | .fmt .json => "json" | .fmt .yaml => "yaml" | .fmt .toml => "toml"
  | .none => "none" | .ioErr => "ioerr"

def detectEng (fs : List String) : String :=
  match fs with
  | "detectlist" :: m :: j :: y :: t :: _ =>   -- further fields (supply mode, input bytes) are for replay only
    match parseTrial m, parseTrial j, parseTrial y, parseTrial t with
    | some m, some j, some y, some t => detectedTok (Detect.detectFormat m j y t)
    | _, _, _, _ => "bad-case"
  | ["mpmarker", b] =>
    match b.toNat? with
    | some b => if Detect.markerTest b then "coll" else "other"
    | none => "bad-case"
  | _ => "bad-case"

/-! ### tomlorder: `s<tag>` | `a[x;y]` | `t{k=x;k=y}` -/
open Xt.TomlOrder in
partial def renderTV : TV → String
  | .scalar t => s!"s{t}"
  | .arr xs => "a[" ++ ";".intercalate (xs.map renderTV) ++ "]"
  | .tbl es => "t{" ++ ";".intercalate (es.map fun (k, v) => s!"{k}=" ++ renderTV v) ++ "}"

def takeNat (cs : List Char) : Nat × List Char :=
  let ds := cs.takeWhile Char.isDigit
  (ds.foldl (fun n c => n * 10 + (c.toNat - '0'.toNat)) 0, cs.drop ds.length)

open Xt.TomlOrder in
mutual
  partial def parseTV : List Char → Option (TV × List Char)
    | 's' :: cs => let (n, r) := takeNat cs; some (.scalar n, r)
    | 'a' :: '[' :: ']' :: cs => some (.arr [], cs)
    | 'a' :: '[' :: cs => (parseItems cs []).map fun (xs, r) => (.arr xs, r)
    | 't' :: '{' :: '}' :: cs => some (.tbl [], cs)
    | 't' :: '{' :: cs => (parseEntries cs []).map fun (es, r) => (.tbl es, r)
    | _ => none
  partial def parseItems (cs : List Char) (acc : List TV) : Option (List TV × List Char) :=
    match parseTV cs with
    | some (v, ';' :: r) => parseItems r (v :: acc)
    | some (v, ']' :: r) => some ((v :: acc).reverse, r)
    | _ => none
  partial def parseEntries (cs : List Char) (acc : List (Nat × TV)) : Option (List (Nat × TV) × List Char) :=
    let (k, r) := takeNat cs
    match r with
    | '=' :: r =>
      match parseTV r with
      | some (v, ';' :: r) => parseEntries r ((k, v) :: acc)
      | some (v, '}' :: r) => some (((k, v) :: acc).reverse, r)
      | _ => none
    | _ => none
end

def tomlorder (fs : List String) : String :=
  match fs with
  | ["tomlorder", tree] =>
    match parseTV tree.toList with
    | some (v, []) => renderTV (Xt.TomlOrder.written v)
    | _ => "bad-case"
  | _ => "bad-case"

def answer (fs : List String) : String :=
  match fs with
  | "encdetect" :: _ | "reencode" :: _ | "reencstream" :: _ => encoding fs
  | "handle" :: _ => handle fs
  | "detectlist" :: _ | "mpmarker" :: _ => detectEng fs
  | "tomlorder" :: _ => tomlorder fs
  | _ => "bad-engine"

partial def loop (h : IO.FS.Stream) (out : IO.FS.Stream) : IO Unit := do
  let line ← h.getLine
  if line.isEmpty then return ()
  match fields line with
  | [] => loop h out
  | [_] => out.putStrLn "bad-line"; loop h out
  | eng :: id :: rest =>
    out.putStrLn (id ++ " " ++ answer (eng :: rest))
    loop h out

end Drv

def main : IO Unit := do
  let stdin ← IO.getStdin
  let stdout ← IO.getStdout
  Drv.loop stdin stdout
