import XtModel.Lemmas.Stream
import XtModel.Lemmas.Encoding
import XtModel.Props.C03
import XtModel.Props.C09

/-!
# C05 — Streaming translation: bounded lag and bounded memory (PARTIAL)

"When JSON, MessagePack or YAML documents arrive one after another on a reader,
by the time xt asks the reader for data beyond document k+2 the complete
translation of document k has been handed to the output writer; memory stays
proportional to the largest single document plus a constant, with or without
format detection."

Claimed PARTIAL (DESIGN.md §8): heap peaks and wall-clock promptness are
runtime facts and are *measured* by the harness (counting allocator, real
traces).  Proved here is the bookkeeping that bounds them, over the offset-level
model `Model/Stream.lean`:

* `lag_ok_spec` — the executable acceptor `lagOk` IS the property's sentence,
  event by event (so running it on a real trace evaluates the property).
* `model_trace_lag_ok` — EVERY trace of the demand-driven reader loop, for every
  document list, every sequence of read sizes (packet schedule × buffer
  capacity), explicit or detected source format, is accepted: with lag 0
  ("document k itself, plus the parser's look-ahead": JSON, MessagePack) under
  `DemandDriven`, with lag 1 ("document k+1": YAML, where the chunker releases
  document k at the start of k+1) under `DemandDrivenButLast`, and with the
  literal statement of the property (k+2) in both cases.
* `lag_acceptor_monotone`, `lag_rejects_slurp` (a proved NEGATIVE: read
  everything, then write everything is rejected for every stream of ≥ 3
  documents), `buffer_bound`, `yaml_buffer_bound` (reuses
  `chunker_buffer_bounded`), `coalesced_trace_accepted`, `fast_acceptor_eq` (the
  one-pass acceptor the driver runs returns what the definition returns).
* re-used, not re-proved (listed as obligations by absolute name):
  `Xt.Props.C03.chunker_lag_one`, `Xt.Props.C03.chunker_buffer_bounded`,
  `Xt.Props.C09.capture_released`, `Xt.Props.C09.toml_trial_capped`.

Named hypotheses (third-party code, sampled by the harness on every real
trace): `DemandDriven L` / `DemandDrivenButLast L` (serde_json L = 1, rmp_serde
L = 0, libyaml L = 4), `Spaced L` (documents after the first are at least `L`
bytes long — a JSON document has ≥ 1 byte, a YAML document after the first
starts with `---` + blank), and for detection "the selected trial asks for no
more than the translator itself needs for the first document".
-/
namespace Xt.Props.C05
open Xt.Stream

/-! ## The acceptor is the sentence of the property -/

/-- `lagOk lag` accepts a trace exactly when: at every read request `rd off _`
of the trace, for every k such that document `k + 2 + lag` ends at or before
`off` (the request asks for data beyond that document), the bytes written
before the request reach `outEnds[k]` (the translation of document k is
complete).  `lag = 0` is the property as written. -/
theorem lag_ok_spec (lag : Nat) (ends outs : List Nat) (tr : List Ev) :
    lagOk lag ends outs tr = true ↔
      ∀ pre off n suf, tr = pre ++ .rd off n :: suf →
        ∀ (k e o : Nat), ends[k + (2 + lag)]? = some e → outs[k]? = some o → e ≤ off → o ≤ written pre := by
  simp only [lagOk, lagOkAt, accepts, Option.isNone_iff_eq_none, firstBad_none_iff, readOk_iff,
    boundsAt_getElem?, Nat.zero_add]
  constructor
  · intro h pre off n suf heq k e o he ho hle
    exact h pre off n suf heq k (e + 0) o (by simp [he]) ho (by simpa using hle)
  · intro h pre off n suf heq k b o hb ho hle
    cases he : ends[k + (2 + lag)]? with
    | none => simp [he] at hb
    | some e =>
      simp only [he, Option.map_some, Nat.add_zero, Option.some.injEq] at hb
      subst hb
      exact h pre off n suf heq k e o he ho hle

/-- The variant with slack, likewise: document `k + d` plus `la` bytes. -/
theorem lag_ok_at_spec (d la : Nat) (ends outs : List Nat) (tr : List Ev) :
    lagOkAt d la ends outs tr = true ↔
      ∀ pre off n suf, tr = pre ++ .rd off n :: suf →
        ∀ (k e o : Nat), ends[k + d]? = some e → outs[k]? = some o → e + la ≤ off → o ≤ written pre := by
  simp only [lagOkAt, accepts, Option.isNone_iff_eq_none, firstBad_none_iff, readOk_iff,
    boundsAt_getElem?, Nat.zero_add]
  constructor
  · intro h pre off n suf heq k e o he ho hle
    exact h pre off n suf heq k (e + la) o (by simp [he]) ho hle
  · intro h pre off n suf heq k b o hb ho hle
    cases he : ends[k + d]? with
    | none => simp [he] at hb
    | some e =>
      simp only [he, Option.map_some, Option.some.injEq] at hb
      subst hb
      exact h pre off n suf heq k e o he ho hle

/-! ## Every trace of the loop model is accepted -/

theorem det_below (d : Doc) (ds : List Doc) (bounds : List Nat) (detNeed : Nat)
    (hn : NeedsBelow (d :: ds) bounds) (hs : bounds.Pairwise (· ≤ ·)) (hd : detNeed ≤ d.stop + d.la) :
    ∀ b ∈ bounds, detNeed ≤ b := by
  cases bounds with
  | nil => simp
  | cons b bs =>
    intro x hx
    rw [List.pairwise_cons] at hs
    have h0 : d.stop + d.la ≤ b := hn.1
    simp only [List.mem_cons] at hx
    rcases hx with rfl | hx
    · omega
    · have := hs.1 x hx; omega

theorem det_below' (docs : List Doc) (bounds : List Nat) (detNeed : Nat)
    (hn : NeedsBelow docs bounds) (hs : bounds.Pairwise (· ≤ ·)) (hb : docs = [] → bounds = [])
    (hd : ∀ d ∈ docs.head?, detNeed ≤ d.stop + d.la) :
    ∀ b ∈ bounds, detNeed ≤ b := by
  cases docs with
  | nil => simp [hb rfl]
  | cons d ds => exact det_below d ds bounds detNeed hn hs (hd d (by simp))

theorem demandDriven_butLast {L : Nat} {docs : List Doc} (h : DemandDriven L docs) : DemandDrivenButLast L docs :=
  fun d hd => h d (List.dropLast_subset docs hd)

/-- **Lag 0** (JSON with `L = 1`, MessagePack with `L = 0`; any loop whose
parser is `DemandDriven L`).  For EVERY document list with nondecreasing ends,
EVERY list of read sizes, with or without the detection prefix: no read request
at an offset `≥ ends[k] + L` is issued before document k's translation has been
written. -/
theorem loop_lag_zero (strict : Bool) (fin L detNeed : Nat) (sizes : List Nat) (docs : List Doc)
    (hd : DemandDriven L docs) (hsp : Spaced 0 docs)
    (hdet : ∀ d ∈ docs.head?, detNeed ≤ d.stop + d.la) :
    lagOkAt 0 L (stops docs) (outEnds 0 docs) (explicitRun strict fin sizes docs) = true ∧
    lagOkAt 0 L (stops docs) (outEnds 0 docs) (detectedRun strict fin detNeed sizes docs) = true := by
  have hs := boundsAt_sorted 0 L _ (spaced_sorted hsp)
  have hn := needsBelow_zero L docs hd
  refine ⟨explicitRun_accepts strict fin docs _ sizes hs hn,
    detectedRun_accepts strict fin detNeed docs _ sizes hs hn ?_⟩
  exact det_below' docs _ detNeed hn hs (by intro h; simp [h, boundsAt, stops]) hdet

/-- **Lag 1** (YAML with `L = 4`; also JSON and MessagePack).  For EVERY
document list whose documents are at least `L` bytes long, EVERY list of read
sizes, with or without the detection prefix: no read request at an offset
`≥ ends[k+1]` is issued before document k's translation has been written. -/
theorem loop_lag_one (strict : Bool) (fin L detNeed : Nat) (sizes : List Nat) (docs : List Doc)
    (hd : DemandDrivenButLast L docs) (hsp : Spaced L docs)
    (hdet : ∀ d ∈ docs.head?, detNeed ≤ d.stop + d.la) :
    lagOkAt 1 0 (stops docs) (outEnds 0 docs) (explicitRun strict fin sizes docs) = true ∧
    lagOkAt 1 0 (stops docs) (outEnds 0 docs) (detectedRun strict fin detNeed sizes docs) = true := by
  have hs := boundsAt_sorted 1 0 _ (spaced_sorted hsp)
  have hn := needsBelow_one L docs hsp hd
  refine ⟨explicitRun_accepts strict fin docs _ sizes hs hn,
    detectedRun_accepts strict fin detNeed docs _ sizes hs hn ?_⟩
  exact det_below' docs _ detNeed hn hs (by intro h; simp [h, boundsAt, stops]) hdet

/-- **`model_trace_lag_ok`.**  Every trace the demand-driven reader loop model
produces — for every document list, every packet schedule and buffer capacity
(`sizes` is arbitrary), every look-ahead within the bound `L`, whichever way
the loop treats a truncated document (`strict`) and probes for the end of the
input (`fin`), explicit source format or detected — satisfies:

* under `DemandDriven L` (serde_json, rmp_serde): the acceptor with lag 0
  documents (`lagOkAt 0 L`);
* under `DemandDrivenButLast L` (libyaml + chunker) and documents of at least
  `L` bytes: the acceptor with lag 1 document (`lagOkAt 1 0`), and therefore
* the property as written (`lagOk 0`: k + 2). -/
theorem model_trace_lag_ok (strict : Bool) (fin L detNeed : Nat) (sizes : List Nat) (docs : List Doc)
    (hsp : Spaced L docs) (hdet : ∀ d ∈ docs.head?, detNeed ≤ d.stop + d.la) :
    (DemandDriven L docs →
      lagOkAt 0 L (stops docs) (outEnds 0 docs) (explicitRun strict fin sizes docs) = true ∧
      lagOkAt 0 L (stops docs) (outEnds 0 docs) (detectedRun strict fin detNeed sizes docs) = true) ∧
    (DemandDrivenButLast L docs →
      lagOkAt 1 0 (stops docs) (outEnds 0 docs) (explicitRun strict fin sizes docs) = true ∧
      lagOkAt 1 0 (stops docs) (outEnds 0 docs) (detectedRun strict fin detNeed sizes docs) = true ∧
      lagOk 0 (stops docs) (outEnds 0 docs) (explicitRun strict fin sizes docs) = true ∧
      lagOk 0 (stops docs) (outEnds 0 docs) (detectedRun strict fin detNeed sizes docs) = true) := by
  have hsorted := spaced_sorted hsp
  have hsp0 : Spaced 0 docs := by
    unfold Spaced at hsp ⊢
    exact hsp.imp (fun h => by omega)
  refine ⟨fun hd => loop_lag_zero strict fin L detNeed sizes docs hd hsp0 hdet, fun hd => ?_⟩
  obtain ⟨h1, h2⟩ := loop_lag_one strict fin L detNeed sizes docs hd hsp hdet
  exact ⟨h1, h2, lagOkAt_mono 1 2 0 0 _ _ _ hsorted (by omega) (Nat.le_refl _) h1,
    lagOkAt_mono 1 2 0 0 _ _ _ hsorted (by omega) (Nat.le_refl _) h2⟩

/-- The JSON / MessagePack reader loop (`eagerRun`: a truncated document stops
the loop, the end of the input is probed after the last document): lag 0 and
the property as written. -/
theorem json_msgpack_trace_lag_ok (L total : Nat) (sizes : List Nat) (docs : List Doc)
    (hd : DemandDriven L docs) (hsp : Spaced L docs) :
    lagOkAt 0 L (stops docs) (outEnds 0 docs) (eagerRun total sizes docs) = true ∧
    lagOk 0 (stops docs) (outEnds 0 docs) (eagerRun total sizes docs) = true := by
  have h := model_trace_lag_ok true (total + 1) L 0 sizes docs hsp (fun d _ => Nat.zero_le _)
  exact ⟨(h.1 hd).1, (h.2 (demandDriven_butLast hd)).2.2.1⟩

/-- The YAML reader loop (`yamlRun`): lag 1 and the property as written. -/
theorem yaml_trace_lag_ok (L : Nat) (sizes : List Nat) (docs : List Doc)
    (hd : DemandDrivenButLast L docs) (hsp : Spaced L docs) :
    lagOkAt 1 0 (stops docs) (outEnds 0 docs) (yamlRun sizes docs) = true ∧
    lagOk 0 (stops docs) (outEnds 0 docs) (yamlRun sizes docs) = true := by
  have h := model_trace_lag_ok false 0 L 0 sizes docs hsp (fun d _ => Nat.zero_le _)
  exact ⟨(h.2 hd).1, (h.2 hd).2.2.1⟩

/-! ## Monotonicity of the acceptor -/

/-- **`lag_acceptor_monotone`.**  (1) Accepting with lag `l` implies accepting
with lag `l + 1` (document ends nondecreasing).  (2) Events appended after the
last document's translation has been written never turn an accepted trace into
a rejected one.  (3) More slack in documents or bytes accepts more. -/
theorem lag_acceptor_monotone (ends outs : List Nat) (tr : List Ev) :
    (∀ l, ends.Pairwise (· ≤ ·) → lagOk l ends outs tr = true → lagOk (l + 1) ends outs tr = true) ∧
    (∀ l extra, lagOk l ends outs tr = true → (∀ o ∈ outs, o ≤ written tr) →
      lagOk l ends outs (tr ++ extra) = true) ∧
    (∀ d d' la la', ends.Pairwise (· ≤ ·) → d ≤ d' → la ≤ la' →
      lagOkAt d la ends outs tr = true → lagOkAt d' la' ends outs tr = true) := by
  refine ⟨?_, ?_, ?_⟩
  · intro l hs h
    exact lagOkAt_mono (2 + l) (2 + (l + 1)) 0 0 ends outs tr hs (by omega) (Nat.le_refl _) h
  · intro l extra h hw
    simp only [lagOk, lagOkAt, accepts, Option.isNone_iff_eq_none] at h ⊢
    rw [firstBad_append, h]
    exact firstBad_all_written _ _ _ _ _ (fun o ho => by have := hw o ho; omega)
  · intro d d' la la' hs hd hl h
    exact lagOkAt_mono d d' la la' ends outs tr hs hd hl h

/-! ## The acceptor bites: slurp-then-translate is rejected -/

/-- **`lag_rejects_slurp`.**  For EVERY stream of at least three documents
(the third ends inside the input, the first has a non-empty translation) and
EVERY sequence of read sizes: the trace of an implementation that reads the
whole input and then writes every translation is rejected by the acceptor of
the property. -/
theorem lag_rejects_slurp (sizes : List Nat) (d0 d1 d2 : Doc) (rest : List Doc)
    (hout : 0 < d0.outLen) (hin : d2.stop ≤ sizes.sum) :
    lagOk 0 (stops (d0 :: d1 :: d2 :: rest)) (outEnds 0 (d0 :: d1 :: d2 :: rest))
      (slurpRun sizes (d0 :: d1 :: d2 :: rest)) = false := by
  simp only [lagOk, lagOkAt, accepts, slurpRun]
  have hbad : readOk (boundsAt (2 + 0) 0 (stops (d0 :: d1 :: d2 :: rest)))
      (outEnds 0 (d0 :: d1 :: d2 :: rest)) (0 + sizes.sum) 0 = false := by
    simp only [boundsAt, stops, List.map_cons, List.drop_succ_cons, List.drop_zero, outEnds, readOk,
      Nat.zero_add, Nat.add_zero]
    have h1 : decide (d2.stop ≤ sizes.sum) = true := by simpa using hin
    simp only [h1, Bool.not_true, Bool.false_or, Bool.and_eq_false_imp, decide_eq_true_eq]
    intro h; omega
  have := firstBad_readAll _ _ 0 ((d0 :: d1 :: d2 :: rest).map (fun d => Ev.wr d.outLen)) sizes 0 hbad
  cases h : firstBad (boundsAt (2 + 0) 0 (stops (d0 :: d1 :: d2 :: rest))) (outEnds 0 (d0 :: d1 :: d2 :: rest)) 0 0
      (readAll 0 sizes ++ List.map (fun d => Ev.wr d.outLen) (d0 :: d1 :: d2 :: rest)) with
  | none => exact absurd h this
  | some x => rfl

/-! ## Bytes held -/

/-- **`buffer_bound`.**  For EVERY document list, EVERY list of read sizes of at
most `C` bytes each (buffer capacity), look-ahead at most `L`: after every read
of the loop model, the bytes delivered beyond the start of the current (first
unwritten) document — the buffered reader's contents plus the document being
assembled — are at most `C + maxDocLen + L`; after the last document a read
returns at most that.  With the detection prefix in front likewise (the
captured prefix is part of the first document plus its look-ahead). -/
theorem buffer_bound (strict : Bool) (fin C L : Nat) (sizes : List Nat) (docs : List Doc)
    (hC : ∀ s ∈ sizes, s ≤ C) (hL : DemandDriven L docs) :
    HeldBound (C + maxDocLen 0 docs + L) 0 (startsFrom 0 docs) (explicitRun strict fin sizes docs) ∧
    (∀ d ds detNeed, docs = d :: ds → detNeed ≤ d.stop + d.la →
      HeldBound (C + maxDocLen 0 docs + L) 0 (startsFrom 0 docs) (detectedRun strict fin detNeed sizes docs)) := by
  refine ⟨demandLoop_heldBound strict fin C L _ docs 0 0 sizes hC hL (Nat.le_refl _), ?_⟩
  intro d ds detNeed hdocs hdet
  subst hdocs
  simp only [detectedRun, startsFrom]
  have hla := hL d (by simp)
  apply heldBound_fetch _ C detNeed 0 _ _ sizes 0 hC
  · simp only [maxDocLen]; omega
  · have := demandLoop_heldBound strict fin C L (C + maxDocLen 0 (d :: ds) + L) (d :: ds) 0
      (fetch detNeed 0 sizes).2.1 (fetch detNeed 0 sizes).2.2
      (demandLoop_heldBound.fetch_rest_le C detNeed sizes 0 hC) hL (Nat.le_refl _)
    simpa [startsFrom] using this

/-- Reads through a `C`-byte buffer over any packet schedule return at most
`C` bytes each (`C ≥ 1`), and together exactly the packets' bytes. -/
theorem sizesOf_le (C : Nat) (packets : List Nat) (hC : 0 < C) :
    (∀ s ∈ sizesOf C packets, s ≤ C) ∧ (sizesOf C packets).sum = packets.sum := by
  have hchunk : ∀ p, (∀ s ∈ chunk C p, s ≤ C) ∧ (chunk C p).sum = p := by
    intro p
    unfold chunk
    refine ⟨?_, ?_⟩
    · intro s hs
      simp only [List.mem_append, List.mem_replicate] at hs
      rcases hs with ⟨_, rfl⟩ | hs
      · exact Nat.le_refl _
      · split at hs
        · simp at hs
        · simp only [List.mem_singleton] at hs
          subst hs
          exact Nat.le_of_lt (Nat.mod_lt _ hC)
    · simp only [List.sum_append, List.sum_replicate_nat]
      split
      · rename_i h0
        have := Nat.div_add_mod p C
        simp only [List.sum_nil, Nat.add_zero]
        rw [h0] at this
        rw [Nat.mul_comm]; omega
      · have := Nat.div_add_mod p C
        simp only [List.sum_cons, List.sum_nil, Nat.add_zero]
        rw [Nat.mul_comm]; omega
  induction packets with
  | nil => simp [sizesOf]
  | cons p ps ih =>
    simp only [sizesOf, List.flatMap_cons, List.mem_append, List.sum_append, List.sum_cons] at ih ⊢
    refine ⟨?_, by rw [(hchunk p).2, ih.2]⟩
    rintro s (hs | hs)
    · exact (hchunk p).1 s hs
    · exact ih.1 s hs

open Xt.Chunker in
theorem readMax_le (B : Nat) : ∀ (evs : List Chunker.Ev) (fed : Nat), fed ≤ B → (∀ e ∈ evs, e.readOff ≤ B) →
    readMax fed evs ≤ B := by
  intro evs
  induction evs with
  | nil => intro fed h _; simpa [readMax] using h
  | cons e t ih =>
    intro fed h he
    simp only [readMax]
    apply ih
    · split
      · exact he e (by simp)
      · exact h
    · exact fun x hx => he x (by simp [hx])

open Xt.Chunker in
/-- **`yaml_buffer_bound`** (the YAML path; reuses `chunker_buffer_bounded`).
For EVERY stream and parser trace satisfying `EventsMonotone`: if the parser
had pulled at most `B` bytes through the `ChunkReader` when it returned each of
the events so far — under `DemandDrivenButLast` for libyaml, `B` = (parse
position) + look-ahead + one raw-buffer refill of `yamlRawBufferSize` bytes —
then the chunker's capture buffer holds at most `B − cut` bytes, `cut` being the
start of the current document's chunk (the end of the previous document between
documents): one document's extent so far, plus the read-ahead. -/
theorem yaml_buffer_bound (oc : Bool) (stream : List Nat) (pre suf : List Chunker.Ev) (st : St) (B : Nat)
    (hm : EventsMonotone stream (pre ++ suf)) (h : stateAfter oc stream St.init pre = some st)
    (hB : ∀ e ∈ pre, e.readOff ≤ B) :
    st.reader.captured.length ≤ B - cutAfter stream 0 pre ∧
    st.reader.capturedStart = cutAfter stream 0 pre := by
  obtain ⟨_, h2, _, _, h5⟩ := Xt.Props.C03.chunker_buffer_bounded oc stream pre suf st hm h
  have := readMax_le B pre 0 (Nat.zero_le _) hB
  exact ⟨by omega, h2⟩

/-! ## What the driver runs -/

/-- The driver answers `lagok` / `lagat` case lines with the one-pass acceptor
`lagFirstBadFast` (a cursor over the documents when `ends` is nondecreasing,
the definition otherwise): for EVERY input it returns what the definition
returns — the same verdict and the same first offending event. -/
theorem fast_acceptor_eq (d la : Nat) (ends outs : List Nat) (tr : List Ev) :
    lagFirstBadFast d la ends outs tr = lagFirstBad d la ends outs tr ∧
    (lagOkAt d la ends outs tr = (lagFirstBadFast d la ends outs tr).isNone) := by
  refine ⟨lagFirstBadFast_eq d la ends outs tr, ?_⟩
  rw [lagFirstBadFast_eq]
  rfl

/-! ## Coalesced writes -/

/-- The harness's writer records consecutive writes as one event, and the
driver prints the loop model's trace in the same form: acceptance is the same. -/
theorem coalesced_trace_accepted (bounds outs : List Nat) (tr : List Ev) :
    accepts bounds outs (coalesce tr) = accepts bounds outs tr := by
  simp only [accepts]
  have := coalesce_accepts bounds outs tr 0 0 0
  cases h1 : firstBad bounds outs 0 0 (coalesce tr) <;> cases h2 : firstBad bounds outs 0 0 tr <;> simp_all

/-! ## Non-vacuity -/

/-- Three JSON documents (`7`, `{"a":1}`, `8`, newline-separated, 13 bytes): a
number needs one byte of look-ahead, the object none; translations of 2, 8 and
2 bytes. -/
def exDocs : List Doc := [⟨1, 1, 2⟩, ⟨9, 0, 8⟩, ⟨11, 1, 2⟩]

example : DemandDriven 1 exDocs := by decide
example : Spaced 1 exDocs := by decide

/-- One byte per read: the loop's trace, event by event. -/
example : eagerRun 12 (sizesOf 8192 [1, 1, 1, 1, 1, 1, 1, 1, 1, 1, 1, 1]) exDocs =
    [.rd 0 1, .rd 1 1, .wr 2, .rd 2 1, .rd 3 1, .rd 4 1, .rd 5 1, .rd 6 1, .rd 7 1, .rd 8 1, .wr 8,
     .rd 9 1, .rd 10 1, .rd 11 1, .wr 2, .rd 12 0] := by decide

/-- Packets of 5 + 7 bytes through a 4-byte buffer. -/
example : sizesOf 4 [5, 7] = [4, 1, 4, 3] := by decide

example : lagOkAt 0 1 (stops exDocs) (outEnds 0 exDocs) (eagerRun 12 (sizesOf 4 [5, 7]) exDocs) = true :=
  (json_msgpack_trace_lag_ok 1 12 _ exDocs (by decide) (by decide)).1

example : lagOk 0 (stops exDocs) (outEnds 0 exDocs)
    (detectedRun true 13 2 (sizesOf 1 [12]) exDocs) = true :=
  ((model_trace_lag_ok true 13 1 2 _ exDocs (by decide) (by decide)).2 (by decide)).2.2.2

/-- The slurp trace of the same stream is rejected (here by evaluation; in
general by `lag_rejects_slurp`). -/
example : lagOk 0 (stops exDocs) (outEnds 0 exDocs) (slurpRun [5, 7] exDocs) = false := by decide
example : lagOk 0 (stops exDocs) (outEnds 0 exDocs) (slurpRun [5, 7] exDocs) = false :=
  lag_rejects_slurp [5, 7] _ _ _ [] (by decide) (by decide)

/-- The hypothesis matters: a parser that reads 11 bytes ahead of the first
document (not `DemandDriven 1`) produces a trace the acceptor rejects. -/
example : lagOk 0 (stops exDocs) (outEnds 0 exDocs)
    (eagerRun 12 (sizesOf 1 [12]) [⟨1, 11, 2⟩, ⟨9, 0, 8⟩, ⟨11, 1, 2⟩]) = false := by decide

/-- Three YAML documents of 9 bytes each (`---\na: 1\n`): document k is complete
when 4 bytes of document k+1 have been seen, the last one at the end of the
stream (27 bytes: look-ahead 1 beyond the end). -/
def exYaml : List Doc := [⟨9, 4, 8⟩, ⟨18, 4, 8⟩, ⟨27, 1, 8⟩]

example : DemandDrivenButLast 4 exYaml := by decide
example : Spaced 4 exYaml := by decide

/-- One document per packet (cf. the real trace `r0:9,r9:9,w8,r18:9,w8,r27:0,w8`). -/
example : yamlRun (sizesOf 16384 [9, 9, 9]) exYaml =
    [.rd 0 9, .rd 9 9, .wr 8, .rd 18 9, .wr 8, .rd 27 0, .wr 8] := by decide

example : lagOkAt 1 0 (stops exYaml) (outEnds 0 exYaml) (yamlRun (sizesOf 16384 [9, 9, 9]) exYaml) = true :=
  (yaml_trace_lag_ok 4 _ exYaml (by decide) (by decide)).1

/-- …and it is NOT accepted with lag 0: the YAML path really lags one document. -/
example : lagOkAt 0 0 (stops exYaml) (outEnds 0 exYaml) (yamlRun (sizesOf 16384 [9, 9, 9]) exYaml) = false := by
  decide

example : HeldBound (4 + 8 + 1) 0 [0, 1, 9] (eagerRun 12 (sizesOf 4 [5, 7]) exDocs) :=
  (buffer_bound true 13 4 1 _ exDocs (sizesOf_le 4 [5, 7] (by decide)).1 (by decide)).1

example : coalesce [.rd 0 3, .wr 1, .wr 2, .wr 3, .rd 3 0, .wr 4] = [.rd 0 3, .wr 6, .rd 3 0, .wr 4] := by
  simp [coalesce]

/-! ## K10: YAML in UTF-16 / UTF-32 — the re-encoder is NOT demand driven

`Utf8Encoder::read` (src/yaml/encoding.rs) is the reader libyaml pulls from
when the stream is not UTF-8.  As modelled (`Xt.Encoding.read`, tied to the code
by C07's correspondence), a successful call never returns early: it keeps
pulling characters — and therefore source reads — until the caller's buffer is
full or the source ends.  libyaml hands it a 16 KiB buffer, so for such a
stream the look-ahead is one buffer of text (up to 32 / 64 KiB of source), not
"document k+2": `DemandDrivenButLast` does not hold for it and the property's
sentence fails on the real code for streams of small documents (known finding
K10; the harness still requires the look-ahead to stay within that one
buffer). -/

open Xt.Encoding in
/-- A successful `read` with an `n`-byte buffer returns exactly
`min n (bytes still pending)` bytes: short only at the end of the text. -/
theorem utf_encoder_fills_buffer (st : Xt.Encoding.St) (n : Nat) (out : List Nat) (st' : Xt.Encoding.St)
    (h : Xt.Encoding.read st n = (.ok out, st')) :
    out.length = min n st.pending.length := by
  have h1 := (read_ok st n out st' h).1
  rw [h1, List.length_take]

open Xt.Encoding in
/-- The other side of K10 — what bounds the look-ahead: one `read` with an
`n`-byte buffer takes at most `n` characters from the decoder (each is at most
two UTF-16 units or one UTF-32 unit, i.e. at most 4 source bytes), whatever it
returns.  With libyaml's 16 KiB buffer this is the "one buffer" bound the
harness holds UTF-16 / UTF-32 streams to. -/
theorem utf_encoder_lookahead_bounded (st : Xt.Encoding.St) (n : Nat)
    (r : Except Xt.Encoding.RErr (List Nat)) (st' : Xt.Encoding.St)
    (h : Xt.Encoding.read st n = (r, st')) :
    ∃ k, k ≤ n ∧ st'.items = st.items.drop k :=
  read_consumes st n r st' h

/-- … and in source bytes: the first `k` characters `Utf16Decoder` yields are
determined by the first `2 k` code units, those of `Utf32Decoder` by the first
`k` units — at most `4 k` bytes either way, whatever follows.  Together with
`utf_encoder_lookahead_bounded`: one `read` into libyaml's 16 KiB buffer looks
at most 64 KiB ahead in the source (plus the `BufReader` in front of it). -/
theorem utf16_chars_need_at_most_two_units_each (k : Nat) (us a b : List Nat) (pos : Nat) (ta tb : Bool)
    (h : 2 * k ≤ us.length) :
    (Xt.Encoding.dec16 (us ++ a) pos ta).take k = (Xt.Encoding.dec16 (us ++ b) pos tb).take k :=
  Xt.Encoding.dec16_take_prefix k us a b pos ta tb h

theorem utf32_chars_need_one_unit_each (k : Nat) (us a b : List Nat) (pos : Nat) (ta tb : Bool)
    (h : k ≤ us.length) :
    (Xt.Encoding.dec32 (us ++ a) pos ta).take k = (Xt.Encoding.dec32 (us ++ b) pos tb).take k :=
  Xt.Encoding.dec32_take_prefix k us a b pos ta tb h

open Xt.Encoding in
/-- Non-vacuity, and the finding in one line: three one-byte documents' worth
of characters are all pulled from the source by ONE 3-byte read. -/
example : (Xt.Encoding.read ⟨[.ch 97, .ch 98, .ch 99], []⟩ 3).1 = .ok [97, 98, 99] := by
  simp [Xt.Encoding.read, Xt.Encoding.fill, Xt.Encoding.utf8]

#print axioms lag_ok_spec
#print axioms lag_ok_at_spec
#print axioms model_trace_lag_ok
#print axioms loop_lag_zero
#print axioms loop_lag_one
#print axioms json_msgpack_trace_lag_ok
#print axioms yaml_trace_lag_ok
#print axioms lag_acceptor_monotone
#print axioms lag_rejects_slurp
#print axioms buffer_bound
#print axioms sizesOf_le
#print axioms yaml_buffer_bound
#print axioms coalesced_trace_accepted
#print axioms fast_acceptor_eq
#print axioms Xt.Props.C03.chunker_lag_one
#print axioms Xt.Props.C03.chunker_buffer_bounded
#print axioms Xt.Props.C09.capture_released
#print axioms Xt.Props.C09.toml_trial_capped
#print axioms Xt.Props.C09.detect_reads_first_doc_only
#print axioms utf_encoder_fills_buffer
#print axioms utf_encoder_lookahead_bounded
#print axioms utf16_chars_need_at_most_two_units_each
#print axioms utf32_chars_need_one_unit_each

end Xt.Props.C05
