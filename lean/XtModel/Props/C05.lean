import XtModel.Lemmas.Stream
import XtModel.Props.C03
import XtModel.Props.C09

/-!
# C05 — Streaming translation: bounded lag and bounded memory (PARTIAL)
-/
namespace Xt.Props.C05
open Xt.Stream

#print axioms Xt.Props.C03.chunker_lag_one
#print axioms Xt.Props.C03.chunker_buffer_bounded
#print axioms Xt.Props.C09.capture_released
#print axioms Xt.Props.C09.toml_trial_capped

end Xt.Props.C05
