import XtModel.Props.C09
import XtModel.Props.Json
import XtModel.Props.C18

/-!
# C10 — xt recognises its own output without -f

Composition of the detection decision list (C09's model of `detect.rs` and of
the four `input_matches` classifications) with the concrete JSON writer and
JSON detection trial (the JSON slice).  The MessagePack case is in the C18
file (`own_msgpack_detected`).  YAML's and TOML's own parsers are parameters:
their answers enter as explicit hypotheses and are sampled by the harness.

Obligations: `own_json_detected`, `own_yaml_not_msgpack_not_json`,
`own_yaml_detected`, `own_toml_detected_partial`, `own_toml_excluded_when_json_accepts`
and the reused `Xt.Props.Json.json_own_output_detected`, `…json_dash_not_value`,
`…json_first_byte`, `Xt.Props.C09.msgpack_marker_table`, `…detect_is_first_match`.
-/
namespace Xt.Props.C10
open Xt.Detect Xt.Json

/-- The class of the JSON detection trial on concrete bytes: the Lean model of
`IgnoredAny::deserialize` (`Json.trialReader`) feeding C09's classification. -/
def jsonResOf (bs : List Nat) : JsonRes := if trialReader bs = true then .ok else .other

/-- A JSON value whose root is a map or an array. -/
def isColl : JVal → Bool
  | .arr _ | .obj _ => true
  | _ => false

theorem msgpack_declines (b : Nat) (t : List Nat) (hb : markerTest b = false) (d : MsgpackRes) :
    msgpackMatches (.ok (b :: t)) d = .noMatch := by
  simp [msgpackMatches, hb]

/-- **xt's JSON output is detected as JSON** — for every collection-rooted
first document (any further documents, any nesting depth), from a slice (which
is valid UTF-8, being xt's output) and from a reader, whatever the MessagePack
decoder would say about the bytes and whatever the YAML and TOML trials would
answer: the MessagePack trial declines at the first byte (`[` / `{` are
positive fixints), the JSON trial accepts the first value. -/
theorem own_json_detected (F : ExtFloat) (d : JVal) (ds : List JVal)
    (hroot : isColl d = true) (hwf : ∀ x ∈ d :: ds, wellFormed x = true)
    (r : RefIn) (hr : r ≠ .slice false) (dm : MsgpackRes) (y t : Trial) :
    detectFormat (msgpackMatches (.ok (writeDocs F (d :: ds))) dm)
      (jsonMatches r (jsonResOf (writeDocs F (d :: ds)))) y t = .fmt .json := by
  have hj : trialReader (writeDocs F (d :: ds)) = true :=
    (Xt.Props.Json.json_own_output_detected F d ds hwf).1
  have hm : msgpackMatches (.ok (writeDocs F (d :: ds))) dm = .noMatch := by
    cases d with
    | arr xs =>
      obtain ⟨t', ht⟩ := (Xt.Props.Json.json_first_byte F).1 xs
      simp only [writeDocs, ht, List.cons_append]
      exact msgpack_declines _ _ (by decide) dm
    | obj es =>
      obtain ⟨t', ht⟩ := (Xt.Props.Json.json_first_byte F).2.1 es
      simp only [writeDocs, ht, List.cons_append]
      exact msgpack_declines _ _ (by decide) dm
    | _ => simp [isColl] at hroot
  have hjm : jsonMatches r (jsonResOf (writeDocs F (d :: ds))) = .matched := by
    simp only [jsonResOf, hj, if_true]
    cases r with
    | reader => rfl
    | slice u => cases u <;> simp_all [jsonMatches]
  rw [hm, hjm]
  simp [detectFormat, decideList]

/-- xt's YAML output starts with `---`: the MessagePack trial declines (0x2D is
a positive fixint) and the JSON trial declines (`--` is not a number), for
every continuation, slice or reader. -/
theorem own_yaml_not_msgpack_not_json (rest : List Nat) (r : RefIn) (dm : MsgpackRes) :
    msgpackMatches (.ok (0x2D :: 0x2D :: 0x2D :: 0x0A :: rest)) dm = .noMatch ∧
    jsonMatches r (jsonResOf (0x2D :: 0x2D :: 0x2D :: 0x0A :: rest)) = .noMatch := by
  refine ⟨msgpack_declines _ _ (by decide) dm, ?_⟩
  have h := (Xt.Props.Json.json_dash_not_value 0 (0x2D :: 0x0A :: rest)).2.2.1
  simp only [jsonResOf, h]
  cases r with
  | reader => rfl
  | slice u => cases u <;> rfl

/-- **xt's YAML output is detected as YAML**, given what only libyaml can tell:
the first chunk of the stream is a collection document (hypothesis
`Y.OwnOutputFirstDocIsCollection`, sampled by the harness on every generated
collection-rooted document). -/
theorem own_yaml_detected (rest : List Nat) (r : RefIn) (dm : MsgpackRes) (t : Trial)
    (p : List Nat) :
    detectFormat (msgpackMatches (.ok (0x2D :: 0x2D :: 0x2D :: 0x0A :: rest)) dm)
      (jsonMatches r (jsonResOf (0x2D :: 0x2D :: 0x2D :: 0x0A :: rest)))
      (yamlMatches (.ok p) (.doc true)) t = .fmt .yaml := by
  obtain ⟨h1, h2⟩ := own_yaml_not_msgpack_not_json rest r dm
  rw [h1, h2]
  simp [detectFormat, decideList, yamlMatches]

/-- **TOML output is detected as TOML under the property's own side
conditions** (`_partial` by the property's statement itself): the text's first
byte is not a MessagePack collection marker (TOML text is ASCII-led or
UTF-8-led: stated as a hypothesis on the byte), no earlier trial accepts it —
the JSON trial declines and the first YAML chunk is not a collection document —
and toml's own parser reads its own output back (`T.PrettyParses`). -/
theorem own_toml_detected_partial (b : Nat) (text : List Nat) (hb : markerTest b = false)
    (r : RefIn) (dm : MsgpackRes) (hjson : trialReader (b :: text) = false)
    (p : List Nat) (c : ChunkRes) (hyaml : c = .doc false ∨ c = .none ∨ c = .err true)
    (isReader : Bool) (utf8 parses : List Nat → Bool)
    (hsmall : (b :: text).length < sizeCutoff) (hutf8 : utf8 (b :: text) = true)
    (hparse : parses (b :: text) = true) :
    detectFormat (msgpackMatches (.ok (b :: text)) dm) (jsonMatches r (jsonResOf (b :: text)))
      (yamlMatches (.ok p) c) (tomlMatches isReader (.ok (b :: text)) utf8 parses) = .fmt .toml := by
  have hm := msgpack_declines b text hb dm
  have hj : jsonMatches r (jsonResOf (b :: text)) = .noMatch := by
    simp only [jsonResOf, hjson]
    cases r with
    | reader => rfl
    | slice u => cases u <;> rfl
  have hy : yamlMatches (.ok p) c = .noMatch := by
    rcases hyaml with rfl | rfl | rfl <;> rfl
  have ht : tomlMatches isReader (.ok (b :: text)) utf8 parses = .matched := by
    simp only [tomlMatches]
    have : ¬ (b :: text).length ≥ sizeCutoff := by omega
    cases isReader <;> simp_all
  rw [hm, hj, hy, ht]
  simp [detectFormat, decideList]

/-- The exclusion in the property is real: when the JSON trial accepts the TOML
text's beginning (e.g. `1 = 2`, `"" = 1`, `true = 1`), detection answers JSON,
whatever the later trials say. -/
theorem own_toml_excluded_when_json_accepts (b : Nat) (text : List Nat) (hb : markerTest b = false)
    (r : RefIn) (hr : r ≠ .slice false) (dm : MsgpackRes) (hjson : trialReader (b :: text) = true)
    (y t : Trial) :
    detectFormat (msgpackMatches (.ok (b :: text)) dm) (jsonMatches r (jsonResOf (b :: text))) y t
      = .fmt .json := by
  have hm := msgpack_declines b text hb dm
  have hj : jsonMatches r (jsonResOf (b :: text)) = .matched := by
    simp only [jsonResOf, hjson, if_true]
    cases r with
    | reader => rfl
    | slice u => cases u <;> simp_all [jsonMatches]
  rw [hm, hj]
  simp [detectFormat, decideList]

/-! ## MessagePack -/

/-- Is a marker (in the MessagePack slice's table) an array or map header? -/
def collMarker : Xt.Msgpack.Marker → Bool
  | .fixArray _ | .array16 | .array32 | .fixMap _ | .map16 | .map32 => true
  | _ => false

set_option maxRecDepth 100000 in
/-- The two marker tables (the detection model's `Marker::from_u8` and the size
calculator model's) agree on which bytes start a collection — all 256 bytes. -/
theorem marker_tables_agree :
    ∀ b, b < 256 → markerTest b = collMarker (Xt.Msgpack.Marker.ofByte b) := by
  decide

theorem coll_lt (b : Nat) (h : collMarker (Xt.Msgpack.Marker.ofByte b) = true) : b < 256 := by
  by_cases hb : b < 256
  · exact hb
  · exfalso
    unfold Xt.Msgpack.Marker.ofByte at h
    repeat (rw [if_neg (by omega)] at h)
    simp [collMarker] at h

/-- The class of the MessagePack detection trial on concrete bytes: the Lean
model of rmp_serde's decoder (depth limit 1024) feeding C09's classification. -/
def msgpackResOf (bs : List Nat) : MsgpackRes :=
  match Xt.Msgpack.decode bs Xt.Msgpack.depthLimit with
  | .ok _ => .ok
  | .error _ => .other

/-- A MessagePack value whose root is a map or an array. -/
def isCollM : Xt.Msgpack.MVal → Bool
  | .arr _ | .map _ => true
  | _ => false

/-- **xt's MessagePack output is detected as MessagePack** — for every
well-formed collection-rooted first document nested less than 1024 deep, whatever
follows it (further documents) and whatever the later trials would answer: the
first byte is a collection marker and the decoder reads the first value. -/
theorem own_msgpack_detected (v : Xt.Msgpack.MVal) (rest : List Nat) (hroot : isCollM v = true)
    (hwf : v.WF false) (hn : v.nesting < Xt.Msgpack.depthLimit) (j y t : Trial) :
    detectFormat (msgpackMatches (.ok (Xt.Msgpack.encode v ++ rest))
      (msgpackResOf (Xt.Msgpack.encode v ++ rest))) j y t = .fmt .msgpack := by
  have hdec : Xt.Msgpack.decode (Xt.Msgpack.encode v ++ rest) Xt.Msgpack.depthLimit = .ok (v, rest) :=
    Xt.Props.C18.msgpack_roundtrip false v _ rest hwf hn
  have hres : msgpackResOf (Xt.Msgpack.encode v ++ rest) = .ok := by simp [msgpackResOf, hdec]
  have hfirst : ∃ b t', Xt.Msgpack.encode v = b :: t' ∧ collMarker (Xt.Msgpack.Marker.ofByte b) = true := by
    cases v with
    | arr xs =>
      obtain ⟨b, t', hb, hm⟩ := Xt.Props.C18.own_msgpack_first_byte.1 xs
      exact ⟨b, t', hb, by rcases hm with h | h | h <;> simp [h, collMarker]⟩
    | map kvs =>
      obtain ⟨b, t', hb, hm⟩ := Xt.Props.C18.own_msgpack_first_byte.2 kvs
      exact ⟨b, t', hb, by rcases hm with h | h | h <;> simp [h, collMarker]⟩
    | _ => simp [isCollM] at hroot
  obtain ⟨b, t', hb, hm⟩ := hfirst
  have hmt : markerTest b = true := by rw [marker_tables_agree b (coll_lt b hm)]; exact hm
  rw [hres, hb]
  simp [msgpackMatches, hmt, detectFormat, decideList]

/-! Non-vacuity -/
example := own_json_detected markerFloat (.obj [([0x61], .arr [.int 1])]) [.arr []] rfl
  (by decide) .reader (by decide) .other .noMatch .ioErr
example : trialReader [0x31, 0x20, 0x3D, 0x20, 0x32, 0x0A] = true := by   -- `1 = 2`
  simp [trialReader, ignoreValue, igValue_eq, skipWs, isWs, classify, isDigit, ignoreNumber,
    takeDigits, doneF]

#print axioms own_json_detected
#print axioms own_yaml_not_msgpack_not_json
#print axioms own_yaml_detected
#print axioms own_toml_detected_partial
#print axioms own_toml_excluded_when_json_accepts
#print axioms own_msgpack_detected
#print axioms marker_tables_agree
#print axioms Xt.Props.C18.own_msgpack_first_byte
#print axioms Xt.Props.C18.msgpack_roundtrip
#print axioms Xt.Props.Json.json_own_output_detected
#print axioms Xt.Props.Json.json_dash_not_value
#print axioms Xt.Props.Json.json_first_byte
#print axioms Xt.Props.C09.msgpack_marker_table
#print axioms Xt.Props.C09.detect_is_first_match

end Xt.Props.C10
