import XtModel.Lemmas.CliOk

/-!
# C15 — Output of earlier inputs survives a later failure

About `Xt.Cli.mainLoop` / `Xt.Cli.run`: xt's `BufWriter` (8 KiB; `process::exit`
does not flush it; `translator.flush()` after every input empties it) between
the library and standard output.

The failure kinds of the property (missing file, syntax error, undetectable
format, refused value, second TOML document, second use of standard input) are
failures of *inputs*; the descriptor is one that accepts every write
(`GoodFd`: a pipe with a reader that keeps reading, a file) — write failures
are C16.  `hflush : w.perInputFlush = true` selects the real `main`;
`no_flush_counterexample` is about the variant without the per-input flush.

Obligations: `earlier_outputs_survive`, `earlier_outputs_survive_run`, `success_all_written`, `success_all_written_any_fd`,
`no_finished_input_in_buffer`, `no_flush_counterexample`.
-/
namespace Xt.Props.C15
open Xt.Cli

/-- **Earlier outputs survive.**  For every list of inputs: when the run ends
with status 1 there is a failing position — `paths = pre ++ p :: post`, the loop
passes all of `pre` (one completed library call per input of `pre`, in order)
and stops at `p` — and the bytes that reached standard output are exactly the
concatenated library outputs of the calls for `pre`, followed by `q`, where
`q` is empty (the failing input made no library call: it could not be opened,
or it is a second use of standard input) or a prefix of what the library wrote
for `p` before it failed. -/
theorem earlier_outputs_survive (w : World) (hgood : GoodFd w.fd) (hflush : w.perInputFlush = true)
    (cf : Option Fmt) (to : Fmt) (paths : List InputPath)
    (h1 : (mainLoop w cf to paths LoopSt.init).exit = .code 1) :
    ∃ pre p post s' q, paths = pre ++ p :: post ∧
      foldSteps w cf to pre LoopSt.init = some s' ∧ s'.calls.map (·.1) = pre ∧
      (mainLoop w cf to paths LoopSt.init).stdout = libOutput w s'.calls ++ q ∧
      (q = [] ∨ ∃ input, p.open w.fs = .ok input ∧
        q <+: callBytes w (s'.calls.map (·.2)) (callOf w cf to p input)) := by
  rcases mainLoop_good w hgood hflush cf to paths with ⟨e1, _⟩ |
    ⟨_, pre, p, post, s', hp, hf, _, _, hc, (⟨_, c2⟩ | ⟨input, q, ho, _, c2, c3⟩)⟩
  · rw [e1] at h1; simp at h1
  · exact ⟨pre, p, post, s', [], hp, hf, hc, by simpa using c2, .inl rfl⟩
  · exact ⟨pre, p, post, s', q, hp, hf, hc, c2, .inr ⟨input, ho, c3⟩⟩

/-- The same for a whole run of the program: failing position, failure kind
and inputs are whatever `argv`, the file system and the library make them. -/
theorem earlier_outputs_survive_run (w : World) (hgood : GoodFd w.fd) (hflush : w.perInputFlush = true)
    (args : List Str) (paths : List Str) (cf : Option Fmt) (to : Fmt)
    (hp : parseArgs args = .ok paths cf to) (hg : ¬ (w.isTty = true ∧ unsafeForTerminal to = true))
    (h1 : (run w args).exit = .code 1) :
    ∃ pre p post s' q, inputPaths paths = pre ++ p :: post ∧
      foldSteps w cf to pre LoopSt.init = some s' ∧ s'.calls.map (·.1) = pre ∧
      (run w args).stdout = libOutput w s'.calls ++ q ∧
      (q = [] ∨ ∃ input, p.open w.fs = .ok input ∧
        q <+: callBytes w (s'.calls.map (·.2)) (callOf w cf to p input)) := by
  have hr : run w args = mainLoop w cf to (inputPaths paths) LoopSt.init := by
    simp only [run, hp, hg, if_false]
  rw [hr] at h1 ⊢
  exact earlier_outputs_survive w hgood hflush cf to (inputPaths paths) h1

/-- **At a successful exit every byte has been written**: one library call per
input, standard output is exactly their concatenated output, and nothing is
left in xt's buffer. -/
theorem success_all_written (w : World) (hgood : GoodFd w.fd) (hflush : w.perInputFlush = true)
    (cf : Option Fmt) (to : Fmt) (paths : List InputPath)
    (h0 : (mainLoop w cf to paths LoopSt.init).exit = .code 0) :
    (mainLoop w cf to paths LoopSt.init).stdout = libOutput w (mainLoop w cf to paths LoopSt.init).calls ∧
    (mainLoop w cf to paths LoopSt.init).calls.map (·.1) = paths ∧
    (mainLoop w cf to paths LoopSt.init).out.buf = [] := by
  rcases mainLoop_good w hgood hflush cf to paths with ⟨_, e2, e3, e4⟩ | ⟨e1, _⟩
  · exact ⟨e3, e4, e2⟩
  · rw [e1] at h0; simp at h0

/-- The same **for every behaviour of the descriptor** (short writes, partial
acceptance, …): a run of the real `main` that ends with status 0 has written
every byte of every input's output. -/
theorem success_all_written_any_fd (w : World) (hflush : w.perInputFlush = true)
    (cf : Option Fmt) (to : Fmt) (paths : List InputPath)
    (h0 : (mainLoop w cf to paths LoopSt.init).exit = .code 0) :
    (mainLoop w cf to paths LoopSt.init).stdout = libOutput w (mainLoop w cf to paths LoopSt.init).calls ∧
    (mainLoop w cf to paths LoopSt.init).calls.map (·.1) = paths ∧
    (mainLoop w cf to paths LoopSt.init).out.buf = [] := by
  obtain ⟨a, b, c⟩ := mainLoop_exit0_any w hflush cf to paths h0
  exact ⟨a, c, b⟩

/-- **Loop invariant, for every descriptor behaviour**: after each iteration
that passes, xt's `BufWriter` is empty — no output of a finished input is ever
held in the buffer. -/
theorem no_finished_input_in_buffer (w : World) (hflush : w.perInputFlush = true) (cf : Option Fmt) (to : Fmt)
    (pre : List InputPath) (s' : LoopSt) (h : foldSteps w cf to pre LoopSt.init = some s') :
    s'.out.buf = [] := by
  refine foldSteps_invariant (fun s => s.out.buf = []) ?_ rfl h
  intro s p s1 _ hs
  rcases step_cases w cf to s p with ⟨msg, _, e⟩ | ⟨_, _, e⟩ | ⟨i, o1, _, e⟩ | ⟨i, o1, msg, _, e⟩ |
    ⟨i, o1, _, hnf, e⟩ | ⟨i, o1, o2, _, _, _, e⟩ | ⟨i, o1, o2, er, _, _, _, e⟩ | ⟨i, o1, o2, _, _, hfl, e⟩
  all_goals rw [e] at hs
  all_goals try (simp at hs; done)
  · rw [hflush] at hnf; simp at hnf
  · injection hs with hs; subst hs; exact writerFlush_ok_buf hfl

/-! ## Without the per-input flush (xt before v0.12.2) -/

/-- Two inputs: `a` exists, `b` does not; the library writes three bytes for `a`. -/
def cexWorld (flush : Bool) : World :=
  { argv0 := "xt".toList, version := "xt 0".toList,
    fs := fun p => if p = ['a'] then .regular [1] else .missing,
    stdin := [], isTty := false, fd := fun _ _ => .all,
    lib := { run := fun _ _ => { events := [.writeAll [91, 49, 93]], result := none },
             onWriteErr := fun _ _ _ e => e.display },
    perInputFlush := flush }

/-- **The per-input flush is what makes C15 hold**: in the variant of `main`
without it, `xt a b` (with `b` missing) ends with status 1 and *nothing* on
standard output — the complete translation of `a` is still in the `BufWriter`
when `process::exit` runs — … -/
theorem no_flush_counterexample :
    (mainLoop (cexWorld false) none .json [.file ['a'], .file ['b']] LoopSt.init).exit = .code 1 ∧
    (mainLoop (cexWorld false) none .json [.file ['a'], .file ['b']] LoopSt.init).stdout = [] ∧
    (mainLoop (cexWorld false) none .json [.file ['a'], .file ['b']] LoopSt.init).out.buf = [91, 49, 93] := by
  decide

/-- … while the real `main` on the same inputs has written all of it. -/
theorem with_flush_on_the_counterexample :
    (mainLoop (cexWorld true) none .json [.file ['a'], .file ['b']] LoopSt.init).exit = .code 1 ∧
    (mainLoop (cexWorld true) none .json [.file ['a'], .file ['b']] LoopSt.init).stdout = [91, 49, 93] := by
  have hgood : GoodFd (cexWorld true).fd := fun _ _ => rfl
  have hstep : ∃ s1, step (cexWorld true) none .json LoopSt.init (.file ['a']) = .next s1 ∧
      s1.calls = [(.file ['a'], callOf (cexWorld true) none .json (.file ['a']) (.mmap [1]))] := by
    rcases step_cases (cexWorld true) none .json LoopSt.init (.file ['a']) with ⟨msg, h, _⟩ | ⟨h, _⟩ |
      ⟨i, o1, hT, _⟩ | ⟨i, o1, msg, hT, _⟩ | ⟨i, o1, _, hnf, _⟩ | ⟨i, o1, o2, _, _, hfl, _⟩ |
      ⟨i, o1, o2, er, _, _, hfl, _⟩ | ⟨i, o1, o2, hT, _, _, e⟩
    · simp [InputPath.open, cexWorld] at h
    · simp [InputPath.open, cexWorld] at h
    · obtain ⟨_, _, ht⟩ := hT
      have := (translateCall_good hgood [] (callOf (cexWorld true) none .json (.file ['a']) i) Out.init).1
      simp only [LoopSt.init, List.map_nil] at ht
      rw [ht] at this; simp [cexWorld] at this
    · obtain ⟨_, _, ht⟩ := hT
      have := (translateCall_good hgood [] (callOf (cexWorld true) none .json (.file ['a']) i) Out.init).1
      simp only [LoopSt.init, List.map_nil] at ht
      rw [ht] at this; simp [cexWorld] at this
    · simp [cexWorld] at hnf
    · obtain ⟨_, hw, _⟩ := writerFlush_good hgood o1; rw [hfl] at hw; simp at hw
    · obtain ⟨_, hw, _⟩ := writerFlush_good hgood o1; rw [hfl] at hw; simp at hw
    · refine ⟨_, e, ?_⟩
      have ho : i = .mmap [1] := by
        have := hT.1; simp [InputPath.open, cexWorld] at this; exact this.symm
      subst ho; rfl
  obtain ⟨s1, hs1, hc1⟩ := hstep
  have hfold : foldSteps (cexWorld true) none .json [.file ['a']] LoopSt.init = some s1 := by
    simp [foldSteps, hs1]
  have hI := foldSteps_good hgood rfl (flushedInv_init _) hfold
  have hstop : step (cexWorld true) none .json s1 (.file ['b']) =
      .stop (exitWith 1 (bailPathLine (.file ['b']) noSuchFile) s1.calls s1.out) :=
    step_of_open_error (by simp [InputPath.open, cexWorld])
  have hr := mainLoop_of_stop (post := []) hfold hstop
  simp only [List.singleton_append] at hr
  rw [hr]
  refine ⟨rfl, ?_⟩
  show s1.out.fd.accepted = [91, 49, 93]
  rw [hI.2, hc1]
  simp [libOutput, outputsFrom, callBytes, eventsBytes, cexWorld, WEvent.bytes]

/-! ## Non-vacuity -/

/-- The hypotheses of `earlier_outputs_survive` are met by the run above (good
descriptor, flush, status 1), and its conclusion is the non-trivial one:
`pre = [a]`, `q = []`, three bytes on standard output. -/
example : ∃ pre p post s' q, [InputPath.file ['a'], .file ['b']] = pre ++ p :: post ∧
    foldSteps (cexWorld true) none .json pre LoopSt.init = some s' ∧ s'.calls.map (·.1) = pre ∧
    (mainLoop (cexWorld true) none .json [.file ['a'], .file ['b']] LoopSt.init).stdout =
      libOutput (cexWorld true) s'.calls ++ q ∧
    (q = [] ∨ ∃ input, p.open (cexWorld true).fs = .ok input ∧
      q <+: callBytes (cexWorld true) (s'.calls.map (·.2)) (callOf (cexWorld true) none .json p input)) :=
  earlier_outputs_survive (cexWorld true) (fun _ _ => rfl) rfl none .json _ with_flush_on_the_counterexample.1

#print axioms earlier_outputs_survive
#print axioms earlier_outputs_survive_run
#print axioms success_all_written
#print axioms success_all_written_any_fd
#print axioms no_finished_input_in_buffer
#print axioms no_flush_counterexample
#print axioms with_flush_on_the_counterexample

end Xt.Props.C15
