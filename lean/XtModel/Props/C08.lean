import XtModel.Lemmas.Output

/-!
# C08 — TOML output is nothing or exactly one valid document

Theorems about the TOML `Output` state machine of `src/toml.rs` (`used`,
`ensure_one_use` before deserialising, root check, one `write_all`) under
`Translator`, for an arbitrary behaviour `Env` of the `toml` crate on single
documents (`build` = `toml::Value::deserialize` / `try_from`, `isTable`,
`pretty` = `to_string_pretty`).  That `pretty` of a table is one valid TOML
document reading back as the input value is the crate's part (hypotheses
`T.PrettyIsValid`, `T.RoundTripUpToReorder`, sampled by the harness).

Obligations: `toml_at_most_one`, `toml_refuse_writes_nothing`,
`toml_second_input_refused`, `toml_used_is_sticky`, `ensure_before_parse`.
-/
namespace Xt.Props.C08
open Xt.Output

variable {D E V : Type}

/-- For EVERY behaviour of the crate and EVERY sequence of calls (each with any
number of documents, with or without a source failure, continuing after failed
calls): what the writer is offered is nothing, or exactly the pretty form of
the FIRST document ever handed to the output — and only if that document is
accepted —, offered as one single `write_all`; the concatenated bytes are that
one piece. -/
theorem toml_at_most_one (env : Env D E V) (inputs : List (Input D E)) :
    (calls env .toml Out.empty inputs).1.pieces =
      (match (inputs.flatMap (·.docs)).head? with
       | none => []
       | some d => optList (accepted env d)) ∧
    (calls env .toml Out.empty inputs).1.sink = (calls env .toml Out.empty inputs).1.pieces.flatten ∧
    (calls env .toml Out.empty inputs).1.pieces.length ≤ 1 := by
  rw [calls_toml_unused env inputs Out.empty rfl]
  cases h : (inputs.flatMap (·.docs)).head? with
  | none => simp [Out.empty]
  | some d =>
    simp only
    rw [(emitDoc_toml_unused env Out.empty d rfl).1]
    simp only [Out.empty, List.nil_append, true_and]
    cases accepted env d <;> simp [optList]

/-- Each refusal is an error and offers no byte, and leaves no piece, for the
refused document — whatever was written before stays as it was:
(1) a root that is not a table, (2) a value the builder rejects (null, an
integer outside i64, a non-string key, binary, … — whatever `build` refuses),
(3) a pretty-printer failure, (4) any document once the output has been used
(a second document of the same input, or any document of a later input). -/
theorem toml_refuse_writes_nothing (env : Env D E V) (o : Out D) (d : D) :
    -- whenever the call for the document fails, nothing was offered for it
    ((emitDoc env .toml o d).2 ≠ .ok () →
      (emitDoc env .toml o d).1.sink = o.sink ∧ (emitDoc env .toml o d).1.pieces = o.pieces) ∧
    -- and the listed refusals do fail, with these errors
    (o.used = false → ∀ v, env.build d = .ok v → env.isTable v = false →
      (emitDoc env .toml o d).2 = .error .nonTableRoot) ∧
    (o.used = false → ∀ e, env.build d = .error e →
      (emitDoc env .toml o d).2 = .error (.other e)) ∧
    (o.used = false → ∀ v e, env.build d = .ok v → env.isTable v = true → env.pretty v = .error e →
      (emitDoc env .toml o d).2 = .error (.other e)) ∧
    (o.used = true → (emitDoc env .toml o d).2 = .error .multiDocument) := by
  refine ⟨?_, ?_, ?_, ?_, ?_⟩
  · intro hne
    by_cases hu : o.used = true
    · rw [emitDoc_toml_used env o d hu]; exact ⟨rfl, rfl⟩
    · have hu' : o.used = false := by simpa using hu
      obtain ⟨h1, h2⟩ := emitDoc_toml_unused env o d hu'
      have hnone : accepted env d = none := by
        cases ha : accepted env d with
        | none => rfl
        | some bs => exact absurd (h2.mpr (by simp [ha])) hne
      rw [h1, hnone]
      simp [optList]
  · intro hu v hb ht; simp [emitDoc, hu, hb, ht]
  · intro hu e hb; simp [emitDoc, hu, hb]
  · intro hu v e hb ht hp; simp [emitDoc, hu, hb, ht, hp]
  · intro hu; rw [emitDoc_toml_used env o d hu]

/-- A second input: once the output has been used, every later call that has a
document fails with the multi-document error and changes nothing; and a
second document inside one call does the same. -/
theorem toml_second_input_refused (env : Env D E V) (o : Out D) (i : Input D E) (hu : o.used = true) :
    (call env .toml o i).1 = o ∧
    (i.docs ≠ [] → (call env .toml o i).2 = .error .multiDocument) :=
  call_toml_used env o i hu

theorem toml_second_document_refused (env : Env D E V) (d₁ d₂ : D) (ds : List D) (f : Option E)
    (h : (accepted env d₁).isSome = true) :
    (call env .toml Out.empty ⟨d₁ :: d₂ :: ds, f⟩).2 = .error .multiDocument ∧
    (call env .toml Out.empty ⟨d₁ :: d₂ :: ds, f⟩).1.pieces = optList (accepted env d₁) := by
  obtain ⟨h1, h2⟩ := emitDoc_toml_unused env Out.empty d₁ rfl
  have hok := h2.mpr h
  have hused : (emitDoc env .toml Out.empty d₁).1.used = true := by rw [h1]
  refine ⟨?_, ?_⟩
  · unfold call
    simp only [feedDocs]
    cases he : emitDoc env .toml Out.empty d₁ with
    | mk o1 r =>
      rw [he] at hok hused
      simp only at hok hused
      subst hok
      simp [emitDoc_toml_used env o1 d₂ hused]
  · rw [call_toml_first env Out.empty d₁ (d₂ :: ds) f rfl, h1]
    simp [Out.empty]

/-- `used` is sticky: any document handed to the output sets it — accepted or
refused —, and no sequence of calls ever clears it. -/
theorem toml_used_is_sticky (env : Env D E V) :
    (∀ (o : Out D) (d : D), (emitDoc env .toml o d).1.used = true) ∧
    (∀ (o : Out D) (inputs : List (Input D E)), o.used = true →
      (calls env .toml o inputs).1.used = true) := by
  refine ⟨?_, ?_⟩
  · intro o d
    by_cases hu : o.used = true
    · rw [emitDoc_toml_used env o d hu]; exact hu
    · have hu' : o.used = false := by simpa using hu
      rw [(emitDoc_toml_unused env o d hu').1]
  · intro o inputs hu
    rw [calls_toml_used env inputs o hu]; exact hu

/-- `ensure_one_use` runs before the document is deserialised: a document
refused because the output was already used is never handed to
`toml::Value`'s deserializer; over any sequence of calls at most one document —
the first — ever is. -/
theorem ensure_before_parse (env : Env D E V) :
    (∀ (o : Out D) (d : D), o.used = true → (emitDoc env .toml o d).1.built = o.built) ∧
    (∀ (inputs : List (Input D E)),
      (calls env .toml Out.empty inputs).1.built = optList (inputs.flatMap (·.docs)).head?) := by
  refine ⟨?_, ?_⟩
  · intro o d hu
    rw [emitDoc_toml_used env o d hu]
  · intro inputs
    rw [calls_toml_unused env inputs Out.empty rfl]
    cases h : (inputs.flatMap (·.docs)).head? with
    | none => simp [Out.empty, optList]
    | some d =>
      simp only
      rw [(emitDoc_toml_unused env Out.empty d rfl).1]
      simp [Out.empty, optList]

/-! ### Non-vacuity: documents are numbers; 1, 2 build tables that print as
`[0x61, n]`; 3 builds a non-table; 4 is rejected by the builder. -/

def exEnv : Env Nat Nat Nat where
  body := fun _ _ => ([], none)
  build := fun d => if d = 4 then .error 40 else .ok d
  isTable := fun v => v ≤ 2
  pretty := fun v => .ok [0x61, v]

example : (calls exEnv .toml Out.empty [⟨[], some 9⟩, ⟨[1, 2], none⟩, ⟨[2], none⟩]).1.pieces = [[0x61, 1]] := by
  rw [(toml_at_most_one exEnv _).1]; decide

example : (calls exEnv .toml Out.empty [⟨[3], none⟩, ⟨[1], none⟩]).1.sink = [] ∧
    (calls exEnv .toml Out.empty [⟨[3], none⟩, ⟨[1], none⟩]).2 = [.error .nonTableRoot, .error .multiDocument] :=
  ⟨by decide, rfl⟩

example : (calls exEnv .toml Out.empty [⟨[4], none⟩]).2 = [.error (.other 40)] := rfl

example : (call exEnv .toml Out.empty ⟨[1, 4], none⟩).2 = .error .multiDocument ∧
    (call exEnv .toml Out.empty ⟨[1, 4], none⟩).1.built = [1] := ⟨rfl, by decide⟩

#print axioms toml_at_most_one
#print axioms toml_refuse_writes_nothing
#print axioms toml_second_input_refused
#print axioms toml_second_document_refused
#print axioms toml_used_is_sticky
#print axioms ensure_before_parse

end Xt.Props.C08
