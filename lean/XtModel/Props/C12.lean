import XtModel.Lemmas.Faults
import XtModel.Props.C09
import XtModel.Props.C03

/-!
# C12 — I/O faults and partial I/O are handled faithfully by the library

Obligations proved here (about `std::io::Write::write_all` over the writers the
property quantifies over, model `Xt.Faults`):

* `writer_fault_prefix` — whatever sequence of `write_all` calls a serializer
  makes, a writer that fails persistently after accepting `k` bytes (also one
  that additionally accepts only short pieces) has accepted exactly the first
  `k` bytes of the fault-free output when the failure is reported; the result
  is an error iff the fault-free output is longer than `k`, and that error is
  the writer's own; never `WriteZero`.
* `short_writes_exact` — a writer that accepts arbitrary short pieces and never
  fails receives exactly the fault-free output, and the result is success.

Reused (absolute names in `props/C12.py`): the input handle never loses a
captured byte on a failed read, reports only the source's own error and meets a
persistent fault again (`Xt.Props.C09.capture_error_keeps_bytes`,
`…fault_met_again`, `…capture_transparent`); a translator stops at the first
failure with exactly the earlier documents written
(`Xt.Props.C03.translator_concat`).

NOT theorems (named hypotheses, sampled at every fault offset by the harness):
each crate propagates a reader's error (serde_json `is_io`, rmp
`Invalid*Read`, libyaml's read-handler stash) and returns a writer's error.
-/
namespace Xt.Props.C12
open Xt.Faults

/-- The fault-free output of a run: the concatenation of the `write_all` calls. -/
def output (calls : List (List Nat)) : List Nat := calls.flatten

/-- **A writer failing from byte `k` on has accepted exactly `take k` of the
fault-free output**, for every sequence of `write_all` calls and every
short-write pattern; the run fails iff the output is longer than `k`, with the
writer's own error. -/
theorem writer_fault_prefix (k : Nat) (pieces : List Nat) (calls : List (List Nat)) :
    (writeAlls ⟨[], some k, pieces⟩ calls).2.accepted = (output calls).take k ∧
    ((writeAlls ⟨[], some k, pieces⟩ calls).1 = .ok () ↔ (output calls).length ≤ k) ∧
    ((writeAlls ⟨[], some k, pieces⟩ calls).1 ≠ .ok () →
      (writeAlls ⟨[], some k, pieces⟩ calls).1 = .error .fault) := by
  have h := writeAlls_limited ⟨[], some k, pieces⟩ k rfl (by simp) calls
  simpa [output] using h

/-- In particular the accepted bytes are a prefix of the fault-free output and
a run whose output exceeds `k` never reports success. -/
theorem writer_fault_never_success (k : Nat) (pieces : List Nat) (calls : List (List Nat))
    (hlong : k < (output calls).length) :
    (writeAlls ⟨[], some k, pieces⟩ calls).1 = .error .fault ∧
    (writeAlls ⟨[], some k, pieces⟩ calls).2.accepted <+: output calls := by
  obtain ⟨h1, h2, h3⟩ := writer_fault_prefix k pieces calls
  refine ⟨h3 (fun hok => ?_), by rw [h1]; exact List.take_prefix _ _⟩
  have := h2.mp hok
  omega

/-- **A writer that accepts only short pieces receives exactly the fault-free
output**, and the run succeeds. -/
theorem short_writes_exact (pieces : List Nat) (calls : List (List Nat)) :
    (writeAlls ⟨[], none, pieces⟩ calls).1 = .ok () ∧
    (writeAlls ⟨[], none, pieces⟩ calls).2.accepted = output calls := by
  have h := writeAlls_unlimited ⟨[], none, pieces⟩ rfl calls
  simpa [output] using h

/-! Non-vacuity: `{"a":1}\n` written as serde_json does (pieces), failing after 4 bytes,
accepting 1, 2, 3, … bytes per call. -/
example : (writeAlls ⟨[], some 4, [1, 2, 3]⟩ [[0x7B], [0x22], [0x61], [0x22], [0x3A], [0x31], [0x7D], [0x0A]]).2.accepted
    = [0x7B, 0x22, 0x61, 0x22] :=
  (writer_fault_prefix 4 [1, 2, 3] _).1

#print axioms writer_fault_prefix
#print axioms writer_fault_never_success
#print axioms short_writes_exact
#print axioms Xt.Props.C09.capture_error_keeps_bytes
#print axioms Xt.Props.C09.fault_met_again
#print axioms Xt.Props.C09.capture_transparent
#print axioms Xt.Props.C03.translator_concat

end Xt.Props.C12
