import XtModel.Lemmas.CliRun
import XtModel.Lemmas.CliPath

/-!
# C14 — CLI source-format resolution and agreement with the library

About `Xt.Cli.run`: which library call `main` makes for each input
(`Call`: the data handed over — `slice` for a memory-mapped regular file,
`reader` for a FIFO or standard input —, the source format passed, the target),
and what reaches standard output.

Obligations: `from_resolution`, `extension_table`, `extension_of_simple_names`, `stdin_at_most_once`,
`second_stdin_refused`, `stdin_spellings`, `cli_eq_library`.
-/
namespace Xt.Props.C14
open Xt.Cli

/-- What `main` hands to the library for an input that opens: the mapped bytes
of a regular file as a slice; a FIFO, standard input or a directory as a reader. -/
def dataFor (w : World) : InputPath → Option Data
  | .stdin => some (.reader w.stdin)
  | .file path =>
    match w.fs path with
    | .regular b => some (.slice b)
    | .fifo b => some (.reader b)
    | .directory => some .dirReader
    | _ => none

theorem callOk_spec {w : World} {cf : Option Fmt} {to : Fmt} {pc : InputPath × Call} (h : CallOk w cf to pc) :
    pc.2.from = resolveFrom cf pc.1 ∧ pc.2.to = to ∧ dataFor w pc.1 = some pc.2.data := by
  obtain ⟨input, ho, hc⟩ := h
  rw [hc]
  refine ⟨rfl, rfl, ?_⟩
  cases hp : pc.1 with
  | stdin => rw [hp] at ho; simp [InputPath.open] at ho; subst ho; simp [dataFor, callOf, Input.data]
  | file path =>
    rw [hp] at ho
    simp only [InputPath.open] at ho
    simp only [dataFor, callOf]
    split at ho <;> simp at ho <;> subst ho <;> simp_all [Input.data]

/-- **Source-format resolution, per input**: every library call of every run
passes, as the source format, the `-f` option when there is one (whatever the
extension says); otherwise the format of the file's extension; otherwise
nothing — the library detects the format from the content.  Standard input
has no extension.  The target is the `-t` option (default JSON) for every call. -/
theorem from_resolution (w : World) (args : List Str) (paths : List Str) (cf : Option Fmt) (to : Fmt)
    (hp : parseArgs args = .ok paths cf to) :
    ∀ pc ∈ (run w args).calls,
      pc.2.to = to ∧
      (∀ f, cf = some f → pc.2.from = some f) ∧
      (cf = none → pc.2.from = pc.1.extensionFormat) ∧
      (cf = none → pc.1 = .stdin → pc.2.from = none) := by
  intro pc hpc
  have hcall : CallOk w cf to pc := by
    simp only [run, hp] at hpc
    split at hpc
    · simp [exitWith] at hpc
    · exact (mainLoop_callsInv w cf to (inputPaths paths)).1 pc hpc
  obtain ⟨h1, h2, _⟩ := callOk_spec hcall
  refine ⟨h2, ?_, ?_, ?_⟩
  · intro f hf; rw [h1, hf]; rfl
  · intro hn; rw [h1, hn]; rfl
  · intro hn hs; rw [h1, hn, hs]; rfl

/-- **The extension table**, for every path string: the resolved format is `f`
exactly when the path has a file name `stem.ext` with a non-empty stem, no
further `.` in `ext`, and `ext` — compared after ASCII lower-casing — is one of
the five spellings of `f`.  Every other string (no file name, no `.`, only a
leading `.`, an empty or unknown last extension, `..`) resolves to nothing. -/
theorem extension_table (path : Str) (f : Fmt) :
    (InputPath.file path).extensionFormat = some f ↔
      ∃ name stem ext, fileName path = some name ∧ name = stem ++ '.' :: ext ∧ stem ≠ [] ∧ '.' ∉ ext ∧
        (ext.map asciiLower, f) ∈ extSpellings := by
  simp only [InputPath.extensionFormat]
  cases he : extension path with
  | none =>
    constructor
    · intro h; simp at h
    · rintro ⟨name, stem, ext, h1, h2, h3, h4, _⟩
      have := (extension_iff path ext).2 ⟨name, stem, h1, h2, h3, h4⟩
      rw [he] at this; simp at this
  | some e =>
    obtain ⟨name, stem, h1, h2, h3, h4⟩ := (extension_iff path e).1 he
    simp only [extTable_iff]
    constructor
    · intro h; exact ⟨name, stem, e, h1, h2, h3, h4, h⟩
    · rintro ⟨name', stem', ext', g1, g2, g3, g4, g5⟩
      have := (extension_iff path ext').2 ⟨name', stem', g1, g2, g3, g4⟩
      rw [he] at this; injection this with this; subst this; exact g5

/-- The table on the names one actually types: a bare `stem.ext`, or
`dir/stem.ext`, whose `ext` is a spelling of `f` in any mix of letter cases,
resolves to `f` — whatever other dots the stem contains (last extension). -/
theorem extension_of_simple_names (dir stem ext : Str) (f : Fmt) (h1 : stem ≠ []) (h2 : '/' ∉ stem)
    (h3 : '.' ∉ ext) (h4 : '/' ∉ ext) (h5 : (ext.map asciiLower, f) ∈ extSpellings) :
    (InputPath.file (stem ++ '.' :: ext)).extensionFormat = some f ∧
    (InputPath.file (dir ++ '/' :: (stem ++ '.' :: ext))).extensionFormat = some f := by
  have hplain : PlainName (stem ++ '.' :: ext) := by
    refine ⟨?_, by simp, ?_, ?_⟩
    · simp [h2, h4]
    · intro h
      cases stem with
      | nil => exact h1 rfl
      | cons x st => cases st <;> simp at h
    · intro h
      cases stem with
      | nil => exact h1 rfl
      | cons x st =>
        cases st with
        | nil => simp at h; rw [h.2] at h5; simp [extSpellings] at h5
        | cons y st' => cases st' <;> simp at h
  exact ⟨(extension_table _ f).2 ⟨_, stem, ext, fileName_plain _ hplain, rfl, h1, h3, h5⟩,
    (extension_table _ f).2 ⟨_, stem, ext, fileName_dir dir _ hplain, rfl, h1, h3, h5⟩⟩

/-- **Standard input at most once**: in every run, at most one library call reads standard input. -/
theorem stdin_at_most_once (w : World) (args : List Str) :
    ((run w args).calls.filter (fun pc => pc.1 = .stdin)).length ≤ 1 := by
  unfold run
  cases hp : parseArgs args with
  | ok paths cf to =>
    simp only
    split
    · simp [exitWith]
    · exact (mainLoop_callsInv w cf to (inputPaths paths)).2
  | _ => simp [exitWith, printAndExit0]

/-- **A second use of standard input is refused** — after the outputs of the
earlier inputs were flushed: when the loop has passed `pre`, which contains
standard input, and the next input is standard input again, the run ends with
status 1 and the message `xt error: cannot read from standard input more than
once`, no further library call is made, and (descriptor accepting everything)
standard output holds the complete library output for `pre`. -/
theorem second_stdin_refused (w : World) (hgood : GoodFd w.fd) (hflush : w.perInputFlush = true)
    (cf : Option Fmt) (to : Fmt) (pre post : List InputPath) (s' : LoopSt)
    (hpre : foldSteps w cf to pre LoopSt.init = some s') (hin : InputPath.stdin ∈ pre) :
    (mainLoop w cf to (pre ++ .stdin :: post) LoopSt.init).exit = .code 1 ∧
    (mainLoop w cf to (pre ++ .stdin :: post) LoopSt.init).stderr =
      "xt error: cannot read from standard input more than once\n".toList ∧
    (mainLoop w cf to (pre ++ .stdin :: post) LoopSt.init).calls = s'.calls ∧
    (mainLoop w cf to (pre ++ .stdin :: post) LoopSt.init).stdout = libOutput w s'.calls := by
  have hI := foldSteps_callsInv (callsInv_init w cf to) hpre
  have hc := foldSteps_calls hpre
  have hused : s'.stdinUsed = true := by
    cases hu : s'.stdinUsed with
    | true => rfl
    | false =>
      have := hI.2.2.1 hu
      have hmem : InputPath.stdin ∈ s'.calls.map (·.1) := by rw [hc]; simp [LoopSt.init, hin]
      obtain ⟨pc, hpc, hpc1⟩ := List.mem_map.1 hmem
      have hmem2 : pc ∈ s'.calls.filter (fun pc => pc.1 = .stdin) := by simp [hpc, hpc1]
      rw [this] at hmem2; simp at hmem2
  have hstop := step_of_stdin_twice (w := w) (cf := cf) (to := to) (s := s') (path := .stdin) rfl hused
  rw [mainLoop_of_stop hpre hstop]
  have hF := foldSteps_good hgood hflush (flushedInv_init w) hpre
  refine ⟨rfl, ?_, rfl, ?_⟩
  · show bailLine stdinTwice = _; decide
  · simp [exitWith, Run.stdout, hF.2]

/-- Which operands are standard input: a lone dash, and — because `Path`
equality compares components — a dash followed by a slash, or by a slash and a
dot, …; not dot-slash-dash.  No operand at all means standard input. -/
theorem stdin_spellings :
    InputPath.ofArg ['-'] = .stdin ∧ InputPath.ofArg ['-', '/'] = .stdin ∧
    InputPath.ofArg ['-', '/', '.'] = .stdin ∧ InputPath.ofArg ['.', '/', '-'] = .file ['.', '/', '-'] ∧
    inputPaths [] = [.stdin] := by decide

/-- **The CLI agrees with the library** (descriptor accepting everything): at
status 0 there is exactly one library call per input, in order; each is handed
the file's bytes as a slice when the file is regular and as a reader when it is
a FIFO or standard input, with the resolved source format; and standard output
is exactly the concatenation of what the library wrote for these calls. -/
theorem cli_eq_library (w : World) (hgood : GoodFd w.fd) (hflush : w.perInputFlush = true)
    (args : List Str) (paths : List Str) (cf : Option Fmt) (to : Fmt)
    (hp : parseArgs args = .ok paths cf to) (h0 : (run w args).exit = .code 0) :
    (run w args).calls.map (·.1) = inputPaths paths ∧
    (∀ pc ∈ (run w args).calls,
        dataFor w pc.1 = some pc.2.data ∧ pc.2.from = resolveFrom cf pc.1 ∧ pc.2.to = to) ∧
    (run w args).stdout = libOutput w (run w args).calls := by
  have hg : ¬ (w.isTty = true ∧ unsafeForTerminal to = true) := by
    intro hg; simp [run, hp, hg, exitWith] at h0
  have hr : run w args = mainLoop w cf to (inputPaths paths) LoopSt.init := by
    simp only [run, hp, hg, if_false]
  rw [hr] at h0 ⊢
  rcases mainLoop_good w hgood hflush cf to (inputPaths paths) with ⟨_, _, e3, e4⟩ | ⟨e1, _⟩
  · refine ⟨e4, ?_, e3⟩
    intro pc hpc
    obtain ⟨a, b, c⟩ := callOk_spec ((mainLoop_callsInv w cf to (inputPaths paths)).1 pc hpc)
    exact ⟨c, a, b⟩
  · rw [e1] at h0; simp at h0

/-! ## Non-vacuity -/

example : (InputPath.file "dir.toml/notes.v2.YmL".toList).extensionFormat = some .yaml :=
  (extension_of_simple_names "dir.toml".toList "notes.v2".toList "YmL".toList .yaml (by decide) (by decide)
    (by decide) (by decide) (by decide)).2

example : (InputPath.file ".json".toList).extensionFormat = none := by decide
example : (InputPath.file "a.json.".toList).extensionFormat = none := by decide
example : (InputPath.file "a.json/".toList).extensionFormat = some .json := by decide
example : (InputPath.file "a.jsonx".toList).extensionFormat = none := by decide

/-- `from_resolution`'s hypothesis: `xt -fy a.json -` is a valid command line (the
`-f` wins over the `.json` extension for the first call). -/
example : parseArgs ["-fy".toList, "a.json".toList, "-".toList] =
    .ok ["a.json".toList, "-".toList] (some .yaml) .json := by
  rw [parseArgs_eq_ref]; decide

#print axioms from_resolution
#print axioms extension_table
#print axioms extension_of_simple_names
#print axioms stdin_at_most_once
#print axioms second_stdin_refused
#print axioms stdin_spellings
#print axioms cli_eq_library

end Xt.Props.C14
