import Lean
import XtModel.Generated.PanicSites
import XtModel.Generated.Consts
import XtModel.Model.Sites
import XtModel.Props.C17Sites
import XtModel.Lemmas.Guards
import XtModel.Lemmas.EncoderBounds
import XtModel.Lemmas.ParserBinding
import XtModel.Props.C03
import XtModel.Props.C07
import XtModel.Props.C09
import XtModel.Props.C11
import XtModel.Props.C18

/-!
# C17 — Memory safety of the YAML parser binding and decoders  (PARTIAL)

Full statement of the property: driving YAML input with any bytes and any
reader — short reads, errors at any point, readers that report more than the
buffer holds — never causes an out-of-bounds access, a use of uninitialised or
freed memory, a double free or a leak; the worst outcome is an error or a
clean panic.

Undefined behaviour cannot be exhibited by a functional model, so that
statement is NOT what is proved here.  What is proved (for all inputs, no
bounds) are the conditions xt's own code is responsible for:

* the arithmetic precondition of every `unsafe` block that has one:
  `copy_nonoverlapping`'s length (`Xt.Chunker.Guards.copy_len_in_bounds`,
  `read_handler_total`), both `char::from_u32_unchecked` arguments
  (`unchecked_char_is_scalar`, `surrogate_pair_arith`);
* the observable behaviour of the guards (`overreport_is_stashed`,
  `chunkreader_overreport_is_clean_panic`, `stash_cleared_on_success`,
  `chunker_stack_overreport`);
* the allocation discipline of `Parser::new` / `next_event` / `Drop` as a trace
  property (`events_drop_safe`: every allocation released exactly once, in the
  right order, nothing used after release, for every number of events before
  the drop and for the out-of-memory panic in `new`);
* every index / `copy_from_slice` / `debug_assert!` / unchecked `+=` of
  `ArrayBuffer` and `Utf8Encoder::read` is unreachable (`no_panic_encoding`,
  `arraybuffer_no_panic`);
* the source-derived inventory of panic and unsafe sites is covered
  (`sites_covered`), and every `unsafe` site is accounted for by one of the
  theorems above or by a `delegated:` tag (`unsafe_sites_covered`).

What is missing for the full statement, and delegated: aliasing (the raw
`*mut ReadState`), initialisation (`MaybeUninit`), and libyaml's own memory
discipline.  Miri / AddressSanitizer runs of the same cases (`run_sanitizer.sh`)
are the search engine for a concrete report, not the verdict.

Obligations (`props/C17.py`): `unsafe_sites_covered`,
`unsafe_accounts_wellformed`, `c17_sites_covered`,
`read_handler_total`, `read_handler_success_iff`, `events_drop_safe`,
`unchecked_char_is_scalar`, `surrogate_pair_arith`, `bmp_unit_is_scalar`,
`no_panic_encoding`, `arraybuffer_no_panic`, `consts_agree`,
`detect_len_agrees`, `depth_limit_agrees`, and by absolute name the guard lemmas of
`Xt.Chunker.Guards` and `Xt.Encoding.dec16_scalar` / `dec32_scalar`.
-/
namespace Xt.Props.C17
open Xt.Sites

/-! ## The inventory -/

/-- Every site that exists because of `unsafe` is accounted for by a
precondition theorem or a `delegated:` tag — not by any other reason tag. -/
theorem unsafe_sites_covered :
    uncovered (Xt.Generated.sites.filter isUnsafeKind) (covered.filter isUnsafeAccount) = [] :=
  Xt.Props.C17Sites.unsafe_sites_covered

/-- `unsafeAccounts` holds only theorem names and `delegated:` tags. -/
theorem unsafe_accounts_wellformed :
    unsafeAccounts.all (fun n => hasPrefix "Xt." n || hasPrefix "delegated:" n) = true :=
  Xt.Props.C17Sites.unsafe_accounts_wellformed

/-- The sites of the files this property is about. -/
def c17_sites : List Entry := Xt.Generated.sites.filter isC17

theorem c17_sites_covered : uncoveredModuloMoves c17_sites covered = [] :=
  Xt.Props.C17Sites.c17_sites_covered

/-- Theorems named in `covered` that live on a branch not merged yet. -/
def pendingTheorems : List String := []

/-- A name given as a dotted string. -/
def toName (s : String) : Lean.Name :=
  (s.splitOn ".").foldl (fun n part => Lean.Name.str n part) Lean.Name.anonymous

open Lean Elab Command in
/-- Fails the build when `covered` names a theorem that does not exist. -/
elab "#check_account_names" : command => do
  let env ← getEnv
  for n in theoremNames covered do
    if pendingTheorems.contains n then continue
    match env.find? (toName n) with
    | some (.thmInfo _) => pure ()
    | _ => throwError "Sites.covered accounts for a site by `{n}`, which is not a theorem in scope"

-- `Xt.Props.C17.*` names are checked at the end of this file, after they exist.

/-! ## `read_handler` -/
section ReadHandler
open Xt.Chunker Xt.ParserBinding

/-- **One total case analysis of `Parser::read_handler`.**  For every argument
tuple libyaml may pass (null pointers and oversized `buffer_size` included),
every stash and every answer of the reader, exactly one of four things
happened:

1. an early exit: nothing resized, nothing copied, `*size_read` not written,
   the stash untouched, `READ_FAILURE`;
2. `READ_SUCCESS`: the bounce buffer has exactly `buffer_size` bytes, the copy
   length is the reported length, it is `≤ buffer_size` (so within both
   buffers), `*size_read` is that length, and the stash is cleared;
3. the reader reported more than the buffer holds: no copy, `*size_read` not
   written, `misbehaving reader` stashed, `READ_FAILURE`;
4. the reader failed: no copy, its error stashed, `READ_FAILURE`. -/
theorem read_handler_total (usizeBound : Nat) (a : CallArgs) (stash : Option Stash) (res : ReadRes) :
    (earlyExit usizeBound a = true ∧
      readHandlerCall usizeBound a stash res = ⟨none, none, none, stash, false⟩) ∨
    (earlyExit usizeBound a = false ∧ ∃ n data, res = .ok n data ∧ n ≤ a.bufferSize ∧
      readHandlerCall usizeBound a stash res = ⟨some a.bufferSize, some n, some n, none, true⟩) ∨
    (earlyExit usizeBound a = false ∧ ∃ n data, res = .ok n data ∧ a.bufferSize < n ∧
      readHandlerCall usizeBound a stash res = ⟨some a.bufferSize, none, none, some .misbehaving, false⟩) ∨
    (earlyExit usizeBound a = false ∧ ∃ tok, res = .err tok ∧
      readHandlerCall usizeBound a stash res = ⟨some a.bufferSize, none, none, some (.io tok), false⟩) := by
  unfold readHandlerCall readHandler
  cases hE : earlyExit usizeBound a with
  | true => left; simp
  | false =>
    right
    cases res with
    | err tok => right; right; simp
    | ok n data =>
      by_cases h : n ≤ a.bufferSize
      · left; simp [h]
      · right; left
        have : a.bufferSize < n := by omega
        simp [h, this]

/-- `READ_SUCCESS` is returned exactly when the reader answered `Ok(n)` with
`n ≤ buffer_size` on a non-degenerate call; in every other case the handler
fails and — unless it was an early exit — an error is stashed for
`next_event` to pick up. -/
theorem read_handler_success_iff (usizeBound : Nat) (a : CallArgs) (stash : Option Stash) (res : ReadRes) :
    ((readHandlerCall usizeBound a stash res).success = true ↔
      earlyExit usizeBound a = false ∧ ∃ n data, res = .ok n data ∧ n ≤ a.bufferSize) ∧
    ((readHandlerCall usizeBound a stash res).success = false → earlyExit usizeBound a = false →
      (readHandlerCall usizeBound a stash res).stash ≠ none ∧
      (readHandlerCall usizeBound a stash res).copyLen = none) := by
  rcases read_handler_total usizeBound a stash res with
    ⟨hE, h⟩ | ⟨hE, n, data, rfl, hn, h⟩ | ⟨hE, n, data, rfl, hn, h⟩ | ⟨hE, tok, rfl, h⟩
  · rw [h]; simp [hE]
  · rw [h]; simp [hE, hn]
  · rw [h]
    have : ¬ n ≤ a.bufferSize := by omega
    simp [hE, this]
  · rw [h]; simp [hE]

/-- A non-trivial instance: 64-bit `usize`, libyaml's 16 KiB raw buffer, a
reader that wrote 100 bytes — and the same reader claiming 16385. -/
example : readHandlerCall (2 ^ 64) ⟨false, false, false, 16384⟩ (some .misbehaving) (.ok 100 []) =
    ⟨some 16384, some 100, some 100, none, true⟩ := by decide
example : readHandlerCall (2 ^ 64) ⟨false, false, false, 16384⟩ none (.ok 16385 []) =
    ⟨some 16384, none, none, some .misbehaving, false⟩ := by decide
example : readHandlerCall (2 ^ 32) ⟨false, false, false, 2 ^ 32⟩ (some (.io 7)) (.ok 1 []) =
    ⟨none, none, none, some (.io 7), false⟩ := by decide

end ReadHandler

/-! ## Construction, events, drop -/
section Life
open Xt.ParserBinding

/-- **No leak, no double free, no use after free, for every life of a
`Parser`.**  Whether or not `yaml_parser_initialize` succeeds, for every number
of `next_event` calls before the value is dropped, each with any number of
read-handler calls and either outcome: every action of the trace is legal
(nothing allocated twice, nothing used or released while not live, the read
state not released while the parser that points to it is live) and nothing is
live at the end.  When construction succeeded `yaml_parser_delete` runs exactly
once, `Box::from_raw(read_state)` exactly once, and the parser's box is
released exactly once; when it panicked the read state was never allocated and
only the box is released. -/
theorem events_drop_safe (initOk : Bool) (calls : List (Nat × Bool)) :
    check [] (lifeTrace initOk calls) = .ok [] ∧
    (initOk = true →
      frees .internals (lifeTrace initOk calls) = 1 ∧ frees .readState (lifeTrace initOk calls) = 1 ∧
      frees .parserBox (lifeTrace initOk calls) = 1) ∧
    (initOk = false →
      lifeTrace initOk calls = [.alloc .parserBox, .free .parserBox]) := by
  cases initOk with
  | false => simp [lifeTrace, newTrace, check]
  | true =>
    refine ⟨?_, fun _ => ⟨?_, ?_, ?_⟩, fun h => by cases h⟩
    · simp only [lifeTrace, if_true]
      rw [check_append, check_new_ok]
      show check liveParser (callsTrace 0 calls ++ dropTrace) = .ok []
      rw [check_append, check_calls]
      exact check_drop
    · simp only [lifeTrace, if_true, frees_append, frees_calls .internals (fun i h => by cases h)]
      simp [newTrace, dropTrace, frees]
    · simp only [lifeTrace, if_true, frees_append, frees_calls .readState (fun i h => by cases h)]
      simp [newTrace, dropTrace, frees]
    · simp only [lifeTrace, if_true, frees_append, frees_calls .parserBox (fun i h => by cases h)]
      simp [newTrace, dropTrace, frees]

/-- The checker is not vacuous: releasing the read state before the parser, a
second `Box::from_raw`, or a parse call after the drop are all rejected. -/
example : check liveParser [.free .readState, .free .internals, .free .parserBox] = .error .danglingInParser := by
  simp [check, liveParser]
example : check liveParser (dropTrace ++ [.free .readState]) = .error (.badFree .readState) := by
  simp [check, liveParser, dropTrace]
example : check liveParser (dropTrace ++ nextTrace 0 1 true) = .error (.useAfterFree .internals) := by
  simp [check, liveParser, dropTrace, nextTrace]
/-- Format detection: one document (here three events), then the chunker is dropped. -/
example : check [] (lifeTrace true [(1, true), (0, true), (0, true)]) = .ok [] :=
  (events_drop_safe true _).1

end Life

/-! ## The two `char::from_u32_unchecked` calls -/
section Decoders
open Xt.Encoding

/-- For ALL input bytes and both UTF-16 / UTF-32 byte orders, every character
a decoder yields — in particular each argument of the two
`char::from_u32_unchecked` calls in `Utf16Decoder::next` — is a Unicode scalar
value. -/
theorem unchecked_char_is_scalar (e : Enc) (he : e ≠ .utf8) (bytes : List Nat) (hb : ∀ b ∈ bytes, b < 256) :
    ∀ c, Item.ch c ∈ decode e bytes → isScalar c :=
  (Xt.Props.C07.no_fabrication e he bytes hb).2

/-- First block: a `u16` outside the surrogate range is a scalar value as it is. -/
theorem bmp_unit_is_scalar (lead : Nat) (h : lead ≤ 0xD7FF ∨ (0xE000 ≤ lead ∧ lead ≤ 0xFFFF)) :
    isScalar lead := by
  unfold isScalar; omega

/-- Second block, `0x10000 + ((u32::from(lead - 0xD800) << 10) | u32::from(trail - 0xDC00))`
with `lead ∈ 0xD800..=0xDBFF` and `trail ∈ 0xDC00..=0xDFFF` (what the match arm
and the `contains` test establish): neither `u16` subtraction underflows, the
shift stays below 2^20, shift-or is the model's multiply-add, the `u32` sum does
not overflow, and the result is a scalar value (a supplementary-plane one). -/
theorem surrogate_pair_arith (lead trail : Nat) (hl : 0xD800 ≤ lead ∧ lead ≤ 0xDBFF)
    (ht : 0xDC00 ≤ trail ∧ trail ≤ 0xDFFF) :
    0xD800 ≤ lead ∧ 0xDC00 ≤ trail ∧
    (lead - 0xD800) <<< 10 < 2 ^ 20 ∧
    0x10000 + (((lead - 0xD800) <<< 10) ||| (trail - 0xDC00)) =
      0x10000 + ((lead - 0xD800) * 1024 + (trail - 0xDC00)) ∧
    0x10000 + ((lead - 0xD800) * 1024 + (trail - 0xDC00)) < 2 ^ 32 ∧
    0x10000 ≤ 0x10000 + ((lead - 0xD800) * 1024 + (trail - 0xDC00)) ∧
    isScalar (0x10000 + ((lead - 0xD800) * 1024 + (trail - 0xDC00))) := by
  have hb : trail - 0xDC00 < 2 ^ 10 := by omega
  have hor := Nat.shiftLeft_add_eq_or_of_lt hb (lead - 0xD800)
  have hsh : (lead - 0xD800) <<< 10 = (lead - 0xD800) * 1024 := by
    rw [Nat.shiftLeft_eq]
  refine ⟨hl.1, ht.1, ?_, ?_, ?_, ?_, ?_⟩
  · rw [hsh]; omega
  · rw [← hor, hsh]
  · omega
  · omega
  · unfold isScalar; omega

/-- The value the model's `dec16` yields for a pair is the one the Rust
expression computes. -/
example : dec16 [0xD83D, 0xDE00] 0 false = [.ch 0x1F600] := by
  rw [dec16.eq_def]; simp [dec16]
example : 0x10000 + (((0xD83D - 0xD800) <<< 10) ||| (0xDE00 - 0xDC00)) = 0x1F600 := by decide

end Decoders

/-! ## `ArrayBuffer` and `Utf8Encoder::read` -/
section Encoder
open Xt.EncoderBounds

/-- **No index, `copy_from_slice`, `debug_assert!`, `encode_utf8` or unchecked
`+=` site of `Utf8Encoder::read` / `ArrayBuffer` is reachable**: for every
sequence of characters and errors the decoder may yield, every sequence of
`read` buffer sizes, debug or release, 32- or 64-bit `usize`.  Each call writes
at most `buf.len()` bytes.  `MAX_UTF8_ENCODED_LEN` is the value generated from
the source. -/
theorem no_panic_encoding (ovf : Nat) (debug : Bool) (hovf : Xt.Generated.MAX_UTF8_ENCODED_LEN < ovf)
    (src : List Src) (hsrc : ∀ c, Src.ch c ∈ src → 1 ≤ c ∧ c ≤ 4)
    (ns : List Nat) (hns : ∀ n ∈ ns, n < ovf) :
    (∃ rs, encReads ovf debug Xt.Generated.MAX_UTF8_ENCODED_LEN
        ⟨AB.new Xt.Generated.MAX_UTF8_ENCODED_LEN, src⟩ ns = .ok rs ∧ rs.length = ns.length) ∧
    (∀ n, n < ovf → ∃ ret st', encRead ovf debug Xt.Generated.MAX_UTF8_ENCODED_LEN
        ⟨AB.new Xt.Generated.MAX_UTF8_ENCODED_LEN, src⟩ n = .ok (ret, st') ∧ ∀ w, ret = .ok w → w ≤ n) := by
  have hst : St.Ok Xt.Generated.MAX_UTF8_ENCODED_LEN ⟨AB.new Xt.Generated.MAX_UTF8_ENCODED_LEN, src⟩ :=
    ⟨AB.inv_new _, rfl, fun c hc => by have := hsrc c hc; show c ≤ 4; omega⟩
  refine ⟨encReads_ok ovf debug _ hovf ns hns _ hst, fun n hn => ?_⟩
  obtain ⟨ret, st', e, _, hw⟩ := encRead_ok ovf debug _ _ hst hovf n hn
  exact ⟨ret, st', e, hw⟩

/-- A non-trivial instance: one-, three- and four-byte characters, an encoding
error in the middle, reads of 1, 2, 7 and 64 bytes (so the remainder hand-over
runs), debug build, 64-bit. -/
example : ∃ rs, encReads (2 ^ 64) true 4 ⟨AB.new 4, [.ch 1, .ch 3, .ch 4, .err, .ch 2]⟩ [1, 2, 7, 64] = .ok rs ∧
    rs.length = 4 :=
  (no_panic_encoding (2 ^ 64) true (by decide) _ (by intro c hc; simp at hc; omega) [1, 2, 7, 64] (by decide)).1

/-- …and the sites are real: a character reported longer than 4 bytes, or a
`set` with more than `SIZE` bytes, does reach one. -/
example : (match tailLoop (2 ^ 64) true 4 (AB.new 4) [.ch 5] 1 0 with | .panic .encodeUtf8Small => true | _ => false)
    = true := by decide
example : (match (AB.new 4).set false 5 with | .panic .setIndex => true | _ => false) = true := by decide
example : (match (AB.new 4).set true 5 with | .panic .setAssert => true | _ => false) = true := by decide

/-- **`ArrayBuffer` on its own** (the `DETECT_LEN`-byte prefix buffer of
`Encoder::from_reader`, read back through `Chain`): from `new`, any program of
`unread` / `set` / `read` / `write` / `consume` in which every `set` fits the
array and every `consume` stays within what is unread (the `BufRead` contract)
reaches no panic site. -/
theorem arraybuffer_no_panic (ovf : Nat) (debug : Bool) (size : Nat) (hs : size < ovf) (ops : List Op)
    (hp : ProgOk ovf debug (AB.new size) ops) :
    ∃ b, AB.run ovf debug (AB.new size) ops = .ok b ∧ b.Inv :=
  AB.run_ok debug ops (AB.new size) (AB.inv_new size) hs hp

/-- `from_reader`: `io::copy` writes 3 + 1 + 0 bytes, detection looks at them,
the chain reads 2 and consumes 2. -/
example : ∃ b, AB.run (2 ^ 64) true (AB.new Xt.Generated.DETECT_LEN)
    [.write 3, .write 5, .write 1, .unread, .read 2, .unread, .consume 2, .read 9] = .ok b ∧ b.Inv :=
  arraybuffer_no_panic (2 ^ 64) true _ (by decide) _ (by
    simp [ProgOk, OpOk, AB.step, AB.new, AB.write, AB.read, AB.unread, AB.consume, copyFromSlice, addU,
      Xt.Generated.DETECT_LEN])

end Encoder

/-! ## Constants -/

/-- The constants read from the sources are the values the models use
(`Xt.Encoding.fromReaderStream` takes 4 bytes, the remainder buffer has 4
bytes, `SIZE_CUTOFF` is 2 MiB, the MessagePack depth limit is 1024). -/
theorem consts_agree :
    Xt.Generated.DEPTH_LIMIT = 1024 ∧ Xt.Generated.SIZE_CUTOFF = 2 * 1024 ^ 2 ∧
    Xt.Generated.DETECT_LEN = 4 ∧ Xt.Generated.MAX_UTF8_ENCODED_LEN = 4 := by decide

/-- The MessagePack model's depth limit is the generated `DEPTH_LIMIT`. -/
theorem depth_limit_agrees : Xt.Msgpack.depthLimit = Xt.Generated.DEPTH_LIMIT := by decide

/-- The encoding model's `from_reader` detects on exactly `DETECT_LEN` bytes. -/
theorem detect_len_agrees (bytes : List Nat) :
    Xt.Encoding.fromReaderStream bytes =
      Xt.Encoding.stream (Xt.Encoding.detect (bytes.take Xt.Generated.DETECT_LEN)) bytes := rfl

-- Every theorem that `Sites.covered` names exists (an elaboration error otherwise;
-- `pendingTheorems` lists the ones on unmerged branches).
#check_account_names

#print axioms unsafe_sites_covered
#print axioms unsafe_accounts_wellformed
#print axioms c17_sites_covered
#print axioms read_handler_total
#print axioms read_handler_success_iff
#print axioms events_drop_safe
#print axioms unchecked_char_is_scalar
#print axioms bmp_unit_is_scalar
#print axioms surrogate_pair_arith
#print axioms no_panic_encoding
#print axioms arraybuffer_no_panic
#print axioms consts_agree
#print axioms detect_len_agrees
#print axioms depth_limit_agrees
#print axioms Xt.Chunker.Guards.copy_len_in_bounds
#print axioms Xt.Chunker.Guards.overreport_is_stashed
#print axioms Xt.Chunker.Guards.chunkreader_overreport_is_clean_panic
#print axioms Xt.Chunker.Guards.chunkreader_within_buffer_no_panic
#print axioms Xt.Chunker.Guards.stash_cleared_on_success
#print axioms Xt.Chunker.Guards.chunker_stack_overreport
#print axioms Xt.Encoding.dec16_scalar
#print axioms Xt.Encoding.dec32_scalar

end Xt.Props.C17
