import XtModel.Lemmas.Transcode

/-!
# C11 — Errors name their true cause

Property theorems about the model of `src/transcode/stream.rs`
(`Model/Transcode.lean`), `src/transcode/value.rs` (`Model/ValuePath.lean`) and
the `?` in toml's `Output::transcode_from`.  Helper lemmas are in
`Lemmas/Transcode.lean`; the central one is `rel_deserializeAny`: the
interpreter with the `(parent, error, source)` cells refines the direct-style
semantics `sem`, and `sem_eq_run`: `sem` feeds the tree's `trace` to the
serializer.

`trace dec d : List (Op × DErr) × Option DErr` is the serializer-independent
list of events of the tree `d` in execution order: every primitive op the
transcoder issues (paired with the deserializer error that is handed back as
context when that op fails), up to the deserializer's first own failure, if
the tree has one.  "The first failure in execution order" is then literal:
the first op of the trace the serializer rejects, or else the trace's failure.

All theorems quantify over every tree (so every path and every failure
position: `fail` = immediately, `afail` = between elements / after a key /
where the end should be, `close` = after the collection), every decoration
`dec`, and every serializer given as a state machine `step : σ → Op → Except
SErr σ` (so every script, `Script.step sc` included).

Obligations: `first_failure_de`, `first_failure_de_independent`,
`first_failure_de_at_path`, `first_failure_ser`, `transcode_first_failure`, `display_contains_cause`,
`no_panic_transcode`, `ser_source_has_error`, `transcode_faithful`,
`valuepath_faithful`, `valuepath_first_failure`,
`toml_target_error_is_de_error`, `d7_counterexample`.
-/
namespace Xt.Props.C11
open Xt.Serde Xt.Transcode Xt.ValuePath

section
variable {σ : Type} (step : σ → Op → Except SErr σ) (dec : DErr → DErr)

/-! ## The first failure decides -/

/-- Complete characterisation: the result of `transcode`, and the ops the
serializer received, are those of feeding the tree's trace to the serializer
and stopping at the first failure in execution order. -/
theorem transcode_first_failure (d : De) (s : σ) :
    transcode step dec d s =
      (ofSum (run step (trace dec d) s).1, (run step (trace dec d) s).2.2) :=
  transcode_eq_run step dec d s

/-- If the first failure in execution order is the deserializer's — wherever in
the tree, and whichever kind of failure point — and the serializer has accepted
every op issued before it, the result is `Error::De(e)` where `e` is the
deserializer's own error, decorated once per `deserialize_any` frame it passed
(`OwnDecorated`): never the synthetic "translation failed" error, and nothing
of the serializer's.  The serializer received exactly the ops before the
failure. -/
theorem first_failure_de (d : De) (e : DErr) (s s' : σ)
    (hde : (trace dec d).2 = some e)
    (hacc : accepts step s (trace dec d).ops = some s') :
    transcode step dec d s = (.errDe e, (trace dec d).ops) ∧ OwnDecorated dec e := by
  refine ⟨?_, trace_own dec d e hde⟩
  rw [transcode_eq_run]
  simp only [run, feed_accepts step _ s s' hacc, hde, ofSum, Tr.ops]

/-- … and it is the same for every serializer that has not failed earlier. -/
theorem first_failure_de_independent {σ₁ σ₂ : Type}
    (step₁ : σ₁ → Op → Except SErr σ₁) (step₂ : σ₂ → Op → Except SErr σ₂)
    (d : De) (e : DErr) (s₁ s₁' : σ₁) (s₂ s₂' : σ₂)
    (hde : (trace dec d).2 = some e)
    (h₁ : accepts step₁ s₁ (trace dec d).ops = some s₁')
    (h₂ : accepts step₂ s₂ (trace dec d).ops = some s₂') :
    transcode step₁ dec d s₁ = transcode step₂ dec d s₂ := by
  rw [(first_failure_de step₁ dec d e s₁ s₁' hde h₁).1,
    (first_failure_de step₂ dec d e s₂ s₂' hde h₂).1]

/-- "At any path": put any failing deserializer `hole` — `fail tok` (fails
immediately), `afail tok` (the access fails instead of handing it out: between
elements, after a key, where the end should be), `seq [] (some tok)` (fails
after the collection), or any tree whose own first failure is `e` — at the end
of any path of element / key / value steps, with nothing failing before it in
execution order (`clean`; what comes after is arbitrary).  Then under every
serializer that accepts the ops issued before that point the result is
`Error::De` of exactly that error, decorated once per level of the path. -/
theorem first_failure_de_at_path (path : List PathStep) (hole : De) (e : DErr)
    (hclean : ∀ st ∈ path, st.clean = true) (he : (trace dec hole).2 = some e)
    (s s' : σ) (hacc : accepts step s (trace dec (plug path hole)).ops = some s') :
    (transcode step dec (plug path hole) s).1 = .errDe (decN dec path.length e) := by
  rw [(first_failure_de step dec _ _ s s' (trace_plug dec path hole e hclean he) hacc).1]

/-- A tree has a deserializer failure in its trace exactly when it has a
failure point anywhere: no planted failure is lost. -/
theorem trace_failure_iff (d : De) : (trace dec d).2.isNone = d.errorFree :=
  trace_err_isNone dec d

/-- If the first failure in execution order is the serializer's — at any op of
the trace, so at any path and any of the eleven op kinds, the six `…Pre` /
`…Post` kinds included — the result is `Error::Ser(se, _)` with `se` exactly the
error value the serializer returned.  The serializer received the ops up to and
including the failing one, and nothing afterwards. -/
theorem first_failure_ser (d : De) (pre rest : List (Op × DErr)) (o : Op) (c : DErr)
    (htr : (trace dec d).1 = pre ++ (o, c) :: rest)
    (s s' : σ) (se : SErr)
    (hacc : accepts step s (pre.map Prod.fst) = some s')
    (hfail : step s' o = .error se) :
    transcode step dec d s = (.errSer se c, pre.map Prod.fst ++ [o]) := by
  rw [transcode_eq_run]
  simp only [run, htr, feed_fails step pre rest o c s s' se hacc hfail, ofSum]

/-! ## Display -/

/-- `impl Display for Error`: `Ser(s, d)` prints `{d}: {s}`, `De(d)` prints `{d}`. -/
theorem display_contains_cause (fmtS : SErr → String) (fmtD : DErr → String) :
    (∀ se d, display fmtS fmtD (.errSer se d) = fmtD d ++ ": " ++ fmtS se) ∧
    (∀ d, display fmtS fmtD (.errDe d) = fmtD d) :=
  ⟨fun _ _ => rfl, fun _ => rfl⟩

/-- Hence a serializer-side first failure prints the serializer's own message
(as the suffix after `": "`), and a deserializer-side one prints the
deserializer's own message and nothing else. -/
theorem display_first_failure_ser (fmtS : SErr → String) (fmtD : DErr → String)
    (d : De) (pre rest : List (Op × DErr)) (o : Op) (c : DErr)
    (htr : (trace dec d).1 = pre ++ (o, c) :: rest)
    (s s' : σ) (se : SErr)
    (hacc : accepts step s (pre.map Prod.fst) = some s')
    (hfail : step s' o = .error se) :
    display fmtS fmtD (transcode step dec d s).1 = fmtD c ++ ": " ++ fmtS se := by
  rw [first_failure_ser step dec d pre rest o c htr s s' se hacc hfail]
  rfl

theorem display_first_failure_de (fmtS : SErr → String) (fmtD : DErr → String)
    (d : De) (e : DErr) (s s' : σ)
    (hde : (trace dec d).2 = some e)
    (hacc : accepts step s (trace dec d).ops = some s') :
    display fmtS fmtD (transcode step dec d s).1 = fmtD e := by
  rw [(first_failure_de step dec d e s s' hde hacc).1]
  rfl

/-! ## No panic -/

/-- For all trees and all serializers: `transcode` does not reach either of its
panic sites — `take_parent` is never called on a taken parent, and the
`unwrap` in `transcode` is only reached with an error captured. -/
theorem no_panic_transcode (d : De) (s : σ) (site : Site) :
    (transcode step dec d s).1 ≠ .panic site := by
  rw [transcode_eq_sem]
  cases (sem step dec d s).1 <;> simp [ofSum]

/-- The invariant behind the `unwrap`: whenever `deserialize_any` returns to
`transcode` (or to `Forwarder::serialize`) with the visitor's source set to
`Ser`, the visitor holds the serializer's error. -/
theorem ser_source_has_error (d : De) (s : σ) :
    (deserializeAny step dec (serializeWithSeed step) d .new s).2.1.source = .ser →
    (deserializeAny step dec (serializeWithSeed step) d .new s).2.1.error.isSome = true := by
  have h := rel_deserializeAny step dec d s
  unfold Rel at h
  rcases hs : sem step dec d s with ⟨sr, s2, ops2⟩
  rw [hs] at h
  cases sr <;> simp_all

/-! ## Fidelity (reused by C01) -/

/-- For every error-free tree and every serializer that accepts its ops, the op
sequence received is `flatten d`: the same scalar constructor for every visit,
elements and entries in order, begin/end properly nested — and the result is
`Ok`. -/
theorem transcode_faithful (d : De) (hfree : d.errorFree = true) (s s' : σ)
    (hacc : accepts step s (flatten d) = some s') :
    transcode step dec d s = (.ok, flatten d) := by
  have hops := trace_ops_errorFree dec d hfree
  have hnone : (trace dec d).2 = none :=
    isNone_eq_true (by rw [trace_err_isNone, hfree])
  rw [transcode_eq_run]
  rw [← hops] at hacc
  simp only [run, feed_accepts step _ s s' hacc, hnone, ofSum]
  rw [← hops]; rfl

end

section
variable {σ : Type} (step : σ → Op → Except SErr σ) (dec : DErr → DErr)

/-- The collect-then-replay path: for every error-free tree the collected
value replays `flatten d` (modulo the documented differences: lengths are not
ops, `serialize_entry` is key then value, and a byte string is replayed as a
sequence of `u8` — `expandBytes`), and the result is `Ok`. -/
theorem valuepath_faithful (d : De) (hfree : d.errorFree = true) (s s' : σ)
    (hacc : accepts step s (expandBytes (flatten d)) = some s') :
    valuePath step dec d s = (.ok, expandBytes (flatten d)) := by
  obtain ⟨v, hv, hops⟩ := ofDe_ops dec d hfree
  unfold valuePath
  rw [hv]
  simp only [replay_eq_feedOps, hops]
  have : feedOps step (expandBytes (flatten d)) s = (none, s', expandBytes (flatten d)) := by
    generalize expandBytes (flatten d) = ops at hacc
    induction ops generalizing s with
    | nil => simp_all [accepts, feedOps]
    | cons o ops ih =>
      simp only [accepts] at hacc
      simp only [feedOps]
      cases hs : step s o with
      | error e => simp [hs] at hacc
      | ok s1 => rw [hs] at hacc; simp only [ih s1 hacc]
  rw [this]

/-- Without byte strings the value path and the streaming path deliver the same ops. -/
theorem valuepath_eq_stream_ops (d : De) (hfree : d.errorFree = true)
    (hb : ∀ bs, Op.scalar (.bytes bs) ∉ flatten d) (s s' : σ)
    (hacc : accepts step s (flatten d) = some s') :
    (valuePath step dec d s).2 = (transcode step dec d s).2 := by
  have he := expandBytes_id (flatten d) hb
  rw [transcode_faithful step dec d hfree s s' hacc,
    valuepath_faithful step dec d hfree s s' (by rw [he]; exact hacc), he]

/-- On the value path too the first failure decides, and nothing is synthetic:
a tree with a failure point gives the deserializer's own decorated error (the
one the streaming path would attribute to the deserializer) before the
serializer is touched; otherwise a serializer failure is returned as is. -/
theorem valuepath_first_failure (d : De) (s : σ) :
    (∀ e, (trace dec d).2 = some e → valuePath step dec d s = (.errDe e, []) ∧ OwnDecorated dec e) ∧
    (∀ v, Value.ofDe dec d = .ok v →
      valuePath step dec d s =
        (match (feedOps step v.ops s).1 with
         | none => .ok
         | some se => .errSer se, (feedOps step v.ops s).2.2)) := by
  constructor
  · intro e he
    refine ⟨?_, trace_own dec d e he⟩
    have h := ofDe_err dec d
    rw [he] at h
    unfold valuePath
    cases hv : Value.ofDe dec d with
    | error e' => simp_all [errOf]
    | ok v => simp [hv, errOf] at h
  · intro v hv
    unfold valuePath
    rw [hv]
    simp only [replay_eq_feedOps]
    rcases feedOps step v.ops s with ⟨r, s', ops⟩
    cases r <;> rfl

end

/-! ## toml: the target's refusal is a deserializer-typed error carrying the reason -/

/-- `needle` occurs in `hay`. -/
def Occurs (needle hay : String) : Prop := ∃ p q, hay = p ++ needle ++ q

theorem Occurs.refl (a : String) : Occurs a a := ⟨"", "", by simp⟩

theorem Occurs.trans {a b c : String} (h1 : Occurs a b) (h2 : Occurs b c) : Occurs a c := by
  obtain ⟨p1, q1, rfl⟩ := h1
  obtain ⟨p2, q2, rfl⟩ := h2
  exact ⟨p2 ++ p1, q1 ++ q2, by simp [String.append_assoc]⟩

theorem occurs_decN (dec : DErr → DErr) (fmtD : DErr → String)
    (hcustom : ∀ m, Occurs m (fmtD (.custom m))) (hdec : ∀ e', Occurs (fmtD e') (fmtD (dec e')))
    (reason : String) : ∀ k, Occurs reason (fmtD (decN dec k (.custom reason)))
  | 0 => hcustom reason
  | k + 1 => Occurs.trans (occurs_decN dec fmtD hcustom hdec reason k) (hdec _)

/-- toml's `transcode_from` (`Value::deserialize(de)?`): the error is always of
the deserializer's type (`Error::De`, never `Ser`, never a panic), and it is
either the deserializer's own error, decorated, or a refusal of the target's
visitor: a `custom` error whose message is the target's reason text, decorated.
If the deserializer's `Display` shows a custom message and keeps the text of
what it decorates (hypotheses `hcustom`, `hdec`, sampled end to end), the
reason is in the message. -/
theorem toml_target_error_is_de_error (dec : DErr → DErr) (R : Refusals) (d : De) :
    tomlTranscodeFrom dec R d = .ok ∨
    ∃ e, tomlTranscodeFrom dec R d = .errDe e ∧
      (OwnDecorated dec e ∨
        ∃ k reason, e = decN dec k (.custom reason) ∧ R.Gives reason ∧
          ∀ fmtD : DErr → String,
            (∀ m, Occurs m (fmtD (.custom m))) → (∀ e', Occurs (fmtD e') (fmtD (dec e'))) →
            Occurs reason (fmtD e)) := by
  unfold tomlTranscodeFrom
  cases h : tomlCollect dec R d with
  | none => exact .inl rfl
  | some e =>
    refine .inr ⟨e, rfl, ?_⟩
    rcases tomlCollect_err dec R d e h with h | ⟨k, reason, rfl, hg⟩
    · exact .inl h
    · exact .inr ⟨k, reason, rfl, hg, fun fmtD hcustom hdec =>
        occurs_decN dec fmtD hcustom hdec reason k⟩

/-! ## D7: what the fix repaired -/

/-- `{"a":[1,"x"]}` -/
def d7Doc : De :=
  .map [(.scalar (.str [97]), .seq [.scalar (.u8 1), .scalar (.str [120])] none)] none

/-- Before commit 7bc5345 (`serializeWithSeedOld`): the serializer fails its
op 4 — `valPre`, the `:` after the key — with error 7, and `transcode` answers
`Error::De("translation failed", decorated)`: attributed to the deserializer,
the cause dropped.  Likewise at op 6 (`elemPre`, the `,`). -/
theorem d7_counterexample :
    (transcodeOld (Script.step { failAt := some 4, tok := 7 }) DErr.wrap d7Doc {}).1 =
      .errDe (.wrap (.custom translationFailed)) ∧
    (transcodeOld (Script.step { failAt := some 6, tok := 7 }) DErr.wrap d7Doc {}).1 =
      .errDe (.wrap (.wrap (.custom translationFailed))) ∧
    (transcode (Script.step { failAt := some 4, tok := 7 }) DErr.wrap d7Doc {}).1 =
      .errSer (.own 7) (.wrap (.custom translationFailed)) ∧
    (transcode (Script.step { failAt := some 6, tok := 7 }) DErr.wrap d7Doc {}).1 =
      .errSer (.own 7) (.wrap (.wrap (.custom translationFailed))) := by
  decide

/-! ## Non-vacuity: concrete instances of every hypothesis -/

section Examples

/-- `[{"a": 1}]`: its trace has all eleven op kinds, at indices 0–11:
`[ e< { k< "a" k> v< 1 v> } e> ]`. -/
def allKinds : De := .seq [.map [(.scalar (.str [97]), .scalar (.u8 1))] none] none

def failAt (n : Nat) : Script := { failAt := some n, tok := 7 }

example : (trace DErr.wrap allKinds).ops =
    [.seqBegin, .elemPre, .mapBegin, .keyPre, .scalar (.str [97]), .keyPost, .valPre,
      .scalar (.u8 1), .valPost, .mapEnd, .elemPost, .seqEnd] := by decide

/-- `first_failure_ser` instantiated at `valPre` (index 6, the `:` of D7): every
hypothesis is met by a concrete serializer script. -/
example :
    transcode (failAt 6).step DErr.wrap allKinds {} =
      (.errSer (.own 7) (.wrap (.wrap (.custom translationFailed))),
        [.seqBegin, .elemPre, .mapBegin, .keyPre, .scalar (.str [97]), .keyPost, .valPre]) :=
  first_failure_ser (failAt 6).step DErr.wrap allKinds
    ((trace DErr.wrap allKinds).1.take 6) ((trace DErr.wrap allKinds).1.drop 7) .valPre
    (.wrap (.wrap (.custom translationFailed))) (by decide) {} ⟨6, 0⟩ (.own 7) (by decide) (by rfl)

/-- The serializer's own error comes back from a failure at each of the twelve
positions (all eleven kinds; `keyPre keyPost valPre valPost elemPre elemPost`
are indices 3, 5, 6, 8, 1, 10), and also when the failing op is selected by kind. -/
example : (List.range 12).all (fun n =>
    match (transcode (failAt n).step DErr.wrap allKinds {}).1 with
    | .errSer (.own 7) _ => true
    | _ => false) = true := by decide

example : (List.range 11).all (fun kind =>
    match (transcode (Script.step { failKind := some (kind, 0), tok := 9 }) DErr.wrap allKinds {}).1 with
    | .errSer (.own 9) _ => true
    | _ => false) = true := by decide

/-- `first_failure_de` instantiated: an immediate failure three levels down, in
value position, under a serializer that never fails. -/
example :
    transcode (Script.step {}) DErr.wrap
        (.seq [.map [(.scalar (.str [97]), .seq [.fail 3] none)] none] none) {} =
      (.errDe (.wrap (.wrap (.wrap (.own 3)))),
        [.seqBegin, .elemPre, .mapBegin, .keyPre, .scalar (.str [97]), .keyPost, .valPre,
          .seqBegin, .elemPre]) :=
  (first_failure_de (Script.step {}) DErr.wrap _ _ {} ⟨9, 0⟩ (by decide) (by decide)).1

/-- `first_failure_de_at_path` instantiated: `{"a": [1, {<fails>: 2}, 3]}` — value
step, element step (after an error-free element), key step. -/
example :
    (transcode (Script.step {}) DErr.wrap
      (plug [.val [] (.scalar (.str [97])) [] none,
             .elem [.scalar (.u8 1)] [.scalar (.u8 3)] none,
             .key [] (.scalar (.u8 2)) [] none] (.fail 3)) {}).1 =
      .errDe (.wrap (.wrap (.wrap (.own 3)))) :=
  first_failure_de_at_path (Script.step {}) DErr.wrap _ (.fail 3) (.own 3) (by decide) (by decide)
    {} ⟨12, 0⟩ (by decide)

/-- Every kind of failure position gives `Error::De` with the own error:
immediately (top level, element, key, value), between elements, after a key,
where the end should be, after the collection (outer and nested). -/
example : [ De.fail 3,
            .seq [.scalar .unit, .fail 3] none,
            .map [(.fail 3, .scalar .unit)] none,
            .map [(.scalar .unit, .fail 3)] none,
            .seq [.scalar .unit, .afail 3, .scalar .unit] none,
            .map [(.scalar .unit, .afail 3)] none,
            .map [(.scalar .unit, .scalar .unit), (.afail 3, .scalar .unit)] none,
            .seq [.scalar .unit, .afail 3] none,
            .seq [.scalar .unit] (some 3),
            .map [(.scalar .unit, .seq [] (some 3))] none ].map
          (fun d => (transcode (Script.step {}) DErr.wrap d {}).1) =
    [ .errDe (.own 3),
      .errDe (.wrap (.own 3)),
      .errDe (.wrap (.own 3)),
      .errDe (.wrap (.own 3)),
      .errDe (.wrap (.own 3)),
      .errDe (.wrap (.own 3)),
      .errDe (.wrap (.own 3)),
      .errDe (.wrap (.own 3)),
      .errDe (.own 3),
      .errDe (.wrap (.own 3)) ] := by decide

/-- The earlier failure wins, whichever side it is on: the deserializer fails
after op 8 of this tree; a serializer failing at op 8 or earlier is reported as
`Ser`, one that would fail later as `De`. -/
example :
    let d : De := .seq [.map [(.scalar (.str [97]), .seq [.fail 3] none)] none] none
    (transcode (failAt 8).step DErr.wrap d {}).1 =
        .errSer (.own 7) (.wrap (.wrap (.wrap (.custom translationFailed)))) ∧
      (transcode (failAt 9).step DErr.wrap d {}).1 = .errDe (.wrap (.wrap (.wrap (.own 3)))) := by
  decide

/-- `transcode_faithful` and `valuepath_faithful` instantiated. -/
example : transcode (Script.step {}) DErr.wrap allKinds {} = (.ok, flatten allKinds) :=
  transcode_faithful (Script.step {}) DErr.wrap allKinds (by decide) {} ⟨12, 0⟩ (by decide)

example :
    valuePath (Script.step {}) DErr.wrap (.seq [.scalar (.bytes [1, 2]), .scalar (.i8 (-3))] none) {} =
      (.ok, [.seqBegin, .elemPre, .seqBegin, .elemPre, .scalar (.u8 1), .elemPost, .elemPre,
        .scalar (.u8 2), .elemPost, .seqEnd, .elemPost, .elemPre, .scalar (.i8 (-3)), .elemPost,
        .seqEnd]) :=
  valuepath_faithful (Script.step {}) DErr.wrap _ (by decide) {} ⟨15, 0⟩ (by decide)

/-- toml: a null two levels down is refused with the target's reason, as a
deserializer-typed error. -/
def tomlRefusals : Refusals where
  value := fun sc =>
    match sc with
    | .unit => some "invalid type: unit value, expected any valid TOML value"
    | _ => none
  key := fun k =>
    match k with
    | .scalar (.str _) => none
    | _ => some "invalid type: expected a string"
  dup := fun _ _ => none

example :
    tomlTranscodeFrom DErr.wrap tomlRefusals
        (.map [(.scalar (.str [97]), .seq [.scalar (.u8 1), .scalar .unit] none)] none) =
      .errDe (.wrap (.wrap (.wrap
        (.custom "invalid type: unit value, expected any valid TOML value")))) := by
  decide

/-- The panic outcomes are real outcomes of the model, reachable as soon as the
assumptions about the third parties are dropped: a collection serializer that
serializes an element twice reaches `take_parent` on a taken parent … -/
example :
    let once := forwarderSerialize (σ := SerSt) (fun vis s => (.ok, vis, s, [])) .new {}
    (forwarderSerialize (σ := SerSt) (fun vis s => (.ok, vis, s, [])) once.2.1 {}).1 =
      .panic .parentTaken := by decide

/-- … and a seed that set `source = Ser` without capturing an error would reach
the `unwrap` in `transcode` with `None` (this is the invariant
`ser_source_has_error` rules out). -/
example :
    (transcodeWith (Script.step {}) DErr.wrap
      (fun _ _ _ seed s => (.err (.own 1), { seed with source := .ser }, s, []))
      (.seq [.scalar .unit] none) ({} : SerSt)).1 = .panic .unwrapNone := by decide

end Examples

#print axioms transcode_first_failure
#print axioms first_failure_de
#print axioms first_failure_de_independent
#print axioms first_failure_de_at_path
#print axioms first_failure_ser
#print axioms display_contains_cause
#print axioms no_panic_transcode
#print axioms ser_source_has_error
#print axioms transcode_faithful
#print axioms valuepath_faithful
#print axioms valuepath_first_failure
#print axioms toml_target_error_is_de_error
#print axioms d7_counterexample

end Xt.Props.C11
