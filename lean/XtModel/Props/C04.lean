import XtModel.Props.C03
import XtModel.Props.C07
import XtModel.Props.C09
import XtModel.Props.C11
import XtModel.Props.Json
import XtModel.Props.C18
import XtModel.Props.C04Sites

/-!
# C04 — Totality: no panic, abort, stack overflow or hang on any input

Every engine of xt's own code is modelled with its panic sites as explicit
outcomes (`unwrap`, `expect`, indexing, `split_off`, `drain`, unchecked
subtraction), and every model function is total and structurally (or
measure-) recursive — accepted by Lean's termination checker without `partial`
or fuel the code does not have — so the loops they model terminate on every
input.  "Never panics" is then a theorem per engine; this file collects them as
C04's obligations (absolute names in `props/C04.py`):

* input handle — `Xt.Props.C09.no_panic_input`, `…no_panic_ops`
* re-encoder — `Xt.Props.C07.no_fabrication` (both `from_u32_unchecked`
  arguments are scalar values; errors are values, never panics: the model has no
  panic outcome because the Rust has no panic site there)
* chunker — `Xt.Props.C03.no_panic_chunker`, `…no_panic_chunker_only_utf8`,
  `…trim_never_drainRange` (under the sampled hypothesis `EventsMonotone` about libyaml)
* transcoder — `Xt.Props.C11.no_panic_transcode` (`take_parent` at most once per
  state; the `unwrap` only with an error present)
* JSON loops — total functions with no panic site (`json.rs` has none);
  `Xt.Props.Json.json_depth_boundary` bounds the parser's recursion by 128
* MessagePack value-size calculator — `no_panic_msgsize`, `recursion_bounded` (C18 file)
* the source-derived inventory of panic sites is covered (C17 / `C04Sites` file).

What no theorem here can show — stack consumption per frame, allocation
failure, and the absence of panics / hangs INSIDE serde_json, rmp_serde,
serde_yaml/libyaml and toml — is the named hypothesis `NoPanic/Terminates` per
crate, sampled in-process under `catch_unwind` on the corpus and on the real
binaries (separate processes, default main-thread stack) with adversarial
shapes far beyond every limit.
-/
namespace Xt.Props.C04

/-- The decision list of detection is total and yields one of the three
outcomes for every combination of trial answers (no fourth "stuck" outcome). -/
theorem detect_total (m j y t : Xt.Detect.Trial) :
    (∃ f, Xt.Detect.detectFormat m j y t = .fmt f) ∨ Xt.Detect.detectFormat m j y t = .none ∨
      Xt.Detect.detectFormat m j y t = .ioErr := by
  cases h : Xt.Detect.detectFormat m j y t with
  | fmt f => exact Or.inl ⟨f, rfl⟩
  | none => exact Or.inr (Or.inl rfl)
  | ioErr => exact Or.inr (Or.inr rfl)

#print axioms detect_total
#print axioms Xt.Props.C09.no_panic_input
#print axioms Xt.Props.C09.no_panic_ops
#print axioms Xt.Props.C07.no_fabrication
#print axioms Xt.Props.C03.no_panic_chunker
#print axioms Xt.Props.C03.no_panic_chunker_only_utf8
#print axioms Xt.Props.C03.trim_never_drainRange
#print axioms Xt.Props.C11.no_panic_transcode
#print axioms Xt.Props.Json.json_depth_boundary

#print axioms Xt.Props.C18.no_panic_msgsize
#print axioms Xt.Props.C18.recursion_bounded
#print axioms Xt.Props.C04Sites.sites_covered_library

end Xt.Props.C04
