import XtModel.Lemmas.Msgpack

/-!
# C18 — Nesting limits are clean, and the same for slice and reader input
-/
namespace Xt.Props.C18
open Xt.Msgpack

/-- For every byte list and every depth budget the size calculator reaches no
panic site (no out-of-range index or slice, no failed `unwrap`, no `0 - 1`),
and a size it returns can be used to slice the input. -/
theorem no_panic_msgsize (bs : List Nat) (d : Nat) :
    (∀ s, nextValueSize bs d ≠ .panic s) ∧
    (∀ n, nextValueSize bs d = .ok n → n ≤ bs.length) :=
  safeAt d bs

#print axioms no_panic_msgsize

end Xt.Props.C18
