import XtModel.Lemmas.Msgpack

/-!
# C18 — Nesting limits are clean, and the same for slice and reader input

Property theorems about the model of `src/msgpack.rs` (`Model/MsgpackSize.lean`:
the size calculator, line for line; `Model/MsgpackCodec.lean`: rmp_serde's
`deserialize_any` with its depth counter as xt's visitor drives it, rmp_serde's
minimal-width serializer, and the slice loop and the reader loop of
`msgpack::transcode`).  Helper lemmas are in `Lemmas/Msgpack.lean`.

Obligations (listed in `props/C18.py`): `no_panic_msgsize`, `size_eq_extent`,
`size_ok_of_decode_ok`, `decode_accepts_only_within`, `decode_depth_irrelevant`,
`msgpack_depth_boundary`, `msgpack_depth_boundary_any_spelling`,
`msgpack_slice_eq_reader`, `depth_verdict_slice_eq_reader`, `recursion_bounded`,
`msgpack_roundtrip`, `msgpack_frame_recover`, `msgpack_fixed_point`,
`decoded_values_wellformed`, `msgpack_fixed_point_any_input`, `own_msgpack_first_byte`.

How the two depth counters relate (worked out from the code, then proved):
* `next_value_size(input, L)` fails with `DepthLimitExceeded` when it is *called*
  with `L = 0`; each collection passes `L - 1` to its elements.  So it rejects
  exactly when some value (scalar or not) sits inside `L` collections.
* rmp_serde's counter `d` is decremented when a collection **or an ext** is
  *entered*, and `DepthLimitExceeded` is raised when the decrement reaches 0.
  So it rejects exactly when some collection/ext is the `d`-th on its path.
Hence a scalar inside `n` collections is accepted by both iff `n ≤ L - 1` resp.
`n ≤ d - 1` (the same boundary for `L = d = 1024`: 1023 yes, 1024 no), while an
*empty* collection or an ext that is itself the 1024th is accepted by the
calculator and rejected by the decoder.  The calculator is therefore never
stricter (`size_ok_of_decode_ok`, for every `d ≤ L`), and since the slice arm
runs both, its verdict equals the reader arm's on every input
(`msgpack_slice_eq_reader`).
-/
namespace Xt.Props.C18
open Xt.Msgpack

/-! ## The size calculator cannot panic -/

/-- For every byte list and every depth budget the size calculator reaches no
panic site (no out-of-range index or slice, no failed `unwrap`, no `0 - 1`),
and a size it returns can be used to slice the input (so `split_at` in the
slice loop cannot panic either, and every `usize` sum it formed is bounded by
the input length). -/
theorem no_panic_msgsize (bs : List Nat) (d : Nat) :
    (∀ s, nextValueSize bs d ≠ .panic s) ∧
    (∀ n, nextValueSize bs d = .ok n → n ≤ bs.length) :=
  safeAt d bs

example : nextValueSize [0xdd, 0xff, 0xff, 0xff, 0xff, 0x01] 1024 = .truncated := by
  simp [nextValueSize, totalSeqSize, totalSeqLoop, classify, Marker.ofByte, sliceFrom,
    tryReadLength, beNat]

/-! ## Calculator size = decoder extent -/

/-- Whenever the decoder (with depth counter `d`, whether or not the visitor
accepts ext values) reads a value off the front of `bs`, the calculator with any
budget `L ≥ max d 1` returns exactly the number of bytes the decoder consumed. -/
theorem size_eq_extent (acceptExt : Bool) (d L : Nat) (hdL : d ≤ L) (hL : 1 ≤ L)
    (bs : List Nat) (v : MVal) (rest : List Nat)
    (h : decodeG acceptExt d bs = .ok (v, rest)) :
    nextValueSize bs L = .ok (bs.length - rest.length) :=
  extentAt acceptExt d L hdL hL bs v rest h

/-- The relation `d ≤ L` cannot be dropped: with a calculator budget below the
decoder's counter the calculator is stricter. -/
theorem size_eq_extent_needs_budget :
    decodeG false 2 [0x91, 0xc0] = .ok (.arr [.nil], []) ∧
    nextValueSize [0x91, 0xc0] 1 = .depthExceeded := by
  refine ⟨rfl, ?_⟩
  simp [nextValueSize, totalSeqSize, totalSeqLoop, classify, Marker.ofByte, sliceFrom]

example : nextValueSize [0x92, 0xa1, 0x78, 0xc3, 0xff] 1024 = .ok 4 :=
  size_eq_extent false 1024 1024 (by omega) (by omega) _ (.arr [.str [0x78], .bool true]) [0xff] rfl

/-- The calculator is never stricter than the decoder: what xt's deserializer
accepts with limit 1024, `next_value_size(_, 1024)` accepts. -/
theorem size_ok_of_decode_ok (bs : List Nat) (v : MVal) (rest : List Nat)
    (h : decode bs depthLimit = .ok (v, rest)) :
    ∃ n, nextValueSize bs depthLimit = .ok n ∧ n ≤ bs.length ∧ bs.drop n = rest := by
  have hs := size_eq_extent false depthLimit depthLimit (Nat.le_refl _) (by decide) bs v rest h
  have := (decodeG_local false depthLimit).suffix h
  exact ⟨_, hs, by omega, this.2⟩

/-- The converse fails (so the slice arm's verdict really is the conjunction of
the two): an empty collection that is itself the `d`-th is fine for the
calculator and too deep for the decoder.  (Shown at limit 2; the general
statement is `msgpack_depth_boundary` with an empty innermost collection.) -/
theorem calculator_laxer_than_decoder :
    nextValueSize [0x91, 0x90] 2 = .ok 2 ∧
    decodeG false 2 [0x91, 0x90] = .error .depthLimitExceeded ∧
    nextValueSize [0x91, 0xd4, 1, 2] 2 = .ok 4 ∧
    decodeG true 2 [0x91, 0xd4, 1, 2] = .error .depthLimitExceeded := by
  refine ⟨?_, rfl, ?_, rfl⟩ <;>
    simp [nextValueSize, totalSeqSize, totalSeqLoop, classify, Marker.ofByte, sliceFrom]

/-! ## What the decoder's depth counter accepts -/

/-- Everything the decoder accepts with counter `d` — any bytes, any spelling,
any shape — has fewer than `d` nested collections (an ext counting as one). -/
theorem decode_accepts_only_within (acceptExt : Bool) (d : Nat) (bs : List Nat) (v : MVal)
    (rest : List Nat) (h : decodeG acceptExt d bs = .ok (v, rest)) :
    v.nesting < d ∨ v.nesting = 0 :=
  decode_within acceptExt d bs v rest h

/-- A successful decode does not depend on the counter: every counter the
value nests within gives the same value and the same rest. -/
theorem decode_depth_irrelevant (acceptExt : Bool) (d' d : Nat) (bs : List Nat) (v : MVal)
    (rest : List Nat) (h : decodeG acceptExt d' bs = .ok (v, rest))
    (hw : v.nesting < d ∨ v.nesting = 0) :
    decodeG acceptExt d bs = .ok (v, rest) :=
  Xt.Msgpack.decode_depth_irrelevant acceptExt d' d bs v rest h hw

/-! ## The boundary: 1023 accepted, 1024 rejected, in both modes -/

/-- For every spelling `bs` of a value `v` (every width, every shape, values
in key position, empty innermost collections): with `DEPTH_LIMIT = 1024`,
if `v` has at most 1023 nested collections the calculator, the decoder, the
slice loop and the reader loop all accept it; if it has 1024 or more, the
decoder fails with exactly `DepthLimitExceeded` (no other error can come
first) and the translation fails in both modes with nothing translated. -/
theorem msgpack_depth_boundary_any_spelling (bs : List Nat) (v : MVal) (d' : Nat)
    (hsp : decodeG false d' bs = .ok (v, [])) :
    (v.nesting ≤ 1023 →
      decode bs depthLimit = .ok (v, []) ∧ nextValueSize bs depthLimit = .ok bs.length ∧
      sliceLoop false depthLimit depthLimit bs = ([v], .ok) ∧
      readerLoop false depthLimit bs = ([v], .ok)) ∧
    (1024 ≤ v.nesting →
      decode bs depthLimit = .error .depthLimitExceeded ∧
      readerLoop false depthLimit bs = ([], .decErr .depthLimitExceeded) ∧
      (sliceLoop false depthLimit depthLimit bs).2 ≠ .ok ∧
      (sliceLoop false depthLimit depthLimit bs).1 = []) := by
  constructor
  · intro hn
    exact accept_within false depthLimit (by decide) hsp (Or.inl (by unfold depthLimit; omega))
  · intro hn
    have hw : ¬ v.Within depthLimit := by unfold MVal.Within depthLimit; omega
    have h1 := reject_beyond false depthLimit (by decide) hsp hw
    have h2 := reject_beyond_depth false depthLimit (by decide) hsp hw
    exact ⟨h2.1, h2.2, h1.2.2.1, h1.2.2.2.2⟩

/-- The same for explicit nesting shapes.  A shape is a list of wrappers, each
a one-element array, a map with the inner value in value position, or a map
with the inner value in *key* position, with the header in any of its three
widths and any flat value as the other half of a map entry; the innermost
value is any flat value `core` (a scalar, string or bin: `cv.nesting = 0`), or
an empty collection (`cv.nesting = 1`).  With `n = ws.length` wrappers around
a flat value: `n ≤ 1023` ⇒ accepted by calculator, decoder and both loops;
`n ≥ 1024` ⇒ rejected in both modes.  Around an empty collection the count
includes that collection. -/
theorem msgpack_depth_boundary (ws : List Wrap) (hws : ∀ w ∈ ws, w.Ok false)
    (cv : MVal) (hcv : cv.WF false) (hflat : cv.nesting ≤ 1) :
    let bs := nestBytes ws (encode cv)
    let v := nestVal ws cv
    (ws.length + cv.nesting ≤ 1023 →
      decode bs depthLimit = .ok (v, []) ∧ nextValueSize bs depthLimit = .ok bs.length ∧
      sliceLoop false depthLimit depthLimit bs = ([v], .ok) ∧
      readerLoop false depthLimit bs = ([v], .ok)) ∧
    (1024 ≤ ws.length + cv.nesting →
      decode bs depthLimit = .error .depthLimitExceeded ∧
      readerLoop false depthLimit bs = ([], .decErr .depthLimitExceeded) ∧
      (sliceLoop false depthLimit depthLimit bs).2 ≠ .ok) := by
  intro bs v
  have hspell := nest_spells false ws hws (encode cv) cv 2 (by omega)
    (fun d r hd => roundtrip_val false cv d r hcv (by omega)) []
  simp only [List.append_nil] at hspell
  have hnest := nesting_nestVal false ws hws cv
  have h := msgpack_depth_boundary_any_spelling bs v _ hspell
  constructor
  · intro hn
    exact h.1 (by show (nestVal ws cv).nesting ≤ 1023; omega)
  · intro hn
    have := h.2 (by show 1024 ≤ (nestVal ws cv).nesting; omega)
    exact ⟨this.1, this.2.1, this.2.2.1⟩

/-- A concrete shape: `[{"k": {[nil]: 7}}]` in mixed widths. -/
example :
    let ws := [Wrap.arr .w16, Wrap.mapVal .fix (.str [0x6b]), Wrap.mapKey .w32 (.uint 7), Wrap.arr .fix]
    nestBytes ws (encode .nil) =
      [0xdc, 0, 1, 0x81, 0xa1, 0x6b, 0xdf, 0, 0, 0, 1, 0x91, 0xc0, 0x07] ∧
    sliceLoop false depthLimit depthLimit (nestBytes ws (encode .nil)) = ([nestVal ws .nil], .ok) := by
  intro ws
  refine ⟨rfl, ?_⟩
  have h := msgpack_depth_boundary ws
    (by
      intro w hw
      simp only [ws, List.mem_cons, List.not_mem_nil, or_false] at hw
      rcases hw with rfl | rfl | rfl | rfl <;> simp [Wrap.Ok, MVal.WF, MVal.nesting, validUtf8])
    .nil (by simp [MVal.WF]) (by simp [MVal.nesting])
  exact (h.1 (by simp [ws, MVal.nesting])).2.2.1

/-! ## Slice input and reader input give the same result -/

/-- For **every** byte string: the slice arm (`next_value_size` + one
deserializer per piece) and the reader arm (one deserializer per value, straight
from the stream) of `msgpack::transcode` translate the same documents, end with
the same verdict (success or failure), and the slice arm reaches neither the
`split_at` panic nor a panic inside the calculator.  (The partial output of the
document that fails is outside this model; the harness checks at byte level
that the slice output is a prefix of the reader output.) -/
theorem msgpack_slice_eq_reader (bs : List Nat) :
    (sliceLoop false depthLimit depthLimit bs).1 = (readerLoop false depthLimit bs).1 ∧
    ((sliceLoop false depthLimit depthLimit bs).2 = .ok ↔ (readerLoop false depthLimit bs).2 = .ok) ∧
    (sliceLoop false depthLimit depthLimit bs).2 ≠ .panicSplitAt ∧
    (∀ s, (sliceLoop false depthLimit depthLimit bs).2 ≠ .sizeErr (.panic s)) :=
  loops_agree false depthLimit depthLimit (Nat.le_refl _) (by decide) bs

/-- The same for any pair of budgets with `d ≤ L` (what keeps the two arms in
step if the constants are ever changed independently). -/
theorem msgpack_slice_eq_reader_budgets (acceptExt : Bool) (L d : Nat) (hdL : d ≤ L) (hL : 1 ≤ L)
    (bs : List Nat) :
    (sliceLoop acceptExt L d bs).1 = (readerLoop acceptExt d bs).1 ∧
    ((sliceLoop acceptExt L d bs).2 = .ok ↔ (readerLoop acceptExt d bs).2 = .ok) :=
  ⟨(loops_agree acceptExt L d hdL hL bs).1, (loops_agree acceptExt L d hdL hL bs).2.1⟩

/-- Whether a nesting limit is hit does not depend on the supply mode. -/
theorem depth_verdict_slice_eq_reader (bs : List Nat) :
    (sliceLoop false depthLimit depthLimit bs).2 = .ok ↔ (readerLoop false depthLimit bs).2 = .ok :=
  (msgpack_slice_eq_reader bs).2.1

example : sliceLoop false depthLimit depthLimit [0x91, 0x01, 0xc1, 0x02] =
    ([.arr [.uint 1]], .sizeErr .invalidMarker) ∧
    readerLoop false depthLimit [0x91, 0x01, 0xc1, 0x02] = ([.arr [.uint 1]], .decErr .reserved) := by
  constructor
  · rw [sliceLoop_cons _ _ _ (by simp)]
    have h1 : nextValueSize [0x91, 0x01, 0xc1, 0x02] depthLimit = .ok 2 :=
      size_eq_extent false depthLimit depthLimit (by omega) (by decide) _ (.arr [.uint 1]) [0xc1, 0x02] rfl
    have h2 : decodeG false depthLimit (List.take 2 [0x91, 0x01, 0xc1, 0x02]) = .ok (.arr [.uint 1], []) := rfl
    simp only [h1, List.length_cons, List.length_nil, h2]
    rw [sliceLoop_cons _ _ _ (by simp)]
    simp [nextValueSize, classify, Marker.ofByte, depthLimit]
  · rw [readerLoop_ok false depthLimit (v := .arr [.uint 1]) (rest := [0xc1, 0x02]) rfl,
      readerLoop_err false depthLimit (e := .reserved) (by simp) rfl]

/-! ## Recursion is bounded by the budget -/

/-- The instrumented calculator computes the same result as the model, and the
deepest nesting of `next_value_size` frames it reaches is at most
`depth_limit + 1` (at most `3 · depth_limit + 1` frames of the three functions
together: the stack the calculator needs is bounded by the budget, whatever
the input). -/
theorem recursion_bounded (bs : List Nat) (d : Nat) :
    (nextValueSizeI bs d).1 = nextValueSize bs d ∧ (nextValueSizeI bs d).2 ≤ d + 1 :=
  instrAt d bs

/-! ## The MessagePack codec: round trip, framing, fixed point, first byte -/

/-- For every well-formed value (numbers within their wire range, lengths
below 2^32, `str` holding well-formed UTF-8, ext values only if the visitor
accepts them) with fewer than `d` nested collections, and any following bytes
`r`: decoding the encoder's output gives back the value and leaves `r`. -/
theorem msgpack_roundtrip (acceptExt : Bool) (v : MVal) (d : Nat) (r : List Nat)
    (hwf : v.WF acceptExt) (hn : v.nesting < d) :
    decodeG acceptExt d (encode v ++ r) = .ok (v, r) :=
  roundtrip_val acceptExt v d r hwf hn

example : decode (encode (.map [(.str [0x61], .arr [.nint 33, .f64 0, .bin [1, 2]])])) 3 =
    .ok (.map [(.str [0x61], .arr [.nint 33, .f64 0, .bin [1, 2]])], []) := by
  have := msgpack_roundtrip false (.map [(.str [0x61], .arr [.nint 33, .f64 0, .bin [1, 2]])]) 3 []
    (by simp [MVal.WF, WFPairs, WFList, validUtf8]) (by simp [MVal.nesting, nestingPairs, nestingList])
  simpa using this

/-- `str` holding ill-formed UTF-8 is outside the well-formed values on
purpose: rmp_serde hands such a string to the visitor as bytes, so it comes
back as `bin`. -/
theorem illformed_str_becomes_bin :
    decode (encode (.str [0xff])) 1 = .ok (.bin [0xff], []) := rfl

/-- `decodeMany (docs.flatMap encode) = docs`: the reader recovers exactly the
documents that were written, in order. -/
theorem msgpack_frame_recover (docs : List MVal) (d : Nat)
    (hwf : ∀ v ∈ docs, v.WF false) (hn : ∀ v ∈ docs, v.nesting < d) :
    decodeMany (docs.flatMap encode) d = (docs, .ok) :=
  frame_recover false d docs hwf hn

/-- `encode (decode (encode v)) = encode v`. -/
theorem msgpack_fixed_point (v : MVal) (d : Nat) (hwf : v.WF false) (hn : v.nesting < d) :
    ∃ v', decode (encode v) d = .ok (v', []) ∧ encode v' = encode v :=
  ⟨v, by simpa using roundtrip_val false v d [] hwf hn, rfl⟩

/-- Every value the decoder produces from bytes is well-formed (in the wire
range of its type, lengths below 2^32, `str` well-formed UTF-8) and nests
within the counter — so the round-trip theorem applies to it. -/
theorem decoded_values_wellformed (acceptExt : Bool) (d : Nat) (bs : List Nat) (v : MVal)
    (rest : List Nat) (hb : ∀ c ∈ bs, c < 256) (h : decodeG acceptExt d bs = .ok (v, rest)) :
    v.WF acceptExt ∧ (v.nesting < d ∨ v.nesting = 0) :=
  ⟨decode_wf acceptExt d bs v rest hb h, decode_within acceptExt d bs v rest h⟩

/-- The fixed point for **every input**, whatever its spelling: what xt read
from any bytes, once written by the serializer, reads back as the same value;
and at the level of whole translations, `xt(m→m)(xt(m→m)(x)) = xt(m→m)(x)`:
the documents written by one translation are exactly the documents the next
one reads, and it succeeds. -/
theorem msgpack_fixed_point_any_input (bs : List Nat) (hb : ∀ c ∈ bs, c < 256) :
    (∀ v rest, decode bs depthLimit = .ok (v, rest) →
      decode (encode v) depthLimit = .ok (v, [])) ∧
    decodeMany (((decodeMany bs depthLimit).1).flatMap encode) depthLimit =
      ((decodeMany bs depthLimit).1, .ok) := by
  constructor
  · intro v rest h
    simpa using reencode_fixed_point false depthLimit (by decide) bs v rest hb h []
  · exact m2m_idempotent false depthLimit (by decide) bs hb

/-- The first byte of an encoded array or map is a collection marker — what
`input_matches` looks for — whatever the collection contains. -/
theorem own_msgpack_first_byte :
    (∀ xs : List MVal, ∃ b t, encode (.arr xs) = b :: t ∧
      (Marker.ofByte b = .fixArray xs.length ∨ Marker.ofByte b = .array16 ∨
       Marker.ofByte b = .array32)) ∧
    (∀ kvs : List (MVal × MVal), ∃ b t, encode (.map kvs) = b :: t ∧
      (Marker.ofByte b = .fixMap kvs.length ∨ Marker.ofByte b = .map16 ∨
       Marker.ofByte b = .map32)) :=
  ⟨encode_arr_first, encode_map_first⟩

#print axioms no_panic_msgsize
#print axioms size_eq_extent
#print axioms size_eq_extent_needs_budget
#print axioms size_ok_of_decode_ok
#print axioms calculator_laxer_than_decoder
#print axioms decode_accepts_only_within
#print axioms decode_depth_irrelevant
#print axioms msgpack_depth_boundary_any_spelling
#print axioms msgpack_depth_boundary
#print axioms msgpack_slice_eq_reader
#print axioms msgpack_slice_eq_reader_budgets
#print axioms depth_verdict_slice_eq_reader
#print axioms recursion_bounded
#print axioms msgpack_roundtrip
#print axioms illformed_str_becomes_bin
#print axioms msgpack_frame_recover
#print axioms msgpack_fixed_point
#print axioms decoded_values_wellformed
#print axioms msgpack_fixed_point_any_input
#print axioms own_msgpack_first_byte

end Xt.Props.C18
