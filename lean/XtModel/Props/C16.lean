import XtModel.Lemmas.CliRunEpipe
import XtModel.Lemmas.CliOk
import XtModel.Props.C13

/-!
# C16 — Broken pipes and other write errors at the CLI  (partial)

About `pipecheck::Writer` (`checkForBrokenPipe`, the five `Writer.*` methods)
over the model of `BufWriter<StdoutLock>`, and about `main` on top of it, for
**every** behaviour of file descriptor 1 (`Fd`: an arbitrary answer — accept
all, accept part, `EPIPE`, any other error — to each write and flush).

The model's outcome `killedBySigpipe` stands for
`signal(SIGPIPE, SIG_DFL); raise(SIGPIPE)`.  What the kernel then does (that the
process dies by signal 13 with nothing more written) is not modelled: it is
observed on real processes by the correspondence run (a consumer that closes
the pipe after k bytes).  That is why this property is claimed as partial.

Also not covered by these theorems, by the code's design: help and version
output does not go through the wrapper and ignores write errors
(`C13.help_write_errors_ignored`).

Obligations: `broken_pipe_never_returned`, `wrapper_outermost`, `cli_epipe_outcome`,
`cli_other_write_error`, `exit0_nothing_missing`.
-/
namespace Xt.Props.C16
open Xt.Cli

/-- **No `Writer` method ever returns a `BrokenPipe` error.**
`check_for_broken_pipe` ends in `killedBySigpipe` exactly for a `BrokenPipe`
error and passes every other result through unchanged; so each of the five
methods, for every state of the stack, every argument and every descriptor
behaviour, either is killed or returns something that is not `BrokenPipe`. -/
theorem broken_pipe_never_returned :
    (∀ (α : Type) (r : IoR α), (checkForBrokenPipe r = .killedBySigpipe ↔ r = .error .brokenPipe) ∧
        (r ≠ .error .brokenPipe → checkForBrokenPipe r = .returned r)) ∧
    (∀ (fd : Fd) (o : Out) (b : Bytes) (bs : List Bytes),
        (Writer.write fd o b).1 ≠ .returned (.error .brokenPipe) ∧
        (Writer.flush fd o).1 ≠ .returned (.error .brokenPipe) ∧
        (Writer.writeAll fd o b).1 ≠ .returned (.error .brokenPipe) ∧
        (Writer.writeFmt fd o bs).1 ≠ .returned (.error .brokenPipe) ∧
        (Writer.writeVectored fd o bs).1 ≠ .returned (.error .brokenPipe)) := by
  constructor
  · intro α r
    refine ⟨check_killed_iff r, fun h => ?_⟩
    cases r with
    | ok v => rfl
    | error e =>
      cases e with
      | brokenPipe => exact absurd rfl h
      | other m => rfl
  · intro fd o b bs
    simp only [Writer.write, Writer.flush, Writer.writeAll, Writer.writeFmt, Writer.writeVectored]
    exact ⟨check_never_returns_epipe _, check_never_returns_epipe _, check_never_returns_epipe _,
      check_never_returns_epipe _, check_never_returns_epipe _⟩

/-- **The wrapper is outermost**: on every path a byte can take from a
serializer to the descriptor — appended to the buffer, written directly because
it is large, flushed out of the buffer to make room inside a later write,
flushed explicitly — an `EPIPE` answer of the descriptor comes out of the
`BufWriter` method as its `BrokenPipe` error and so ends in the wrapper's
kill.  Stated per method: started with no `EPIPE` met so far, after the call
an `EPIPE` has been met if and only if the call was killed. -/
theorem wrapper_outermost (fd : Fd) (o : Out) (h0 : o.fd.epipe = false) (b : Bytes) (bs : List Bytes) :
    ((Writer.write fd o b).2.fd.epipe = true ↔ (Writer.write fd o b).1 = .killedBySigpipe) ∧
    ((Writer.flush fd o).2.fd.epipe = true ↔ (Writer.flush fd o).1 = .killedBySigpipe) ∧
    ((Writer.writeAll fd o b).2.fd.epipe = true ↔ (Writer.writeAll fd o b).1 = .killedBySigpipe) ∧
    ((Writer.writeFmt fd o bs).2.fd.epipe = true ↔ (Writer.writeFmt fd o bs).1 = .killedBySigpipe) ∧
    ((Writer.writeVectored fd o bs).2.fd.epipe = true ↔ (Writer.writeVectored fd o bs).1 = .killedBySigpipe) := by
  have key : ∀ {α : Type} (r : IoR α) (s' : FdSt), Tracks o.fd s' (errOf r) →
      (s'.epipe = true ↔ checkForBrokenPipe r = .killedBySigpipe) := by
    intro α r s' ht
    rw [check_killed_iff, ht.1, h0]
    cases r with
    | ok v => simp [errOf]
    | error e => cases e <;> simp [errOf]
  refine ⟨?_, ?_, ?_, ?_, ?_⟩
  · have := bwWrite_tracks fd o b
    simp only [Writer.write]; cases hw : bwWrite fd o b with
    | mk r o1 => rw [hw] at this; exact key r o1.fd this
  · have := bwFlush_tracks fd o
    simp only [Writer.flush]; cases hw : bwFlush fd o with
    | mk r o1 => rw [hw] at this; exact key r o1.fd this
  · have := bwWriteAll_tracks fd o b
    simp only [Writer.writeAll]; cases hw : bwWriteAll fd o b with
    | mk r o1 => rw [hw] at this; exact key r o1.fd this
  · have := bwWriteFmt_tracks fd bs o
    simp only [Writer.writeFmt]; cases hw : bwWriteFmt fd o bs with
    | mk r o1 => rw [hw] at this; exact key r o1.fd this
  · have := bwWriteVectored_tracks fd o bs
    simp only [Writer.writeVectored]; cases hw : bwWriteVectored fd o bs with
    | mk r o1 => rw [hw] at this; exact key r o1.fd this

/-- A run that gets as far as translating: valid command line, terminal guard not firing. -/
def Translating (w : World) (args : List Str) : Prop :=
  ∃ paths cf to, parseArgs args = .ok paths cf to ∧ ¬ (w.isTty = true ∧ unsafeForTerminal to = true)

theorem run_eq_mainLoop {w : World} {args : List Str} (h : Translating w args) :
    ∃ paths cf to, run w args = mainLoop w cf to (inputPaths paths) LoopSt.init := by
  obtain ⟨paths, cf, to, hp, hg⟩ := h
  exact ⟨paths, cf, to, by simp only [run, hp, hg, if_false]⟩

/-- **`EPIPE` at any write or flush ⇒ killed by SIGPIPE, nothing on stderr,
never status 0** — for every argv, file system, library behaviour and
descriptor behaviour: a translating run met an `EPIPE` answer (anywhere: in a
library write, in a flush of the buffer inside one, in the per-input flush) if
and only if it ends killed by SIGPIPE; then standard error is empty; and a run
that ends with status 0 or 1 met none. -/
theorem cli_epipe_outcome (w : World) (hflush : w.perInputFlush = true) (args : List Str)
    (ht : Translating w args) :
    ((run w args).out.fd.epipe = true ↔ (run w args).exit = .sigpipe) ∧
    ((run w args).exit = .sigpipe → (run w args).stderr = []) ∧
    ((run w args).out.fd.epipe = true → (run w args).exit ≠ .code 0 ∧ (run w args).exit ≠ .code 1) := by
  obtain ⟨paths, cf, to, hr⟩ := run_eq_mainLoop ht
  have hf := mainLoop_flags w hflush cf to (inputPaths paths)
  rw [← hr] at hf
  refine ⟨hf.1, fun h => ((C13.exit_code_spec w args).2.2.2.2.2) (.inr h), fun h => ?_⟩
  have := hf.1.1 h
  rw [this]; simp

/-- **Any other write failure ends the run with status 1 and an error
message**: when the descriptor answered some write or flush of a translating
run with an error other than `EPIPE`, the run ends with status 1 and standard
error starts with `xt error`.  (When the failing operation is a write inside
the library call, the message is `xt error in <input>: <the library's error>`;
when it is the per-input flush, `xt error: <the descriptor's error>` —
`step_cases`.) -/
theorem cli_other_write_error (w : World) (hflush : w.perInputFlush = true) (args : List Str)
    (ht : Translating w args) (herr : (run w args).out.fd.oerr = true) :
    (run w args).exit = .code 1 ∧ xtError <+: (run w args).stderr := by
  obtain ⟨paths, cf, to, hr⟩ := run_eq_mainLoop ht
  have hf := mainLoop_flags w hflush cf to (inputPaths paths)
  rw [← hr] at hf
  have h1 := hf.2 herr
  exact ⟨h1, (C13.exit_code_spec w args).2.2.2.2.1 h1⟩

/-- **Never status 0 with output missing** — for every descriptor behaviour: a
translating run that ends with status 0 has delivered to standard output
exactly the concatenated library output of one call per input. -/
theorem exit0_nothing_missing (w : World) (hflush : w.perInputFlush = true) (args : List Str)
    (paths : List Str) (cf : Option Fmt) (to : Fmt) (hp : parseArgs args = .ok paths cf to)
    (h0 : (run w args).exit = .code 0) :
    (run w args).stdout = libOutput w (run w args).calls ∧
    (run w args).calls.map (·.1) = inputPaths paths := by
  have hg : ¬ (w.isTty = true ∧ unsafeForTerminal to = true) := by
    intro hg; simp [run, hp, hg, exitWith] at h0
  have hr : run w args = mainLoop w cf to (inputPaths paths) LoopSt.init := by
    simp only [run, hp, hg, if_false]
  rw [hr] at h0 ⊢
  obtain ⟨a, _, c⟩ := mainLoop_exit0_any w hflush cf to (inputPaths paths) h0
  exact ⟨a, c⟩

/-! ## Non-vacuity -/

/-- A descriptor that accepts 5 bytes and then answers `e`; a library that
writes 4 bytes per call. -/
def exWorld (e : IoErr) : World :=
  { argv0 := "xt".toList, version := "xt 0".toList,
    fs := fun _ => .regular [1],
    stdin := [], isTty := false,
    fd := fun _ acc => if acc ≥ 5 then .err e else .upTo (5 - acc),
    lib := { run := fun _ _ => { events := [.writeAll [1, 2, 3, 4]], result := none },
             onWriteErr := fun _ _ _ e => e.display } }

/-- `xt a b` on that world is a translating run (hypothesis of the two CLI theorems). -/
example (e : IoErr) : Translating (exWorld e) [['a'], ['b']] :=
  ⟨[['a'], ['b']], none, .json, by rw [parseArgs_eq_ref]; decide, by simp [exWorld]⟩

/-- The inner results for which the wrapper kills, and for which it does not. -/
example : checkForBrokenPipe (.error .brokenPipe : IoR Unit) = .killedBySigpipe := rfl
example : checkForBrokenPipe (.error (.other ['x']) : IoR Unit) = .returned (.error (.other ['x'])) := rfl
example : checkForBrokenPipe (.ok 3 : IoR Nat) = .returned (.ok 3) := rfl

#print axioms broken_pipe_never_returned
#print axioms wrapper_outermost
#print axioms cli_epipe_outcome
#print axioms cli_other_write_error
#print axioms exit0_nothing_missing

end Xt.Props.C16
