import XtModel.Generated.PanicSites
import XtModel.Model.Sites

/-!
# The inventory obligations that belong to C17 alone

Kept apart from `Props/C04Sites.lean` (the whole-library inventory, C04's) so
that a new indexing or arithmetic site in a file C17 is not about — which
breaks C04's obligation — does not break C17's.
-/
namespace Xt.Props.C17Sites
open Xt.Sites

/-- Every site that exists because of `unsafe` is accounted for by a
precondition theorem or a `delegated:` tag — not by any other reason tag. -/
theorem unsafe_sites_covered :
    uncovered (Xt.Generated.sites.filter isUnsafeKind) (covered.filter isUnsafeAccount) = [] := by decide

/-- `unsafeAccounts` holds only theorem names and `delegated:` tags. -/
theorem unsafe_accounts_wellformed :
    unsafeAccounts.all (fun n => hasPrefix "Xt." n || hasPrefix "delegated:" n) = true := by decide

/-- The sites of the files C17 is about (parser.rs, chunker.rs, encoding.rs). -/
theorem c17_sites_covered : uncoveredModuloMoves (Xt.Generated.sites.filter isC17) covered = [] := by decide

/-- An `unsafe` site keeps the strict rule: moved to another function it is reported. -/
example : uncoveredModuloMoves [("src/yaml/chunker/parser.rs", "Parser::helper", "unsafe_block", 1)] covered
    = [("src/yaml/chunker/parser.rs", "Parser::helper", "unsafe_block", 1)] := by decide

/-- …and an unsafe site explained by a tag that is not `delegated:` is rejected. -/
example : uncovered [("src/yaml/chunker/parser.rs", "Parser::new", "panic", 1)] (covered.filter isUnsafeAccount)
    = [("src/yaml/chunker/parser.rs", "Parser::new", "panic", 1)] := by decide

#print axioms unsafe_sites_covered
#print axioms unsafe_accounts_wellformed
#print axioms c17_sites_covered

end Xt.Props.C17Sites
