import XtModel.Lemmas.CliRun

/-!
# C13 — CLI exit status and stream discipline

Theorems about `Xt.Cli.run` (the model of `main`, `parse_args`, `xt_bail!`,
`xt_bail_path!` and of lexopt's parser), for **every** argument vector, file
system, standard input, terminal flag, behaviour of file descriptor 1 and
library behaviour.

Reading of "exactly when the command line is invalid": `argv` is processed left
to right and the first decisive token wins — `xt -h -x` prints help and exits
0, `xt -x -h` exits 2 (`first_decisive_token`, `help_then_error_vs_error_then_help`).  "An argv error is reached
first" is `parseArgs args = .err e`; `parseArgs_eq_ref` (Lemmas/CliArgs) shows
that `parseArgs` — lexopt's state machine driven by the `parse_args` loop — is
the plain left-to-right reading `refParse` of the command line.

Outside the model: non-UTF-8 arguments; failures of writes to standard error.

Obligations: `never_panics`, `exit_code_spec`, `exit1_names_input`, `stdout_only_data`,
`msgpack_never_to_tty`, `aliases`, `first_decisive_token`, `help_then_error_vs_error_then_help`,
`help_write_errors_ignored`.
-/
namespace Xt.Props.C13
open Xt.Cli

/-- `-V`, `--version`, `-h` or `--help` is reached before any argument error. -/
def HelpFirst (args : List Str) : Prop :=
  parseArgs args = .version ∨ parseArgs args = .shortHelp ∨ parseArgs args = .longHelp

/-- The terminal guard of `main`. -/
def Guard (w : World) (to : Fmt) : Prop := w.isTty = true ∧ to = .msgpack

/-- Every input is opened, is not a second use of standard input, is translated
by the library with every write accepted, and is flushed: the loop passes all
of `paths` (`step_cases` spells out what passing one input means). -/
def AllTranslated (w : World) (cf : Option Fmt) (to : Fmt) (paths : List InputPath) : Prop :=
  ∃ s', foldSteps w cf to paths LoopSt.init = some s'

theorem guard_iff (w : World) (to : Fmt) : (w.isTty = true ∧ unsafeForTerminal to = true) ↔ Guard w to := by
  cases to <;> simp [Guard, unsafeForTerminal]

/-- lexopt's `expect`/`unwrap`/slice sites are never reached from `parse_args`. -/
theorem never_panics (w : World) (args : List Str) (site : Site) :
    parseArgs args ≠ .panic site ∧ (run w args).exit ≠ .panic site := by
  have h1 : parseArgs args ≠ .panic site := by
    rw [parseArgs_eq_ref]; exact refParse_ne_panic _ _ _ _
  refine ⟨h1, ?_⟩
  unfold run
  cases hp : parseArgs args with
  | panic s => rw [parseArgs_eq_ref] at hp; exact absurd hp (refParse_ne_panic _ _ _ _)
  | err e => simp [exitWith]
  | version => simp [printAndExit0]
  | shortHelp => simp [printAndExit0]
  | longHelp => simp [printAndExit0]
  | ok paths cf to =>
    simp only
    split
    · simp [exitWith]
    · rcases mainLoop_exit w cf to (inputPaths paths) LoopSt.init with ⟨h, _⟩ | ⟨h, _⟩ | ⟨h, _⟩ <;> simp [h]

/-- **Exit status.**  For every argv, file system, stdin, tty flag, descriptor and library:
* the status is 0, 1, 2 or death by SIGPIPE;
* 2 ⇔ an argument error is reached first; then nothing is on stdout, no
  library call was made, and stderr is `xt error: <message>` + the usage text;
* 0 ⇔ help/version is reached first, or the command line is valid, the
  terminal guard does not fire and every input is translated and flushed;
* otherwise 1 (or SIGPIPE), and at status 1 stderr starts with `xt error`. -/
theorem exit_code_spec (w : World) (args : List Str) :
    ((run w args).exit = .code 0 ∨ (run w args).exit = .code 1 ∨ (run w args).exit = .code 2 ∨
        (run w args).exit = .sigpipe) ∧
    ((run w args).exit = .code 2 ↔ ∃ e, parseArgs args = .err e) ∧
    (∀ e, parseArgs args = .err e →
        (run w args).stdout = [] ∧ (run w args).calls = [] ∧
        (run w args).stderr = xtError ++ ": ".toList ++ e.display ++ ['\n'] ++ shortHelpText w.argv0) ∧
    ((run w args).exit = .code 0 ↔
        HelpFirst args ∨
        ∃ paths cf to, parseArgs args = .ok paths cf to ∧ ¬ Guard w to ∧ AllTranslated w cf to (inputPaths paths)) ∧
    ((run w args).exit = .code 1 → xtError <+: (run w args).stderr) ∧
    ((run w args).exit = .code 0 ∨ (run w args).exit = .sigpipe → (run w args).stderr = []) := by
  unfold run HelpFirst
  cases hp : parseArgs args with
  | panic s => exact absurd hp (never_panics w args s).1
  | err e =>
    refine ⟨by simp [exitWith], by simp [exitWith], ?_, by simp [exitWith], by simp [exitWith], by simp [exitWith]⟩
    intro e' he; injection he with he; subst he
    simp [exitWith, Run.stdout, Out.init, FdSt.init, bailLine]
  | version => simp [printAndExit0]
  | shortHelp => simp [printAndExit0]
  | longHelp => simp [printAndExit0]
  | ok paths cf to =>
    simp only
    by_cases hg : w.isTty = true ∧ unsafeForTerminal to = true
    · have hG := (guard_iff w to).1 hg
      simp only [hg, and_self, if_true]
      refine ⟨by simp [exitWith], by simp [exitWith], by simp, ?_, ?_, by simp [exitWith]⟩
      · simp only [exitWith]
        constructor
        · intro h; simp at h
        · rintro (h | ⟨p, c, t, h1, h2, _⟩)
          · simp at h
          · injection h1 with _ _ ht; subst ht; exact absurd hG h2
      · intro _; simp [exitWith, bailLine]
    · have hG : ¬ Guard w to := fun h => hg ((guard_iff w to).2 h)
      simp only [hg, if_false]
      rcases mainLoop_exit w cf to (inputPaths paths) LoopSt.init with
        ⟨h1, h2, h3⟩ | ⟨h1, h2, p, _, h3⟩ | ⟨h1, h2, h3⟩
      · refine ⟨.inl h1, by simp [h1], by simp, ?_, by simp [h1], fun _ => h2⟩
        constructor
        · intro _; exact .inr ⟨paths, cf, to, rfl, hG, h3⟩
        · intro _; exact h1
      · refine ⟨.inr (.inl h1), by simp [h1], by simp, ?_, ?_, by simp [h1]⟩
        · constructor
          · intro h; rw [h1] at h; simp at h
          · rintro (h | ⟨p', c', t', e1, _, s', e3⟩)
            · simp at h
            · injection e1 with e1 e2 e4; subst e1 e2 e4; rw [h2] at e3; simp at e3
        · intro _
          rcases h3 with ⟨m, e⟩ | e | ⟨m, e⟩ <;> rw [e] <;> simp only [bailPathLine, bailLine, List.append_assoc] <;>
            exact List.prefix_append _ _
      · refine ⟨.inr (.inr (.inr h1)), by simp [h1], by simp, ?_, by simp [h1], fun _ => h3⟩
        constructor
        · intro h; rw [h1] at h; simp at h
        · rintro (h | ⟨p', c', t', e1, _, s', e3⟩)
          · simp at h
          · injection e1 with e1 e2 e4; subst e1 e2 e4; rw [h2] at e3; simp at e3

/-- **Status 1 names the offending input** whenever the failure belongs to
one: when the loop has passed `pre` and the next input `p` cannot be opened, or
the library fails on it, the run ends with status 1 and stderr is exactly
`xt error in <p>: <message>` (`<p>` is the path as given, or `standard input`). -/
theorem exit1_names_input (w : World) (cf : Option Fmt) (to : Fmt) (pre post : List InputPath) (p : InputPath)
    (s' : LoopSt) (hpre : foldSteps w cf to pre LoopSt.init = some s') :
    (∀ msg, p.open w.fs = .error msg →
        (mainLoop w cf to (pre ++ p :: post) LoopSt.init).exit = .code 1 ∧
        (mainLoop w cf to (pre ++ p :: post) LoopSt.init).stderr =
          xtError ++ " in ".toList ++ p.display ++ ": ".toList ++ msg ++ ['\n']) ∧
    (∀ input o1 msg, Translated w cf to s' p input (.failed msg) o1 →
        (mainLoop w cf to (pre ++ p :: post) LoopSt.init).exit = .code 1 ∧
        (mainLoop w cf to (pre ++ p :: post) LoopSt.init).stderr =
          xtError ++ " in ".toList ++ p.display ++ ": ".toList ++ msg ++ ['\n']) := by
  constructor
  · intro msg h
    rw [mainLoop_of_stop hpre (step_of_open_error h)]
    exact ⟨rfl, rfl⟩
  · intro input o1 msg h
    rw [mainLoop_of_stop hpre (step_of_failed h)]
    exact ⟨rfl, rfl⟩

/-- **Standard output carries only translated data, or exactly the requested
help/version text** (descriptor accepting everything): an argument error and
the terminal guard write nothing; help and version write exactly their text
and make no library call; a translation run writes a prefix of the
concatenated library output of the calls it made — all of it at status 0. -/
theorem stdout_only_data (w : World) (h : GoodFd w.fd) (hf : w.perInputFlush = true) (args : List Str) :
    (parseArgs args = .version → (run w args).stdout = utf8 (w.version ++ ['\n']) ∧ (run w args).calls = []) ∧
    (parseArgs args = .shortHelp → (run w args).stdout = utf8 (shortHelpText w.argv0) ∧ (run w args).calls = []) ∧
    (parseArgs args = .longHelp →
      (run w args).stdout = utf8 (longHelpText w.version w.argv0) ∧ (run w args).calls = []) ∧
    ((∃ e, parseArgs args = .err e) → (run w args).stdout = []) ∧
    (∀ paths cf to, parseArgs args = .ok paths cf to →
      (run w args).stdout <+: libOutput w (run w args).calls ∧
      ((run w args).exit = .code 0 → (run w args).stdout = libOutput w (run w args).calls)) := by
  have hprint : ∀ text, (printAndExit0 w text).stdout = utf8 text ∧ (printAndExit0 w text).calls = [] := by
    intro text
    obtain ⟨_, h2, _⟩ := writeLoop_good h writeZeroWhole (utf8 text) FdSt.init
    refine ⟨?_, rfl⟩
    show (writeLoop w.fd writeZeroWhole (utf8 text) FdSt.init).2.1.accepted = utf8 text
    rw [h2]; rfl
  refine ⟨?_, ?_, ?_, ?_, ?_⟩
  · intro hp; simp only [run, hp]; exact hprint _
  · intro hp; simp only [run, hp]; exact hprint _
  · intro hp; simp only [run, hp]; exact hprint _
  · rintro ⟨e, hp⟩; simp [run, hp, exitWith, Run.stdout, Out.init, FdSt.init]
  · intro paths cf to hp
    simp only [run, hp]
    split
    · simp [exitWith, Run.stdout, Out.init, FdSt.init, libOutput, outputsFrom]
    · rcases mainLoop_good w h hf cf to (inputPaths paths) with ⟨e1, _, e3, _⟩ |
        ⟨e1, pre, p, post, s', _, _, _, _, _, (⟨c1, c2⟩ | ⟨input, q, _, c1, c2, c3⟩)⟩
      · exact ⟨by rw [e3]; exact List.prefix_refl _, fun _ => e3⟩
      · refine ⟨by rw [c1, c2]; exact List.prefix_refl _, fun h0 => ?_⟩
        rw [e1] at h0; simp at h0
      · refine ⟨?_, fun h0 => ?_⟩
        · rw [c1, c2]; simp only [callsAfter, libOutput_append]
          obtain ⟨t, ht⟩ := c3
          exact ⟨t, by rw [← ht, List.append_assoc]⟩
        · rw [e1] at h0; simp at h0

/-- **MessagePack is never written to a terminal**: with standard output a
terminal and MessagePack the target, nothing is written, no library call is
made, the status is 1 and the message is the refusal. -/
theorem msgpack_never_to_tty (w : World) (args : List Str) (paths : List Str) (cf : Option Fmt)
    (htty : w.isTty = true) (hp : parseArgs args = .ok paths cf .msgpack) :
    (run w args).stdout = [] ∧ (run w args).calls = [] ∧ (run w args).exit = .code 1 ∧
      (run w args).stderr = "xt error: refusing to output MessagePack to a terminal\n".toList := by
  simp only [run, hp, htty, unsafeForTerminal, and_self, if_true]
  exact ⟨rfl, rfl, rfl, by decide⟩

/-- Conversely, whatever reaches a terminal is not MessagePack. -/
theorem tty_output_not_msgpack (w : World) (args : List Str) (paths : List Str) (cf : Option Fmt) (to : Fmt)
    (htty : w.isTty = true) (hp : parseArgs args = .ok paths cf to) (hout : (run w args).stdout ≠ []) :
    to ≠ .msgpack := by
  intro h; subst h
  exact hout (msgpack_never_to_tty w args paths cf htty hp).1

/-- The eight names, as strings. -/
def formatNames : List (Str × Fmt) :=
  [("j".toList, .json), ("json".toList, .json), ("m".toList, .msgpack), ("msgpack".toList, .msgpack),
   ("t".toList, .toml), ("toml".toList, .toml), ("y".toList, .yaml), ("yaml".toList, .yaml)]

/-- **Exactly the eight names parse; every other string is an argument error**
wherever a format name is expected (`-t NAME`, `-tNAME`, `-t=NAME`, and the same for `-f`). -/
theorem aliases (s : Str) :
    (∀ f, tryParseFormat s = some f ↔ (s, f) ∈ formatNames) ∧
    (tryParseFormat s = none →
      ∀ (w : World) (rest : List Str),
        (run w (['-', 't'] :: s :: rest)).exit = .code 2 ∧ (run w (['-', 'f'] :: s :: rest)).exit = .code 2 ∧
        (s ≠ [] → s.head? ≠ some '=' →
          (run w (('-' :: 't' :: s) :: rest)).exit = .code 2 ∧ (run w (('-' :: 'f' :: s) :: rest)).exit = .code 2) ∧
        (run w (('-' :: 't' :: '=' :: s) :: rest)).exit = .code 2 ∧
        (run w (('-' :: 'f' :: '=' :: s) :: rest)).exit = .code 2) := by
  constructor
  · intro f
    unfold tryParseFormat formatNames
    constructor
    · intro h
      split at h
      · rename_i hs; injection h with h; subst h; rcases hs with hs | hs <;> simp [hs]
      · split at h
        · rename_i hs; injection h with h; subst h; rcases hs with hs | hs <;> simp [hs]
        · split at h
          · rename_i hs; injection h with h; subst h; rcases hs with hs | hs <;> simp [hs]
          · split at h
            · rename_i hs; injection h with h; subst h; rcases hs with hs | hs <;> simp [hs]
            · simp at h
    · intro h
      simp only [List.mem_cons, Prod.mk.injEq, List.not_mem_nil, or_false] at h
      rcases h with ⟨h1, h2⟩ | ⟨h1, h2⟩ | ⟨h1, h2⟩ | ⟨h1, h2⟩ | ⟨h1, h2⟩ | ⟨h1, h2⟩ | ⟨h1, h2⟩ | ⟨h1, h2⟩ <;>
        subst h1 <;> subst h2 <;> decide
  · intro hn w rest
    have key : ∀ args, (∃ e, parseArgs args = .err e) → (run w args).exit = .code 2 :=
      fun args he => ((exit_code_spec w args).2.1).2 he
    have hav : ∀ t tl, s = t :: tl → t ≠ '=' → attachedValue s = s := by
      intro t tl hs ht; subst hs; unfold attachedValue; split
      · rename_i v heq; simp at heq; exact absurd heq.1 ht
      · rfl
    refine ⟨key _ ⟨.parsingFailed s notAFormat, ?_⟩, key _ ⟨.parsingFailed s notAFormat, ?_⟩, ?_,
      key _ ⟨.parsingFailed s notAFormat, ?_⟩, key _ ⟨.parsingFailed s notAFormat, ?_⟩⟩
    · rw [parseArgs_eq_ref]; simp [refParse, startsWithDashDash, hn]
    · rw [parseArgs_eq_ref]; simp [refParse, startsWithDashDash, hn]
    · intro hne hhd
      cases hs : s with
      | nil => exact absurd hs hne
      | cons t tl =>
        have ht : t ≠ '=' := by intro h; subst h; simp [hs] at hhd
        have h1 := hav t tl hs ht
        rw [hs] at h1 hn
        refine ⟨key _ ⟨.parsingFailed (t :: tl) notAFormat, ?_⟩, key _ ⟨.parsingFailed (t :: tl) notAFormat, ?_⟩⟩
        · rw [parseArgs_eq_ref]; simp [refParse, startsWithDashDash, h1, hn]
        · rw [parseArgs_eq_ref]; simp [refParse, startsWithDashDash, h1, hn]
    · rw [parseArgs_eq_ref]; simp [refParse, startsWithDashDash, attachedValue, hn]
    · rw [parseArgs_eq_ref]; simp [refParse, startsWithDashDash, attachedValue, hn]

/-- **The first decisive token wins**: once a prefix of the command line ends
in a help/version request or in an argument error (other than a value still
missing at its end), whatever follows does not matter — for all `pre`, `suf`. -/
theorem first_decisive_token (pre suf : List Str) (h : Decisive (parseArgs pre)) :
    parseArgs (pre ++ suf) = parseArgs pre := by
  rw [parseArgs_eq_ref] at h ⊢
  rw [parseArgs_eq_ref]
  exact refParse_prefix suf _ _ _ h

/-- … and so do the exit status and both streams of the whole run. -/
theorem first_decisive_token_run (w : World) (pre suf : List Str) (h : Decisive (parseArgs pre)) :
    run w (pre ++ suf) = run w pre := by
  have := first_decisive_token pre suf h
  unfold run
  rw [this]

/-- `xt -h -x` prints help and exits 0; `xt -x -h` exits 2 — for every continuation. -/
theorem help_then_error_vs_error_then_help (w : World) (rest : List Str) :
    (run w (['-', 'h'] :: ['-', 'x'] :: rest)).exit = .code 0 ∧
    (run w (['-', 'x'] :: ['-', 'h'] :: rest)).exit = .code 2 := by
  constructor
  · apply ((exit_code_spec w _).2.2.2.1).2
    left; right; left
    rw [parseArgs_eq_ref]; simp [refParse, startsWithDashDash]
  · apply ((exit_code_spec w _).2.1).2
    exact ⟨.unexpectedOption ['-', 'x'], by rw [parseArgs_eq_ref]; simp [refParse, startsWithDashDash]⟩

/-- **Help and version ignore write errors** (`let _ = write!(io::stdout().lock(), …)`
bypasses `pipecheck::Writer`): when every write to standard output fails — with
`EPIPE` or with anything else — a help/version request still ends with status
0, nothing on standard output and nothing on standard error.  (Recorded
because C16's "any other write failure ends the run with status 1" does not
hold on this path; reported to the lead.) -/
theorem help_write_errors_ignored (w : World) (e : IoErr) (hfd : ∀ i n, w.fd i n = .err e) (args : List Str)
    (h : HelpFirst args) :
    (run w args).exit = .code 0 ∧ (run w args).stdout = [] ∧ (run w args).stderr = [] := by
  have hprint : ∀ text, (printAndExit0 w text).stdout = [] := by
    intro text
    simp only [printAndExit0, Run.stdout]
    rw [writeLoop.eq_def]
    split
    · rfl
    · simp [fdWrite, hfd, FdSt.init]
  unfold HelpFirst at h
  rcases h with h | h | h <;> simp only [run, h] <;> exact ⟨rfl, hprint _, rfl⟩

/-! ## Non-vacuity -/

/-- `xt -tjson -fj a.json`: a valid command line. -/
example : parseArgs ["-tjson".toList, "-fj".toList, "a.json".toList] =
    .ok ["a.json".toList] (some .json) .json := by
  rw [parseArgs_eq_ref]; decide

/-- `xt -t=yaml -- -f`: `--` ends the options. -/
example : parseArgs ["-t=yaml".toList, "--".toList, "-f".toList] = .ok ["-f".toList] none .yaml := by
  rw [parseArgs_eq_ref]; decide

/-- `xt -t x`: an argument error (hypothesis of `exit_code_spec`'s second part). -/
example : parseArgs ["-t".toList, "x".toList] = .err (.parsingFailed "x".toList notAFormat) := by
  rw [parseArgs_eq_ref]; decide

/-- `xt -f j -f y`: the duplicate check. -/
example : parseArgs ["-f".toList, "j".toList, "-f".toList, "y".toList] = .err dupFrom := by
  rw [parseArgs_eq_ref]; decide

/-- `xt --version=1` prints the version (the unused value is never looked at). -/
example : HelpFirst ["--version=1".toList] := by
  left; rw [parseArgs_eq_ref]; decide

/-- `Decisive` instances for `first_decisive_token`: `xt a.json -x …` is an error whatever follows. -/
example : Decisive (parseArgs ["a.json".toList, "-x".toList]) := by
  have : parseArgs ["a.json".toList, "-x".toList] = .err (.unexpectedOption ['-', 'x']) := by
    rw [parseArgs_eq_ref]; decide
  rw [this]; trivial

/-- A world for the examples: `a.json` exists, the library writes `{}` and a newline. -/
def exWorld (tty : Bool) : World :=
  { argv0 := "xt".toList, version := "xt 0".toList,
    fs := fun p => if p = "a.json".toList then .regular [123, 125] else .missing,
    stdin := [], isTty := tty, fd := fun _ _ => .all,
    lib := { run := fun _ _ => { events := [.writeAll [123, 125], .writeFmt [[10]]], result := none },
             onWriteErr := fun _ _ _ e => e.display } }

/-- `msgpack_never_to_tty` applies: `xt -tm a.json` on a terminal. -/
example : (run (exWorld true) ["-tm".toList, "a.json".toList]).stdout = [] :=
  (msgpack_never_to_tty (exWorld true) _ ["a.json".toList] none rfl (by rw [parseArgs_eq_ref]; decide)).1

/-- `exit1_names_input` applies: `xt a.json nope` — `a.json` passes, `nope` cannot be opened. -/
example : GoodFd (exWorld false).fd := fun _ _ => rfl

#print axioms never_panics
#print axioms exit_code_spec
#print axioms exit1_names_input
#print axioms stdout_only_data
#print axioms msgpack_never_to_tty
#print axioms tty_output_not_msgpack
#print axioms aliases
#print axioms first_decisive_token
#print axioms first_decisive_token_run
#print axioms help_then_error_vs_error_then_help
#print axioms help_write_errors_ignored

end Xt.Props.C13
