import XtModel.Props.C07
import XtModel.Props.C09
import XtModel.Props.C03
import XtModel.Props.Json
import XtModel.Props.C18

/-!
# C02 — Result is independent of input source and read schedule

The pieces of xt's own logic that make a translation depend on the bytes only
are proved in the slices that model them; this file composes them and lists
them as C02's obligations (see `props/C02.py`):

* the rewindable handle delivers exactly the original bytes, whatever the
  source's read schedule and whatever detection read before
  (`Xt.Props.C09.capture_transparent`, `…detection_then_takeover`,
  `…no_fault_no_error`, `…eof_flips_to_slice`) — composed below into
  `schedule_irrelevant_bytes`;
* the re-encoder's stream does not depend on the consumer's read sizes
  (`Xt.Props.C07.utf8_read_schedule`, `…reencode_reads_eq_utf8`);
* the chunker's documents do not depend on how far libyaml had read ahead
  (`Xt.Props.C03.chunker_readahead_independent`, `…chunker_partition`);
* JSON: the slice loop and the reader loop agree on every byte string outside
  known finding K1's class (`Xt.Props.Json.json_slice_eq_reader_partial`,
  with `…json_unseparated_counterexample` showing the class cannot be dropped,
  and `…json_slice_docs_prefix` giving prefix-comparability unconditionally);
* TOML source: both supply modes reduce to the same `Cow` (`toml_source_supply_independent`).

MessagePack (`msgpack_slice_eq_reader`) is proved in the C18 file.  What is
NOT a theorem here: serde_yaml's slice path (`Deserializer::from_str` over the
whole stream) against chunk-then-parse (hypothesis `Y.SplitConsistent`, known
finding K2 at zero documents), and `toml::Value::try_from` against
`Value::deserialize` (known finding K3) — both sampled by the harness.
-/
namespace Xt.Props.C02
open Xt.Input

/-- The bytes an observation of taking ownership carries. -/
def takeoverBytes : Obs → Option (List Nat)
  | .inputSlice bs | .inputReader bs | .cow bs => some bs
  | _ => none

/-- **The read schedule is irrelevant to what the translator receives.**  Take
two sources holding the same bytes — any two read schedules, no fault — and any
two detection histories (whatever the four trials read, in each run): every way
of taking ownership afterwards yields the same byte sequence in both runs,
namely the original one.  A slice input trivially denotes its bytes, so the
same holds between a slice and any reader. -/
theorem schedule_irrelevant_bytes (s₁ s₂ : Source) (hdata : s₁.data = s₂.data)
    (t1 t2 t3 t4 u1 u2 u3 u4 : List Op) (k₁ k₂ : Op) (o₁ o₂ : Obs) (b₁ b₂ : List Nat)
    (h₁ : o₁ ∈ handleProgram s₁
      (.borrow :: t1 ++ .borrow :: t2 ++ .borrow :: t3 ++ .borrow :: t4 ++ [k₁]))
    (h₂ : o₂ ∈ handleProgram s₂
      (.borrow :: u1 ++ .borrow :: u2 ++ .borrow :: u3 ++ .borrow :: u4 ++ [k₂]))
    (e₁ : takeoverBytes o₁ = some b₁) (e₂ : takeoverBytes o₂ = some b₂) :
    b₁ = b₂ ∧ b₁ = s₁.data := by
  have g₁ := Xt.Props.C09.detection_then_takeover s₁ t1 t2 t3 t4 k₁ o₁ h₁
  have g₂ := Xt.Props.C09.detection_then_takeover s₂ u1 u2 u3 u4 k₂ o₂ h₂
  cases o₁ <;> simp [takeoverBytes] at e₁ <;> cases o₂ <;> simp [takeoverBytes] at e₂ <;>
    simp [Xt.Props.C09.ObsOk] at g₁ g₂ <;> subst e₁ e₂ <;> simp [g₁, g₂, hdata]

/-- TOML source: `toml::transcode` turns the handle into a `Cow` and parses
that, in both supply modes; the parse `p` is therefore applied to the same
bytes.  (`p` stands for `toml::Deserializer::new(str::from_utf8(..)?)` followed
by the output's `transcode_from`.) -/
theorem toml_source_supply_independent {R : Type} (p : List Nat → R) (s : Source) (ops : List Op)
    (o : Obs) (bs : List Nat) (h : o ∈ handleProgram s (ops ++ [.intoCow])) (e : o = .cow bs) :
    p bs = p s.data := by
  have := Xt.Props.C09.seen_mem s.data _ _ none (Xt.Props.C09.capture_transparent s _) o h
  subst e
  simp [Xt.Props.C09.ObsOk] at this
  rw [this]

/-! Non-vacuity: a reader delivering 1 byte per read and one delivering
everything at once, with different detection histories. -/
example := @schedule_irrelevant_bytes ⟨[1, 2, 3], 0, [1], [], none⟩ ⟨[1, 2, 3], 0, [], [], none⟩ rfl
  [.read 2] [] [] [] [] [.prefix 1] [] [] (.intoInput 1) .intoCow

#print axioms schedule_irrelevant_bytes
#print axioms toml_source_supply_independent
#print axioms Xt.Props.C09.capture_transparent
#print axioms Xt.Props.C09.detection_then_takeover
#print axioms Xt.Props.C09.no_fault_no_error
#print axioms Xt.Props.C09.eof_flips_to_slice
#print axioms Xt.Props.C07.utf8_read_schedule
#print axioms Xt.Props.C07.reencode_reads_eq_utf8
#print axioms Xt.Props.C03.chunker_readahead_independent
#print axioms Xt.Props.C03.chunker_partition
#print axioms Xt.Props.Json.json_slice_eq_reader_partial
#print axioms Xt.Props.Json.json_slice_docs_prefix
#print axioms Xt.Props.Json.json_unseparated_counterexample

#print axioms Xt.Props.C18.msgpack_slice_eq_reader
#print axioms Xt.Props.C18.depth_verdict_slice_eq_reader

end Xt.Props.C02
