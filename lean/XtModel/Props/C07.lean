import XtModel.Lemmas.Decoders

/-!
# C07 — YAML in UTF-16/UTF-32 translates exactly like the same text in UTF-8

Property theorems about the model of `src/yaml/encoding.rs` (and the path
choice in `src/yaml.rs::transcode`).  Helper lemmas are in `Lemmas/`.
Names listed in `check` as this property's obligations:
`utf8_read_schedule`, `read_call_exact`, `utf16_decode_encode`, `utf32_decode_encode`,
`reencode_eq_utf8`, `reencode_reads_eq_utf8`, `detect_correct`, `detect_utf8_text`,
`from_reader_eq_utf8`, `illformed_utf16_trail`, `illformed_utf16_lead`,
`illformed_utf16_lead_eof`, `illformed_utf16_truncated`, `illformed_utf32_unit`,
`illformed_utf32_truncated`, `no_fabrication`, `slice_path_reencodes`.
-/
namespace Xt.Props.C07
open Xt.Encoding

/-- The bytes of a text (list of scalar values) in encoding `e`, optionally
preceded by a byte order mark. The UTF-8 form is the reference and has no BOM. -/
def encodeText (e : Enc) (bom : Bool) (t : List Nat) : List Nat :=
  let t' := if bom then 0xFEFF :: t else t
  match e with
  | .utf8 => utf8s t
  | .utf16be => bytes16 true (enc16 t')
  | .utf16le => bytes16 false (enc16 t')
  | .utf32be => bytes32 true t'
  | .utf32le => bytes32 false t'

/-- The encoder strips one leading U+FEFF, whether it was meant as a BOM or not. -/
def stripFEFF : List Nat → List Nat
  | 0xFEFF :: t => t
  | t => t

def sum : List Nat → Nat
  | [] => 0
  | n :: ns => n + sum ns

/-! ## The UTF-8 encoder under an arbitrary sequence of `read` sizes -/

/-- Each `read(buf)` call that succeeds returns exactly the next
`min buf.len() remaining` bytes of the stream, and leaves exactly the rest
pending — including across the ≤ 3-byte remainder hand-over. -/
theorem read_call_exact (st : St) (n : Nat) (out : List Nat) (st' : St)
    (h : read st n = (.ok out, st')) :
    out = st.pending.take n ∧ st'.pending = st.pending.drop n :=
  ⟨(read_ok st n out st' h).1, (read_ok st n out st' h).2.1⟩

/-- For every encoder state and every sequence of buffer sizes: what the
consumer has received when it sees the first error (or when the schedule ends)
is a prefix of the pending UTF-8 stream; without an error it is exactly the
first `Σ ns` bytes; and an error, when reported, is the source's first error. -/
theorem utf8_read_schedule (st : St) (ns : List Nat) :
    (collect (reads st ns)).1 = st.pending.take (collect (reads st ns)).1.length ∧
    ((collect (reads st ns)).2 = none → (collect (reads st ns)).1 = st.pending.take (sum ns)) ∧
    (∀ e, (collect (reads st ns)).2 = some e → firstErr st.items = some e) := by
  induction ns generalizing st with
  | nil => simp [reads, collect, sum]
  | cons n ns ih =>
    simp only [reads]
    cases hr : read st n with
    | mk r st' =>
      cases r with
      | error e =>
        simp only [collect]
        refine ⟨by simp, by simp, ?_⟩
        intro e' he; simp at he; subst he
        exact (read_err st n e st' hr).1
      | ok out =>
        obtain ⟨h1, h2, h3⟩ := read_ok st n out st' hr
        obtain ⟨i1, i2, i3⟩ := ih st'
        simp only [collect]
        cases hc : collect (reads st' ns) with
        | mk o e =>
          rw [hc] at i1 i2 i3
          simp only at i1 i2 i3 ⊢
          have key : ∀ k, out ++ (st.pending.drop n).take k = st.pending.take (out.length + k) := by
            intro k
            rw [h1, List.length_take]
            by_cases hle : n ≤ st.pending.length
            · rw [Nat.min_eq_left hle, List.take_add]
            · have hlt : st.pending.length ≤ n := by omega
              rw [Nat.min_eq_right hlt, List.take_of_length_le hlt,
                List.drop_of_length_le hlt]
              simp only [List.take_nil, List.append_nil]
              exact (List.take_of_length_le (by omega)).symm
          refine ⟨?_, ?_, ?_⟩
          · rw [List.length_append, i1, h2, List.length_take]
            have := key (min o.length (List.drop n st.pending).length)
            rw [← this]
            congr 1
            rw [List.take_eq_take_iff]
            simp
          · intro he
            rw [i2 he, h2]
            have hk := key (sum ns)
            by_cases hle : n ≤ st.pending.length
            · have : out.length = n := by rw [h1, List.length_take]; omega
              rw [hk, this]; rfl
            · have hlt : st.pending.length ≤ n := by omega
              rw [hk]
              rw [List.take_of_length_le (by rw [h1, List.length_take]; omega)]
              rw [List.take_of_length_le (by simp only [sum]; omega)]
          · intro e' he; rw [← h3]; exact i3 e' he

/-! ## Decoders invert the reference encoders, for every scalar value -/

/-- UTF-16: for every list of Unicode scalar values (every BMP unit and every
one of the 1 048 576 surrogate pairs), either byte order, decoding the encoding
gives back exactly that list. -/
theorem utf16_decode_encode (big : Bool) (t : List Nat) (h : ∀ c ∈ t, isScalar c) :
    (let (us, tr) := units16 big (bytes16 big (enc16 t)); dec16 us 0 tr) = t.map .ch := by
  rw [units16_bytes16 big _ (enc16_lt t h)]
  have := dec16_enc16 t h [] 0 false
  simp only [List.append_nil] at this
  simp only [this]
  rw [dec16.eq_def]; simp

theorem scalar_lt (c : Nat) (h : isScalar c) : c < 4294967296 := by
  unfold isScalar at h; omega

/-- UTF-32, likewise. -/
theorem utf32_decode_encode (big : Bool) (t : List Nat) (h : ∀ c ∈ t, isScalar c) :
    (let (us, tr) := units32 big (bytes32 big t); dec32 us 0 tr) = t.map .ch := by
  rw [units32_bytes32 big _ (fun u hu => scalar_lt u (h u hu))]
  have := dec32_scalars t h [] 0 false
  simp only [List.append_nil] at this
  simp only [this]
  simp [dec32]

/-! ## Re-encoding equals the UTF-8 of the same text -/

theorem stream_go (items : List Item) :
    stream.go items = (pendingItems items, firstErr items) := by
  induction items with
  | nil => simp [stream.go, firstErr]
  | cons it rest ih =>
    cases it <;> simp [stream.go, firstErr, ih]

theorem charsBefore_map (t : List Nat) : charsBefore (t.map .ch) = t := by
  induction t with
  | nil => rfl
  | cons c t ih => simp [charsBefore, ih]

theorem firstErr_map (t : List Nat) : firstErr (t.map .ch) = none := by
  induction t with
  | nil => rfl
  | cons c t ih => simp [firstErr, ih]

theorem stripBom_map (t : List Nat) : stripBom (t.map .ch) = (stripFEFF t).map .ch := by
  match t with
  | [] => rfl
  | c :: t =>
    by_cases h : c = 0xFEFF
    · subst h; rfl
    · simp only [List.map_cons]
      rw [stripBom.eq_def, stripFEFF.eq_def]
      simp [h]

theorem decode_encodeText (e : Enc) (he : e ≠ .utf8) (t' : List Nat) (h : ∀ c ∈ t', isScalar c) :
    decode e (match e with
      | .utf8 => []
      | .utf16be => bytes16 true (enc16 t')
      | .utf16le => bytes16 false (enc16 t')
      | .utf32be => bytes32 true t'
      | .utf32le => bytes32 false t') = t'.map .ch := by
  cases e with
  | utf8 => exact absurd rfl he
  | utf16be => exact utf16_decode_encode true t' h
  | utf16le => exact utf16_decode_encode false t' h
  | utf32be => exact utf32_decode_encode true t' h
  | utf32le => exact utf32_decode_encode false t' h

theorem isScalar_feff : isScalar 0xFEFF := by unfold isScalar; omega

/-- For every text (list of scalar values), each of the four non-UTF-8
encodings, with or without a BOM: the stream the encoder produces is the UTF-8
of the text, without error. (Without a BOM a text that itself starts with
U+FEFF loses that character: the encoder cannot tell it from a BOM.) -/
theorem reencode_eq_utf8 (e : Enc) (he : e ≠ .utf8) (bom : Bool) (t : List Nat)
    (h : ∀ c ∈ t, isScalar c) :
    stream e (encodeText e bom t) = (utf8s (if bom then t else stripFEFF t), none) := by
  have ht' : ∀ c ∈ (if bom then 0xFEFF :: t else t), isScalar c := by
    cases bom
    · simpa using h
    · simp; exact ⟨isScalar_feff, h⟩
  have hd := decode_encodeText e he _ ht'
  cases e with
  | utf8 => exact absurd rfl he
  | _ =>
    all_goals
      simp only [stream, encodeText] at hd ⊢
      rw [hd, stripBom_map, stream_go, pendingItems, charsBefore_map, firstErr_map]
      cases bom <;> simp [stripFEFF]

/-- The same through any sequence of `read` sizes: the consumer receives
exactly the first `Σ ns` bytes of the UTF-8 text, and never an error. -/
theorem reencode_reads_eq_utf8 (e : Enc) (he : e ≠ .utf8) (bom : Bool) (t : List Nat)
    (h : ∀ c ∈ t, isScalar c) (ns : List Nat) :
    collect (encoderReads e (encodeText e bom t) ns) =
      ((utf8s (if bom then t else stripFEFF t)).take (sum ns), none) := by
  have ht' : ∀ c ∈ (if bom then 0xFEFF :: t else t), isScalar c := by
    cases bom
    · simpa using h
    · simp; exact ⟨isScalar_feff, h⟩
  have hd := decode_encodeText e he _ ht'
  have hitems : stripBom (decode e (encodeText e bom t)) =
      (if bom then t else stripFEFF t).map .ch := by
    cases e with
    | utf8 => exact absurd rfl he
    | _ =>
      all_goals
        simp only [encodeText] at hd ⊢
        rw [hd, stripBom_map]
        cases bom <;> simp [stripFEFF]
  unfold encoderReads
  rw [hitems]
  obtain ⟨_, h2, h3⟩ := utf8_read_schedule ⟨(if bom then t else stripFEFF t).map .ch, []⟩ ns
  simp only [firstErr_map] at h3
  have hnone : (collect (reads ⟨(if bom then t else stripFEFF t).map .ch, []⟩ ns)).2 = none := by
    cases hc : (collect (reads ⟨(if bom then t else stripFEFF t).map .ch, []⟩ ns)).2 with
    | none => rfl
    | some e' => exact absurd (h3 e' hc) (by simp)
  have := h2 hnone
  simp only [St.pending, List.nil_append, pendingItems, charsBefore_map] at this
  exact Prod.ext this hnone

/-! ## Encoding detection -/

theorem detect_take4 (bs : List Nat) : detect (bs.take 4) = detect bs := by
  match bs with
  | [] => rfl
  | [_] => rfl
  | [_, _] => rfl
  | [_, _, _] => rfl
  | _ :: _ :: _ :: _ :: _ => simp [detect]

/-- Detection is correct for every text whose first scalar is a non-NUL ASCII
character (YAML requires an ASCII first character) and whose second scalar, if
any, is not NUL — in each of the four encodings without a BOM (`t` non-empty)
and with one (any `t`). -/
theorem detect_correct (e : Enc) (he : e ≠ .utf8) (bom : Bool) (c0 : Nat) (rest : List Nat)
    (h0 : 0 < c0 ∧ c0 < 0x80) (h1 : ∀ c1 ∈ rest.head?, c1 ≠ 0)
    (hs : ∀ c ∈ rest, isScalar c) :
    detect ((encodeText e bom (c0 :: rest)).take 4) = e := by
  rw [detect_take4]
  have hc0 : c0 < 0x10000 := by omega
  have e1 : c0 % 256 = c0 := by omega
  have e2 : c0 / 256 = 0 := by omega
  have e3 : c0 / 16777216 = 0 := by omega
  have e4 : c0 / 65536 = 0 := by omega
  match rest, h1, hs with
  | [], _, _ =>
    cases e <;> cases bom <;>
      simp [encodeText, bytes16, bytes32, enc16, unit16s, detect, detect2, hc0, e1, e2, e3, e4]
        at he ⊢ <;> omega
  | c1 :: rest', h1, hs =>
    have h1' : c1 ≠ 0 := h1 c1 (by simp)
    have hs1 : isScalar c1 := hs c1 (by simp)
    unfold isScalar at hs1
    by_cases hlt : c1 < 0x10000
    · cases e <;> cases bom <;>
        simp [encodeText, bytes16, bytes32, enc16, unit16s, detect, detect2, hc0, hlt, e1, e2, e3,
          e4] at he ⊢ <;>
        (repeat' split) <;> first | rfl | omega | (exfalso; omega)
    · cases e <;> cases bom <;>
        simp [encodeText, bytes16, bytes32, enc16, unit16s, detect, detect2, hc0, hlt, e1, e2, e3,
          e4] at he ⊢ <;>
        (repeat' split) <;> first | rfl | omega | (exfalso; omega)

/-- A BOM alone (empty text) is detected too. -/
theorem detect_correct_bom_only (e : Enc) (he : e ≠ .utf8) :
    detect ((encodeText e true []).take 4) = e := by
  cases e <;> simp [encodeText, bytes16, bytes32, enc16, unit16s, detect, detect2] at he ⊢

/-- The side conditions of `detect_correct` are needed: UTF-16LE `a`,NUL reads
as UTF-32LE; a UTF-16LE BOM followed by NUL reads as UTF-32LE; a leading NUL in
UTF-32LE reads as UTF-32BE. -/
theorem detect_counterexamples :
    detect (encodeText .utf16le false [0x61, 0]) = .utf32le ∧
    detect (encodeText .utf16le true [0]) = .utf32le ∧
    detect (encodeText .utf32le false [0, 0x61]) = .utf32be := by
  decide

/-- The same text in UTF-8 is detected as UTF-8, so it is passed through. -/
theorem detect_utf8_text (c0 : Nat) (rest : List Nat)
    (h0 : 0 < c0 ∧ c0 < 0x80) (h1 : ∀ c1 ∈ rest.head?, c1 ≠ 0) :
    detect ((utf8s (c0 :: rest)).take 4) = .utf8 := by
  rw [detect_take4]
  have hu0 : utf8 c0 = [c0] := by simp [utf8]; omega
  match rest, h1 with
  | [], _ => simp [utf8s, hu0, detect]
  | c1 :: rest', h1 =>
    have h1' : c1 ≠ 0 := h1 c1 (by simp)
    have hb : ∃ b tl, utf8 c1 = b :: tl ∧ b ≠ 0 := by
      unfold utf8; split
      · exact ⟨c1, [], rfl, h1'⟩
      · split
        · exact ⟨_, _, rfl, by omega⟩
        · split
          · exact ⟨_, _, rfl, by omega⟩
          · exact ⟨_, _, rfl, by omega⟩
    obtain ⟨b, tl, hb, hb0⟩ := hb
    have hshape : utf8s (c0 :: c1 :: rest') = c0 :: b :: (tl ++ utf8s rest') := by
      simp [utf8s, hu0, hb]
    rw [hshape]
    have hd2 : detect2 c0 b = .utf8 := by
      unfold detect2
      have g1 : ¬ ((c0 = 0xFE ∧ b = 0xFF) ∨ c0 = 0) := by omega
      have g2 : ¬ ((c0 = 0xFF ∧ b = 0xFE) ∨ b = 0) := by omega
      rw [if_neg g1, if_neg g2]
    match hrest : tl ++ utf8s rest' with
    | [] => simp [detect, hd2]
    | [x] => simp [detect, hd2]
    | x :: y :: zs =>
      simp only [detect]
      have g1 : ¬ ((c0 = 0 ∧ b = 0 ∧ x = 0xFE ∧ y = 0xFF) ∨ (c0 = 0 ∧ b = 0 ∧ x = 0)) := by omega
      have g2 : ¬ ((c0 = 0xFF ∧ b = 0xFE ∧ x = 0 ∧ y = 0) ∨ (b = 0 ∧ x = 0 ∧ y = 0)) := by omega
      rw [if_neg g1, if_neg g2]; exact hd2

/-- `Encoder::from_reader` on a text in any of the five encodings yields the
same UTF-8 stream as on the UTF-8 form of that text — the downstream parser
therefore sees identical input. -/
theorem from_reader_eq_utf8 (e : Enc) (bom : Bool) (c0 : Nat) (rest : List Nat)
    (hbom : e = .utf8 → bom = false)
    (h0 : 0 < c0 ∧ c0 < 0x80) (h1 : ∀ c1 ∈ rest.head?, c1 ≠ 0)
    (hs : ∀ c ∈ rest, isScalar c) :
    fromReaderStream (encodeText e bom (c0 :: rest)) =
      fromReaderStream (encodeText .utf8 false (c0 :: rest)) := by
  have hsc : ∀ c ∈ c0 :: rest, isScalar c := by
    intro c hc; simp at hc; rcases hc with rfl | hc
    · unfold isScalar; omega
    · exact hs c hc
  have hrhs : fromReaderStream (encodeText .utf8 false (c0 :: rest)) = (utf8s (c0 :: rest), none) := by
    unfold fromReaderStream
    simp only [encodeText]
    rw [detect_utf8_text c0 rest h0 h1]; rfl
  rw [hrhs]
  by_cases he : e = .utf8
  · subst he; rw [hbom rfl]; exact hrhs
  · unfold fromReaderStream
    rw [detect_correct e he bom c0 rest h0 h1 hs, reencode_eq_utf8 e he bom _ hsc]
    have : stripFEFF (c0 :: rest) = c0 :: rest := by
      rw [stripFEFF.eq_def]; split
      · rename_i heq; simp at heq; omega
      · rfl
    cases bom <;> simp [this]

/-! ## Ill-formed input is an error, never fabricated characters -/

/-- An unpaired trailing surrogate after any well-formed prefix is reported as
an error at its byte offset. -/
theorem illformed_utf16_trail (t : List Nat) (h : ∀ c ∈ t, isScalar c) (u : Nat)
    (hu : 0xDC00 ≤ u ∧ u ≤ 0xDFFF) (rest : List Nat) (tr : Bool) :
    dec16 (enc16 t ++ u :: rest) 0 tr =
      t.map .ch ++ .errUnit 16 u (2 * (enc16 t).length) ::
        dec16 rest (2 * (enc16 t).length + 2) tr := by
  rw [dec16_enc16 t h]
  rw [dec16.eq_def]
  have h1 : ¬ (u < 0xD800 ∨ 0xE000 ≤ u) := by omega
  simp [h1, hu.1]

/-- A leading surrogate followed by anything but a trailing surrogate
(including another leading surrogate, i.e. a reversed pair) is an error at the
offset of the offending unit. -/
theorem illformed_utf16_lead (t : List Nat) (h : ∀ c ∈ t, isScalar c) (u v : Nat)
    (hu : 0xD800 ≤ u ∧ u ≤ 0xDBFF) (hv : ¬ (0xDC00 ≤ v ∧ v ≤ 0xDFFF)) (rest : List Nat)
    (tr : Bool) :
    dec16 (enc16 t ++ u :: v :: rest) 0 tr =
      t.map .ch ++ .errUnit 16 v (2 * (enc16 t).length + 2) ::
        dec16 (v :: rest) (2 * (enc16 t).length + 2) tr := by
  rw [dec16_enc16 t h]
  rw [dec16.eq_def]
  have h1 : ¬ (u < 0xD800 ∨ 0xE000 ≤ u) := by omega
  have h2 : ¬ (0xDC00 ≤ u) := by omega
  simp [h1, h2, hv]

/-- A leading surrogate at the end of input is an error. -/
theorem illformed_utf16_lead_eof (t : List Nat) (h : ∀ c ∈ t, isScalar c) (u : Nat)
    (hu : 0xD800 ≤ u ∧ u ≤ 0xDBFF) (tr : Bool) :
    dec16 (enc16 t ++ [u]) 0 tr = t.map .ch ++ [.errEof] := by
  rw [dec16_enc16 t h]
  rw [dec16.eq_def]
  have h1 : ¬ (u < 0xD800 ∨ 0xE000 ≤ u) := by omega
  have h2 : ¬ (0xDC00 ≤ u) := by omega
  simp [h1, h2]

/-- A truncated code unit (odd byte count) is an error. -/
theorem illformed_utf16_truncated (big : Bool) (t : List Nat) (h : ∀ c ∈ t, isScalar c) (b : Nat) :
    (let (us, tr) := units16 big (bytes16 big (enc16 t) ++ [b]); dec16 us 0 tr) =
      t.map .ch ++ [.errEof] := by
  rw [units16_bytes16_trunc big _ (enc16_lt t h)]
  have := dec16_enc16 t h [] 0 true
  simp only [List.append_nil] at this
  simp only [this]
  rw [dec16.eq_def]; simp

/-- A UTF-32 unit above U+10FFFF or inside the surrogate range is an error at
its byte offset. -/
theorem illformed_utf32_unit (t : List Nat) (h : ∀ c ∈ t, isScalar c) (u : Nat)
    (hu : ¬ isScalar u) (rest : List Nat) (tr : Bool) :
    dec32 (t ++ u :: rest) 0 tr =
      t.map .ch ++ .errUnit 32 u (4 * t.length) :: dec32 rest (4 * t.length + 4) tr := by
  rw [dec32_scalars t h]
  unfold isScalar at hu
  simp [dec32, hu]

/-- 1–3 stray bytes after the last UTF-32 unit are an error. -/
theorem illformed_utf32_truncated (t : List Nat) (h : ∀ c ∈ t, isScalar c) :
    dec32 t 0 true = t.map .ch ++ [.errEof] := by
  have := dec32_scalars t h [] 0 true
  simp only [List.append_nil] at this
  rw [this]; simp [dec32]

/-- Whatever the input bytes: every byte the encoder emits before it reports
an error is the UTF-8 of the scalar values decoded so far — each of which
really is a scalar value (so both `from_u32_unchecked` calls are sound) — and
an ill-formed sequence ends the stream with an error instead of characters. -/
theorem no_fabrication (e : Enc) (he : e ≠ .utf8) (bytes : List Nat) (hb : ∀ b ∈ bytes, b < 256) :
    stream e bytes = (utf8s (charsBefore (stripBom (decode e bytes))),
                      firstErr (stripBom (decode e bytes))) ∧
    ∀ c, Item.ch c ∈ decode e bytes → isScalar c := by
  constructor
  · cases e with
    | utf8 => exact absurd rfl he
    | _ => all_goals (simp only [stream]; rw [stream_go]; rfl)
  · have hu16 : ∀ big bs, (∀ b ∈ bs, b < 256) → ∀ u ∈ (units16 big bs).1, u < 65536 := by
      intro big bs
      induction bs using units16.induct big with
      | case1 => intro _ u hu; simp [units16] at hu
      | case2 _ => intro _ u hu; simp [units16] at hu
      | case3 a b rest us tr heq ih =>
        intro hbs u hu
        have ha := hbs a (by simp)
        have hb' := hbs b (by simp)
        simp only [units16, heq, List.mem_cons] at hu
        rcases hu with rfl | hu
        · cases big <;> simp <;> omega
        · apply ih (fun x hx => hbs x (by simp [hx])) u
          simp [heq, hu]
    cases e with
    | utf8 => exact absurd rfl he
    | utf16be =>
      intro c hc; simp only [decode] at hc
      exact dec16_scalar _ (hu16 true bytes hb) _ _ c hc
    | utf16le =>
      intro c hc; simp only [decode] at hc
      exact dec16_scalar _ (hu16 false bytes hb) _ _ c hc
    | utf32be => intro c hc; simp only [decode] at hc; exact dec32_scalar _ _ _ c hc
    | utf32le => intro c hc; simp only [decode] at hc; exact dec32_scalar _ _ _ c hc

/-! ## The slice path of `yaml::transcode` -/

inductive Path where
  | fast | reencode
  deriving DecidableEq, Repr

/-- `match (Encoding::detect(&b), str::from_utf8(&b))` in `yaml::transcode`
(after the `fix:` commit): the direct `serde_yaml` path is taken only when the
detected encoding is UTF-8 *and* the bytes are valid UTF-8 (`valid`). -/
def slicePath (bytes : List Nat) (valid : Bool) : Path :=
  if detect bytes = .utf8 ∧ valid = true then .fast else .reencode

/-- A slice in UTF-16/32 always takes the re-encoding path — even when its
bytes happen to be valid UTF-8 (ASCII-only text). -/
theorem slice_path_reencodes (e : Enc) (he : e ≠ .utf8) (bom : Bool) (c0 : Nat) (rest : List Nat)
    (h0 : 0 < c0 ∧ c0 < 0x80) (h1 : ∀ c1 ∈ rest.head?, c1 ≠ 0)
    (hs : ∀ c ∈ rest, isScalar c) (valid : Bool) :
    slicePath (encodeText e bom (c0 :: rest)) valid = .reencode := by
  unfold slicePath
  have := detect_correct e he bom c0 rest h0 h1 hs
  rw [detect_take4] at this
  simp [this, he]

/-! ## Non-vacuity: concrete inputs meeting the hypotheses -/

example : stream .utf16le (encodeText .utf16le true [0x61, 0x1F600, 0x7FF]) =
    (utf8s [0x61, 0x1F600, 0x7FF], none) :=
  reencode_eq_utf8 .utf16le (by decide) true [0x61, 0x1F600, 0x7FF] (by decide)
example : collect (encoderReads .utf32be (encodeText .utf32be false [0x61, 0x1F600, 0x800]) [1, 2, 3, 1, 9]) =
    (utf8s [0x61, 0x1F600, 0x800], none) := by decide
example : (0 < 0x61 ∧ 0x61 < 0x80) ∧ (∀ c1 ∈ [0x3A, 0x20].head?, c1 ≠ 0) := by decide
example : dec16 (enc16 [0x61] ++ 0xDC00 :: [0x62]) 0 false =
    [0x61].map .ch ++ .errUnit 16 0xDC00 (2 * (enc16 [0x61]).length) ::
      dec16 [0x62] (2 * (enc16 [0x61]).length + 2) false :=
  illformed_utf16_trail [0x61] (by decide) 0xDC00 (by decide) [0x62] false
example : fromReaderStream (encodeText .utf16le false [0x61, 0x3A, 0x20, 0x31]) =
    fromReaderStream (encodeText .utf8 false [0x61, 0x3A, 0x20, 0x31]) :=
  from_reader_eq_utf8 .utf16le false 0x61 [0x3A, 0x20, 0x31] (by decide) (by decide) (by decide)
    (by decide)

#print axioms read_call_exact
#print axioms utf8_read_schedule
#print axioms utf16_decode_encode
#print axioms utf32_decode_encode
#print axioms reencode_eq_utf8
#print axioms reencode_reads_eq_utf8
#print axioms detect_correct
#print axioms detect_correct_bom_only
#print axioms detect_counterexamples
#print axioms detect_utf8_text
#print axioms from_reader_eq_utf8
#print axioms illformed_utf16_trail
#print axioms illformed_utf16_lead
#print axioms illformed_utf16_lead_eof
#print axioms illformed_utf16_truncated
#print axioms illformed_utf32_unit
#print axioms illformed_utf32_truncated
#print axioms no_fabrication
#print axioms slice_path_reencodes

end Xt.Props.C07
