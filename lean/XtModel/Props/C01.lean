import XtModel.Lemmas.TomlOrder
import XtModel.Props.C11
import XtModel.Props.C18
import XtModel.Props.Json
import XtModel.Props.Fidelity

/-!
# C01 — Cross-format value fidelity

This file holds the obligations of C01 that are about xt-owned or concretely
modelled logic. (The transcoder's faithfulness `transcode_faithful` /
`valuepath_faithful` and the MessagePack round trip are proved in the files of
C11 and C18 and re-exported here once those slices are merged.)

Obligations: `toml_reorder_groups`, `toml_reorder_stable`, `toml_reorder_keys_perm`,
`toml_reorder_idempotent`, `toml_written_eq_reorder_partial`, `toml_k4_counterexample`.

The fidelity theorem for the pairs JSON → MessagePack and MessagePack → JSON
(end-to-end composition of the JSON, MessagePack and transcoder models) is in
`Props/Fidelity.lean` (`Xt.Props.Fidelity.*`, listed by absolute name in
`props/C01.py`): `json_to_msgpack_fidelity` (+ `_documents`, `_floats`),
`msgpack_to_json_fidelity` (+ `_floatfree`, `msgpack_to_json_output`),
`non_minimal_spellings_irrelevant`, `int_width_irrelevant`,
`unrepresentable_is_error`, `bridge_refines_transcoder`.
-/
namespace Xt.Props.C01
open Xt.TomlOrder

def entries : TV → List (Nat × TV)
  | .tbl es => es
  | _ => []

/-- "The only permitted reordering": in the reordered table every non-table
entry precedes every table entry (the entry list is already partitioned). -/
theorem toml_reorder_groups (es : List (Nat × TV)) :
    let r := entries (reorder (.tbl es))
    r.filter (fun e => !tableLike e.2) ++ r.filter (fun e => tableLike e.2) = r := by
  simp only [reorder_tbl, entries]
  exact part_part _

/-- Each group keeps its input order: the non-table entries of the result are,
in order, the (recursively reordered) non-table entries of the input, and
likewise the table entries. -/
theorem toml_reorder_stable (es : List (Nat × TV)) :
    let r := entries (reorder (.tbl es))
    r.filter (fun e => !tableLike e.2) = reorderEntries (es.filter (fun e => !tableLike e.2)) ∧
    r.filter (fun e => tableLike e.2) = reorderEntries (es.filter (fun e => tableLike e.2)) := by
  have hnil : ∀ (l : List (Nat × TV)), List.filter (fun _ => false) l = [] := by
    intro l; induction l <;> simp_all
  simp only [reorder_tbl, entries, part]
  constructor
  · rw [← filter_reorderEntries (fun v => !tableLike v) (by simp [tableLike_reorder])]
    simp [List.filter_append, List.filter_filter, hnil]
  · rw [← filter_reorderEntries tableLike tableLike_reorder]
    simp [List.filter_append, List.filter_filter, hnil]

theorem keys_reorderEntries (es : List (Nat × TV)) :
    (reorderEntries es).map Prod.fst = es.map Prod.fst := by
  induction es with
  | nil => rfl
  | cons e es ih => obtain ⟨k, v⟩ := e; simp [reorderEntries, ih]

/-- No entry is dropped or duplicated: the keys of the result are a
permutation of the keys of the input. -/
theorem toml_reorder_keys_perm (es : List (Nat × TV)) :
    ((entries (reorder (.tbl es))).map Prod.fst).Perm (es.map Prod.fst) := by
  simp only [reorder_tbl, entries, part]
  rw [← keys_reorderEntries es]
  apply List.Perm.map
  have := List.filter_append_perm (fun e : Nat × TV => tableLike e.2) (reorderEntries es)
  exact (List.perm_append_comm).trans this

/-- Reordering is idempotent: a reordered document is a fixed point. -/
theorem toml_reorder_idempotent (v : TV) : reorder (reorder v) = reorder v :=
  reorder_idem.1 v

/-- What xt writes equals the permitted reordering **provided no array
anywhere contains a table** (`_partial`: the full statement — for every
document — is false on this tree, see `toml_k4_counterexample`; it is known
finding K4). -/
theorem toml_written_eq_reorder_partial (es : List (Nat × TV))
    (h : noTblInArr (.tbl es) = true) : written (.tbl es) = reorder (.tbl es) :=
  written_eq_reorder es h

/-- K4: below the root the `toml` crate's `Value::Table` serializer makes three
passes, not two groups — an array that contains a table is moved behind later
plain entries.
`{a = {a = [{}, 0], b = false}}` comes out as `{a = {b = false, a = [{}, 0]}}`. -/
theorem toml_k4_counterexample :
    written (.tbl [(1, .tbl [(1, .arr [.tbl [], .scalar 0]), (2, .scalar 1)])]) =
      .tbl [(1, .tbl [(2, .scalar 1), (1, .arr [.tbl [], .scalar 0])])] ∧
    reorder (.tbl [(1, .tbl [(1, .arr [.tbl [], .scalar 0]), (2, .scalar 1)])]) =
      .tbl [(1, .tbl [(1, .arr [.tbl [], .scalar 0]), (2, .scalar 1)])] := by
  simp [written, reorder, wSection, wSectionEntries, wInline, wInlineList,
    wInlineEntries, reorderEntries, reorderList, part, part3, tableLike, isTbl, isAot, hasTbl]

/-! Non-vacuity -/
example : noTblInArr (.tbl [(1, .scalar 0), (2, .tbl [(3, .arr [.scalar 1])]), (4, .scalar 2)]) = true := by
  simp [noTblInArr, noTblInArrEntries, noTblInArrList, isTbl]
example : reorder (.tbl [(1, .tbl []), (2, .scalar 0)]) = .tbl [(2, .scalar 0), (1, .tbl [])] := by
  simp [reorder, reorderEntries, tableLike, isTbl, isAot]

#print axioms toml_reorder_groups
#print axioms toml_reorder_stable
#print axioms toml_reorder_keys_perm
#print axioms toml_reorder_idempotent
#print axioms toml_written_eq_reorder_partial
#print axioms toml_k4_counterexample

#print axioms Xt.Props.C11.transcode_faithful
#print axioms Xt.Props.C11.valuepath_faithful
#print axioms Xt.Props.C18.msgpack_roundtrip
#print axioms Xt.Props.C18.decode_depth_irrelevant
#print axioms Xt.Props.Json.json_roundtrip
#print axioms Xt.Props.Json.json_roundtrip_floats
#print axioms Xt.Props.Json.json_spellings_partial

#print axioms Xt.Props.Fidelity.bridge_refines_transcoder
#print axioms Xt.Props.Fidelity.int_width_irrelevant
#print axioms Xt.Props.Fidelity.non_minimal_spellings_irrelevant
#print axioms Xt.Props.Fidelity.m2j_slice_answer_eq_reader
#print axioms Xt.Props.Fidelity.unrepresentable_is_error
#print axioms Xt.Props.Fidelity.bin_value_becomes_array
#print axioms Xt.Props.Fidelity.failing_document_streamed
#print axioms Xt.Props.Fidelity.json_to_msgpack_fidelity
#print axioms Xt.Props.Fidelity.json_to_msgpack_fidelity_of_wf
#print axioms Xt.Props.Fidelity.json_to_msgpack_fidelity_documents
#print axioms Xt.Props.Fidelity.json_to_msgpack_fidelity_floats
#print axioms Xt.Props.Fidelity.five_stays_integer
#print axioms Xt.Props.Fidelity.minus_zero_is_float
#print axioms Xt.Props.Fidelity.msgpack_to_json_output
#print axioms Xt.Props.Fidelity.msgpack_to_json_fidelity
#print axioms Xt.Props.Fidelity.msgpack_to_json_fidelity_floatfree

end Xt.Props.C01
