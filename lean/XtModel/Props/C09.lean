import XtModel.Lemmas.Input
import XtModel.Model.Detect
import XtModel.Lemmas.Translate
import XtModel.Props.Json
import XtModel.Props.C18

/-!
# C09 — Format detection is a transparent, total pre-selection step

Property theorems about the model of `src/input.rs` (the rewindable handle
that detection relies on) and of `src/detect.rs` + the four `input_matches`
functions.  Helper lemmas are in `Lemmas/Input.lean`.

Obligations (listed in props/C09.py): `capture_transparent`,
`capture_transparent_from`, `capture_invariant`, `no_fault_no_error`,
`detection_then_takeover`, `eof_flips_to_slice`,
`eof_only_at_end`, `capture_error_keeps_bytes`, `fault_met_again`,
`capture_released`, `no_panic_input`, `detect_is_first_match`, `detect_none`,
`detect_io_only_from_source`, `msgpack_marker_table`, `toml_trial_capped`;
and, about the model of `Translator::translate` with `from = None` as a
composition (`Model/Translate.lean`, last section of this file):
`translate_no_panic`, `detect_is_decision_list`, `detect_then_explicit`,
`detect_then_explicit_msgpack`, `detect_then_explicit_json_partial`,
`detect_slice_eq_reader_msgpack`, `detect_slice_eq_reader_json_partial`,
`detect_reads_first_doc_only`, `detect_msgpack_trial_reads_enough`,
`detected_translatable_same_format`.

The handle theorems quantify over every source (data, read schedule, optional
persistent fault) and every program — a list of `borrow`, `read n`, `prefix n`
steps of any sizes in any order and number, optionally ended by either way of
taking ownership.  A parser that chooses its next request from the bytes it has
seen so far still produces, on a fixed source, one such list; so the statements
cover adaptive consumers (the detection trials) as well.
-/
namespace Xt.Props.C09
open Xt.Input Xt.Detect

/-! ## What a program may observe -/

/-- The observations of a program are *transparent* for the original data
`orig`.  `acc` is what the live borrow has read so far (`none`: there is no live
reader view — before the first borrow, under a slice view, or after a failed
read, which leaves the borrow dead until the next `borrow`).

* a slice view, an owned slice, a drained reader and a `Cow` are exactly `orig`;
* every `prefix` answer is a prefix of `orig`;
* the reads of one borrow, concatenated, are a prefix of `orig` (each borrow
  starts again at offset 0);
* an error is the source's own, and occurs only if the source has a fault
  offset (`faulty`);
* no panic outcome. -/
def Seen (orig : List Nat) (faulty : Bool) : Option (List Nat) → List Obs → Prop
  | _, [] => True
  | acc, o :: rest =>
    match o with
    | .refSlice bs => bs = orig ∧ Seen orig faulty none rest
    | .refReader => Seen orig faulty (some []) rest
    | .read bs =>
      (match acc with
        | some a => a ++ bs <+: orig ∧ Seen orig faulty (some (a ++ bs)) rest
        | none => bs = [] ∧ Seen orig faulty none rest)
    | .prefix bs => bs <+: orig ∧ Seen orig faulty acc rest
    | .inputSlice bs => bs = orig ∧ Seen orig faulty acc rest
    | .inputReader bs => bs = orig ∧ Seen orig faulty acc rest
    | .cow bs => bs = orig ∧ Seen orig faulty acc rest
    | .err at_ e =>
      e = .source ∧ faulty = true ∧
        Seen orig faulty (if at_ = .read then none else acc) rest
    | .skipped => Seen orig faulty acc rest
    | .panic _ => False

/-- The handle invariant for a program state. -/
def StInv (orig : List Nat) (fa : Option Nat) (st : St) : Prop :=
  match st.h with
  | .slice bs => bs = orig ∧ st.ref ≠ .reader
  | .reader c => Inv orig c ∧ c.src.failAt = fa ∧ (st.ref = .slice → c.eof = true)

/-- How the accumulator of `Seen` relates to the state. -/
def Link (st : St) : Option (List Nat) → Prop
  | some a => ∃ c, st.h = .reader c ∧ st.ref = .reader ∧ a = c.consumed
  | none => st.ref ≠ .reader ∨ ∃ c, st.h = .reader c ∧ Dead c

theorem faulted_isSome (s : Source) (h : s.faulted = true) : s.failAt.isSome = true := by
  unfold Source.faulted at h
  split at h
  · rename_i k hk; simp [hk]
  · simp at h

theorem consumed_prefix {orig : List Nat} {c : Cap} (h : Inv orig c) : c.consumed <+: orig :=
  List.IsPrefix.trans (List.take_prefix _ _) h.pre_prefix

theorem take_of_prefix {a b : List Nat} {n : Nat} (h : a <+: b) (hn : n ≤ a.length) :
    b.take n = a.take n := by
  obtain ⟨t, rfl⟩ := h
  rw [List.take_append_of_le_length hn]

/-- `intoInputObs` under the invariant. -/
theorem intoInput_seen (orig : List Nat) (fa : Option Nat) (st : St) (b : Nat)
    (hi : StInv orig fa st) (acc : Option (List Nat)) :
    Seen orig fa.isSome acc [intoInputObs st.h b] := by
  unfold StInv at hi
  unfold intoInputObs Input.ofHandle
  cases hh : st.h with
  | slice bs =>
    rw [hh] at hi
    simp [Seen, hi.1]
  | reader c =>
    rw [hh] at hi
    obtain ⟨hinv, hfa, _⟩ := hi
    have hr := hinv.rewind
    dsimp only
    split
    · rename_i bs heq
      split at heq
      · rename_i he
        simp only [Input.slice.injEq] at heq
        subst heq
        simp [Seen, hr.eof_pre he]
      · split at heq <;> simp at heq
    · rename_i r heq
      have hb : max b 1 ≠ 0 := by omega
      split at heq
      · simp at heq
      · rename_i he
        split at heq
        · rename_i hpe
          simp only [Input.reader.injEq] at heq
          subst heq
          obtain ⟨d1, d2, d3, d4⟩ := drain_spec (.bare c.rewind.src) (max b 1) hb trivial
          simp only [List.isEmpty_iff] at hpe
          have hd := hr.data
          rw [hpe] at hd
          simp only [List.nil_append] at hd
          split
          · rename_i hf
            have := faulted_isSome _ (d4 hf)
            rw [d2] at this
            simp only [InReader.src, Cap.rewind] at this
            rw [hfa] at this
            simp [Seen, this]
          · rename_i hf
            simp only [Bool.not_eq_true] at hf
            have := (d3 hf).1
            rw [this] at d1
            simp only [List.append_nil, InReader.content] at d1
            simp [Seen, d1, hd]
        · rename_i hpe
          simp only [Input.reader.injEq] at heq
          subst heq
          obtain ⟨d1, d2, d3, d4⟩ :=
            drain_spec (.chain (some (c.rewind.pre, c.rewind.pos)) false c.rewind.src) (max b 1) hb trivial
          have hd := hr.data
          split
          · rename_i hf
            have := faulted_isSome _ (d4 hf)
            rw [d2] at this
            simp only [InReader.src, Cap.rewind] at this
            rw [hfa] at this
            simp [Seen, this]
          · rename_i hf
            simp only [Bool.not_eq_true] at hf
            have := (d3 hf).1
            rw [this] at d1
            simp only [List.append_nil, InReader.content, Cap.rewind, List.drop_zero] at d1
            simp only [Cap.rewind] at hd
            simp only [Seen, Cap.rewind, and_true]
            rw [d1, hd]

/-- `intoCowObs` under the invariant. -/
theorem intoCow_seen (orig : List Nat) (fa : Option Nat) (st : St)
    (hi : StInv orig fa st) (acc : Option (List Nat)) :
    Seen orig fa.isSome acc [intoCowObs st.h] := by
  unfold StInv at hi
  unfold intoCowObs Cow.ofHandle
  cases hh : st.h with
  | slice bs =>
    rw [hh] at hi
    simp [Seen, hi.1]
  | reader c =>
    rw [hh] at hi
    obtain ⟨hinv, hfa, _⟩ := hi
    have hr := hinv.rewind
    dsimp only
    cases hc : c.rewind.captureToEnd with
    | mk r c' =>
      obtain ⟨s1, _, _, s3, s4, s5, s6⟩ := Cap.captureToEnd_spec hr hc
      cases r with
      | ok u => simp [Seen, (s4 rfl).1]
      | err e =>
        obtain ⟨e1, e2⟩ := s5 e rfl
        have := faulted_isSome _ e2
        have hfa' : c'.src.failAt = fa := by rw [s3]; exact hfa
        rw [hfa'] at this
        simp [Seen, e1, this]
      | panic s => exact absurd rfl (s6 s)

theorem consumed_grow {orig : List Nat} {c c' : Cap} (h : Inv orig c) (hp : c.pre <+: c'.pre)
    (hpos : c'.pos = c.pos) : c'.consumed = c.consumed := by
  simp only [Cap.consumed, hpos]
  exact take_of_prefix hp h.pos

/-- The main induction: from any state that satisfies the invariant, every
program's observations are transparent. -/
theorem run_seen (orig : List Nat) (fa : Option Nat) (ops : List Op) :
    ∀ (st : St) (acc : Option (List Nat)), StInv orig fa st → Link st acc →
      Seen orig fa.isSome acc (run st ops) := by
  induction ops with
  | nil => intro st acc _ _; simp [run, Seen]
  | cons op ops ih =>
    intro st acc hi hl
    cases op with
    | intoInput b => exact intoInput_seen orig fa st b hi acc
    | intoCow => exact intoCow_seen orig fa st hi acc
    | borrow =>
      obtain ⟨h, ref⟩ := st
      cases h with
      | slice bs =>
        simp only [StInv] at hi
        simp only [run, Handle.borrow, Handle.sliceView, Seen]
        exact ⟨hi.1, ih _ none (by simp [StInv, hi.1]) (Or.inl (by simp))⟩
      | reader c =>
        simp only [StInv] at hi
        obtain ⟨hinv, hfa, _⟩ := hi
        have hr := hinv.rewind
        simp only [run, Handle.borrow]
        by_cases he : c.rewind.eof = true
        · simp only [he, ↓reduceIte, Handle.sliceView, Seen]
          exact ⟨hr.eof_pre he, ih _ none (by simp [StInv, hr, he]; exact hfa) (Or.inl (by simp))⟩
        · simp only [he, Bool.false_eq_true, ↓reduceIte, Seen]
          exact ih _ (some []) (by simp [StInv, hr]; exact hfa)
            ⟨c.rewind, rfl, rfl, by simp [Cap.consumed, Cap.rewind]⟩
    | read n =>
      obtain ⟨h, ref⟩ := st
      simp only [run]
      cases acc with
      | some a =>
        obtain ⟨c, hh, hrf, ha⟩ := hl
        simp only at hh hrf
        subst hh hrf
        simp only [StInv] at hi
        obtain ⟨hinv, hfa, _⟩ := hi
        simp only [St.read]
        cases hc : c.read n with
        | mk r c' =>
          obtain ⟨s1, s2, s3, s4, s5, s6⟩ := Cap.read_spec hinv hc
          cases r with
          | ok bs =>
            obtain ⟨q1, _, _⟩ := s4 bs rfl
            simp only [Seen]
            rw [ha, q1]
            exact ⟨consumed_prefix s1,
              ih _ _ (by simp [StInv, s1]; rw [s3]; exact hfa) ⟨c', rfl, rfl, rfl⟩⟩
          | err e =>
            obtain ⟨e1, _, e3, _, e5⟩ := s5 e rfl
            have := faulted_isSome _ e3
            rw [s3, hfa] at this
            simp only [Seen, ↓reduceIte]
            exact ⟨e1, this, ih _ none (by simp [StInv, s1]; rw [s3]; exact hfa)
              (Or.inr ⟨c', rfl, e5, e3⟩)⟩
          | panic s => exact absurd rfl (s6 s)
      | none =>
        rcases hl with hl | ⟨c, hh, hdead⟩
        · simp only at hl
          have : St.read { h := h, ref := ref } n = (.skipped, { h := h, ref := ref }) := by
            simp only [St.read]
            split
            · simp at hl
            · rfl
          rw [this]
          simp only [Seen]
          exact ih _ none hi (Or.inl hl)
        · simp only at hh
          subst hh
          simp only [StInv] at hi
          obtain ⟨hinv, hfa, hsl⟩ := hi
          cases ref with
          | none => simp only [St.read, Seen]; exact ih _ none (by simp [StInv, hinv, hfa]) (Or.inl (by simp))
          | slice =>
            simp only [St.read, Seen]
            exact ih _ none (by simp [StInv, hinv, hfa]; exact hsl rfl) (Or.inl (by simp))
          | reader =>
            simp only [St.read]
            cases hc : c.read n with
            | mk r c' =>
              obtain ⟨s1, s2, s3, s4, s5, s6⟩ := Cap.read_spec hinv hc
              obtain ⟨d1, d2, _⟩ := Cap.read_dead hdead hc
              have hst : StInv orig fa { h := .reader c', ref := .reader } := by
                simp [StInv, s1]; rw [s3]; exact hfa
              rcases d1 with d1 | d1
              · subst d1
                simp only [Seen]
                exact ⟨trivial, ih _ none hst (Or.inr ⟨c', rfl, d2⟩)⟩
              · subst d1
                have := faulted_isSome _ d2.2
                rw [s3, hfa] at this
                simp only [Seen, ↓reduceIte]
                exact ⟨trivial, this, ih _ none hst (Or.inr ⟨c', rfl, d2⟩)⟩
    | «prefix» n =>
      obtain ⟨h, ref⟩ := st
      simp only [run]
      cases ref with
      | none =>
        have hacc : acc = none := by
          cases acc with
          | none => rfl
          | some a => obtain ⟨c, _, hrf, _⟩ := hl; simp at hrf
        subst hacc
        simp only [St.prefix, Seen]
        exact ih _ none hi (Or.inl (by simp))
      | slice =>
        have hacc : acc = none := by
          cases acc with
          | none => rfl
          | some a => obtain ⟨c, _, hrf, _⟩ := hl; simp at hrf
        subst hacc
        simp only [St.prefix, Seen]
        refine ⟨?_, ih _ none hi (Or.inl (by simp))⟩
        cases h with
        | slice bs => simp only [StInv] at hi; simp [Handle.sliceView, hi.1]
        | reader c =>
          simp only [StInv] at hi
          simp only [Handle.sliceView]
          rw [hi.1.eof_pre (hi.2.2 trivial)]
          exact List.prefix_refl _
      | reader =>
        cases h with
        | slice bs => simp [StInv] at hi
        | reader c =>
          simp only [StInv] at hi
          obtain ⟨hinv, hfa, _⟩ := hi
          simp only [St.prefix]
          cases hc : c.captureUpToSize n with
          | mk r c' =>
            obtain ⟨s1, s2, s3, s4, _, s6, s7⟩ := Cap.captureUpToSize_spec hinv hc
            have hst : StInv orig fa { h := .reader c', ref := .reader } := by
              simp [StInv, s1]; rw [s4]; exact hfa
            have hlink : Link { h := .reader c', ref := .reader } acc := by
              cases acc with
              | some a =>
                obtain ⟨c0, hh, _, ha⟩ := hl
                simp only [Handle.reader.injEq] at hh
                subst hh
                exact ⟨c', rfl, rfl, by rw [ha, consumed_grow hinv s2 s3]⟩
              | none =>
                rcases hl with hl | ⟨c0, hh, hdead⟩
                · simp at hl
                · simp only [Handle.reader.injEq] at hh
                  subst hh
                  exact Or.inr ⟨c', rfl, (Cap.captureUpToSize_dead hdead hc).1⟩
            cases r with
            | ok u =>
              simp only [Seen]
              exact ⟨s1.pre_prefix, ih _ acc hst hlink⟩
            | err e =>
              obtain ⟨e1, e2, _⟩ := s6 e rfl
              have := faulted_isSome _ e2
              rw [s4, hfa] at this
              simp only [Seen]
              refine ⟨e1, this, ?_⟩
              simp only [reduceCtorEq, ↓reduceIte]
              exact ih _ acc hst hlink
            | panic s => exact absurd rfl (s7 s)

/-! ## The handle theorems -/

theorem StInv.init (s : Source) : StInv s.data s.failAt (St.init s) := by
  simp only [StInv, St.init, Handle.fromReader]
  exact ⟨Inv.new s, rfl, by simp⟩

/-- **Transparency of the rewindable handle.**  For every source (data, read
schedule, optional persistent fault) and every program: each slice view and
each way of taking ownership yields exactly the original bytes, every prefix
answer is a prefix of them, the reads of each borrow concatenate to a prefix of
them starting at offset 0, errors are the source's own and need a fault offset,
and nothing panics. -/
theorem capture_transparent (s : Source) (ops : List Op) :
    Seen s.data s.failAt.isSome none (handleProgram s ops) :=
  run_seen s.data s.failAt ops (St.init s) none (StInv.init s) (Or.inl (by simp [St.init]))

/-- The same from any state that satisfies the capture invariant
`prefix ++ undelivered = original ∧ pos ≤ prefix.length ∧ (eof → undelivered = [])`
— in particular from the state an earlier program (or an earlier failed step)
left behind. -/
theorem capture_transparent_from (orig : List Nat) (c : Cap) (h : Inv orig c) (ops : List Op) :
    Seen orig c.src.failAt.isSome none (run { h := .reader c, ref := .none } ops) :=
  run_seen orig c.src.failAt ops _ none (by simp [StInv, h]) (Or.inl (by simp))

/-- The invariant is preserved by every operation (the induction step of
`capture_transparent`, stated on its own). -/
theorem capture_invariant (orig : List Nat) (c : Cap) (h : Inv orig c) (n : Nat) :
    Inv orig c.rewind ∧ Inv orig (c.read n).2 ∧ Inv orig (c.captureUpToSize n).2 ∧
    Inv orig c.captureToEnd.2 :=
  ⟨h.rewind, (Cap.read_spec (r := (c.read n).1) (c' := (c.read n).2) h rfl).1,
    (Cap.captureUpToSize_spec (r := (c.captureUpToSize n).1) (c' := (c.captureUpToSize n).2) h rfl).1,
    (Cap.captureToEnd_spec (r := c.captureToEnd.1) (c' := c.captureToEnd.2) h rfl).1⟩

theorem seen_no_err (orig : List Nat) (obs : List Obs) :
    ∀ acc, Seen orig false acc obs → ∀ o ∈ obs, ∀ a e, o ≠ .err a e := by
  induction obs with
  | nil => intro _ _ o ho; simp at ho
  | cons x xs ih =>
    intro acc hs o ho a e
    simp only [List.mem_cons] at ho
    cases x with
    | err a' e' => simp [Seen] at hs
    | read bs =>
      rcases ho with rfl | ho
      · simp
      · cases acc with
        | none => simp only [Seen] at hs; exact ih _ hs.2 o ho a e
        | some ac => simp only [Seen] at hs; exact ih _ hs.2 o ho a e
    | panic s => simp [Seen] at hs
    | refSlice bs =>
      rcases ho with rfl | ho
      · simp
      · simp only [Seen] at hs; exact ih _ hs.2 o ho a e
    | refReader =>
      rcases ho with rfl | ho
      · simp
      · simp only [Seen] at hs; exact ih _ hs o ho a e
    | «prefix» bs =>
      rcases ho with rfl | ho
      · simp
      · simp only [Seen] at hs; exact ih _ hs.2 o ho a e
    | inputSlice bs =>
      rcases ho with rfl | ho
      · simp
      · simp only [Seen] at hs; exact ih _ hs.2 o ho a e
    | inputReader bs =>
      rcases ho with rfl | ho
      · simp
      · simp only [Seen] at hs; exact ih _ hs.2 o ho a e
    | cow bs =>
      rcases ho with rfl | ho
      · simp
      · simp only [Seen] at hs; exact ih _ hs.2 o ho a e
    | skipped =>
      rcases ho with rfl | ho
      · simp
      · simp only [Seen] at hs; exact ih _ hs o ho a e

theorem seen_no_panic (orig : List Nat) (f : Bool) (obs : List Obs) :
    ∀ acc, Seen orig f acc obs → ∀ o ∈ obs, ∀ s, o ≠ .panic s := by
  induction obs with
  | nil => intro _ _ o ho; simp at ho
  | cons x xs ih =>
    intro acc hs o ho s
    simp only [List.mem_cons] at ho
    cases x with
    | panic s' => simp [Seen] at hs
    | read bs =>
      rcases ho with rfl | ho
      · simp
      · cases acc with
        | none => simp only [Seen] at hs; exact ih _ hs.2 o ho s
        | some ac => simp only [Seen] at hs; exact ih _ hs.2 o ho s
    | err a' e' =>
      rcases ho with rfl | ho
      · simp
      · simp only [Seen] at hs; exact ih _ hs.2.2 o ho s
    | refSlice bs =>
      rcases ho with rfl | ho
      · simp
      · simp only [Seen] at hs; exact ih _ hs.2 o ho s
    | refReader =>
      rcases ho with rfl | ho
      · simp
      · simp only [Seen] at hs; exact ih _ hs o ho s
    | «prefix» bs =>
      rcases ho with rfl | ho
      · simp
      · simp only [Seen] at hs; exact ih _ hs.2 o ho s
    | inputSlice bs =>
      rcases ho with rfl | ho
      · simp
      · simp only [Seen] at hs; exact ih _ hs.2 o ho s
    | inputReader bs =>
      rcases ho with rfl | ho
      · simp
      · simp only [Seen] at hs; exact ih _ hs.2 o ho s
    | cow bs =>
      rcases ho with rfl | ho
      · simp
      · simp only [Seen] at hs; exact ih _ hs.2 o ho s
    | skipped =>
      rcases ho with rfl | ho
      · simp
      · simp only [Seen] at hs; exact ih _ hs o ho s

/-- What `Seen` says about a single observation, wherever it occurs. -/
def ObsOk (orig : List Nat) (faulty : Bool) : Obs → Prop
  | .refSlice bs | .inputSlice bs | .inputReader bs | .cow bs => bs = orig
  | .prefix bs => bs <+: orig
  | .read bs => ∃ before, before ++ bs <+: orig
  | .err _ e => e = .source ∧ faulty = true
  | .panic _ => False
  | _ => True

theorem seen_mem (orig : List Nat) (f : Bool) (obs : List Obs) :
    ∀ acc, Seen orig f acc obs → ∀ o ∈ obs, ObsOk orig f o := by
  induction obs with
  | nil => intro _ _ o ho; simp at ho
  | cons x xs ih =>
    intro acc hs o ho
    simp only [List.mem_cons] at ho
    cases x with
    | panic s => simp [Seen] at hs
    | read bs =>
      cases acc with
      | none =>
        simp only [Seen] at hs
        rcases ho with rfl | ho
        · exact ⟨[], by simp [hs.1]⟩
        · exact ih _ hs.2 o ho
      | some ac =>
        simp only [Seen] at hs
        rcases ho with rfl | ho
        · exact ⟨ac, hs.1⟩
        · exact ih _ hs.2 o ho
    | err a' e' =>
      simp only [Seen] at hs
      rcases ho with rfl | ho
      · exact ⟨hs.1, hs.2.1⟩
      · exact ih _ hs.2.2 o ho
    | refSlice bs =>
      simp only [Seen] at hs
      rcases ho with rfl | ho
      · exact hs.1
      · exact ih _ hs.2 o ho
    | refReader =>
      simp only [Seen] at hs
      rcases ho with rfl | ho
      · trivial
      · exact ih _ hs o ho
    | «prefix» bs =>
      simp only [Seen] at hs
      rcases ho with rfl | ho
      · exact hs.1
      · exact ih _ hs.2 o ho
    | inputSlice bs =>
      simp only [Seen] at hs
      rcases ho with rfl | ho
      · exact hs.1
      · exact ih _ hs.2 o ho
    | inputReader bs =>
      simp only [Seen] at hs
      rcases ho with rfl | ho
      · exact hs.1
      · exact ih _ hs.2 o ho
    | cow bs =>
      simp only [Seen] at hs
      rcases ho with rfl | ho
      · exact hs.1
      · exact ih _ hs.2 o ho
    | skipped =>
      simp only [Seen] at hs
      rcases ho with rfl | ho
      · trivial
      · exact ih _ hs o ho

/-- **After detection the translator sees the complete, unaltered byte stream.**
Whatever the four trials read through their (rewound) borrows — any reads and
prefix requests `t₁ … t₄` — taking ownership afterwards yields exactly the
original bytes, as a slice, as a drained reader or as a `Cow`; and every slice
view a trial was given was the complete input.  (Corollary of
`capture_transparent` for the program `B t₁ B t₂ B t₃ B t₄ takeover`.) -/
theorem detection_then_takeover (s : Source) (t1 t2 t3 t4 : List Op) (takeover : Op) :
    ∀ o ∈ handleProgram s
        (.borrow :: t1 ++ .borrow :: t2 ++ .borrow :: t3 ++ .borrow :: t4 ++ [takeover]),
      ObsOk s.data s.failAt.isSome o :=
  seen_mem s.data _ _ none (capture_transparent s _)

/-- When the source does not fail, no step of any program fails: borrowing,
reading, prefix requests and both ways of taking ownership all succeed (and, by
`capture_transparent`, `Input.ofHandle` / `Cow.ofHandle` denote exactly the
complete original byte sequence). -/
theorem no_fault_no_error (s : Source) (h : s.failAt = none) (ops : List Op) :
    ∀ o ∈ handleProgram s ops, ∀ a e, o ≠ .err a e := by
  have := capture_transparent s ops
  rw [h] at this
  exact seen_no_err s.data _ none this

/-- No panic outcome is reachable: the unchecked `len - offset` in
`captured_unread_size` and the three slice-index sites of `read` are dead for
every source, schedule and program. -/
theorem no_panic_input (s : Source) (ops : List Op) :
    ∀ o ∈ handleProgram s ops, ∀ site, o ≠ .panic site :=
  seen_no_panic s.data _ _ none (capture_transparent s ops)

/-- At the level of single operations: under the invariant no operation of
`CaptureReader` panics, and no error is the cursor's `UnexpectedEof`. -/
theorem no_panic_ops (orig : List Nat) (c : Cap) (h : Inv orig c) (n : Nat) :
    (∀ s, (c.read n).1 ≠ .panic s) ∧ (c.read n).1 ≠ .err .cursorEof ∧
    (∀ s, (c.captureUpToSize n).1 ≠ .panic s) ∧ (∀ s, c.captureToEnd.1 ≠ .panic s) := by
  obtain ⟨_, _, _, _, r5, r6⟩ := Cap.read_spec (r := (c.read n).1) (c' := (c.read n).2) h rfl
  refine ⟨r6, ?_,
    (Cap.captureUpToSize_spec (r := (c.captureUpToSize n).1) (c' := (c.captureUpToSize n).2) h rfl).2.2.2.2.2.2,
    (Cap.captureToEnd_spec (r := c.captureToEnd.1) (c' := c.captureToEnd.2) h rfl).2.2.2.2.2.2⟩
  intro he
  have := (r5 _ he).1
  simp at this

/-- **The handle becomes a slice exactly when the source has reported its end.**
With `source_eof` set, `borrow` gives a slice view of the complete input and
taking ownership gives the complete input as a slice; without it, both give a
reader.  `source_eof` implies that the source has nothing left, and once set it
stays set. -/
theorem eof_flips_to_slice (orig : List Nat) (c : Cap) (h : Inv orig c) :
    (c.eof = true →
      (Handle.reader c).borrow.1 = .slice ∧ (Handle.reader c).borrow.2.sliceView = orig ∧
      Input.ofHandle (.reader c) = .slice orig) ∧
    (c.eof = false →
      (Handle.reader c).borrow.1 = .reader ∧ ∃ r, Input.ofHandle (.reader c) = .reader r) := by
  constructor
  · intro he
    have hp := h.eof_pre he
    simp [Handle.borrow, Input.ofHandle, Cap.rewind, he, Handle.sliceView, hp]
  · intro he
    simp only [Handle.borrow, Cap.rewind, he, Bool.false_eq_true, ↓reduceIte, Input.ofHandle, true_and]
    split
    · exact ⟨_, rfl⟩
    · exact ⟨_, rfl⟩

/-- The supply mode can flip only at the end of the input: `source_eof` after
any operation means that every byte of the input has been captured and the
source has nothing left; and `source_eof` is never reset. -/
theorem eof_only_at_end (orig : List Nat) (c : Cap) (h : Inv orig c) (n : Nat) :
    ((c.read n).2.eof = true → (c.read n).2.pre = orig ∧ (c.read n).2.src.data = []) ∧
    ((c.captureUpToSize n).2.eof = true →
      (c.captureUpToSize n).2.pre = orig ∧ (c.captureUpToSize n).2.src.data = []) ∧
    (c.eof = true → (c.read n).2.eof = true ∧ (c.captureUpToSize n).2.eof = true) := by
  have hr := Cap.read_spec (r := (c.read n).1) (c' := (c.read n).2) h rfl
  have hc := Cap.captureUpToSize_spec (r := (c.captureUpToSize n).1) (c' := (c.captureUpToSize n).2) h rfl
  refine ⟨fun he => ⟨hr.1.eof_pre he, hr.1.eof he⟩, fun he => ⟨hc.1.eof_pre he, hc.1.eof he⟩, ?_⟩
  intro he
  constructor
  · cases hres : (c.read n).1 with
    | ok bs =>
      rcases (hr.2.2.2.1 bs hres).2.2 with h1 | h1
      · exact h1
      · rw [h1, he]
    | err e => rw [(hr.2.2.2.2.1 e hres).2.2.2.1, he]
    | panic s => exact absurd hres (hr.2.2.2.2.2 s)
  · cases hres : (c.captureUpToSize n).1 with
    | ok u =>
      rcases (hc.2.2.2.2.1 hres).2 with h1 | h1
      · exact h1
      · rw [h1, he]
    | err e => rw [(hc.2.2.2.2.2.1 e hres).2.2, he]
    | panic s => exact absurd hres (hc.2.2.2.2.2.2 s)

/-- **An error never drops captured bytes.**  A failing `read` leaves the
captured bytes as they were; a failing `prefix` / `capture_to_end` keeps every
byte read before the error; in all cases the invariant still holds (so, by
`capture_transparent_from`, every later program still sees the true bytes) and
the error is the source's. -/
theorem capture_error_keeps_bytes (orig : List Nat) (c : Cap) (h : Inv orig c) (n : Nat) :
    (∀ e c', c.read n = (.err e, c') →
      e = .source ∧ c'.pre = c.pre ∧ Inv orig c' ∧ c'.src.faulted = true) ∧
    (∀ e c', c.captureUpToSize n = (.err e, c') →
      e = .source ∧ c.pre <+: c'.pre ∧ Inv orig c' ∧ c'.src.faulted = true) ∧
    (∀ e c', c.captureToEnd = (.err e, c') →
      e = .source ∧ c.pre <+: c'.pre ∧ Inv orig c' ∧ c'.src.faulted = true) := by
  refine ⟨?_, ?_, ?_⟩
  · intro e c' hr
    obtain ⟨s1, _, _, _, s5, _⟩ := Cap.read_spec h hr
    obtain ⟨e1, e2, e3, _⟩ := s5 e rfl
    exact ⟨e1, e2, s1, e3⟩
  · intro e c' hr
    obtain ⟨s1, s2, _, _, _, s6, _⟩ := Cap.captureUpToSize_spec h hr
    obtain ⟨e1, e2, _⟩ := s6 e rfl
    exact ⟨e1, s2, s1, e2⟩
  · intro e c' hr
    obtain ⟨s1, s2, _, _, _, s6, _⟩ := Cap.captureToEnd_spec h hr
    obtain ⟨e1, e2⟩ := s6 e rfl
    exact ⟨e1, s2, s1, e2⟩

/-- **A persistent fault is met again.**  Once the source is at its fault, a
later borrow still serves every captured byte (`prefix` within the captured
length succeeds and returns the true prefix), a request beyond it fails again
without changing what is captured, and so does `Cow.ofHandle`. -/
theorem fault_met_again (orig : List Nat) (c : Cap) (h : Inv orig c) (hf : c.src.faulted = true)
    (hne : c.eof = false) (n : Nat) :
    (n ≤ c.pre.length → c.rewind.captureUpToSize n = (.ok (), c.rewind)) ∧
    (c.pre.length < n → (c.rewind.captureUpToSize n).1 = .err .source) ∧
    (c.rewind.captureUpToSize n).2.pre = c.pre ∧ c.pre <+: orig ∧
    Cow.ofHandle (.reader c) = .err .source := by
  have hf' : c.rewind.src.faulted = true := hf
  obtain ⟨f1, _, _, f4, f5⟩ := Cap.captureUpToSize_faulted (c := c.rewind) (n := n) hf'
  refine ⟨f5, f4, f1, h.pre_prefix, ?_⟩
  obtain ⟨r1, r2⟩ := readToEnd_faulted c.src hf
  simp only [Cow.ofHandle, Cap.captureToEnd, Cap.rewind, hne, Bool.false_eq_true, ↓reduceIte, r2]

/-- **After take-over nothing new is captured.**  A handle that captured
nothing hands over the bare source; otherwise the reader is the replayed prefix
chained to the source: its reads never add to the held prefix, the read that
finds the prefix exhausted drops it (`FusedReader`) and passes straight through
to the source, and after reading to the end without an error nothing is held. -/
theorem capture_released (orig : List Nat) (c : Cap) (h : Inv orig c) (hne : c.eof = false) :
    (c.pre = [] → Input.ofHandle (.reader c) = .reader (.bare c.src)) ∧
    (c.pre ≠ [] → Input.ofHandle (.reader c) = .reader (.chain (some (c.pre, 0)) false c.src)) ∧
    (∀ r, Input.ofHandle (.reader c) = .reader r → r.wf ∧ r.content = orig ∧ r.held = c.pre) ∧
    (∀ (r r' : InReader) (n : Nat) (res : Rd), r.wf → r.read n = (res, r') →
      r'.wf ∧ (r'.held = r.held ∨ r'.held = [])) ∧
    (∀ (vec : List Nat) (pos n : Nat) (s : Source), vec.length ≤ pos → n ≠ 0 →
      (InReader.chain (some (vec, pos)) false s).read n = ((s.read n).1, .chain none true (s.read n).2)) ∧
    (∀ (r : InReader) (b : Nat), r.wf → b ≠ 0 → (drain r b).failed = false →
      (drain r b).rdr.held = [] ∧ (drain r b).bytes = r.content) := by
  have hfull : ∀ hp : c.pre ≠ [],
      Input.ofHandle (.reader c) = .reader (.chain (some (c.pre, 0)) false c.src) := by
    intro hp
    have : c.pre.isEmpty = false := by
      cases hc : c.pre with
      | nil => exact absurd hc hp
      | cons x xs => rfl
    simp [Input.ofHandle, Cap.rewind, hne, this]
  have hbare : c.pre = [] → Input.ofHandle (.reader c) = .reader (.bare c.src) := by
    intro hp
    simp [Input.ofHandle, Cap.rewind, hne, hp]
  refine ⟨hbare, hfull, ?_, ?_, ?_, ?_⟩
  · intro r hr
    by_cases hp : c.pre = []
    · rw [hbare hp] at hr
      simp only [Input.reader.injEq] at hr
      subst hr
      have := h.data
      rw [hp] at this
      exact ⟨trivial, by simpa [InReader.content] using this, by simp [InReader.held, hp]⟩
    · rw [hfull hp] at hr
      simp only [Input.reader.injEq] at hr
      subst hr
      exact ⟨trivial, by simpa [InReader.content] using h.data, rfl⟩
  · intro r r' n res hw hr
    obtain ⟨p1, _, p3, _⟩ := InReader.read_spec r r' n res hw hr
    exact ⟨p1, p3⟩
  · intro vec pos n s hv hn
    have : min n (vec.length - pos) = 0 := by omega
    simp [InReader.read, this, hn]
  · intro r b hw hb hf
    obtain ⟨d1, _, d3, _⟩ := drain_spec r b hb hw
    obtain ⟨d31, d32⟩ := d3 hf
    rw [d31] at d1
    exact ⟨d32, by simpa using d1⟩

/-! ## The decision list and the four classifications -/

/-- The general form: a list of trials selects `f` exactly when `f`'s trial
matched and every earlier trial answered "no match". -/
theorem decideList_first_match (l : List (Fmt × Trial)) (f : Fmt) :
    decideList l = .fmt f ↔
      ∃ before after, l = before ++ (f, .matched) :: after ∧ ∀ p ∈ before, p.2 = .noMatch := by
  induction l with
  | nil => simp [decideList]
  | cons x xs ih =>
    obtain ⟨g, t⟩ := x
    cases t with
    | matched =>
      simp only [decideList, Detected.fmt.injEq]
      constructor
      · rintro rfl; exact ⟨[], xs, rfl, by simp⟩
      · rintro ⟨before, after, hl, hb⟩
        cases before with
        | nil => simp at hl; exact hl.1
        | cons b bs =>
          simp only [List.cons_append, List.cons.injEq] at hl
          have := hb b (by simp)
          rw [← hl.1] at this
          simp at this
    | ioErr =>
      simp only [decideList, reduceCtorEq, false_iff]
      rintro ⟨before, after, hl, hb⟩
      cases before with
      | nil => simp at hl
      | cons b bs =>
        simp only [List.cons_append, List.cons.injEq] at hl
        have := hb b (by simp)
        rw [← hl.1] at this
        simp at this
    | noMatch =>
      simp only [decideList]
      rw [ih]
      constructor
      · rintro ⟨before, after, hl, hb⟩
        refine ⟨(g, .noMatch) :: before, after, by simp [hl], ?_⟩
        intro p hp
        simp only [List.mem_cons] at hp
        rcases hp with rfl | hp
        · rfl
        · exact hb p hp
      · rintro ⟨before, after, hl, hb⟩
        cases before with
        | nil => simp at hl
        | cons b bs =>
          simp only [List.cons_append, List.cons.injEq] at hl
          exact ⟨bs, after, hl.2, fun p hp => hb p (by simp [hp])⟩

/-- **Detection is the first match in the fixed order MessagePack, JSON, YAML,
TOML.** -/
theorem detect_is_first_match (m j y t : Trial) (f : Fmt) :
    detectFormat m j y t = .fmt f ↔
      (f = .msgpack ∧ m = .matched) ∨
      (f = .json ∧ m = .noMatch ∧ j = .matched) ∨
      (f = .yaml ∧ m = .noMatch ∧ j = .noMatch ∧ y = .matched) ∨
      (f = .toml ∧ m = .noMatch ∧ j = .noMatch ∧ y = .noMatch ∧ t = .matched) := by
  cases m <;> cases j <;> cases y <;> cases t <;> cases f <;> simp [detectFormat, decideList]

/-- **No candidate matched ⇒ "unable to detect input format"**, and only then. -/
theorem detect_none (m j y t : Trial) :
    (detectFormat m j y t = .none ↔ m = .noMatch ∧ j = .noMatch ∧ y = .noMatch ∧ t = .noMatch) ∧
    (select (detectFormat m j y t) = .unableToDetect ↔
      m = .noMatch ∧ j = .noMatch ∧ y = .noMatch ∧ t = .noMatch) := by
  cases m <;> cases j <;> cases y <;> cases t <;> simp [detectFormat, decideList, select]

/-- **Detection fails only when a trial reported an I/O error, and a trial
reports one only for a reader error that is not one of the swallowed kinds.**

* the decision list answers `ioErr` exactly when the first trial that did not
  answer "no match" answered `ioErr`;
* MessagePack: `prefix(1)` failed, or the first byte is a collection marker and
  the decoder returned `InvalidMarkerRead` / `InvalidDataRead` of a kind other
  than `UnexpectedEof`;
* JSON: the parser's error `is_io()` (never for a slice that is not UTF-8);
* YAML: `prefix(DETECT_LEN)` failed, or the chunker's error kind is not
  `InvalidData`;
* TOML: `prefix(SIZE_CUTOFF)` failed;
* and on the model handle a failing `prefix` means that the source is at its
  fault (the error is the source's own). -/
theorem detect_io_only_from_source :
    (∀ m j y t, detectFormat m j y t = .ioErr ↔
      m = .ioErr ∨ (m = .noMatch ∧ j = .ioErr) ∨ (m = .noMatch ∧ j = .noMatch ∧ y = .ioErr) ∨
      (m = .noMatch ∧ j = .noMatch ∧ y = .noMatch ∧ t = .ioErr)) ∧
    (∀ p d, msgpackMatches p d = .ioErr ↔
      (match p with
        | .err => True
        | .ok bs => ∃ b, bs.head? = some b ∧ markerTest b = true ∧ d = .readErr false)) ∧
    (∀ r d, jsonMatches r d = .ioErr ↔ r ≠ .slice false ∧ d = .io) ∧
    (∀ p c, yamlMatches p c = .ioErr ↔
      (match p with
        | .err => True
        | .ok _ => c = .err false)) ∧
    (∀ isReader p utf8 parses, tomlMatches isReader p utf8 parses = .ioErr ↔
      (match p with
        | .err => True
        | .ok _ => False)) ∧
    (∀ orig c n e c', Inv orig c → c.captureUpToSize n = (.err e, c') →
      e = .source ∧ c'.src.faulted = true ∧ c.src.failAt.isSome = true) := by
  refine ⟨?_, ?_, ?_, ?_, ?_, ?_⟩
  · intro m j y t
    cases m <;> cases j <;> cases y <;> cases t <;> simp [detectFormat, decideList]
  · intro p d
    cases p with
    | err => simp [msgpackMatches]
    | ok bs =>
      simp only [msgpackMatches]
      cases hb : bs.head? with
      | none => simp
      | some b =>
        simp only [Option.some.injEq, exists_eq_left']
        cases hm : markerTest b with
        | false => simp
        | true =>
          simp only [↓reduceIte, true_and]
          cases d with
          | ok => simp
          | other => simp
          | readErr eof => cases eof <;> simp
  · intro r d
    cases r with
    | reader => cases d <;> simp [jsonMatches]
    | slice u => cases u <;> cases d <;> simp [jsonMatches]
  · intro p c
    cases p with
    | err => simp [yamlMatches]
    | ok bs =>
      cases c with
      | none => simp [yamlMatches]
      | doc b => cases b <;> simp [yamlMatches]
      | err b => cases b <;> simp [yamlMatches]
  · intro isReader p utf8 parses
    cases p with
    | err => simp [tomlMatches]
    | ok bs =>
      simp only [tomlMatches, iff_false]
      split
      · simp
      · split
        · simp
        · split <;> simp
  · intro orig c n e c' hinv hc
    obtain ⟨_, _, _, s4, _, s6, _⟩ := Cap.captureUpToSize_spec hinv hc
    obtain ⟨e1, e2, _⟩ := s6 e rfl
    have := faulted_isSome _ e2
    rw [s4] at this
    exact ⟨e1, e2, this⟩

set_option maxRecDepth 100000 in
/-- **The first-byte test of the MessagePack trial**, for every byte value
(indeed every natural number): it passes exactly on fixmap `0x80–0x8F`,
fixarray `0x90–0x9F`, array16/32 `0xDC 0xDD` and map16/32 `0xDE 0xDF`. -/
theorem msgpack_marker_table (b : Nat) :
    markerTest b = decide ((0x80 ≤ b ∧ b ≤ 0x8f) ∨ (0x90 ≤ b ∧ b ≤ 0x9f) ∨
      b = 0xdc ∨ b = 0xdd ∨ b = 0xde ∨ b = 0xdf) := by
  by_cases hb : b < 256
  · revert b
    decide
  · have : Marker.fromU8 b = .fixNeg b := by
      unfold Marker.fromU8
      rw [if_neg (by omega), if_pos (by omega)]
    simp only [markerTest, this, Marker.isCollection]
    symm
    simp only [decide_eq_false_iff_not]
    omega

/-- **The TOML trial is capped**: on a reader it captures at most
`SIZE_CUTOFF` bytes (unless more was captured before), and answers "no match"
as soon as that many are there. -/
theorem toml_trial_capped (c : Cap) (utf8 parses : List Nat → Bool) :
    (c.rewind.captureUpToSize sizeCutoff).2.pre.length ≤ max c.pre.length sizeCutoff ∧
    (∀ bs, sizeCutoff ≤ bs.length → tomlMatches true (.ok bs) utf8 parses = .noMatch) := by
  refine ⟨Cap.captureUpToSize_bound c.rewind sizeCutoff, ?_⟩
  intro bs hb
  simp [tomlMatches, hb]

/-! ## Non-vacuity: concrete sources, schedules and programs -/

/-- Five bytes delivered as 2 + 1 + rest: partial reads, a re-borrow that
replays from offset 0 and then crosses into the source. -/
example : handleProgram (Source.new [1, 2, 3, 4, 5] [2, 1] false none)
      [.borrow, .read 2, .read 2, .borrow, .read 3, .read 9, .read 9, .borrow, .read 1] =
    [.refReader, .read [1, 2], .read [3], .refReader, .read [1, 2, 3], .read [4, 5], .read [],
      .refSlice [1, 2, 3, 4, 5], .skipped] := by decide

/-- A persistent fault after two bytes: the failed read keeps what was captured,
the next borrow replays it and meets the fault again. -/
example : handleProgram (Source.new [1, 2, 3] [] false (some 2))
      [.borrow, .read 3, .read 3, .borrow, .read 1, .read 1, .read 1] =
    [.refReader, .read [1, 2], .err .read .source, .refReader, .read [1], .read [2],
      .err .read .source] := by decide

/-- `capture_transparent` instantiated on a program with prefix requests, a
cyclic schedule, a fault, and a take-over. -/
example : Seen [1, 2, 3] true none
    (handleProgram (Source.new [1, 2, 3] [2] true (some 2))
      [.borrow, .prefix 3, .read 1, .borrow, .prefix 1, .read 4, .intoCow]) :=
  capture_transparent (Source.new [1, 2, 3] [2] true (some 2)) _

example : ∀ o ∈ handleProgram (Source.new [7, 8, 9] [1] true none)
      [.borrow, .prefix 2, .read 5, .borrow, .intoInput 2], ∀ a e, o ≠ .err a e :=
  no_fault_no_error (Source.new [7, 8, 9] [1] true none) rfl _

/-- A state in which `source_eof` is set, reached by two reads, and the
invariant it satisfies (hypotheses of `eof_flips_to_slice`). -/
example : ((((Cap.new (Source.new [1, 2] [] false none)).read 9).2.read 9).2.eof = true) ∧
    Inv [1, 2] (((Cap.new (Source.new [1, 2] [] false none)).read 9).2.read 9).2 :=
  ⟨by decide, (capture_invariant [1, 2] _ (capture_invariant [1, 2] _
    (Inv.new (Source.new [1, 2] [] false none)) 9).2.1 9).2.1⟩

/-- A faulted, not-yet-complete state (hypotheses of `fault_met_again`). -/
example : let c := ((Cap.new (Source.new [1, 2, 3] [] false (some 2))).read 3).2
    c.src.faulted = true ∧ c.eof = false ∧ c.pre = [1, 2] := by decide

example : detectFormat .noMatch .matched .matched .ioErr = .fmt .json := by decide
example : detectFormat .noMatch .noMatch .ioErr .matched = .ioErr := by decide
example : select (detectFormat .noMatch .noMatch .noMatch .noMatch) = .unableToDetect := by decide
example : markerTest 0x92 = true ∧ markerTest 0xdc = true ∧ markerTest 0xc0 = false ∧
    markerTest 0x7b = false := by decide
/-- D6 (fixed in /repo): a truncated collection is "no match", a reader fault
is an error. -/
example : msgpackMatches (.ok [0x92, 1]) (.readErr true) = .noMatch ∧
    msgpackMatches (.ok [0x92, 1]) (.readErr false) = .ioErr ∧
    msgpackMatches (.ok [0xdc, 0x90, 0x3a, 0x20, 0x31, 0x0a]) (.readErr true) = .noMatch := by decide

/-! ## `Translator::translate` with `from = None`, as a composition

`Model/Translate.lean`: `detect_format` is the decision list above run with
early exit over four trials on ONE handle (the Input model); the MessagePack
and JSON trials are the concrete decoders of the C18 / JSON slices together
with how far they read through a reader borrow; after detection
`Input::from(handle)` decides what the selected module is given.  Lemmas in
`Lemmas/Translate.lean`. -/
section TranslateComposition
open Xt.Translate

/-- **No panic site of the input handle is reachable from `translate`** — for
every input (slice, or a reader with any read schedule and any fault offset),
explicit or detected format, every behaviour of the YAML / TOML parsers and
every per-format runner. -/
theorem translate_no_panic {R : Type} (E : Ext) (F : Runners R) (from_ : Option Fmt) (src : Src) :
    ∀ s, translate E F from_ src ≠ .panic s := by
  intro s
  unfold translate
  cases from_ with
  | some f => simp
  | none =>
    simp only
    have := (detectOn_keeps E src.bytes src.fa src.handle (HInv.ofSrc src)).2.1
    split
    · rename_i s' _ hd
      exact absurd (by rw [hd]) (this s')
    · simp
    · simp
    · simp

/-- **Detection is `Detect.detectFormat` over the four trials run one after the
other on the same handle** (each on a rewound borrow of the handle as the
previous trial left it; trials behind the deciding one are not run). -/
theorem detect_is_decision_list (E : Ext) (h : Handle) (tm tj ty tt : Trial)
    (hm : (mpTrial h).1 = .answer tm)
    (hj : tm = .noMatch → (jsonTrial (mpTrial h).2).1 = .answer tj)
    (hy : tm = .noMatch → tj = .noMatch →
      (yamlTrial E (jsonTrial (mpTrial h).2).2).1 = .answer ty)
    (ht : tm = .noMatch → tj = .noMatch → ty = .noMatch →
      (tomlTrialStep E (yamlTrial E (jsonTrial (mpTrial h).2).2).2).1 = .answer tt) :
    (detectOn E h).1 = .det (detectFormat tm tj ty tt) :=
  detectOn_decision E h tm tj ty tt hm hj hy ht

/-- **Detection, then the explicit run.**  For every input without a source
fault (a slice, or a reader with ANY read schedule), every behaviour of the
YAML / TOML parsers and every per-format runner: if detection selects `f`, then
`translate(None)` is `run f seen'`, where `seen'` carries exactly the original
bytes and is a reader unless the handle is in slice mode after detection — a
slice input, or a reader whose source reported its end to one of the trials
(`source_eof`, `eof_flips_to_slice`).  Equivalently, it is the explicit
`translate(Some(f))` of the input `srcOf seen'` that has the same bytes in that
supply mode.  (With the per-format slice/reader theorems this becomes "the
explicit run in the ORIGINAL mode": `detect_then_explicit_msgpack`,
`detect_then_explicit_json_partial`.) -/
theorem detect_then_explicit {R : Type} (E : Ext) (F : Runners R) (src : Src) (hnf : src.noFault)
    (f : Fmt) (hdet : (detectOn E src.handle).1 = .det (.fmt f)) :
    ∃ seen', (seen' = if sliceMode (detectOn E src.handle).2 then Xt.Translate.Seen.slice src.bytes
        else Xt.Translate.Seen.reader src.bytes false) ∧
      translate E F none src = .ran (F.run f seen') ∧
      translate E F none src = translate E F (some f) (srcOf seen') ∧
      (sliceMode src.handle = true → seen' = .slice src.bytes) := by
  have hinv := HInv.ofSrc src
  rw [noFault_fa hnf] at hinv
  obtain ⟨k1, _, _⟩ := detectOn_keeps E src.bytes none src.handle hinv
  have hseen := seenOfHandle_spec k1
  have hmode : sliceMode src.handle = true → sliceMode (detectOn E src.handle).2 = true := by
    intro hs
    cases src with
    | reader s => simp [Src.handle, sliceMode_fromReader] at hs
    | slice bs =>
      -- every trial returns a slice handle unchanged
      have km := mpTrialWith_keeps mpChunk
      have kj := jsonTrialWith_keeps jsonChunk
      have ky := yamlTrialWith_keeps yamlChunk E
      have kt := tomlTrialStep_keeps E
      have i0 : HInv bs none (.slice bs) := rfl
      have m1 := km.mode _ _ _ i0 rfl
      have i1 := km.inv _ _ _ i0
      have m2 := kj.mode _ _ _ i1 m1
      have i2 := kj.inv _ _ _ i1
      have m3 := ky.mode _ _ _ i2 m2
      have i3 := ky.inv _ _ _ i2
      have m4 := kt.mode _ _ _ i3 m3
      simp only [Src.handle]
      unfold detectOn
      simp only
      split
      · exact m1
      · split
        · exact m2
        · split
          · exact m3
          · split
            · exact m4
            · exact m4
  refine ⟨_, rfl, ?_, ?_, ?_⟩
  · unfold translate
    simp only
    split
    · rename_i s _ hd; rw [hd] at hdet; simp at hdet
    · rename_i f' h' hd
      have e1 : (detectOn E src.handle).1 = .det (.fmt f') := by rw [hd]
      have e2 : (detectOn E src.handle).2 = h' := by rw [hd]
      rw [hdet] at e1
      simp only [DetRes.det.injEq, Detected.fmt.injEq] at e1
      subst e1
      rw [← e2, hseen]
    · rename_i _ hd; rw [hd] at hdet; simp at hdet
    · rename_i _ hd; rw [hd] at hdet; simp at hdet
  · have hleft : translate E F none src = .ran (F.run f (if sliceMode (detectOn E src.handle).2
        then Xt.Translate.Seen.slice src.bytes else Xt.Translate.Seen.reader src.bytes false)) := by
      unfold translate
      simp only
      split
      · rename_i s _ hd; rw [hd] at hdet; simp at hdet
      · rename_i f' h' hd
        have e1 : (detectOn E src.handle).1 = .det (.fmt f') := by rw [hd]
        have e2 : (detectOn E src.handle).2 = h' := by rw [hd]
        rw [hdet] at e1
        simp only [DetRes.det.injEq, Detected.fmt.injEq] at e1
        subst e1
        rw [← e2, hseen]
      · rename_i _ hd; rw [hd] at hdet; simp at hdet
      · rename_i _ hd; rw [hd] at hdet; simp at hdet
    rw [hleft]
    obtain ⟨q1, q2⟩ := seenOfHandle_srcOf src.bytes
    cases hm : sliceMode (detectOn E src.handle).2 with
    | true => simp only [↓reduceIte, translate, q1]
    | false => simp only [Bool.false_eq_true, ↓reduceIte, translate, q2]
  · intro hs
    simp only [hmode hs, ↓reduceIte]

/-- What `msgpack::transcode` produces for the same bytes does not depend on the
supply mode (`msgpack_slice_eq_reader`). -/
theorem msgpackRun_agree {X : Type} (bs : List Nat) (a b : Xt.Translate.Seen)
    (ha : a = .slice bs ∨ a = .reader bs false) (hb : b = .slice bs ∨ b = .reader bs false) :
    ∃ d1 v1 d2 v2, msgpackRun (X := X) a = .msgpack d1 v1 ∧ msgpackRun (X := X) b = .msgpack d2 v2 ∧
      d1 = d2 ∧ (v1 = .ok ↔ v2 = .ok) := by
  obtain ⟨e1, e2, _, _⟩ := Xt.Props.C18.msgpack_slice_eq_reader bs
  rcases ha with rfl | rfl <;> rcases hb with rfl | rfl
  · exact ⟨_, _, _, _, rfl, rfl, rfl, Iff.rfl⟩
  · exact ⟨_, _, _, _, rfl, rfl, e1, e2⟩
  · exact ⟨_, _, _, _, rfl, rfl, e1.symm, e2.symm⟩
  · exact ⟨_, _, _, _, rfl, rfl, rfl, Iff.rfl⟩

/-- **A detected MessagePack input translates like the explicit run in the
ORIGINAL supply mode** — same documents, same verdict (success or failure) —
for every input without a source fault, unconditionally: whether or not the
handle turned into a slice during detection is invisible
(`detect_then_explicit` + `msgpack_slice_eq_reader`). -/
theorem detect_then_explicit_msgpack {X : Type} (E : Ext) (yaml toml : Xt.Translate.Seen → X) (src : Src)
    (hnf : src.noFault) (hdet : (detectOn E src.handle).1 = .det (.fmt .msgpack)) :
    ∃ d1 v1 d2 v2,
      translate E (concrete yaml toml) none src = .ran (.msgpack d1 v1) ∧
      translate E (concrete yaml toml) (some .msgpack) src = .ran (.msgpack d2 v2) ∧
      d1 = d2 ∧ (v1 = .ok ↔ v2 = .ok) := by
  obtain ⟨seen', hs, h1, _, _⟩ := detect_then_explicit E (concrete yaml toml) src hnf .msgpack hdet
  have hinv := HInv.ofSrc src
  rw [noFault_fa hnf] at hinv
  have h2 : translate E (concrete yaml toml) (some .msgpack) src =
      .ran (msgpackRun (seenOfHandle src.handle)) := rfl
  rw [seenOfHandle_spec hinv] at h2
  have ha : seen' = .slice src.bytes ∨ seen' = .reader src.bytes false := by
    rw [hs]; split <;> simp
  have hb : (if sliceMode src.handle then Xt.Translate.Seen.slice src.bytes else Xt.Translate.Seen.reader src.bytes false) =
      .slice src.bytes ∨ (if sliceMode src.handle then Xt.Translate.Seen.slice src.bytes
        else Xt.Translate.Seen.reader src.bytes false) = .reader src.bytes false := by
    split <;> simp
  obtain ⟨d1, v1, d2, v2, r1, r2, r3, r4⟩ := msgpackRun_agree (X := X) src.bytes _ _ ha hb
  refine ⟨d1, v1, d2, v2, ?_, ?_, r3, r4⟩
  · rw [h1]; exact congrArg _ r1
  · rw [h2]; exact congrArg _ r2

/-- How two runs of `json::transcode` on the same bytes relate outside K1. -/
def JsonAgree (bs : List Nat) (d1 : List Xt.Json.JVal) (v1 : Xt.Json.Verdict)
    (d2 : List Xt.Json.JVal) (v2 : Xt.Json.Verdict) : Prop :=
  (v1 = .ok ↔ v2 = .ok) ∧ (v1 = .ok → d1 = d2) ∧ (d1 <+: d2 ∨ d2 <+: d1) ∧
  (Xt.Json.validUtf8 bs = true → d1 = d2 ∧ v1 = v2)

theorem jsonRun_agree {X : Type} (bs : List Nat) (hk1 : Xt.Json.hasUnseparatedScalar bs = false)
    (a b : Xt.Translate.Seen) (ha : a = .slice bs ∨ a = .reader bs false)
    (hb : b = .slice bs ∨ b = .reader bs false) :
    ∃ d1 v1 d2 v2, jsonRun (X := X) a = .json d1 v1 ∧ jsonRun (X := X) b = .json d2 v2 ∧
      JsonAgree bs d1 v1 d2 v2 := by
  obtain ⟨e1, e2, e3, e4⟩ := Xt.Props.Json.json_slice_eq_reader_partial bs hk1
  rcases ha with rfl | rfl <;> rcases hb with rfl | rfl
  · exact ⟨_, _, _, _, rfl, rfl, Iff.rfl, fun _ => rfl, Or.inl (List.prefix_refl _), fun _ => ⟨rfl, rfl⟩⟩
  · refine ⟨_, _, _, _, rfl, rfl, e1, e2, Or.inl e3, fun hv => ?_⟩
    rw [e4 hv]; exact ⟨rfl, rfl⟩
  · refine ⟨_, _, _, _, rfl, rfl, e1.symm, ?_, Or.inr e3, fun hv => ?_⟩
    · intro h; exact (e2 (e1.mpr h)).symm
    · rw [e4 hv]; exact ⟨rfl, rfl⟩
  · exact ⟨_, _, _, _, rfl, rfl, Iff.rfl, fun _ => rfl, Or.inl (List.prefix_refl _), fun _ => ⟨rfl, rfl⟩⟩

/-- **A detected JSON input translates like the explicit run in the ORIGINAL
supply mode**, `_partial`: outside known finding K1's class
(`hasUnseparatedScalar`, where the slice path and the reader path of
`json::transcode` themselves disagree — `json_unseparated_counterexample`; the
detected run of a reader takes the slice path exactly when the first value is
a number that ends the input, `detect_reads_first_doc_only`), for every input
without a source fault: the same verdict; on success the same documents;
on failure the documents of one run are a prefix of the other's; on well-formed
UTF-8 the two runs are equal outright.  Missing for the full statement: K1
(an unrepaired defect of xt, not of the proof). -/
theorem detect_then_explicit_json_partial {X : Type} (E : Ext) (yaml toml : Xt.Translate.Seen → X) (src : Src)
    (hnf : src.noFault) (hk1 : Xt.Json.hasUnseparatedScalar src.bytes = false)
    (hdet : (detectOn E src.handle).1 = .det (.fmt .json)) :
    ∃ d1 v1 d2 v2,
      translate E (concrete yaml toml) none src = .ran (.json d1 v1) ∧
      translate E (concrete yaml toml) (some .json) src = .ran (.json d2 v2) ∧
      JsonAgree src.bytes d1 v1 d2 v2 := by
  obtain ⟨seen', hs, h1, _, _⟩ := detect_then_explicit E (concrete yaml toml) src hnf .json hdet
  have hinv := HInv.ofSrc src
  rw [noFault_fa hnf] at hinv
  have h2 : translate E (concrete yaml toml) (some .json) src =
      .ran (jsonRun (seenOfHandle src.handle)) := rfl
  rw [seenOfHandle_spec hinv] at h2
  have ha : seen' = .slice src.bytes ∨ seen' = .reader src.bytes false := by
    rw [hs]; split <;> simp
  have hb : (if sliceMode src.handle then Xt.Translate.Seen.slice src.bytes else Xt.Translate.Seen.reader src.bytes false) =
      .slice src.bytes ∨ (if sliceMode src.handle then Xt.Translate.Seen.slice src.bytes
        else Xt.Translate.Seen.reader src.bytes false) = .reader src.bytes false := by
    split <;> simp
  obtain ⟨d1, v1, d2, v2, r1, r2, r3⟩ := jsonRun_agree (X := X) src.bytes hk1 _ _ ha hb
  refine ⟨d1, v1, d2, v2, ?_, ?_, r3⟩
  · rw [h1]; exact congrArg _ r1
  · rw [h2]; exact congrArg _ r2

/-- **The MessagePack trial answers the same for a slice and for a reader**, for
ALL inputs, under every read schedule and every request size, at any point of
detection (any handle state that satisfies the capture invariant, a reader that
has turned into a slice included), without a source fault. -/
theorem detect_slice_eq_reader_msgpack (bs : List Nat) (chunk : Nat) :
    (∀ s : Source, s.data = bs → s.failAt = none →
      (mpTrialWith chunk (Handle.fromReader s)).1 = (mpTrialWith chunk (.slice bs)).1) ∧
    (∀ h : Handle, HInv bs none h → (mpTrialWith chunk h).1 = (mpTrialWith chunk (.slice bs)).1) := by
  have hgen : ∀ h : Handle, HInv bs none h →
      (mpTrialWith chunk h).1 = (mpTrialWith chunk (.slice bs)).1 := by
    intro h hi
    rw [mpTrialWith_answer chunk hi, mpTrialWith_answer chunk (orig := bs) (h := .slice bs) rfl]
  refine ⟨?_, hgen⟩
  intro s hd hf
  apply hgen
  subst hd
  exact ⟨Inv.new s, hf⟩

/-- **The JSON trial answers the same for a slice and for a reader on every
input that is valid UTF-8** (`_partial`: the side condition is exact — the two
answers are equal IF AND ONLY IF the input is valid UTF-8 or the reader trial
declines too; K7, `json_trial_differs_counterexample`, is an input on which
they differ, so the condition cannot be dropped on this tree), under every read
schedule and request size, without a source fault. -/
theorem detect_slice_eq_reader_json_partial (bs : List Nat) (chunk : Nat) (s : Source)
    (hd : s.data = bs) (hf : s.failAt = none) :
    (Xt.Json.validUtf8 bs = true →
      (jsonTrialWith chunk (Handle.fromReader s)).1 = (jsonTrialWith chunk (.slice bs)).1) ∧
    ((jsonTrialWith chunk (Handle.fromReader s)).1 = (jsonTrialWith chunk (.slice bs)).1 ↔
      (Xt.Json.validUtf8 bs = true ∨ Xt.Json.trialReader bs = false)) := by
  subst hd
  have hr := jsonTrialWith_answer chunk (orig := s.data) (h := Handle.fromReader s) ⟨Inv.new s, hf⟩
  have hs := jsonTrialWith_answer chunk (orig := s.data) (h := .slice s.data) rfl
  rw [hr, hs]
  have e1 : sliceMode (Handle.fromReader s) = false := rfl
  have e2 : sliceMode (Handle.slice s.data) = true := rfl
  rw [e1, e2]
  simp only [Bool.false_eq_true, ↓reduceIte]
  cases hv : Xt.Json.validUtf8 s.data <;> cases ht : Xt.Json.trialReader s.data <;>
    simp [jsonMatches, jsonClass, ht]

/-- K7 on the composed model: the bytes of `json_trial_differs_counterexample`
(`1: é\n` in UTF-16LE) are declined by the JSON trial on a slice and accepted on
a reader. -/
theorem detect_slice_ne_reader_json_counterexample :
    let bs := [0x31, 0x00, 0x3A, 0x00, 0x20, 0x00, 0xE9, 0x00, 0x0A, 0x00]
    (jsonTrial (.slice bs)).1 = .answer .noMatch ∧
    (jsonTrial (Handle.fromReader (Source.new bs [] false none))).1 = .answer .matched := by
  obtain ⟨k1, k2⟩ := Xt.Props.Json.json_trial_differs_counterexample
  simp only at k1 k2 ⊢
  have hv : Xt.Json.validUtf8 [0x31, 0x00, 0x3A, 0x00, 0x20, 0x00, 0xE9, 0x00, 0x0A, 0x00] = false := by
    decide
  constructor
  · rw [jsonTrial, jsonTrialWith_answer jsonChunk (orig := _) (h := .slice _) rfl]
    simp [sliceMode, hv, jsonMatches]
  · have hi : HInv [0x31, 0x00, 0x3A, 0x00, 0x20, 0x00, 0xE9, 0x00, 0x0A, 0x00] none
        (Handle.fromReader (Source.new [0x31, 0x00, 0x3A, 0x00, 0x20, 0x00, 0xE9, 0x00, 0x0A, 0x00] [] false none)) :=
      ⟨Inv.new (Source.new [0x31, 0x00, 0x3A, 0x00, 0x20, 0x00, 0xE9, 0x00, 0x0A, 0x00] [] false none), rfl⟩
    rw [jsonTrial, jsonTrialWith_answer jsonChunk hi]
    have e1 : sliceMode (Handle.fromReader
        (Source.new [0x31, 0x00, 0x3A, 0x00, 0x20, 0x00, 0xE9, 0x00, 0x0A, 0x00] [] false none)) = false := rfl
    rw [e1]
    simp [jsonMatches, jsonClass, k2]

/-- **Detection reads the first document only** (feeds C05).  On a reader
without a source fault, under every read schedule: when detection selects
MessagePack, the bytes in the capture buffer afterwards are exactly the first
value (the decoder's extent) and the handle is still a reader; when it selects
JSON, they are exactly the first value plus — for a top-level number — the one
look-ahead byte that ends it (capped by the input's length), and the handle has
turned into a slice exactly when that number ends the input (the look-ahead
request was answered "end of input").  So what `translate` holds when the
selected module takes over is bounded by the first document + 1 byte, whatever
follows it in the stream. -/
theorem detect_reads_first_doc_only (E : Ext) (s : Source) (hnf : s.failAt = none) :
    ((detectOn E (Handle.fromReader s)).1 = .det (.fmt .msgpack) →
      ∃ v rest, mpDecode s.data = .ok (v, rest) ∧
        captured (detectOn E (Handle.fromReader s)).2 = s.data.length - rest.length ∧
        sliceMode (detectOn E (Handle.fromReader s)).2 = false) ∧
    ((detectOn E (Handle.fromReader s)).1 = .det (.fmt .json) →
      ∃ rest, Xt.Json.ignoreValue s.data = .ok rest ∧
        captured (detectOn E (Handle.fromReader s)).2 =
          min (s.data.length - rest.length + (if topNumber s.data then 1 else 0)) s.data.length ∧
        (sliceMode (detectOn E (Handle.fromReader s)).2 = true ↔
          (rest = [] ∧ topNumber s.data = true))) := by
  have hfr : Handle.fromReader s = .reader (Cap.new s) := rfl
  rw [hfr]
  have hi0 : HInv s.data none (.reader (Cap.new s)) := ⟨Inv.new s, hnf⟩
  have hext := mpTrialWith_extent mpChunk (Inv.new s) hnf rfl
  have hansM := mpTrialWith_answer mpChunk hi0
  constructor
  · intro hdet
    obtain ⟨m1, m2⟩ := detectOn_msgpack E (.reader (Cap.new s))
    have hmatched := m1.mp hdet
    rw [m2 hmatched]
    rw [mpTrial, hansM] at hmatched
    simp only [Step.answer.injEq] at hmatched
    obtain ⟨b, v, rest, _, _, hdec, hdem, hd1, hd2⟩ := mp_matched_demand s.data hmatched
    obtain ⟨e1, e2⟩ := hext.1 hd2
    refine ⟨v, rest, hdec, ?_, e2⟩
    rw [mpTrial, e1, hdem]
    simp only [Cap.new, List.length_nil]
    omega
  · intro hdet
    obtain ⟨j1, j2⟩ := detectOn_json E (.reader (Cap.new s))
    obtain ⟨hmNo, hjYes⟩ := j1.mp hdet
    rw [j2 hmNo hjYes]
    have hi1 : HInv s.data none (mpTrial (.reader (Cap.new s))).2 :=
      (mpTrialWith_keeps mpChunk).inv _ _ _ hi0
    -- the JSON trial matched: the reader trial accepts, so the first byte is below 0x80
    have hansJ := jsonTrialWith_answer jsonChunk hi1
    rw [jsonTrial, hansJ] at hjYes
    simp only [Step.answer.injEq] at hjYes
    have htr : Xt.Json.trialReader s.data = true := by
      cases ht : Xt.Json.trialReader s.data with
      | true => rfl
      | false =>
        exfalso
        simp only [jsonClass, ht] at hjYes
        revert hjYes
        generalize (if sliceMode (mpTrial (Handle.reader (Cap.new s))).2 = true
          then RefIn.slice (Xt.Json.validUtf8 s.data) else RefIn.reader) = r
        cases r with
        | reader => simp [jsonMatches]
        | slice u => cases u <;> simp [jsonMatches]
    obtain ⟨rest, hig, hlt, hdem⟩ := json_matched_demand s.data htr
    -- so the MessagePack trial only looked at one byte
    have hMdem : mpTrialDemand s.data = 1 := by
      cases hsd : s.data with
      | nil => rw [hsd] at hlt; simp at hlt
      | cons b t =>
        simp only [mpTrialDemand, List.head?_cons]
        by_cases hmt : markerTest b = true
        · exfalso
          have := trialReader_high b t (markerTest_high b hmt)
          rw [hsd] at htr
          rw [htr] at this
          simp at this
        · simp [hmt]
    obtain ⟨e1, e2⟩ := hext.1 (by rw [hMdem]; omega)
    rw [hMdem] at e1
    -- the handle the JSON trial starts from: a reader with one byte captured
    cases hh1 : (mpTrial (.reader (Cap.new s))).2 with
    | slice bs => rw [mpTrial] at hh1; rw [hh1] at e2; simp [sliceMode] at e2
    | reader c1 =>
      rw [hh1] at hi1
      obtain ⟨hinv1, hfa1⟩ := hi1
      rw [mpTrial] at hh1
      rw [hh1] at e1 e2
      simp only [captured, Cap.new, List.length_nil] at e1
      simp only [sliceMode] at e2
      have hjext := jsonTrialWith_extent jsonChunk hinv1 hfa1 e2
      refine ⟨rest, hig, ?_, ?_⟩
      · by_cases hle : jsonDemand s.data ≤ s.data.length
        · rw [jsonTrial, (hjext.1 hle).1, hdem, e1]
          rw [hdem] at hle
          omega
        · rw [jsonTrial, (hjext.2 (by omega)).1]
          rw [hdem] at hle
          omega
      · by_cases hle : jsonDemand s.data ≤ s.data.length
        · rw [jsonTrial, (hjext.1 hle).2]
          rw [hdem] at hle
          constructor
          · intro h; simp at h
          · rintro ⟨hr, ht⟩
            exfalso
            rw [hr, ht] at hle
            simp only [List.length_nil, ↓reduceIte] at hle
            omega
        · rw [jsonTrial, (hjext.2 (by omega)).2]
          rw [hdem] at hle
          refine ⟨fun _ => ?_, fun _ => rfl⟩
          by_cases htn : topNumber s.data = true
          · refine ⟨List.eq_nil_of_length_eq_zero ?_, htn⟩
            rw [htn] at hle
            simp only [↓reduceIte] at hle
            omega
          · exfalso
            simp only [htn, Bool.false_eq_true, ↓reduceIte] at hle
            omega

/-- The demand of a matching MessagePack trial is sufficient: the decoder's
answer is a function of the bytes it captured — whatever follows the first
value in the stream (any bytes, or nothing), it reads the same value from those
bytes and leaves the continuation untouched (`decodeG_local`).  (The converse —
on every shorter prefix the decoder runs out of input — and both statements for
the JSON trial are not proved; they are what the `trialextent` correspondence
samples, on every prefix of fixed inputs.) -/
theorem detect_msgpack_trial_reads_enough (bs : List Nat) (v : Xt.Msgpack.MVal) (rest : List Nat)
    (h : mpDecode bs = .ok (v, rest)) :
    rest.length < bs.length ∧
    ∀ y, mpDecode (bs.take (bs.length - rest.length) ++ y) = .ok (v, y) := by
  obtain ⟨used, e, g⟩ := Xt.Msgpack.decodeG_local true Xt.Msgpack.depthLimit bs v rest h
  refine ⟨Xt.Msgpack.decodeG_lt true Xt.Msgpack.depthLimit bs v rest h, ?_⟩
  intro y
  subst e
  have : (used ++ rest).length - rest.length = used.length := by simp
  rw [this, List.take_left']
  · exact g y
  · rfl

/-- **Detection of JSON and MessagePack does not depend on the supply mode.**
For every behaviour of the YAML / TOML parsers, every two inputs with the same
bytes and no source fault (a slice, readers with any read schedules):
MessagePack is selected for one iff for the other, unconditionally; JSON
likewise when the bytes are valid UTF-8.  In particular every input that
`translate(None)` translates successfully as JSON (its bytes are then valid
UTF-8: the slice path checks it, a successful reader run implies it —
`json_reader_ok_is_utf8`) or translates, successfully or not, as MessagePack,
is detected as the same format from a slice and from every reader. -/
theorem detected_translatable_same_format {X : Type} (E : Ext) (yaml toml : Xt.Translate.Seen → X)
    (src src' : Src) (hb : src'.bytes = src.bytes) (hnf : src.noFault) (hnf' : src'.noFault) :
    ((detectOn E src.handle).1 = .det (.fmt .msgpack) ↔
      (detectOn E src'.handle).1 = .det (.fmt .msgpack)) ∧
    (Xt.Json.validUtf8 src.bytes = true →
      ((detectOn E src.handle).1 = .det (.fmt .json) ↔
        (detectOn E src'.handle).1 = .det (.fmt .json))) ∧
    (∀ d, translate E (concrete yaml toml) none src = .ran (.json d .ok) →
      (detectOn E src'.handle).1 = .det (.fmt .json)) ∧
    (∀ d v, translate E (concrete yaml toml) none src = .ran (.msgpack d v) →
      (detectOn E src'.handle).1 = .det (.fmt .msgpack)) := by
  have hi := HInv.ofSrc src
  rw [noFault_fa hnf] at hi
  have hi' := HInv.ofSrc src'
  rw [noFault_fa hnf', hb] at hi'
  have km := mpTrialWith_keeps mpChunk
  have hi1 := km.inv _ _ _ hi
  have hi1' := km.inv _ _ _ hi'
  have aM := mpTrialWith_answer mpChunk hi
  have aM' := mpTrialWith_answer mpChunk hi'
  have aJ := jsonTrialWith_answer jsonChunk hi1
  have aJ' := jsonTrialWith_answer jsonChunk hi1'
  have hM : (detectOn E src.handle).1 = .det (.fmt .msgpack) ↔
      (detectOn E src'.handle).1 = .det (.fmt .msgpack) := by
    rw [(detectOn_msgpack E src.handle).1, (detectOn_msgpack E src'.handle).1, mpTrial, mpTrial, aM, aM']
  have hJ : Xt.Json.validUtf8 src.bytes = true →
      ((detectOn E src.handle).1 = .det (.fmt .json) ↔
        (detectOn E src'.handle).1 = .det (.fmt .json)) := by
    intro hv
    rw [(detectOn_json E src.handle).1, (detectOn_json E src'.handle).1]
    simp only [mpTrial, jsonTrial] at *
    rw [aM, aM', aJ, aJ', hv]
    have : ∀ m : Bool, jsonMatches (if m then RefIn.slice true else RefIn.reader) (jsonClass src.bytes) =
        jsonMatches .reader (jsonClass src.bytes) := by
      intro m; cases m <;> cases jsonClass src.bytes <;> rfl
    rw [this, this]
  refine ⟨hM, hJ, ?_, ?_⟩
  · intro d htr
    -- the run was a JSON run: detection selected JSON, and it succeeded: valid UTF-8
    have hk := (detectOn_keeps E src.bytes none src.handle hi).1
    have hseen := seenOfHandle_spec hk
    unfold translate at htr
    simp only at htr
    split at htr
    · simp at htr
    · rename_i f h' hd
      have e1 : (detectOn E src.handle).1 = .det (.fmt f) := by rw [hd]
      have e2 : (detectOn E src.handle).2 = h' := by rw [hd]
      cases f with
      | json =>
        rw [← e2, hseen] at htr
        simp only [Outcome.ran.injEq, Runners.run, concrete] at htr
        have hv : Xt.Json.validUtf8 src.bytes = true := by
          split at htr
          · simp only [jsonRun, Run.json.injEq] at htr
            cases hvv : Xt.Json.validUtf8 src.bytes with
            | true => rfl
            | false => simp [Xt.Json.sliceLoop, hvv] at htr
          · simp only [jsonRun, Run.json.injEq] at htr
            exact Xt.Props.Json.json_reader_ok_is_utf8 _ htr.2
        exact (hJ hv).mp e1
      | msgpack =>
        simp only [Outcome.ran.injEq, Runners.run, concrete] at htr
        cases hs : seenOfHandle h' with
        | slice bs => rw [hs] at htr; simp [msgpackRun] at htr
        | reader bs fl => rw [hs] at htr; cases fl <;> simp [msgpackRun] at htr
      | yaml => simp [Runners.run, concrete] at htr
      | toml => simp [Runners.run, concrete] at htr
    · simp at htr
    · simp at htr
  · intro d v htr
    unfold translate at htr
    simp only at htr
    split at htr
    · simp at htr
    · rename_i f h' hd
      have e1 : (detectOn E src.handle).1 = .det (.fmt f) := by rw [hd]
      cases f with
      | msgpack => exact hM.mp e1
      | json =>
        simp only [Outcome.ran.injEq, Runners.run, concrete] at htr
        cases hs : seenOfHandle h' with
        | slice bs => rw [hs] at htr; simp [jsonRun] at htr
        | reader bs fl => rw [hs] at htr; cases fl <;> simp [jsonRun] at htr
      | yaml => simp [Runners.run, concrete] at htr
      | toml => simp [Runners.run, concrete] at htr
    · simp at htr
    · simp at htr

/-! Non-vacuity of the composition theorems: concrete inputs through the whole
model.  (`decide` does not reduce the WF-recursive decoders, so the instances
are obtained from the theorems.) -/

/-- A stand-in for the parameters: YAML and TOML decline everything. -/
def declining : Ext :=
  { yamlSlice := fun _ => .noMatch, yamlReader := fun bs => (.noMatch, bs.length + 1),
    tomlUtf8 := fun _ => true, tomlParses := fun _ => false }

/-- `92 01 02 c0` through a one-byte-at-a-time reader: MessagePack is selected
(first byte a fixarray marker, the decoder reads `[1, 2]`), exactly the three
bytes of the first value are captured, and the handle is still a reader. -/
theorem sample_msgpack_detected :
    (detectOn declining (Handle.fromReader (Source.new [0x92, 1, 2, 0xc0] [1] true none))).1 =
      .det (.fmt .msgpack) ∧
    captured (detectOn declining (Handle.fromReader (Source.new [0x92, 1, 2, 0xc0] [1] true none))).2 = 3 ∧
    sliceMode (detectOn declining (Handle.fromReader (Source.new [0x92, 1, 2, 0xc0] [1] true none))).2 = false := by
  have hi : HInv [0x92, 1, 2, 0xc0] none (Handle.fromReader (Source.new [0x92, 1, 2, 0xc0] [1] true none)) :=
    ⟨Inv.new (Source.new [0x92, 1, 2, 0xc0] [1] true none), rfl⟩
  have hdec : mpDecode [0x92, 1, 2, 0xc0] = .ok (.arr [.uint 1, .uint 2], [0xc0]) := rfl
  have hm : (mpTrial (Handle.fromReader (Source.new [0x92, 1, 2, 0xc0] [1] true none))).1 =
      .answer .matched := by
    rw [mpTrial, mpTrialWith_answer mpChunk hi, hdec]
    decide
  have hdet := (detectOn_msgpack declining _).1.mpr hm
  refine ⟨hdet, ?_⟩
  obtain ⟨v, rest, h1, h2, h3⟩ :=
    (detect_reads_first_doc_only declining (Source.new [0x92, 1, 2, 0xc0] [1] true none) rfl).1 hdet
  have : mpDecode (Source.new [0x92, 1, 2, 0xc0] [1] true none).data =
      .ok (.arr [.uint 1, .uint 2], [0xc0]) := hdec
  rw [this] at h1
  simp only [Except.ok.injEq, Prod.mk.injEq] at h1
  refine ⟨?_, h3⟩
  rw [h2, ← h1.2]
  rfl

/-- `detect_then_explicit` instantiated on that input: the detected run is the
MessagePack module on a READER holding the four original bytes. -/
example :
    translate declining (concrete (X := Unit) (fun _ => ()) (fun _ => ())) none
        (.reader (Source.new [0x92, 1, 2, 0xc0] [1] true none)) =
      .ran (msgpackRun (.reader [0x92, 1, 2, 0xc0] false)) := by
  obtain ⟨hdet, _, hcap⟩ := sample_msgpack_detected
  obtain ⟨seen', h1, h2, _, _⟩ := detect_then_explicit declining
    (concrete (X := Unit) (fun _ => ()) (fun _ => ())) (.reader (Source.new [0x92, 1, 2, 0xc0] [1] true none))
    rfl .msgpack hdet
  rw [h2, h1]
  have : sliceMode (detectOn declining (Src.reader (Source.new [0x92, 1, 2, 0xc0] [1] true none)).handle).2 =
      false := hcap
  rw [this]
  rfl

/-- The hypotheses of `detect_then_explicit_json_partial` are satisfiable: `[1]`
as a slice is detected as JSON and lies outside K1's class. -/
example : (detectOn declining (Src.slice [0x5B, 0x31, 0x5D]).handle).1 = .det (.fmt .json) ∧
    Xt.Json.hasUnseparatedScalar [0x5B, 0x31, 0x5D] = false := by
  have hi : HInv [0x5B, 0x31, 0x5D] none (Src.slice [0x5B, 0x31, 0x5D]).handle := rfl
  have htr : Xt.Json.trialReader [0x5B, 0x31, 0x5D] = true := by
    simp [Xt.Json.trialReader, Xt.Json.ignoreValue, Xt.Json.igValue_eq, Xt.Json.igAfter_eq,
      Xt.Json.nextF, Xt.Json.doneF, Xt.Json.skipWs, Xt.Json.isWs, Xt.Json.classify, Xt.Json.isDigit,
      Xt.Json.ignoreNumber, Xt.Json.takeDigits]
  have hm : (mpTrial (Src.slice [0x5B, 0x31, 0x5D]).handle).1 = .answer .noMatch := by
    rw [mpTrial, mpTrialWith_answer mpChunk hi]
    simp [msgpackMatches, markerTest, Marker.fromU8, Marker.isCollection]
  have hi1 : HInv [0x5B, 0x31, 0x5D] none (mpTrial (Src.slice [0x5B, 0x31, 0x5D]).handle).2 :=
    (mpTrialWith_keeps mpChunk).inv _ _ _ hi
  have hj : (jsonTrial (mpTrial (Src.slice [0x5B, 0x31, 0x5D]).handle).2).1 = .answer .matched := by
    rw [jsonTrial, jsonTrialWith_answer jsonChunk hi1]
    have hv : Xt.Json.validUtf8 [0x5B, 0x31, 0x5D] = true := by decide
    cases hsm : sliceMode (mpTrial (Src.slice [0x5B, 0x31, 0x5D]).handle).2 <;>
      simp [jsonMatches, jsonClass, htr, hv]
  refine ⟨(detectOn_json declining _).1.mpr ⟨hm, hj⟩, ?_⟩
  have p1 : Xt.Json.parseValue Xt.Json.depthLimit [0x5B, 0x31, 0x5D] = .ok (.arr [.int 1], []) := by
    have := Xt.Props.Json.json_roundtrip_document Xt.Json.markerFloat (.arr [.int 1]) (by decide) (by decide)
    simpa [Xt.Json.write, Xt.Json.writeElems, Xt.Json.intDec, Xt.Json.natDec] using this
  have h0 : Xt.Json.hasUnseparatedScalar [] = false := by
    rw [Xt.Json.hasUnseparatedScalar_eq]; simp [Xt.Json.skipWs]
  rw [Xt.Json.hasUnseparatedScalar_eq]
  simp [Xt.Json.skipWs, Xt.Json.isWs, p1, Xt.Json.isSelfDelim, Xt.Json.endOk, h0]

end TranslateComposition

#print axioms capture_transparent
#print axioms capture_transparent_from
#print axioms capture_invariant
#print axioms no_fault_no_error
#print axioms detection_then_takeover
#print axioms eof_flips_to_slice
#print axioms eof_only_at_end
#print axioms capture_error_keeps_bytes
#print axioms fault_met_again
#print axioms capture_released
#print axioms no_panic_input
#print axioms no_panic_ops
#print axioms decideList_first_match
#print axioms detect_is_first_match
#print axioms detect_none
#print axioms detect_io_only_from_source
#print axioms msgpack_marker_table
#print axioms toml_trial_capped
#print axioms translate_no_panic
#print axioms detect_is_decision_list
#print axioms detect_then_explicit
#print axioms detect_then_explicit_msgpack
#print axioms detect_then_explicit_json_partial
#print axioms detect_slice_eq_reader_msgpack
#print axioms detect_slice_eq_reader_json_partial
#print axioms detect_slice_ne_reader_json_counterexample
#print axioms detect_reads_first_doc_only
#print axioms detect_msgpack_trial_reads_enough
#print axioms detected_translatable_same_format

end Xt.Props.C09
