import XtModel.Props.C01
import XtModel.Props.C11
import XtModel.Props.Json
import XtModel.Props.C18
import XtModel.Props.Fidelity

/-!
# C06 — Round trip and idempotence of xt's own output

Obligations about concretely modelled code:

* `json_output_is_fixed_point` — what xt writes as JSON (one line per document)
  is read back, by the reader loop and by the slice loop, as exactly those
  documents, and writing them again reproduces the text byte for byte;
* `Xt.Props.Json.json_fixed_point`, `…json_fixed_point_floats` (under
  `ExtFloat.FmtParseFmt`), `…json_roundtrip`;
* `Xt.Props.C01.toml_reorder_idempotent` — the permitted TOML reordering is a
  fixed point of itself, so "the same value up to TOML's table reordering" is
  well defined;
* `Xt.Props.C11.transcode_faithful` / `…valuepath_faithful` — in between, the
  transcoder hands the serializer exactly the values the deserializer produced.

* `Xt.Props.Fidelity.roundtrip_j_m_j` / `roundtrip_own_output` — there and back
  for the pair JSON / MessagePack on the composed end-to-end model: JSON →
  MessagePack → JSON reproduces what JSON → JSON writes, byte for byte, for
  float-free input in any spelling and any combination of supply modes.

The MessagePack fixed point (`msgpack_fixed_point`) is in the C18 file.  YAML
and TOML writers/readers are parameters (`Y.Idempotent`, `T.Idempotent`,
`…RoundTrip`): sampled on every run as
`xt(B→B)(xt(A→B)(x)) = xt(A→B)(x)` and `xt(B→A)(xt(A→B)(x)) ≍ xt(A→A)(x)`.
-/
namespace Xt.Props.C06
open Xt.Json

/-- **xt's JSON output is a fixed point of xt's JSON→JSON translation**, for
every list of float-free well-formed documents (with floats: under the named
`ExtFloat` hypothesis, `json_frame_recover_floats`): both loops read back
exactly the documents, so re-writing them reproduces the text. -/
theorem json_output_is_fixed_point (F : ExtFloat) (docs : List JVal) (h : docsOk docs) :
    writeDocs F (readerLoop (writeDocs F docs)).1 = writeDocs F docs ∧
    writeDocs F (sliceLoop (writeDocs F docs)).1 = writeDocs F docs ∧
    (readerLoop (writeDocs F docs)).2 = .ok ∧ (sliceLoop (writeDocs F docs)).2 = .ok := by
  obtain ⟨h1, h2⟩ := Xt.Props.Json.json_frame_recover F docs h
  rw [h1, h2]
  exact ⟨rfl, rfl, rfl, rfl⟩

#print axioms json_output_is_fixed_point
#print axioms Xt.Props.Json.json_fixed_point
#print axioms Xt.Props.Json.json_fixed_point_floats
#print axioms Xt.Props.Json.json_roundtrip
#print axioms Xt.Props.Json.json_frame_recover
#print axioms Xt.Props.C01.toml_reorder_idempotent
#print axioms Xt.Props.C11.transcode_faithful
#print axioms Xt.Props.C11.valuepath_faithful

#print axioms Xt.Props.C18.msgpack_fixed_point
#print axioms Xt.Props.C18.msgpack_fixed_point_any_input
#print axioms Xt.Props.Fidelity.roundtrip_j_m_j
#print axioms Xt.Props.Fidelity.roundtrip_own_output

end Xt.Props.C06
