import XtModel.Lemmas.Json

/-!
# The JSON reader and compact writer as xt drives them

Theorems about the model `Xt.Json` (lean/XtModel/Model/Json.lean) that the
properties C01 / C02 / C03 / C06 / C10 / C18 draw on.  The model is tied to
/repo and to serde_json itself by the `json` / `jsonstr` / `jsonnum`
correspondence engines (harness/src/engines/json.rs).

Float text ↔ binary64 is not modelled: a float is carried as the text of its
literal and written through the parameter `ExtFloat`.  Statements that mention
the writer on arbitrary values take `ExtFloat.NoNewline` as an explicit
hypothesis; the round-trip family is stated for float-free values
(`wellFormed`), where the parameter is irrelevant (`write_floatfree_indep`).

Floats enter the round-trip family through two named hypotheses about the
parameter: `ExtFloat.Fixes F P` ("`F` writes the float texts in `P` verbatim
and the reader takes each back as the float with that very text") and
`ExtFloat.FmtParseFmt F` ("what `F` writes is stable under `F` and reads back
as itself").  The identity formatter satisfies the first for `P = FloatLit`
(`floats_nonvacuous`); serde_json's formatter is sampled by the harness.

Obligations: `json_write_no_newline`, `json_write_no_newline_floatfree`,
`json_first_byte`, `json_roundtrip`, `json_roundtrip_document`,
`json_roundtrip_floats`, `json_fixed_point`, `json_fixed_point_floats`,
`json_spellings_partial`, `json_frame_recover`, `json_split_sources`,
`json_frame_recover_floats`,
`json_slice_eq_reader_partial`, `json_slice_docs_prefix`,
`json_reader_ok_is_utf8`, `json_unseparated_counterexample`,
`json_depth_boundary`, `json_dash_not_value`, `json_own_output_detected`,
`json_trial_slice_le_reader`, `json_trial_differs_counterexample`.
-/
namespace Xt.Props.Json
open Xt.Json

/-! ## Writer -/

/-- The compact writer never emits a line feed, whatever the value (C03: each
document is followed by exactly one `\n`, so lines are documents).  `F` is the
float formatter; it must not emit one either (ryu output is digits, `.`, `e`,
`-`). -/
theorem json_write_no_newline (F : ExtFloat) (hF : F.NoNewline) (v : JVal) : 0x0A ∉ write F v :=
  (write_no_newline_all F hF).1 v

/-- Without floats the statement needs no hypothesis. -/
theorem json_write_no_newline_floatfree (F : ExtFloat) (v : JVal) (h : hasFloat v = false) :
    0x0A ∉ write F v := by
  rw [(write_floatfree_indep F markerFloat).1 v h]
  exact (write_no_newline_all markerFloat (by intro src; simp [markerFloat])).1 v

/-- A written array starts with `[`, a written object with `{`; both bytes are
below 0x80, i.e. MessagePack positive fixints, not collection markers (C10). -/
theorem json_first_byte (F : ExtFloat) :
    (∀ xs, ∃ t, write F (.arr xs) = 0x5B :: t) ∧ (∀ es, ∃ t, write F (.obj es) = 0x7B :: t) ∧
      0x5B < 0x80 ∧ 0x7B < 0x80 :=
  ⟨fun xs => ⟨writeElems F true xs ++ [0x5D], by simp [write]⟩,
    fun es => ⟨writeEntries F true es ++ [0x7D], by simp [write]⟩, by decide, by decide⟩

/-! ## Round trip -/

/-- The reader takes back exactly what the writer wrote: for every float-free
well-formed value (every Unicode scalar in strings and keys, every integer in
−2^63 … 2^64−1, duplicate keys allowed) nested less than 128 deep, followed by
ANY bytes `rest` — with the one side condition that after a top-level integer
the next byte is not a digit, `.`, `e` or `E` (it would continue the number). -/
theorem json_roundtrip (F : ExtFloat) (v : JVal) (hwf : wellFormed v = true)
    (hdepth : depthOf v < depthLimit) (rest : List Nat)
    (hrest : isIntVal v = true → numEnd rest = true) :
    parseValue depthLimit (write F v ++ rest) = .ok (v, rest) := by
  have := (parse_write_all F).1 v hwf depthLimit rest (by decide) hrest
  simpa [expectV, hdepth] using this

theorem json_roundtrip_document (F : ExtFloat) (v : JVal) (hwf : wellFormed v = true)
    (hdepth : depthOf v < depthLimit) : parseValue depthLimit (write F v) = .ok (v, []) := by
  simpa using json_roundtrip F v hwf hdepth [] (fun _ => rfl)

/-- xt's own JSON output is a fixed point of JSON → JSON (C06), float-free part.
(With floats the statement needs `ExtFloat` to be idempotent on its own output;
not proved here.) -/
theorem json_fixed_point (F : ExtFloat) (v : JVal) (hwf : wellFormed v = true)
    (hdepth : depthOf v < depthLimit) :
    ∃ v', parseValue depthLimit (write F v) = .ok (v', []) ∧ write F v' = write F v :=
  ⟨v, json_roundtrip_document F v hwf hdepth, rfl⟩

/-- The round trip with floats: for every well-formed value whose floats carry
texts that `F` writes verbatim and that read back as themselves (`F.Fixes P`).
After a top-level integer or float the next byte must not continue the number. -/
theorem json_roundtrip_floats (F : ExtFloat) (P : List Nat → Prop) (hP : F.Fixes P) (v : JVal)
    (hwf : WF P v) (hdepth : depthOf v < depthLimit) (rest : List Nat)
    (hrest : needsEnd v = true → numEnd rest = true) :
    parseValue depthLimit (write F v ++ rest) = .ok (v, rest) := by
  have := (parse_write_gen F P hP).1 v hwf depthLimit rest (by decide) hrest
  simpa [expectV, hdepth] using this

/-- C06 with floats, under `ExtFloat.FmtParseFmt`: whatever float texts a value
carries, what xt writes for it is read back as a value that is written the same
way again. -/
theorem json_fixed_point_floats (F : ExtFloat) (hF : F.FmtParseFmt) (v : JVal)
    (hwf : WF (fun _ => True) v) (hdepth : depthOf v < depthLimit) :
    ∃ v', parseValue depthLimit (write F v) = .ok (v', []) ∧ write F v' = write F v := by
  obtain ⟨h1, h2, h3⟩ := (normF_spec F hF).1 v hwf
  refine ⟨normF F v, ?_, h2⟩
  have := json_roundtrip_floats F F.range hF.fixes (normF F v) h1 (by rw [h3]; exact hdepth) []
    (fun _ => rfl)
  rw [h2] at this
  simpa using this

/-! ## Spellings -/

/-- `_partial`: the full C01 statement is "every escape form / `\u` surrogate
pair / whitespace / exponent spelling of a value parses to it".  Proved here:

* whitespace in front of a value, an element, a `,`/`]`, a key, a `}` and
  between documents is invisible (the `:` position is covered by the value
  parser skipping whitespace itself and `parse_object_colon` doing the same);
* inside a string, `\uXXXX` in any letter case (BMP scalar), a surrogate pair
  in any letter case (astral scalar), the raw UTF-8 bytes, and `\/` all put the
  same bytes into the string as the writer's own spelling.

Missing: exponent / fraction spellings of numbers (they are floats: text ↔
binary64 is the unmodelled `ExtFloat`), and a single statement quantifying over
all whitespace positions of a document at once. -/
theorem json_spellings_partial :
    (∀ d ws l, (∀ b ∈ ws, isWs b = true) → parseValue d (ws ++ l) = parseValue d l) ∧
    (∀ d first ws l, (∀ b ∈ ws, isWs b = true) → parseElems d first (ws ++ l) = parseElems d first l) ∧
    (∀ d first ws l, (∀ b ∈ ws, isWs b = true) →
      parseEntries d first (ws ++ l) = parseEntries d first l) ∧
    (∀ ws l, (∀ b ∈ ws, isWs b = true) → readerLoop (ws ++ l) = readerLoop l) ∧
    (∀ ws l, (∀ b ∈ ws, isWs b = true) → sliceDocs (ws ++ l) = sliceDocs l) ∧
    -- `\uXXXX` ≡ the writer's spelling, BMP
    (∀ u3 u2 u1 u0 c tail, isScalar c = true → c < 0x10000 →
      strBody (uEsc u3 u2 u1 u0 c ++ tail) = strBody (writeCp c ++ tail)) ∧
    -- surrogate pair ≡ the writer's spelling, astral
    (∀ u3 u2 u1 u0 w3 w2 w1 w0 c tail, 0x10000 ≤ c → c < 0x110000 →
      strBody (uEsc u3 u2 u1 u0 (0xD800 + (c - 0x10000) / 1024) ++
        (uEsc w3 w2 w1 w0 (0xDC00 + (c - 0x10000) % 1024) ++ tail)) = strBody (writeCp c ++ tail)) ∧
    -- `\/` ≡ `/`
    (∀ tail, strBody (0x5C :: 0x2F :: tail) = strBody (writeCp 0x2F ++ tail)) := by
  refine ⟨parseValue_ws, parseElems_ws, parseEntries_ws, readerLoop_ws, sliceDocs_ws, ?_, ?_, ?_⟩
  · intro u3 u2 u1 u0 c tail hc hlt
    rw [strBody_uEsc_bmp u3 u2 u1 u0 c hc hlt, strBody_writeCp c tail hc]
  · intro u3 u2 u1 u0 w3 w2 w1 w0 c tail h1 h2
    obtain ⟨e, hhi, hlo⟩ := surrogates_recombine c h1 h2
    have hc : isScalar c = true := by simp [isScalar]; omega
    rw [strBody_uEsc_pair u3 u2 u1 u0 w3 w2 w1 w0 _ _ hhi hlo, e, strBody_writeCp c tail hc]
  · intro tail
    rw [strBody_solidus, strBody_writeCp 0x2F tail (by decide)]
    rfl

/-! ## Framing -/

/-- C03: what `json::Output` wrote for documents d₁ … d_N (each body followed by
one `\n`) is split back into exactly those documents, by the reader loop and by
the slice loop (which also accepts the text as UTF-8). -/
theorem json_frame_recover (F : ExtFloat) (docs : List JVal) (h : docsOk docs) :
    readerLoop (writeDocs F docs) = (docs, .ok) ∧ sliceLoop (writeDocs F docs) = (docs, .ok) :=
  ⟨readerLoop_writeDocs F docs h, sliceLoop_writeDocs F docs h⟩

/-- C03 (`split_sources`) for JSON: documents separated by ANY non-empty runs of
whitespace (a trailing run after the last one included) are returned in order,
one by one, by both loops. -/
theorem json_split_sources (F : ExtFloat) (l : List (JVal × List Nat)) (h : sepsOk l) :
    readerLoop (joinDocs F l) = (l.map Prod.fst, .ok) ∧ sliceLoop (joinDocs F l) = (l.map Prod.fst, .ok) :=
  ⟨readerLoop_joinDocs F l h, sliceLoop_joinDocs F l h⟩

/-- The same with floats, under `F.Fixes P`. -/
theorem json_frame_recover_floats (F : ExtFloat) (P : List Nat → Prop) (hP : F.Fixes P)
    (docs : List JVal) (h : docsOkP P docs) :
    readerLoop (writeDocs F docs) = (docs, .ok) ∧ sliceLoop (writeDocs F docs) = (docs, .ok) :=
  ⟨readerLoop_writeDocsP F P hP docs h, sliceLoop_writeDocsP F P hP docs h⟩

/-! ## Slice path vs reader path -/

/-- Whatever the input, the documents the slice path emits are a prefix of the
documents the reader path emits. -/
theorem json_slice_docs_prefix (bs : List Nat) : (sliceLoop bs).1 <+: (readerLoop bs).1 := by
  unfold sliceLoop
  split
  · exact (slice_reader_aux _ bs (Nat.le_refl _)).1
  · exact List.nil_prefix

/-- A reader-path run that ends well has read well-formed UTF-8 (so xt's
up-front check of slice input never turns a reader success into a failure). -/
theorem json_reader_ok_is_utf8 (bs : List Nat) (h : (readerLoop bs).2 = .ok) : validUtf8 bs = true := by
  simp [validUtf8, readerLoop_ok_valid _ bs (Nat.le_refl _) h]

/-- C02 for JSON sources, `_partial`: for ALL byte strings outside known
finding K1's class, slice and reader supply give the same verdict; on success
the same documents; on failure the slice documents are a prefix of the reader
documents; and on well-formed UTF-8 the two runs are equal outright (same
documents, same error kind).  The full statement (no hypothesis) is false on
this tree: `json_unseparated_counterexample`. -/
theorem json_slice_eq_reader_partial (bs : List Nat) (h : hasUnseparatedScalar bs = false) :
    ((sliceLoop bs).2 = .ok ↔ (readerLoop bs).2 = .ok) ∧
    ((sliceLoop bs).2 = .ok → (sliceLoop bs).1 = (readerLoop bs).1) ∧
    ((sliceLoop bs).1 <+: (readerLoop bs).1) ∧
    (validUtf8 bs = true → sliceLoop bs = readerLoop bs) := by
  have heq := (slice_reader_aux _ bs (Nat.le_refl _)).2 h
  by_cases hv : validUtf8 bs = true
  · have : sliceLoop bs = readerLoop bs := by simp [sliceLoop, hv, heq]
    refine ⟨by rw [this], fun _ => by rw [this], by rw [this]; exact List.prefix_refl _, fun _ => this⟩
  · have hs : sliceLoop bs = ([], .err .utf8) := by simp [sliceLoop, hv]
    refine ⟨?_, ?_, ?_, fun hv' => absurd hv' hv⟩
    · constructor
      · intro h1; rw [hs] at h1; simp at h1
      · intro h2; exact absurd (json_reader_ok_is_utf8 bs h2) hv
    · intro h1; rw [hs] at h1; simp at h1
    · rw [hs]; exact List.nil_prefix

/-- K1: `truefalse`.  The slice path refuses it (`trailing characters`, no
document emitted); the reader path emits `true` and `false`.  The input is in
the excluded class, so the hypothesis of `json_slice_eq_reader_partial` cannot
be dropped. -/
theorem json_unseparated_counterexample :
    let bs := [0x74, 0x72, 0x75, 0x65, 0x66, 0x61, 0x6C, 0x73, 0x65]
    sliceLoop bs = ([], .err .trailingChars) ∧
    readerLoop bs = ([.bool true, .bool false], .ok) ∧
    hasUnseparatedScalar bs = true := by
  have p1 : parseValue depthLimit [0x74, 0x72, 0x75, 0x65, 0x66, 0x61, 0x6C, 0x73, 0x65] =
      .ok (.bool true, [0x66, 0x61, 0x6C, 0x73, 0x65]) := by
    simp [parseValue_eq, skipWs, isWs, classify, ident]
  have p2 : parseValue depthLimit [0x66, 0x61, 0x6C, 0x73, 0x65] = .ok (.bool false, []) := by
    simp [parseValue_eq, skipWs, isWs, classify, ident]
  have r0 : readerLoop [] = ([], .ok) := by rw [readerLoop_eq]; simp [skipWs]
  have r1 : readerLoop [0x66, 0x61, 0x6C, 0x73, 0x65] = ([.bool false], .ok) := by
    rw [readerLoop_eq]; simp [skipWs, isWs, p2, r0]
  refine ⟨?_, ?_, ?_⟩
  · have hv : validUtf8 [0x74, 0x72, 0x75, 0x65, 0x66, 0x61, 0x6C, 0x73, 0x65] = true := by decide
    rw [sliceLoop, if_pos hv, sliceDocs_eq]
    simp [skipWs, isWs, p1, isSelfDelim, endOk]
  · rw [readerLoop_eq]; simp [skipWs, isWs, p1, r1]
  · rw [hasUnseparatedScalar_eq]; simp [skipWs, isWs, p1, isSelfDelim, endOk]

/-! ## Depth limit -/

/-- C18 on the JSON model, for EVERY nesting shape (arrays, objects, mixtures,
wide or narrow, any scalars or empty collections innermost): a written value
whose deepest scalar sits inside at most 127 collections is read back, by the
value parser and by both document loops; one that nests 128 or more is refused
with `recursion limit exceeded` by all three, and no document is emitted. -/
theorem json_depth_boundary (F : ExtFloat) (v : JVal) (hwf : wellFormed v = true) :
    (depthOf v ≤ 127 →
      parseValue depthLimit (write F v) = .ok (v, []) ∧
      readerLoop (write F v) = ([v], .ok) ∧ sliceLoop (write F v) = ([v], .ok)) ∧
    (128 ≤ depthOf v →
      parseValue depthLimit (write F v) = .error .recursionLimit ∧
      readerLoop (write F v) = ([], .err .recursionLimit) ∧
      sliceLoop (write F v) = ([], .err .recursionLimit)) := by
  have hp := (parse_write_all F).1 v hwf depthLimit [] (by decide) (fun _ => rfl)
  have hr := readerLoop_write F v [] hwf rfl
  have hs := sliceDocs_write F v [] hwf rfl
  have r0 : readerLoop [] = ([], .ok) := by rw [readerLoop_eq]; simp [skipWs]
  have s0 : sliceDocs [] = ([], .ok) := by rw [sliceDocs_eq]; simp [skipWs]
  have hv : validUtf8 (write F v) = true := by simp [validUtf8, (write_valid_all F).1 v hwf]
  simp only [List.append_nil] at hp hr hs
  constructor
  · intro hd
    have hd' : depthOf v < depthLimit := by unfold depthLimit; omega
    refine ⟨by simpa [expectV, hd'] using hp, by simp [hr, hd', r0], ?_⟩
    simp [sliceLoop, hv, hs, hd', s0]
  · intro hd
    have hd' : ¬ depthOf v < depthLimit := by unfold depthLimit; omega
    refine ⟨by simpa [expectV, hd'] using hp, by simp [hr, hd'], ?_⟩
    simp [sliceLoop, hv, hs, hd']

/-! ## The detection trial -/

/-- C10 (`own_json_detected`): on xt's own JSON output — one or more documents,
of ANY nesting depth (the trial has no recursion limit) — the JSON detection
trial `json::input_matches` answers yes, from a slice and from a reader.
(The MessagePack trial, which runs first, sees `json_first_byte`.) -/
theorem json_own_output_detected (F : ExtFloat) (d : JVal) (ds : List JVal)
    (h : ∀ x ∈ d :: ds, wellFormed x = true) :
    trialReader (writeDocs F (d :: ds)) = true ∧ trialSlice (writeDocs F (d :: ds)) = true := by
  have hig : ignoreValue (writeDocs F (d :: ds)) = .ok (0x0A :: writeDocs F ds) := by
    have := (ignore_write_all F).1 d (h d (by simp)) [] (0x0A :: writeDocs F ds)
      (fun _ => by simp [numEnd, isDigit])
    simpa [ignoreValue, writeDocs, doneF] using this
  have hr : trialReader (writeDocs F (d :: ds)) = true := by simp [trialReader, hig]
  refine ⟨hr, ?_⟩
  simp [trialSlice, hr, validUtf8, writeDocs_valid F (d :: ds) h]

/-- The slice trial is the reader trial behind an up-front UTF-8 check of the
whole input: it can only be stricter, and on UTF-8 input they agree. -/
theorem json_trial_slice_le_reader (bs : List Nat) :
    (trialSlice bs = true → trialReader bs = true) ∧
    (validUtf8 bs = true → trialSlice bs = trialReader bs) := by
  constructor
  · intro h; simp [trialSlice] at h; exact h.2
  · intro h; simp [trialSlice, h]

/-- They do NOT agree in general (reported to the lead as a defect of xt, C02 /
C09): `1: é\n` in UTF-16LE is not UTF-8, so the slice trial declines (and the
YAML trial then accepts the document), while the reader trial reads the first
value `1` — the NUL after it ends the number — and answers yes, after which the
reader-mode translation fails. -/
theorem json_trial_differs_counterexample :
    let bs := [0x31, 0x00, 0x3A, 0x00, 0x20, 0x00, 0xE9, 0x00, 0x0A, 0x00]
    trialSlice bs = false ∧ trialReader bs = true := by
  have hv : validUtf8 [0x31, 0x00, 0x3A, 0x00, 0x20, 0x00, 0xE9, 0x00, 0x0A, 0x00] = false := by decide
  have hr : trialReader [0x31, 0x00, 0x3A, 0x00, 0x20, 0x00, 0xE9, 0x00, 0x0A, 0x00] = true := by
    simp [trialReader, ignoreValue, igValue_eq, skipWs, isWs, classify, isDigit, ignoreNumber, takeDigits,
      doneF]
  exact ⟨by simp [trialSlice, hv], hr⟩

/-! ## `---` is not JSON -/

/-- C10 (`own_yaml_detected`): xt's YAML output starts with `---`.  Neither
`deserialize_any` nor the detection trial's `ignore_value` (same dispatch: `-`
⇒ eat it, then a number must follow) accepts a second `-`: `invalid number`.
So the JSON trial declines, from a slice and from a reader, for every
continuation, and the value parser refuses at every depth budget. -/
theorem json_dash_not_value (d : Nat) (rest : List Nat) :
    parseValue d (0x2D :: 0x2D :: rest) = .error .invalidNumber ∧
    ignoreValue (0x2D :: 0x2D :: rest) = .error .invalidNumber ∧
    trialReader (0x2D :: 0x2D :: rest) = false ∧ trialSlice (0x2D :: 0x2D :: rest) = false := by
  have hi : ignoreValue (0x2D :: 0x2D :: rest) = .error .invalidNumber := by
    simp [ignoreValue, igValue_eq, skipWs, isWs, classify, ignoreNumber, isDigit]
  refine ⟨?_, hi, by simp [trialReader, hi], by simp [trialSlice, trialReader, hi]⟩
  simp [parseValue_eq, skipWs, isWs, classify, lexNumber, lexInt, isDigit]

/-! ## Non-vacuity -/

/-- `[-1, "é\n😀", {"k": [], "k": 18446744073709551615}]` meets every hypothesis
of the round-trip family. -/
def sample : JVal :=
  .arr [.int (-1), .str [0xE9, 0x0A, 0x1F600],
    .obj [([0x6B], .arr []), ([0x6B], .int 18446744073709551615)]]

example : wellFormed sample = true := by decide
example : depthOf sample < depthLimit := by decide
example : docsOk [sample, .null, .int 0] := by
  intro d hd
  simp at hd
  rcases hd with rfl | rfl | rfl <;> exact ⟨by decide, by decide⟩
example : parseValue depthLimit (write markerFloat sample ++ [0x0A]) = .ok (sample, [0x0A]) :=
  json_roundtrip markerFloat sample (by decide) (by decide) [0x0A] (fun h => by simp [isIntVal, sample] at h)
example : markerFloat.NoNewline := by intro src; simp [markerFloat]
example : sepsOk [(sample, [0x20, 0x0A]), (.int 5, [0x09]), (.bool true, [0x0D, 0x0A])] := by
  intro p hp
  simp at hp
  rcases hp with rfl | rfl | rfl <;> refine ⟨by decide, by decide, by simp, ?_⟩ <;> simp [isWs]
example : hasUnseparatedScalar [0x31, 0x20, 0x32] = false := by
  have p1 : parseValue depthLimit [0x31, 0x20, 0x32] = .ok (.int 1, [0x20, 0x32]) := by
    simp [parseValue_eq, skipWs, isWs, classify, isDigit, lexNumber, lexInt, takeDigits, lexFrac, lexExp,
      classifyNum, digitsVal, u64Max, numVal]
  have p2 : parseValue depthLimit [0x32] = .ok (.int 2, []) := by
    simp [parseValue_eq, skipWs, isWs, classify, isDigit, lexNumber, lexInt, takeDigits, lexFrac, lexExp,
      classifyNum, digitsVal, u64Max, numVal]
  have h0 : hasUnseparatedScalar [] = false := by rw [hasUnseparatedScalar_eq]; simp [skipWs]
  have h1 : hasUnseparatedScalar [0x20, 0x32] = false := by
    rw [hasUnseparatedScalar_eq]; simp [skipWs, isWs, p2, isSelfDelim, endOk, h0]
  rw [hasUnseparatedScalar_eq]; simp [skipWs, isWs, p1, isSelfDelim, endOk, h1]

/-- The float hypotheses are satisfiable: the identity formatter fixes every
float literal, `1.5` is one, and a document with that float meets
`json_roundtrip_floats`. -/
theorem floats_nonvacuous :
    (⟨id⟩ : ExtFloat).Fixes FloatLit ∧ FloatLit [0x31, 0x2E, 0x35] ∧
    WF FloatLit (.arr [.float [0x31, 0x2E, 0x35], .str [0x61]]) :=
  ⟨fun _ h => ⟨rfl, h⟩, floatLit_1_5, by simp [WF, WFList, floatLit_1_5, allScalars, isScalar]⟩

example : parseValue depthLimit (write ⟨id⟩ (.arr [.float [0x31, 0x2E, 0x35], .str [0x61]])) =
    .ok (.arr [.float [0x31, 0x2E, 0x35], .str [0x61]], []) := by
  have := json_roundtrip_floats ⟨id⟩ FloatLit floats_nonvacuous.1 _ floats_nonvacuous.2.2 (by decide) []
    (fun _ => rfl)
  simpa using this

/-- 127 arrays around a scalar, and 128. -/
def nestArr : Nat → JVal → JVal
  | 0, v => v
  | n + 1, v => .arr [nestArr n v]

/-- Alternating objects and arrays around a scalar. -/
def nestMix : Nat → JVal → JVal
  | 0, v => v
  | n + 1, v => if n % 2 = 0 then .obj [([0x6B], nestMix n v)] else .arr [nestMix n v, .null]

theorem depthOf_nestArr (n : Nat) : depthOf (nestArr n .null) = n ∧ wellFormed (nestArr n .null) = true := by
  induction n with
  | zero => exact ⟨rfl, rfl⟩
  | succ n ih => simp [nestArr, depthOf, depthOfList, wellFormed, wellFormedList, ih.1, ih.2]

theorem depthOf_nestMix (n : Nat) : depthOf (nestMix n (.int 7)) = n ∧ wellFormed (nestMix n (.int 7)) = true := by
  induction n with
  | zero => exact ⟨rfl, by decide⟩
  | succ n ih =>
    simp only [nestMix]
    split
    · simp [depthOf, depthOfEntries, wellFormed, wellFormedEntries, allScalars, isScalar, ih.1, ih.2]
    · simp [depthOf, depthOfList, wellFormed, wellFormedList, ih.1, ih.2]

example (F : ExtFloat) : readerLoop (write F (nestArr 127 .null)) = ([nestArr 127 .null], .ok) :=
  ((json_depth_boundary F _ (depthOf_nestArr 127).2).1 (by rw [(depthOf_nestArr 127).1]; decide)).2.1
example (F : ExtFloat) : sliceLoop (write F (nestArr 128 .null)) = ([], .err .recursionLimit) :=
  ((json_depth_boundary F _ (depthOf_nestArr 128).2).2 (by rw [(depthOf_nestArr 128).1]; decide)).2.2
example (F : ExtFloat) : sliceLoop (write F (nestMix 127 (.int 7))) = ([nestMix 127 (.int 7)], .ok) :=
  ((json_depth_boundary F _ (depthOf_nestMix 127).2).1 (by rw [(depthOf_nestMix 127).1]; decide)).2.2
example (F : ExtFloat) : readerLoop (write F (nestMix 128 (.int 7))) = ([], .err .recursionLimit) :=
  ((json_depth_boundary F _ (depthOf_nestMix 128).2).2 (by rw [(depthOf_nestMix 128).1]; decide)).2.1

#print axioms json_write_no_newline
#print axioms json_write_no_newline_floatfree
#print axioms json_first_byte
#print axioms json_roundtrip
#print axioms json_roundtrip_document
#print axioms json_fixed_point
#print axioms json_roundtrip_floats
#print axioms json_fixed_point_floats
#print axioms json_frame_recover_floats
#print axioms json_spellings_partial
#print axioms json_frame_recover
#print axioms json_split_sources
#print axioms json_slice_docs_prefix
#print axioms json_reader_ok_is_utf8
#print axioms json_slice_eq_reader_partial
#print axioms json_unseparated_counterexample
#print axioms json_depth_boundary
#print axioms json_dash_not_value
#print axioms json_own_output_detected
#print axioms json_trial_slice_le_reader
#print axioms json_trial_differs_counterexample

end Xt.Props.Json
