import XtModel.Generated.PanicSites
import XtModel.Model.Sites

/-!
# The source-derived site inventory is covered  (shared by C04 and C17)

`Xt.Generated.sites` is rewritten from /repo's working tree by
`gen_from_source.py` before every build; `Xt.Sites.covered` is hand-written.
The theorems here are the generated obligations: they are `decide`d again
whenever the inventory changes, and fail when a site has no account.  They are
kept in this module of their own (and restated in `Props/C17.lean`) so that the
`decide`s run only when the inventory or the accounts change.

For the lead: `sites_covered_library` is the inclusion restricted to the
library files (everything except main.rs / bail.rs / pipecheck.rs) — C04's
`sites_covered`.
-/
namespace Xt.Props.C04Sites
open Xt.Sites

/-- Every panic / unsafe site of the current sources is accounted for (modulo
sites that merely moved between functions of one file: `uncoveredModuloMoves`). -/
theorem sites_covered : uncoveredModuloMoves Xt.Generated.sites covered = [] := by decide

/-- …restricted to the library (C04's scope: `translate_*`). -/
theorem sites_covered_library : uncoveredModuloMoves (Xt.Generated.sites.filter isLibrary) covered = [] := by decide

/-- On the tree the accounts were written for, the strict per-function rule
holds too (not an obligation: a harmless move of a site breaks it). -/
example : uncovered [("src/msgpack.rs", "total_seq_size", "unchecked_sub", 1)] covered = [] := by decide

/-- A site that moved into a new helper of the same file is not reported … -/
example : uncoveredModuloMoves
    [("src/msgpack.rs", "total_seq_size", "unchecked_add", 1), ("src/msgpack.rs", "seq_len_helper", "unchecked_sub", 1)] covered = [] := by decide
/-- … a second one of its kind in that file is … -/
example : uncoveredModuloMoves
    [("src/msgpack.rs", "total_seq_size", "unchecked_sub", 1), ("src/msgpack.rs", "seq_len_helper", "unchecked_sub", 1)] covered
    = [("src/msgpack.rs", "seq_len_helper", "unchecked_sub", 1)] := by decide
/-- … and so is a kind the file did not have. -/
example : uncoveredModuloMoves [("src/input.rs", "CaptureReader::read", "unwrap", 1)] covered
    = [("src/input.rs", "CaptureReader::read", "unwrap", 1)] := by decide

/-- Non-vacuity: an unaccounted site is detected — one more `unwrap` in
`Chunker::next` than today, or an index expression in `try_read_length` (where
today there is a checked `.get(..)`). -/
example : uncovered [("src/yaml/chunker.rs", "Chunker::next", "unwrap", 2)] covered
    = [("src/yaml/chunker.rs", "Chunker::next", "unwrap", 2)] := by decide
example : uncovered [("src/msgpack.rs", "try_read_length", "index", 1)] covered
    = [("src/msgpack.rs", "try_read_length", "index", 1)] := by decide
/-- A `*` account is per file and kind: the mmap block may move to another
function of main.rs, a second one is detected. -/
example : uncovered [("src/main.rs", "try_mmap", "unsafe_block", 1)] covered = [] := by decide
example : uncovered [("src/main.rs", "try_mmap", "unsafe_block", 1), ("src/main.rs", "InputPath::open", "unsafe_block", 1)] covered
    = [("src/main.rs", "try_mmap", "unsafe_block", 1), ("src/main.rs", "InputPath::open", "unsafe_block", 1)] := by decide
#print axioms sites_covered
#print axioms sites_covered_library

end Xt.Props.C04Sites
