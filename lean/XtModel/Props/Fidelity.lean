import XtModel.Lemmas.Bridge
import XtModel.Props.C11
import XtModel.Props.C18
import XtModel.Props.Json

/-!
# C01 for the pairs JSON → MessagePack and MessagePack → JSON: the fidelity theorem

The translations are modelled in `Model/Bridge.lean` as compositions of the
existing models: source loop (`Json.sliceLoop` / `readerLoop`,
`Msgpack.sliceLoop` / `readerLoop`) → what the deserializer drives xt's visitor
with (`jsonToDe`, `mvalToDe`) → `flatten` (what the serializer receives:
`transcode_faithful` / `valuepath_faithful`, restated for these trees in
`bridge_refines_transcoder`) → rmp_serde's / serde_json's serializer as a state
machine over the op stream (`opsToMsgpack`, `opsToJson`) → framing.  The model
is tied to /repo by the `j2m` / `m2j` correspondence engines
(harness/src/engines/bridge.rs): byte-exact on float-free input, including what
a failing MessagePack document had already streamed out (`msgpack2jsonX`,
`failing_document_streamed`).

The common denotation `Den` (`Lemmas/Bridge.lean`): null, bool, integer,
binary64 bits, code points, bytes, sequence, map with ORDERED entries.
`denJ` reads a JSON value (a float literal through `FloatIO.parse`), `denM` a
MessagePack value (integer width and sign class forgotten, nothing else).

Float text ↔ binary64 is the parameter `FloatIO` (`parse`, `fmt64`, `fmt32`);
hypotheses about it are named: `FloatIO.RoundTrip` (ryu's text of a finite
double reads back as that double, as a float literal), `FloatIO.NoNewline`,
and "`parse` yields a 64-bit pattern" (`hQ`).  Float-free statements need none.

What serde_json does with `-0`: it is NOT the integer 0 but the float −0.0
(`Json.classifyNum`), so it becomes a MessagePack float 64
(`minus_zero_is_float`); `5` stays an integer (`five_stays_integer`).
-/
namespace Xt.Props.Fidelity
open Xt.Bridge Xt.Serde
open Xt.Json (JVal ExtFloat)
open Xt.Msgpack (MVal)

/-! ## The composition is what the transcoder delivers -/

mutual
  theorem errorFree_jsonToDe (P : FloatIO) : ∀ v : JVal, (jsonToDe P v).errorFree = true
    | .null => rfl
    | .bool _ => rfl
    | .int i => by simp only [jsonToDe]; split <;> rfl
    | .float _ => rfl
    | .str _ => rfl
    | .arr xs => by simp [jsonToDe, De.errorFree, errorFree_jsonToDeList P xs]
    | .obj es => by simp [jsonToDe, De.errorFree, errorFree_jsonToDeEntries P es]
  theorem errorFree_jsonToDeList (P : FloatIO) : ∀ xs : List JVal,
      De.errorFreeList (jsonToDeList P xs) = true
    | [] => rfl
    | x :: xs => by simp [jsonToDeList, De.errorFreeList, errorFree_jsonToDe P x, errorFree_jsonToDeList P xs]
  theorem errorFree_jsonToDeEntries (P : FloatIO) : ∀ es : List (List Nat × JVal),
      De.errorFreeEntries (jsonToDeEntries P es) = true
    | [] => rfl
    | (k, v) :: es => by
      simp [jsonToDeEntries, De.errorFreeEntries, De.errorFree, errorFree_jsonToDe P v,
        errorFree_jsonToDeEntries P es]
end

/-- The seam to C11: with rmp_serde's / serde_json's serializer given as the
state machines of `Model/Bridge.lean`, xt's streaming transcoder and its
collect-then-replay path hand the serializer exactly the op streams the
pipelines are defined on, and succeed — for every JSON document (both paths,
MessagePack target) and every MessagePack document that serde_json does not
refuse (streaming path, JSON target), whatever the error decoration `dec`. -/
theorem bridge_refines_transcoder (P : FloatIO) (dec : DErr → DErr) :
    (∀ v : JVal,
      Xt.Transcode.transcode mpStep dec (jsonToDe P v) MSt.init = (.ok, docOpsJ P .reader v) ∧
      Xt.ValuePath.valuePath mpStep dec (jsonToDe P v) MSt.init = (.ok, docOpsJ P .slice v)) ∧
    (∀ (m : MVal) (bs : List Nat), m.WF false → jsD P (mvalToDe m) = .ok bs →
      Xt.Transcode.transcode (jsonStep P) dec (mvalToDe m) JSt.init = (.ok, flatten (mvalToDe m))) := by
  constructor
  · intro v
    have hrun := run_mp (jsonToDe P v) [] 0 [] []
    simp only [List.append_nil, runOps] at hrun
    have hacc := accepts_of_runOps mpStep _ MSt.init _ hrun
    refine ⟨?_, ?_⟩
    · exact Xt.Props.C11.transcode_faithful mpStep dec _ (errorFree_jsonToDe P v) _ _ hacc
    · have he : Xt.ValuePath.expandBytes (flatten (jsonToDe P v)) = flatten (jsonToDe P v) := by
        have := docOpsJ_eq P .slice v
        simpa [docOpsJ] using this
      have := Xt.Props.C11.valuepath_faithful mpStep dec _ (errorFree_jsonToDe P v) MSt.init _
        (by rw [he]; exact hacc)
      simpa [docOpsJ] using this
  · intro m bs hwf hbs
    have hrun := run_js P (mvalToDe m) [] [] []
    rw [hbs] at hrun
    simp only [JRuns, List.append_nil, runOps] at hrun
    have hacc := accepts_of_runOps (jsonStep P) _ JSt.init _ hrun
    exact Xt.Props.C11.transcode_faithful (jsonStep P) dec _ (errorFree_mvalToDe m hwf) _ _ hacc

/-! ## Integer width and sign class do not matter to either serializer -/

/-- rmp_serde visits `visit_u8 … visit_u64` / `visit_i8 … visit_i64` according
to the marker, and serde_json `visit_u64` / `visit_i64`; whatever the width and
the sign class of the visit, both serializers write a function of the INTEGER
only — rmp_serde the minimal spelling (`write_sint` of a non-negative number
writes the unsigned family), serde_json the decimal digits (quoted in key
position). -/
theorem int_width_irrelevant (P : FloatIO) (s s' : Scalar) (i : Int)
    (h : Scalar.asInt s = some i) (h' : Scalar.asInt s' = some i) :
    mpScalar s = mpScalar s' ∧ jsonScalar P s = jsonScalar P s' ∧ jsonKey P s = jsonKey P s' := by
  obtain ⟨a1, a2, a3⟩ := int_scalar P s i h
  obtain ⟨b1, b2, b3⟩ := int_scalar P s' i h'
  exact ⟨a1.trans b1.symm, a2.trans b2.symm, a3.trans b3.symm⟩

example (P : FloatIO) : mpScalar (.i64 5) = mpScalar (.u8 5) ∧ mpScalar (.i64 5) = [0x05] ∧
    jsonScalar P (.i8 5) = jsonScalar P (.u64 5) :=
  ⟨(int_width_irrelevant P (.i64 5) (.u8 5) 5 rfl rfl).1, by decide,
    (int_width_irrelevant P (.i8 5) (.u64 5) 5 rfl rfl).2.1⟩

/-- If the reader loop reads `docs` from `x` and ends well, so does the source
loop of either supply mode. -/
theorem msgpackSource_of_reader (m : Mode) (x : List Nat) (docs : List MVal)
    (hx : Msgpack.readerLoop false Msgpack.depthLimit x = (docs, .ok)) :
    msgpackSource m x = (docs, .ok) := by
  cases m
  · obtain ⟨h1, h2⟩ := msgpackSource_modes x
    have hr : msgpackSource .reader x = (docs, .ok) := hx
    rw [hr] at h1 h2
    rcases hs : msgpackSource .slice x with ⟨d, v⟩
    rw [hs] at h1 h2
    simp only at h1 h2
    have hv : v = .ok := h2.mpr trivial
    rw [h1, hv]
  · exact hx

/-- **Any width spelling of a MessagePack input gives the same JSON as its
minimal spelling**: if the reference decoder reads the documents `docs` from
`bs` (every marker width, signed markers holding non-negative numbers,
str8/16/32, array16/32, map16/32 — it accepts them all), then translating `bs`
and translating the minimal re-encoding `docs.flatMap encode` give the same
outcome (bytes and verdict), in every combination of supply modes. -/
theorem non_minimal_spellings_irrelevant (P : FloatIO) (bs : List Nat) (hb : ∀ c ∈ bs, c < 256)
    (docs : List MVal) (h : Msgpack.decodeMany bs Msgpack.depthLimit = (docs, .ok))
    (mode mode' : Mode) :
    msgpack2json P mode bs = msgpack2json P mode' (docs.flatMap Msgpack.encode) := by
  have hwf := Msgpack.readerLoop_docs_wf false Msgpack.depthLimit (by decide) bs hb
  have h' : Msgpack.readerLoop false Msgpack.depthLimit bs = (docs, .ok) := h
  rw [h'] at hwf
  have hmin : Msgpack.readerLoop false Msgpack.depthLimit (docs.flatMap Msgpack.encode) = (docs, .ok) :=
    Msgpack.frame_recover false _ docs (fun v hv => (hwf v hv).1) (fun v hv => (hwf v hv).2)
  unfold msgpack2json
  rw [msgpackSource_of_reader mode bs docs h', msgpackSource_of_reader mode' _ docs hmin]

/-- The driver answers `m2j … slice` for long inputs by running the reader
loop first: for EVERY input both supply modes read the same documents, write
the same bytes for them, and the verdicts are `ok` together and a serializer
refusal together (the same one) — so unless the run ends in a source failure
(where the two modes differ in what the failing document leaves behind, and the
driver runs the real slice loop) the slice answer is the reader answer. -/
theorem m2j_slice_answer_eq_reader (P : FloatIO) (bs : List Nat) :
    (msgpackSource .slice bs).1 = (msgpackSource .reader bs).1 ∧
    (msgpack2json P .slice bs).out = (msgpack2json P .reader bs).out ∧
    ((msgpack2json P .slice bs).verdict = .ok ↔ (msgpack2json P .reader bs).verdict = .ok) ∧
    (∀ e, (msgpack2json P .slice bs).verdict = .ser e ↔ (msgpack2json P .reader bs).verdict = .ser e) := by
  obtain ⟨h1, h2⟩ := msgpackSource_modes bs
  refine ⟨h1, ?_⟩
  unfold msgpack2json
  rcases hs : msgpackSource .slice bs with ⟨d1, v1⟩
  rcases hr : msgpackSource .reader bs with ⟨d2, v2⟩
  rw [hs, hr] at h1 h2
  simp only at h1 h2
  subst h1
  simp only
  split
  · simp
  · cases v1 <;> cases v2 <;> simp_all

/-! ## What MessagePack can say and JSON cannot -/

/-- **`unrepresentable_is_error`.**  Precisely what serde_json refuses, and
what then happens.

1. In KEY position (`keyRefusal`): nil, bin, an array, a map → `key must be a
   string`; a NaN / infinite float → `float key must be finite`; every other
   key is written — a string as it is, an integer / bool / finite float as a
   QUOTED string (a change of type, outside the common data model, not an
   error).  In VALUE position nothing is refused: a bin is written as an array
   of numbers, a non-finite float as `null` (again outside the common model).
2. A map whose first bad key comes after entries of the common data model is
   refused with that key's refusal (the first failure in execution order).
3. The translation then fails with exactly that refusal (`.ser e`); the
   documents before are complete; of the refused document only `part` has been
   written, and `part` holds no line feed — no further document line exists, so
   no complete wrong document was emitted, and nothing of what follows is
   translated. -/
theorem unrepresentable_is_error (P : FloatIO) (hP : P.NoNewline) (F : ExtFloat) (Q : Nat → Prop)
    (hF : ∀ b, finite64 b = true → Q b → F.fmt (P.fmt64 b) = P.fmt64 b) :
    -- 1
    (∀ k : MVal, k.WF false →
      (∀ e, keyRefusal k = some e → jsKeyD P (mvalToDe k) = .error e) ∧
      (keyRefusal k = none → ∃ bs, jsKeyD P (mvalToDe k) = .ok bs)) ∧
    (keyRefusal .nil = some keyMustBeString ∧ (∀ s, keyRefusal (.bin s) = some keyMustBeString) ∧
      (∀ xs, keyRefusal (.arr xs) = some keyMustBeString) ∧
      (∀ kvs, keyRefusal (.map kvs) = some keyMustBeString)) ∧
    -- 2
    (∀ (pre : List (MVal × MVal)) (k v : MVal) (post : List (MVal × MVal)) (e : SErr),
      Msgpack.WFPairs false pre → InCDMPairs Q pre → k.WF false → keyRefusal k = some e →
      opsToJson P (flatten (mvalToDe (.map (pre ++ (k, v) :: post)))) = .error e) ∧
    -- 3
    (∀ (mode : Mode) (bs : List Nat) (pre : List MVal) (d : MVal) (post : List MVal)
      (v : Msgpack.Verdict) (e : SErr),
      msgpackSource mode bs = (pre ++ d :: post, v) →
      (∀ x ∈ pre, x.WF false ∧ InCDM Q x) → d.WF false →
      opsToJson P (flatten (mvalToDe d)) = .error e →
      (msgpack2json P mode bs).verdict = .ser e ∧
      ∃ part, (msgpack2json P mode bs).out = Json.writeDocs F (pre.map (mToJ P)) ++ part ∧
        0x0A ∉ part) := by
  refine ⟨fun k hk => jsKeyD_refusal P k hk, ⟨rfl, fun _ => rfl, fun _ => rfl, fun _ => rfl⟩, ?_, ?_⟩
  · intro pre k v post e hpre hcpre hk he
    rw [opsToJson_flatten]
    exact jsD_map_refused P F Q hF pre k v post e hpre hcpre hk he
  · intro mode bs pre d post v e hs hpre hd he
    rw [opsToJson_flatten] at he
    obtain ⟨⟨part, h1, h2⟩, ⟨e', h3, h4⟩⟩ := msgpack2json_refused P hP F Q hF mode bs pre d post v hs
      (fun x hx => (hpre x hx).1) (fun x hx => (hpre x hx).2) hd e he
    subst h4
    exact ⟨h3, part, h1, h2⟩

/-- In value position a `bin` is NOT refused: serde_json's `serialize_bytes`
writes an array of numbers (`c4 02 01 ff` ↦ `[1,255]`).  The value changes type
silently; `bin` is outside the common data model (`InCDM`). -/
theorem bin_value_becomes_array (P : FloatIO) :
    opsToJson P (flatten (mvalToDe (.bin [1, 255]))) = .ok [0x5B, 0x31, 0x2C, 0x32, 0x35, 0x35, 0x5D] := by
  rw [opsToJson_flatten]
  simp [mvalToDe, jsD, jsonScalar, jsonByteArray, Json.natDec]

/-- `{nil: 1}`, after a complete document `7`: the translation fails with `key
must be a string`, having written `7\n` and then `{`. -/
example (P : FloatIO) :
    opsToJsonPartial P (flatten (mvalToDe (.map [(.nil, .uint 1)]))) = ([0x7B], some keyMustBeString) := by
  simp [opsToJsonPartial, mvalToDe, mvalToDePairs, flatten, flattenEntries, runOps, jsonStep, jsonSep,
    JSt.init, JSt.put, jsonKey]

/-! ## The document at which a MessagePack source fails -/

/-- `msgpack2jsonX` (what the `m2j` engine answers with) refines `msgpack2json`
only where that ends in a source failure:

1. `decodeOps`, the decoder that keeps the ops issued before a failure, agrees
   with the reference decoder — on success it issues exactly
   `flatten (mvalToDe v)` for the value `decodeG` returns and leaves the same
   rest, and it fails exactly when `decodeG` fails, with the same error;
2. when `msgpack2json` succeeds or ends in a refusal inside a complete
   document, `msgpack2jsonX` IS `msgpack2json`;
3. otherwise it keeps all complete documents, appends what serde_json had
   written of the failing document, and reports a refusal only if one preceded
   the decoder's failure (the first failure in execution order). -/
theorem failing_document_streamed (P : FloatIO) (mode : Mode) (bs : List Nat) :
    (∀ d x, OpsSpec (Msgpack.decodeG false d x) (decodeOps d x)) ∧
    ((∀ v, (msgpack2json P mode bs).verdict ≠ .srcMsgpack v) →
      msgpack2jsonX P mode bs = msgpack2json P mode bs) ∧
    (∀ v, (msgpack2json P mode bs).verdict = .srcMsgpack v →
      (msgpack2jsonX P mode bs).out = (msgpack2json P mode bs).out ++ (failingDoc P mode bs).1 ∧
      (msgpack2jsonX P mode bs).verdict =
        (match (failingDoc P mode bs).2 with
         | some e => Verdict.ser e
         | none => Verdict.srcMsgpack v)) :=
  ⟨decodeOps_spec, msgpack2jsonX_eq P mode bs, msgpack2jsonX_src P mode bs⟩

/-- `[1, <truncated>`: serde_json has written `[1,` — the separating comma
precedes the failing element's `deserialize_any` — and the decoder's failure
(no marker byte) is the verdict; `{nil: <truncated>`: the refusal of the key
comes first. -/
example (P : FloatIO) :
    decodeOps 5 [0x92, 0x01] = ([.seqBegin, .elemPre, .scalar (.u64 1), .elemPost, .elemPre], .error .eofMarker) ∧
    opsToJsonPartial P (decodeOps 5 [0x92, 0x01]).1 = ([0x5B, 0x31, 0x2C], none) ∧
    (opsToJsonPartial P (decodeOps 5 [0x81, 0xc0]).1).2 = some keyMustBeString := by
  refine ⟨rfl, ?_, ?_⟩
  · simp [opsToJsonPartial, show (decodeOps 5 [0x92, 0x01]).1 =
      [.seqBegin, .elemPre, .scalar (.u64 1), .elemPost, .elemPre] from rfl, runOps, jsonStep, jsonSep,
      JSt.init, JSt.put, jsonScalar, Json.natDec]
  · simp [opsToJsonPartial, show (decodeOps 5 [0x81, 0xc0]).1 =
      [.mapBegin, .keyPre, .scalar .unit, .keyPost, .valPre] from rfl, runOps, jsonStep, jsonSep, JSt.init, JSt.put, jsonKey]

/-! ## JSON → MessagePack -/

/-- The fidelity statement for the documents a JSON source loop produced, given
that they are well-formed (`json_to_msgpack_fidelity` discharges that for every
input; the corollaries below instantiate it for document lists). -/
theorem json_to_msgpack_fidelity_of_wf (P : FloatIO) (Q : List Nat → Prop)
    (hQ : ∀ src, Q src → P.parse src < 2 ^ 64) (mode : Mode) (bs : List Nat)
    (hdocs : ∀ d ∈ (jsonSource mode bs).1, Json.WF Q d ∧ Sized d ∧ Json.depthOf d < Json.depthLimit) :
    ∃ ms, Msgpack.decodeMany (json2msgpack P mode bs).out Msgpack.depthLimit = (ms, .ok) ∧
      ms.length = (jsonSource mode bs).1.length ∧
      ms.map denM = (jsonSource mode bs).1.map (denJ P) ∧
      ((json2msgpack P mode bs).verdict = .ok ↔ (jsonSource mode bs).2 = .ok) ∧
      (∀ e, (json2msgpack P mode bs).verdict ≠ .ser e) := by
  obtain ⟨hout, hv⟩ := json2msgpack_eq P mode bs
  refine ⟨(jsonSource mode bs).1.map (jToM P), ?_, by simp, ?_, ?_, ?_⟩
  · rw [hout]
    apply Msgpack.frame_recover
    · intro v hv
      obtain ⟨d, hd, rfl⟩ := List.mem_map.mp hv
      exact jToM_wf P Q hQ d (hdocs d hd).1 (hdocs d hd).2.1
    · intro v hv
      obtain ⟨d, hd, rfl⟩ := List.mem_map.mp hv
      rw [nesting_jToM]
      have := (hdocs d hd).2.2
      unfold Json.depthLimit at this
      unfold Msgpack.depthLimit
      omega
  · rw [List.map_map]
    apply List.map_congr_left
    intro d hd
    exact denM_jToM P Q d (hdocs d hd).1
  · rw [hv]; cases (jsonSource mode bs).2 <;> simp
  · intro e; rw [hv]; cases (jsonSource mode bs).2 <;> simp

/-- **`json_to_msgpack_fidelity`**, for EVERY input byte string and both supply
modes, with no hypothesis on what was parsed.  Let `docs` be the documents the
JSON source loop hands out for `bs` (all of them complete; on a failing input
the ones before the failure).  They are well-formed and nest < 128 because the
parser only produces such values (`Json.parse_wf`).  If they fit MessagePack's
32-bit lengths (`Sized`: string byte lengths and element counts below 2^32 —
a limit of the format) then the translation's output, read by the reference
MessagePack decoder, is: the same number of documents, in the same order, each
denoting what the JSON document denotes — map entries in entry order, strings
code point for code point, integers as integers (never a float, whatever the
width needed), floats as the binary64 serde_json parsed — and the verdict is the
source loop's; rmp_serde's serializer refuses nothing.  The one hypothesis on
the float boundary: `parse` yields a 64-bit pattern (`hP64`; irrelevant for
float-free input, see `json_to_msgpack_fidelity_documents`). -/
theorem json_to_msgpack_fidelity (P : FloatIO) (hP64 : ∀ src, P.parse src < 2 ^ 64) (mode : Mode)
    (bs : List Nat) (hs : ∀ d ∈ (jsonSource mode bs).1, Sized d) :
    ∃ ms, Msgpack.decodeMany (json2msgpack P mode bs).out Msgpack.depthLimit = (ms, .ok) ∧
      ms.length = (jsonSource mode bs).1.length ∧
      ms.map denM = (jsonSource mode bs).1.map (denJ P) ∧
      ((json2msgpack P mode bs).verdict = .ok ↔ (jsonSource mode bs).2 = .ok) ∧
      (∀ e, (json2msgpack P mode bs).verdict ≠ .ser e) := by
  apply json_to_msgpack_fidelity_of_wf P (fun _ => True) (fun src _ => hP64 src) mode bs
  intro d hd
  have hwf : Json.WF (fun _ => True) d ∧ Json.depthOf d < Json.depthLimit := by
    cases mode
    · exact Json.sliceLoop_docs_wf bs d hd
    · exact Json.readerLoop_docs_wf _ bs (Nat.le_refl _) d hd
  exact ⟨hwf.1, hs d hd, hwf.2⟩

/-- The same for document lists: EVERY list of float-free well-formed JSON
documents nested less than 128 deep and within MessagePack's lengths, spelled
compactly and separated by ANY non-empty whitespace runs, in both supply
modes: the translation succeeds and its output decodes to exactly as many
documents, in order, with the same denotations.  No float hypothesis. -/
theorem json_to_msgpack_fidelity_documents (P : FloatIO) (F : ExtFloat) (mode : Mode)
    (l : List (JVal × List Nat)) (hl : Json.sepsOk l) (hs : ∀ p ∈ l, Sized p.1) :
    ∃ ms, Msgpack.decodeMany (json2msgpack P mode (Json.joinDocs F l)).out Msgpack.depthLimit = (ms, .ok) ∧
      ms.map denM = (l.map Prod.fst).map (denJ P) ∧
      (json2msgpack P mode (Json.joinDocs F l)).verdict = .ok := by
  have hsrc : jsonSource mode (Json.joinDocs F l) = (l.map Prod.fst, .ok) := by
    cases mode
    · exact Json.sliceLoop_joinDocs F l hl
    · exact Json.readerLoop_joinDocs F l hl
  obtain ⟨ms, h1, _, h3, h4, _⟩ := json_to_msgpack_fidelity_of_wf P (fun _ => False) (fun _ h => h.elim) mode
    (Json.joinDocs F l) (by
      rw [hsrc]
      intro d hd
      obtain ⟨p, hp, rfl⟩ := List.mem_map.mp hd
      exact ⟨Json.wf_of_wellFormed.1 _ (hl p hp).1, hs p hp, (hl p hp).2.1⟩)
  rw [hsrc] at h3 h4
  exact ⟨ms, h1, h3, h4.mpr rfl⟩

/-- With floats, under the named hypotheses: `F` writes the float texts in `Q`
verbatim and the reader takes them back (`F.Fixes Q`: `json_frame_recover_floats`),
and serde_json's parse of them is a 64-bit pattern. -/
theorem json_to_msgpack_fidelity_floats (P : FloatIO) (F : ExtFloat) (Q : List Nat → Prop)
    (hF : F.Fixes Q) (hQ : ∀ src, Q src → P.parse src < 2 ^ 64) (mode : Mode)
    (docs : List JVal) (hd : Json.docsOkP Q docs) (hs : ∀ d ∈ docs, Sized d) :
    ∃ ms, Msgpack.decodeMany (json2msgpack P mode (Json.writeDocs F docs)).out Msgpack.depthLimit = (ms, .ok) ∧
      ms.map denM = docs.map (denJ P) ∧
      (json2msgpack P mode (Json.writeDocs F docs)).verdict = .ok := by
  have hsrc : jsonSource mode (Json.writeDocs F docs) = (docs, .ok) := by
    cases mode
    · exact Json.sliceLoop_writeDocsP F Q hF docs hd
    · exact Json.readerLoop_writeDocsP F Q hF docs hd
  obtain ⟨ms, h1, _, h3, h4, _⟩ := json_to_msgpack_fidelity_of_wf P Q hQ mode (Json.writeDocs F docs) (by
    rw [hsrc]
    intro d hdm
    exact ⟨(hd d hdm).1, hs d hdm, (hd d hdm).2⟩)
  rw [hsrc] at h3 h4
  exact ⟨ms, h1, h3, h4.mpr rfl⟩

/-- `5` stays an integer: one byte `05`, in both supply modes. -/
theorem five_stays_integer (P : FloatIO) (mode : Mode) :
    bodyJ2M P mode (.int 5) = ([0x05], none) ∧ denM (jToM P (.int 5)) = .int 5 := by
  refine ⟨?_, by simp [jToM, denM]⟩
  rw [bodyJ2M_eq]
  simp [jToM, Msgpack.encode, Msgpack.encUint]

/-- `-0` is not the integer 0 for serde_json: `parse_integer` makes it the
float −0.0 (`classifyNum`: negative, value 0 ⇒ `F64`), so xt writes a
MessagePack float 64 (`cb` + the 8 bytes of whatever `parse "-0"` is — the
sign bit set), and `-0` → MessagePack → JSON comes back as `-0.0`. -/
theorem minus_zero_is_float (P : FloatIO) (mode : Mode) :
    Json.parseValue Json.depthLimit [0x2D, 0x30] = .ok (.float [0x2D, 0x30], []) ∧
    bodyJ2M P mode (.float [0x2D, 0x30]) = (0xcb :: Msgpack.beBytes 8 (P.parse [0x2D, 0x30]), none) := by
  refine ⟨?_, ?_⟩
  · simp [Json.parseValue_eq, Json.skipWs, Json.isWs, Json.classify, Json.lexNumber,
      Json.lexInt, Json.lexFrac, Json.lexExp, Json.classifyNum, Json.digitsVal, Json.u64Max, Json.numVal,
      Json.numSrc]
  · rw [bodyJ2M_eq]; rfl

/-! ## MessagePack → JSON -/

/-- ryu's shortest text of a finite double in `Q` reads back, through
serde_json's parser, as that double — and the JSON reader model takes the text
as a float literal with that very text. -/
def _root_.Xt.Bridge.FloatIO.RoundTrip (P : FloatIO) (Q : Nat → Prop) : Prop :=
  ∀ b, finite64 b = true → Q b → P.parse (P.fmt64 b) = b ∧ Json.FloatLit (P.fmt64 b)

/-- The identity on float texts: `mToJ` already carries the text ryu wrote. -/
def idF : ExtFloat := ⟨id⟩

theorem fixes_of_roundTrip (P : FloatIO) (Q : Nat → Prop) (hR : P.RoundTrip Q) :
    idF.Fixes (FmtRange P Q) := by
  intro src ⟨b, hb, hq, hs⟩
  subst hs
  exact ⟨rfl, (hR b hb hq).2⟩

/-- What the translation WRITES, for every input whose documents are in the
common data model (`InCDM`: no bin, no ext, no 32-bit float, every float
finite, every key a string — nesting only limited by MessagePack's own 1024):
exactly `writeDocs` of `mToJ` of the documents read, one line each, and no
refusal.  No hypothesis about floats.  JSON's limit of 128 on RE-READING plays
no part in writing: a document nested 500 deep is written (and cannot be read
back by xt). -/
theorem msgpack_to_json_output (P : FloatIO) (mode : Mode) (bs : List Nat)
    (hb : ∀ c ∈ bs, c < 256) (hc : ∀ v ∈ (msgpackSource mode bs).1, InCDM (fun _ => True) v) :
    (msgpack2json P mode bs).out = Json.writeDocs idF ((msgpackSource mode bs).1.map (mToJ P)) ∧
    ((msgpack2json P mode bs).verdict = .ok ↔ (msgpackSource mode bs).2 = .ok) ∧
    (∀ e, (msgpack2json P mode bs).verdict ≠ .ser e) :=
  msgpack2json_cdm P idF (fun _ => True) (fun _ _ _ => rfl) mode bs hb hc

/-- **`msgpack_to_json_fidelity`**, for EVERY input (any spelling) and both
supply modes.  Let `docs` be the documents the MessagePack source loop hands
out for `bs`.  If they are in the common data model (`InCDM Q`) and nest less
than 128 deep — needed only so that JSON can be read back — then, under
`P.RoundTrip Q` (vacuous when `Q` is empty, i.e. for float-free input), the
translation's output is read by xt's JSON reader loop AND slice loop as the
same number of documents, in the same order, each denoting what the
MessagePack document denotes: entries in order, strings code point for code
point, integers as integers of any width, floats bit for bit. -/
theorem msgpack_to_json_fidelity (P : FloatIO) (Q : Nat → Prop) (hR : P.RoundTrip Q) (mode : Mode)
    (bs : List Nat) (hb : ∀ c ∈ bs, c < 256)
    (hc : ∀ v ∈ (msgpackSource mode bs).1, InCDM Q v ∧ v.nesting < Json.depthLimit) :
    ∃ js, Json.readerLoop (msgpack2json P mode bs).out = (js, .ok) ∧
      Json.sliceLoop (msgpack2json P mode bs).out = (js, .ok) ∧
      js.length = (msgpackSource mode bs).1.length ∧
      js.map (denJ P) = (msgpackSource mode bs).1.map denM ∧
      ((msgpack2json P mode bs).verdict = .ok ↔ (msgpackSource mode bs).2 = .ok) := by
  have hwf := msgpackSource_wf mode bs hb
  obtain ⟨hout, hv⟩ := msgpack2json_src P idF Q (fun _ _ _ => rfl) mode bs _ _ rfl
    (fun d hd => (hwf d hd).1) (fun d hd => (hc d hd).1)
  have hok : Json.docsOkP (FmtRange P Q) ((msgpackSource mode bs).1.map (mToJ P)) := by
    intro j hj
    obtain ⟨d, hd, rfl⟩ := List.mem_map.mp hj
    refine ⟨mToJ_wf P Q d (hwf d hd).1 (hc d hd).1, ?_⟩
    rw [depthOf_mToJ P Q d (hc d hd).1]
    exact (hc d hd).2
  obtain ⟨hr, hs⟩ := Xt.Props.Json.json_frame_recover_floats idF (FmtRange P Q)
    (fixes_of_roundTrip P Q hR) _ hok
  refine ⟨(msgpackSource mode bs).1.map (mToJ P), by rw [hout]; exact hr, by rw [hout]; exact hs,
    by simp, ?_, hv⟩
  rw [List.map_map]
  apply List.map_congr_left
  intro d hd
  exact denJ_mToJ P Q (fun b h1 h2 => (hR b h1 h2).1) d (hwf d hd).1 (hc d hd).1

/-- Float-free input: no hypothesis at all. -/
theorem msgpack_to_json_fidelity_floatfree (P : FloatIO) (mode : Mode) (bs : List Nat)
    (hb : ∀ c ∈ bs, c < 256)
    (hc : ∀ v ∈ (msgpackSource mode bs).1, InCDM (fun _ => False) v ∧ v.nesting < Json.depthLimit) :
    ∃ js, Json.readerLoop (msgpack2json P mode bs).out = (js, .ok) ∧
      js.map (denJ P) = (msgpackSource mode bs).1.map denM ∧
      ((msgpack2json P mode bs).verdict = .ok ↔ (msgpackSource mode bs).2 = .ok) := by
  obtain ⟨js, h1, _, _, h4, h5⟩ := msgpack_to_json_fidelity P (fun _ => False) (fun _ _ h => h.elim)
    mode bs hb hc
  exact ⟨js, h1, h4, h5⟩

/-! ## There and back (C06 for this pair) -/

/-- **`roundtrip_j_m_j`**: for every input `bs` from which the JSON source loop
reads the float-free well-formed documents `docs` (nested < 128, within
MessagePack's lengths) and ends well — any spelling, any whitespace, either
supply mode — translating to MessagePack and translating that back to JSON
(either supply mode again) succeeds and writes exactly `writeDocs docs`: what
xt's JSON → JSON writes for `bs`.  For every float formatter `F` (no floats
occur). -/
theorem roundtrip_j_m_j (P : FloatIO) (F : ExtFloat) (mode mode' : Mode) (bs : List Nat)
    (docs : List JVal) (hsrc : jsonSource mode bs = (docs, .ok))
    (hd : ∀ d ∈ docs, Json.wellFormed d = true ∧ Json.depthOf d < Json.depthLimit ∧ Sized d) :
    (json2msgpack P mode bs).verdict = .ok ∧
    (msgpack2json P mode' (json2msgpack P mode bs).out).out = Json.writeDocs F docs ∧
    (msgpack2json P mode' (json2msgpack P mode bs).out).verdict = .ok := by
  obtain ⟨hout, hv⟩ := json2msgpack_eq P mode bs
  rw [hsrc] at hout hv
  simp only at hout hv
  have hwf : ∀ m ∈ docs.map (jToM P), m.WF false := by
    intro m hm
    obtain ⟨d, hdm, rfl⟩ := List.mem_map.mp hm
    exact jToM_wf P (fun _ => False) (fun _ h => h.elim) d (Json.wf_of_wellFormed.1 d (hd d hdm).1)
      (hd d hdm).2.2
  have hnest : ∀ m ∈ docs.map (jToM P), m.nesting < Msgpack.depthLimit := by
    intro m hm
    obtain ⟨d, hdm, rfl⟩ := List.mem_map.mp hm
    rw [nesting_jToM]
    have := (hd d hdm).2.1
    unfold Json.depthLimit at this
    unfold Msgpack.depthLimit
    omega
  have hread : Msgpack.readerLoop false Msgpack.depthLimit (json2msgpack P mode bs).out =
      (docs.map (jToM P), .ok) := by
    rw [hout]; exact Msgpack.frame_recover false _ _ hwf hnest
  have hsrc' : msgpackSource mode' (json2msgpack P mode bs).out = (docs.map (jToM P), .ok) :=
    msgpackSource_of_reader mode' _ _ hread
  obtain ⟨h1, h2⟩ := msgpack2json_src P F (fun _ => False) (fun _ _ h => h.elim) mode'
    (json2msgpack P mode bs).out _ _ hsrc' hwf (by
      intro m hm
      obtain ⟨d, hdm, rfl⟩ := List.mem_map.mp hm
      exact inCDM_jToM P _ d (hd d hdm).1)
  refine ⟨hv, ?_, h2.mpr rfl⟩
  rw [h1, List.map_map]
  congr 1
  have : ∀ l : List JVal, (∀ d ∈ l, Json.wellFormed d = true) → l.map (mToJ P ∘ jToM P) = l := by
    intro l hl
    induction l with
    | nil => rfl
    | cons x xs ih =>
      simp only [List.map_cons, Function.comp_apply, mToJ_jToM P x (hl x (by simp)),
        ih (fun d hd => hl d (by simp [hd]))]
  exact this docs (fun d hdm => (hd d hdm).1)

/-- … in particular on xt's own JSON output (`writeDocs F docs`): JSON →
MessagePack → JSON reproduces it byte for byte. -/
theorem roundtrip_own_output (P : FloatIO) (F : ExtFloat) (mode mode' : Mode) (docs : List JVal)
    (h : Json.docsOk docs) (hs : ∀ d ∈ docs, Sized d) :
    (msgpack2json P mode' (json2msgpack P mode (Json.writeDocs F docs)).out).out = Json.writeDocs F docs := by
  have hsrc : jsonSource mode (Json.writeDocs F docs) = (docs, .ok) := by
    obtain ⟨hr, hsl⟩ := Xt.Props.Json.json_frame_recover F docs h
    cases mode
    · exact hsl
    · exact hr
  exact (roundtrip_j_m_j P F mode mode' _ docs hsrc
    (fun d hd => ⟨(h d hd).1, (h d hd).2, hs d hd⟩)).2.1

/-! ## Non-vacuity -/

/-- `[-1, "é\n😀", {"k": [], "k": 18446744073709551615}]`, `null`, `0`. -/
def sampleDocs : List JVal :=
  [.arr [.int (-1), .str [0xE9, 0x0A, 0x1F600], .obj [([0x6B], .arr []), ([0x6B], .int 18446744073709551615)]],
   .null, .int 0]

theorem sampleDocs_ok : Json.docsOk sampleDocs ∧ ∀ d ∈ sampleDocs, Sized d := by
  constructor
  · intro d hd
    simp only [sampleDocs, List.mem_cons, List.mem_nil_iff, or_false] at hd
    rcases hd with rfl | rfl | rfl <;> exact ⟨by decide, by decide⟩
  · intro d hd
    simp only [sampleDocs, List.mem_cons, List.mem_nil_iff, or_false] at hd
    rcases hd with rfl | rfl | rfl <;>
      simp [Sized, SizedList, SizedEntries, strBytes, Json.utf8]

/-- The three sample documents separated by `" \n"`, `"\t"`, `"\r\n"` meet
`json_to_msgpack_fidelity_documents`; their translation decodes to three values
with the same denotations. -/
example (P : FloatIO) (F : ExtFloat) (mode : Mode) :
    ∃ ms, Msgpack.decodeMany (json2msgpack P mode
        (Json.joinDocs F [(sampleDocs[0]!, [0x20, 0x0A]), (.null, [0x09]), (.int 0, [0x0D, 0x0A])])).out
        Msgpack.depthLimit = (ms, .ok) ∧
      ms.map denM = sampleDocs.map (denJ P) := by
  obtain ⟨ms, h1, h2, _⟩ := json_to_msgpack_fidelity_documents P F mode
    [(sampleDocs[0]!, [0x20, 0x0A]), (.null, [0x09]), (.int 0, [0x0D, 0x0A])]
    (by
      intro p hp
      simp only [List.mem_cons, List.mem_nil_iff, or_false] at hp
      rcases hp with rfl | rfl | rfl <;> refine ⟨by decide, by decide, by simp, ?_⟩ <;> simp [Json.isWs])
    (by
      intro p hp
      simp only [List.mem_cons, List.mem_nil_iff, or_false] at hp
      rcases hp with rfl | rfl | rfl <;>
        simp [sampleDocs, Sized, SizedList, SizedEntries, strBytes, Json.utf8])
  exact ⟨ms, h1, h2⟩

example (P : FloatIO) (F : ExtFloat) :
    (msgpack2json P .slice (json2msgpack P .reader (Json.writeDocs F sampleDocs)).out).out =
      Json.writeDocs F sampleDocs :=
  roundtrip_own_output P F .reader .slice sampleDocs sampleDocs_ok.1 sampleDocs_ok.2

/-- A MessagePack input in non-minimal spelling: `[5 as int64, "k" as str8, {"a": -1 as int16}]`
followed by `nil`.  It is in the common data model, float-free, so
`msgpack_to_json_fidelity_floatfree` and `non_minimal_spellings_irrelevant` apply. -/
def wideBytes : List Nat :=
  [0x93, 0xd3, 0, 0, 0, 0, 0, 0, 0, 5, 0xd9, 1, 0x6b, 0x81, 0xa1, 0x61, 0xd1, 0xff, 0xff, 0xc0]

def wideDocs : List MVal := [.arr [.uint 5, .str [0x6b], .map [(.str [0x61], .nint 1)]], .nil]

theorem wide_decodes : Msgpack.decodeMany wideBytes Msgpack.depthLimit = (wideDocs, .ok) := by
  have h1 : Msgpack.decodeG false Msgpack.depthLimit wideBytes = .ok (wideDocs[0]!, [0xc0]) := rfl
  have h2 : Msgpack.decodeG false Msgpack.depthLimit [0xc0] = .ok (.nil, []) := rfl
  show Msgpack.readerLoop false Msgpack.depthLimit wideBytes = _
  rw [Msgpack.readerLoop_ok false _ h1, Msgpack.readerLoop_ok false _ h2, Msgpack.readerLoop_nil]
  rfl

example (P : FloatIO) : msgpack2json P .slice wideBytes =
    msgpack2json P .reader [0x93, 0x05, 0xa1, 0x6b, 0x81, 0xa1, 0x61, 0xff, 0xc0] := by
  have := non_minimal_spellings_irrelevant P wideBytes (by decide) wideDocs wide_decodes .slice .reader
  simpa [wideDocs, Msgpack.encode, Msgpack.encodeList, Msgpack.encodePairs, Msgpack.encUint,
    Msgpack.encNint, Msgpack.strHdr, Msgpack.arrHdr, Msgpack.mapHdr] using this

example (P : FloatIO) : ∃ js, Json.readerLoop (msgpack2json P .reader wideBytes).out = (js, .ok) ∧
    js.map (denJ P) = wideDocs.map denM := by
  have hs : msgpackSource .reader wideBytes = (wideDocs, .ok) := wide_decodes
  obtain ⟨js, h1, h2, _⟩ := msgpack_to_json_fidelity_floatfree P .reader wideBytes (by decide) (by
    rw [hs]
    intro v hv
    simp only [wideDocs, List.mem_cons, List.mem_nil_iff, or_false] at hv
    rcases hv with rfl | rfl
    · exact ⟨by simp [InCDM, InCDMList, InCDMPairs], by decide⟩
    · exact ⟨by simp [InCDM], by decide⟩)
  rw [hs] at h2
  exact ⟨js, h1, h2⟩

/-- `FloatIO.RoundTrip` is satisfiable together with a non-empty `Q`: a
formatter that writes the double with bits `0x3FF8000000000000` as `1.5` and a
parser that reads `1.5` as those bits. -/
example : (⟨fun _ => 0x3FF8000000000000, fun _ => [0x31, 0x2E, 0x35], fun _ => []⟩ : FloatIO).RoundTrip
    (fun b => b = 0x3FF8000000000000) := by
  intro b _ hb
  exact ⟨hb.symm, Json.floatLit_1_5⟩

#print axioms bridge_refines_transcoder
#print axioms int_width_irrelevant
#print axioms non_minimal_spellings_irrelevant
#print axioms m2j_slice_answer_eq_reader
#print axioms unrepresentable_is_error
#print axioms bin_value_becomes_array
#print axioms failing_document_streamed
#print axioms json_to_msgpack_fidelity_of_wf
#print axioms json_to_msgpack_fidelity
#print axioms json_to_msgpack_fidelity_documents
#print axioms json_to_msgpack_fidelity_floats
#print axioms five_stays_integer
#print axioms minus_zero_is_float
#print axioms msgpack_to_json_output
#print axioms msgpack_to_json_fidelity
#print axioms msgpack_to_json_fidelity_floatfree
#print axioms roundtrip_j_m_j
#print axioms roundtrip_own_output

end Xt.Props.Fidelity
