import XtModel.Lemmas.Chunker

/-!
# C03 — Multi-document and multi-input output is the ordered concatenation

Part 1 (this section): the YAML chunker (`src/yaml/chunker.rs`) over an
arbitrary parser trace.  libyaml is not modelled; what the theorems need from
it are the two named hypotheses `EventsMonotone` and `ChunksUtf8`
(`Lemmas/Chunker.lean`), which the harness checks on every real trace.

Obligations of this file: `chunker_partition`, `chunker_lag_one`,
`chunker_buffer_bounded`, `cutAfter_snoc`, `no_panic_chunker`, `no_panic_chunker_only_utf8`,
`chunker_panics_without_hypotheses`, `trim_never_drainRange`.
-/
namespace Xt.Props.C03
open Xt.Chunker

def spanDoc (stream : List Nat) (s : Span) : Doc := ⟨slice stream s.start s.stop, s.kind⟩

/-- For EVERY stream and EVERY event list satisfying `EventsMonotone` (and
`ChunksUtf8`), with or without a trailing parser error, in debug or release
arithmetic: the documents returned are, in order, exactly the substrings
`[start(DS_k) − (number of spaces immediately before it, not reaching behind the
previous cut), stop(DE_k))` of the stream (`spaceStart`, `released`) for the
documents that are due
(`released`: every document start / document end pair that is followed by a
further document start or by the stream end), each with the kind of its first
node; the iteration ends the way the trace ends (no panic); the extents are in
order and pairwise disjoint inside the stream; and against the plain list of
all (start, end) pairs of the trace nothing is dropped, duplicated, merged or
split — the due documents are a prefix of it that misses at most the final
pair, and misses nothing when the trace reaches the stream end event. -/
theorem chunker_partition (oc : Bool) (stream : List Nat) (evs : List Ev) (t : Bool)
    (hm : EventsMonotone stream evs) (hu : ChunksUtf8 stream evs) :
    (chunks oc stream evs t).emits.map (·.doc) = (released stream 0 0 none evs).map (spanDoc stream) ∧
    (chunks oc stream evs t).fin = endOf t evs ∧
    Chain 0 (released stream 0 0 none evs) stream.length ∧
    (released stream 0 0 none evs).map (fun s => (s.start, s.stop))
      = (allPairs stream 0 none evs).take (released stream 0 0 none evs).length ∧
    (allPairs stream 0 none evs).length ≤ (released stream 0 0 none evs).length + 1 ∧
    (endOf t evs = .done →
      (released stream 0 0 none evs).map (fun s => (s.start, s.stop)) = allPairs stream 0 none evs) := by
  have h := run_spec oc stream t hm.1 evs St.init 0 none (inv_init stream) trivial hm.2 hu
  refine ⟨?_, ?_, ?_, (released_pairs stream evs 0 0 none).1, (released_pairs stream evs 0 0 none).2,
    released_complete stream evs 0 0 none t⟩
  · unfold chunks; rw [h]
    simp [pendingEmit, St.init, toEmit, spanDoc, Function.comp_def]
  · unfold chunks; rw [h]
  · exact released_chain stream stream.length evs 0 none 0 false (Nat.zero_le _) (by intro a k h; simp at h) hm.2

/-- Document k is returned at the first document start or stream end event
after its own document end event — never later, in particular it never waits
for the end of the stream unless it is the last document.  (`at_` is the index
of the event during whose processing `Chunker::next` returned the document.) -/
theorem chunker_lag_one (oc : Bool) (stream : List Nat) (evs : List Ev) (t : Bool)
    (hm : EventsMonotone stream evs) (hu : ChunksUtf8 stream evs) :
    (chunks oc stream evs t).emits.map (·.at_) = (released stream 0 0 none evs).map (·.relAt) ∧
    ∀ s ∈ released stream 0 0 none evs,
      (evs[s.deAt]?).map Ev.kind = some .docEnd ∧
      s.relAt = s.deAt + 1 + relIdx (evs.drop (s.deAt + 1)) ∧
      ((evs.drop (s.deAt + 1))[relIdx (evs.drop (s.deAt + 1))]?).map isBoundary = some true ∧
      ∀ j, j < relIdx (evs.drop (s.deAt + 1)) →
        ((evs.drop (s.deAt + 1))[j]?).map isBoundary = some false := by
  have h := run_spec oc stream t hm.1 evs St.init 0 none (inv_init stream) trivial hm.2 hu
  refine ⟨?_, ?_⟩
  · unfold chunks; rw [h]
    simp [pendingEmit, St.init, toEmit, Function.comp_def]
  · intro s hs
    obtain ⟨_, l2, l3, l4⟩ := released_lag stream evs 0 0 none s hs
    obtain ⟨r1, r2⟩ := relIdx_spec _ l3
    exact ⟨l2, l4, r1, r2⟩

/-- After any prefix of the trace the capture buffer holds exactly the stream
bytes from `captured_start_offset` up to what has been read, and
`captured_start_offset` is `cutAfter`: the start of the current document's
chunk (its start event's offset less the spaces kept in front of it) once a
document has started, the end of the previous document after it has ended, 0
before the first.  The buffer never holds anything older than that. -/
theorem chunker_buffer_bounded (oc : Bool) (stream : List Nat) (pre suf : List Ev) (st : St)
    (hm : EventsMonotone stream (pre ++ suf)) (h : stateAfter oc stream St.init pre = some st) :
    st.reader.captured = slice stream st.reader.capturedStart st.fed ∧
    st.reader.capturedStart = cutAfter stream 0 pre ∧
    st.reader.capturedStart ≤ st.fed ∧
    st.fed = readMax 0 pre ∧
    st.reader.captured.length ≤ readMax 0 pre - cutAfter stream 0 pre := by
  obtain ⟨hi, h2, h3⟩ := stateAfter_inv oc stream hm.1 suf pre St.init st false (inv_init stream) hm.2 h
  have h2' : st.reader.capturedStart = cutAfter stream 0 pre := h2
  have h3' : st.fed = readMax 0 pre := h3
  refine ⟨hi.cap, h2', hi.le, h3', ?_⟩
  rw [hi.cap, slice_length, ← h3', ← h2']
  omega

/-- What `cutAfter` is, event by event: a document start moves it to the start
of the run of spaces before the event's offset (never behind the previous
cut), a document end moves it to the event's end offset, nothing else moves it. -/
theorem cutAfter_snoc (stream : List Nat) (pre : List Ev) (e : Ev) :
    cutAfter stream 0 (pre ++ [e]) =
      match e.kind with
      | .docStart => spaceStart stream (cutAfter stream 0 pre) e.start
      | .docEnd => e.stop
      | _ => cutAfter stream 0 pre := by
  rw [cutAfter_append]
  cases hk : e.kind <;> simp [cutAfter, hk]

/-- Under the two hypotheses no panic site of chunker.rs is reached. -/
theorem no_panic_chunker (oc : Bool) (stream : List Nat) (evs : List Ev) (t : Bool)
    (hm : EventsMonotone stream evs) (hu : ChunksUtf8 stream evs) :
    ∀ s, (chunks oc stream evs t).fin ≠ .panic s := by
  intro s h
  rw [(chunker_partition oc stream evs t hm hu).2.1] at h
  clear hm hu
  induction evs with
  | nil => cases t <;> simp [endOf] at h
  | cons e rest ih =>
    simp only [endOf] at h
    split at h
    · simp at h
    · exact ih h

/-- Under `EventsMonotone` alone (nothing assumed about the bytes) the only
panic that can be reached is the `String::from_utf8(chunk).unwrap()`: the
subtraction, `usize::try_from`, `drain` and `split_off` sites are excluded by
the offsets alone. -/
theorem no_panic_chunker_only_utf8 (oc : Bool) (stream : List Nat) (evs : List Ev) (t : Bool)
    (hm : EventsMonotone stream evs) :
    ∀ s, (chunks oc stream evs t).fin = .panic s → s = .fromUtf8 := by
  intro s h
  rcases run_fin_mono oc stream t hm.1 evs St.init 0 false (inv_init stream) hm.2 with h2 | h2
  · exfalso
    unfold chunks at h; rw [h2] at h
    clear h2 hm
    induction evs with
    | nil => cases t <;> simp [endOf] at h
    | cons e rest ih =>
      simp only [endOf] at h
      split at h
      · simp at h
      · exact ih h
  · unfold chunks at h; rw [h2] at h
    simpa using h.symm

/-- Without the hypotheses the other sites are reachable: an offset that goes
backwards underflows (a panic with overflow checks; without them a wrapped
value that the index in the space-retreating loop rejects), an offset beyond
what was read makes that index / `split_off` panic, and a cut inside a
multi-byte character makes the `unwrap` panic. -/
theorem chunker_panics_without_hypotheses :
    (chunks true [0x61, 0x62] [⟨.docStart, 1, 1, 2⟩, ⟨.docEnd, 0, 0, 2⟩] false).fin = .panic .takeSub ∧
    (chunks false [0x61, 0x62] [⟨.docStart, 1, 1, 2⟩, ⟨.docEnd, 0, 0, 2⟩] false).fin = .panic .splitOffRange ∧
    (chunks true [0x61, 0x62] [⟨.docStart, 1, 1, 2⟩, ⟨.docStart, 0, 0, 2⟩] false).fin = .panic .trimSub ∧
    (chunks false [0x61, 0x62] [⟨.docStart, 1, 1, 2⟩, ⟨.docStart, 0, 0, 2⟩] false).fin = .panic .trimIndex ∧
    (chunks true [0x61, 0x62] [⟨.docStart, 2, 2, 1⟩] false).fin = .panic .trimIndex ∧
    (chunks true [0x61, 0x62] [⟨.docStart, 0, 0, 1⟩, ⟨.docEnd, 2, 2, 1⟩] false).fin = .panic .splitOffRange ∧
    (chunks true [0xC3, 0xA9] [⟨.docStart, 0, 0, 2⟩, ⟨.docEnd, 1, 1, 2⟩] false).fin = .panic .fromUtf8 := by
  decide

/-- For EVERY reader state and offset (no hypothesis at all): the
`drain(..trim_len)` of `trim_to_offset` cannot panic — the loop in front of it
has already indexed `captured[trim_len - 1]`. -/
theorem trim_never_drainRange (oc : Bool) (r : Reader) (offset : Nat) :
    r.trimToOffset oc offset ≠ .panic .drainRange := by
  unfold Reader.trimToOffset
  intro h
  split at h
  · rename_i s hs
    unfold subU64 at hs
    split at hs
    · simp at hs
    · split at hs
      · simp at hs; simp at h; rw [h] at hs; simp at hs
      · simp at hs
  · split at h
    · simp at h
    · split at h
      · rename_i s hs
        simp at h; subst h
        rename_i d _ _
        -- `retreat` has no `drainRange` outcome
        have : ∀ (d offset : Nat), retreat oc r.captured d offset ≠ .panic .drainRange := by
          intro d
          induction d with
          | zero => intro offset; simp [retreat]
          | succ d ih =>
            intro offset
            simp only [retreat]
            split
            · simp
            · split
              · split
                · exact ih _
                · split
                  · simp
                  · exact ih _
              · simp
        exact this _ _ hs
      · rename_i t o hs
        have := retreat_le oc r.captured _ _ t o hs
        simp [this] at h

/-! ### Non-vacuity: a three-document trace (second document a scalar, third an
alias only) of the 22-byte stream `a: 1\n---\nb\n...\n--- *x\n`. -/

def exStream : List Nat :=
  [0x61, 0x3a, 0x20, 0x31, 0x0a, 0x2d, 0x2d, 0x2d, 0x0a, 0x62, 0x0a, 0x2e, 0x2e, 0x2e, 0x0a,
   0x2d, 0x2d, 0x2d, 0x20, 0x2a, 0x78, 0x0a]

def exEvents : List Ev :=
  [⟨.streamStart, 0, 0, 22⟩, ⟨.docStart, 0, 0, 22⟩, ⟨.mapStart, 0, 0, 22⟩, ⟨.scalar, 0, 1, 22⟩,
   ⟨.scalar, 3, 4, 22⟩, ⟨.mapEnd, 5, 5, 22⟩, ⟨.docEnd, 5, 5, 22⟩,
   ⟨.docStart, 5, 8, 22⟩, ⟨.scalar, 9, 10, 22⟩, ⟨.docEnd, 11, 14, 22⟩,
   ⟨.docStart, 15, 18, 22⟩, ⟨.alias, 19, 21, 22⟩, ⟨.docEnd, 22, 22, 22⟩, ⟨.streamEnd, 22, 22, 22⟩]

theorem ex_monotone : EventsMonotone exStream exEvents := by
  refine ⟨by decide, ?_⟩
  simp [exEvents, exStream, Mono]

theorem ex_utf8 : ChunksUtf8 exStream exEvents := by
  simp only [ChunksUtf8, exEvents, Utf8Ok]
  decide

example : (chunks true exStream exEvents false).emits.map (·.doc) =
    [⟨[0x61, 0x3a, 0x20, 0x31, 0x0a], some .collection⟩,
     ⟨[0x2d, 0x2d, 0x2d, 0x0a, 0x62, 0x0a, 0x2e, 0x2e, 0x2e], some .scalar⟩,
     ⟨[0x2d, 0x2d, 0x2d, 0x20, 0x2a, 0x78, 0x0a], none⟩] := by
  rw [(chunker_partition true exStream exEvents false ex_monotone ex_utf8).1]
  decide

example : (chunks true exStream exEvents false).emits.map (·.at_) = [7, 10, 13] := by
  rw [(chunker_lag_one true exStream exEvents false ex_monotone ex_utf8).1]
  decide

/-- With a parser error after the second document's end the second document is
withheld (deferral), the first is still returned. -/
example : (chunks true exStream (exEvents.take 10) true).emits.map (·.doc) =
      [⟨[0x61, 0x3a, 0x20, 0x31, 0x0a], some .collection⟩] ∧
    (chunks true exStream (exEvents.take 10) true).fin = .err := by decide

/-- An indented implicit document keeps its indentation: the chunk starts at the
spaces before the first token (`  a: 1\n`, document start event at offset 2),
and after `...` the next chunk starts at its own indentation, not earlier. -/
example : (chunks true [0x20, 0x20, 0x61, 0x3a, 0x20, 0x31, 0x0a, 0x2e, 0x2e, 0x2e, 0x0a, 0x20, 0x62, 0x0a]
      [⟨.streamStart, 0, 0, 14⟩, ⟨.docStart, 2, 2, 14⟩, ⟨.mapStart, 2, 2, 14⟩, ⟨.scalar, 2, 3, 14⟩,
       ⟨.scalar, 5, 6, 14⟩, ⟨.mapEnd, 7, 7, 14⟩, ⟨.docEnd, 7, 10, 14⟩, ⟨.docStart, 12, 12, 14⟩,
       ⟨.scalar, 12, 13, 14⟩, ⟨.docEnd, 14, 14, 14⟩, ⟨.streamEnd, 14, 14, 14⟩] false).emits.map (·.doc) =
    [⟨[0x20, 0x20, 0x61, 0x3a, 0x20, 0x31, 0x0a, 0x2e, 0x2e, 0x2e], some .collection⟩,
     ⟨[0x20, 0x62, 0x0a], some .scalar⟩] := by decide

example : ∀ s, (chunks false exStream exEvents false).fin ≠ .panic s :=
  no_panic_chunker false exStream exEvents false ex_monotone ex_utf8

#print axioms chunker_partition
#print axioms chunker_lag_one
#print axioms chunker_buffer_bounded
#print axioms no_panic_chunker
#print axioms no_panic_chunker_only_utf8
#print axioms chunker_panics_without_hypotheses
#print axioms trim_never_drainRange
#print axioms cutAfter_snoc

end Xt.Props.C03
