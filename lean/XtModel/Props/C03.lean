import XtModel.Lemmas.Chunker
import XtModel.Lemmas.Output
import XtModel.Lemmas.Guards
import XtModel.Props.C18
import XtModel.Props.Json

/-!
# C03 — Multi-document and multi-input output is the ordered concatenation

Part 1 (this section): the YAML chunker (`src/yaml/chunker.rs`) over an
arbitrary parser trace.  libyaml is not modelled; what the theorems need from
it are the two named hypotheses `EventsMonotone` and `ChunksUtf8`
(`Lemmas/Chunker.lean`), which the harness checks on every real trace.

Obligations of this file: `chunker_partition`, `chunker_lag_one`,
`chunker_buffer_bounded`, `cutAfter_snoc`, `chunker_readahead_independent`, `no_panic_chunker`, `no_panic_chunker_only_utf8`,
`chunker_panics_without_hypotheses`, `trim_never_drainRange`.

Part 2 (second section): `Translator` and the framing of the three streaming
outputs over an arbitrary per-document behaviour of the serializer crates
(`Model/Output.lean`).  Obligations: `translator_concat`, `translator_concat_calls`,
`translator_concat_ok`, `json_frame_one_line_per_doc`, `yaml_frame`, `msgpack_frame`.

Part 3: the read-length guards (proved in `Lemmas/Guards.lean`, shared with
C04/C17): `copy_len_in_bounds`, `chunkreader_overreport_is_clean_panic`,
`stash_cleared_on_success`, `chunker_stack_overreport`.
-/
namespace Xt.Props.C03
open Xt.Chunker

def spanDoc (stream : List Nat) (s : Span) : Doc := ⟨slice stream s.start s.stop, s.kind⟩

/-- For EVERY stream and EVERY event list satisfying `EventsMonotone` (and
`ChunksUtf8`), with or without a trailing parser error, in debug or release
arithmetic: the documents returned are, in order, exactly the substrings
`[start(DS_k) − (number of spaces immediately before it, not reaching behind the
previous cut), stop(DE_k))` of the stream (`spaceStart`, `released`) for the
documents that are due
(`released`: every document start / document end pair that is followed by a
further document start or by the stream end), each with the kind of its first
node; the iteration ends the way the trace ends (no panic); the extents are in
order and pairwise disjoint inside the stream; and against the plain list of
all (start, end) pairs of the trace nothing is dropped, duplicated, merged or
split — the due documents are a prefix of it that misses at most the final
pair, and misses nothing when the trace reaches the stream end event. -/
theorem chunker_partition (oc : Bool) (stream : List Nat) (evs : List Ev) (t : Bool)
    (hm : EventsMonotone stream evs) (hu : ChunksUtf8 stream evs) :
    (chunks oc stream evs t).emits.map (·.doc) = (released stream 0 0 none evs).map (spanDoc stream) ∧
    (chunks oc stream evs t).fin = endOf t evs ∧
    Chain 0 (released stream 0 0 none evs) stream.length ∧
    (released stream 0 0 none evs).map (fun s => (s.start, s.stop))
      = (allPairs stream 0 none evs).take (released stream 0 0 none evs).length ∧
    (allPairs stream 0 none evs).length ≤ (released stream 0 0 none evs).length + 1 ∧
    (endOf t evs = .done →
      (released stream 0 0 none evs).map (fun s => (s.start, s.stop)) = allPairs stream 0 none evs) := by
  have h := run_spec oc stream t hm.1 evs St.init 0 none (inv_init stream) trivial hm.2 hu
  refine ⟨?_, ?_, ?_, (released_pairs stream evs 0 0 none).1, (released_pairs stream evs 0 0 none).2,
    released_complete stream evs 0 0 none t⟩
  · unfold chunks; rw [h]
    simp [pendingEmit, St.init, toEmit, spanDoc, Function.comp_def]
  · unfold chunks; rw [h]
  · exact released_chain stream stream.length evs 0 none 0 false (Nat.zero_le _) (by intro a k h; simp at h) hm.2

/-- Document k is returned at the first document start or stream end event
after its own document end event — never later, in particular it never waits
for the end of the stream unless it is the last document.  (`at_` is the index
of the event during whose processing `Chunker::next` returned the document.) -/
theorem chunker_lag_one (oc : Bool) (stream : List Nat) (evs : List Ev) (t : Bool)
    (hm : EventsMonotone stream evs) (hu : ChunksUtf8 stream evs) :
    (chunks oc stream evs t).emits.map (·.at_) = (released stream 0 0 none evs).map (·.relAt) ∧
    ∀ s ∈ released stream 0 0 none evs,
      (evs[s.deAt]?).map Ev.kind = some .docEnd ∧
      s.relAt = s.deAt + 1 + relIdx (evs.drop (s.deAt + 1)) ∧
      ((evs.drop (s.deAt + 1))[relIdx (evs.drop (s.deAt + 1))]?).map isBoundary = some true ∧
      ∀ j, j < relIdx (evs.drop (s.deAt + 1)) →
        ((evs.drop (s.deAt + 1))[j]?).map isBoundary = some false := by
  have h := run_spec oc stream t hm.1 evs St.init 0 none (inv_init stream) trivial hm.2 hu
  refine ⟨?_, ?_⟩
  · unfold chunks; rw [h]
    simp [pendingEmit, St.init, toEmit, Function.comp_def]
  · intro s hs
    obtain ⟨_, l2, l3, l4⟩ := released_lag stream evs 0 0 none s hs
    obtain ⟨r1, r2⟩ := relIdx_spec _ l3
    exact ⟨l2, l4, r1, r2⟩

/-- How far the parser had read ahead when it returned each event does not
matter: two traces with the same event kinds and offsets (both satisfying the
hypotheses with their own read offsets) give the same documents at the same
event indices. -/
theorem chunker_readahead_independent (oc oc' : Bool) (stream : List Nat) (evs evs' : List Ev) (t : Bool)
    (hsame : evs.map eraseRead = evs'.map eraseRead)
    (hm : EventsMonotone stream evs) (hu : ChunksUtf8 stream evs)
    (hm' : EventsMonotone stream evs') (hu' : ChunksUtf8 stream evs') :
    (chunks oc stream evs t).emits = (chunks oc' stream evs' t).emits := by
  have h := run_spec oc stream t hm.1 evs St.init 0 none (inv_init stream) trivial hm.2 hu
  have h' := run_spec oc' stream t hm'.1 evs' St.init 0 none (inv_init stream) trivial hm'.2 hu'
  unfold chunks
  rw [h, h']
  simp only [pendingEmit, St.init, List.nil_append]
  show List.map (toEmit stream) (released stream 0 0 none evs) = List.map (toEmit stream) (released stream 0 0 none evs')
  rw [← released_erase stream evs, ← released_erase stream evs', hsame]

/-- After any prefix of the trace the capture buffer holds exactly the stream
bytes from `captured_start_offset` up to what has been read, and
`captured_start_offset` is `cutAfter`: the start of the current document's
chunk (its start event's offset less the spaces kept in front of it) once a
document has started, the end of the previous document after it has ended, 0
before the first.  The buffer never holds anything older than that. -/
theorem chunker_buffer_bounded (oc : Bool) (stream : List Nat) (pre suf : List Ev) (st : St)
    (hm : EventsMonotone stream (pre ++ suf)) (h : stateAfter oc stream St.init pre = some st) :
    st.reader.captured = slice stream st.reader.capturedStart st.fed ∧
    st.reader.capturedStart = cutAfter stream 0 pre ∧
    st.reader.capturedStart ≤ st.fed ∧
    st.fed = readMax 0 pre ∧
    st.reader.captured.length ≤ readMax 0 pre - cutAfter stream 0 pre := by
  obtain ⟨hi, h2, h3⟩ := stateAfter_inv oc stream hm.1 suf pre St.init st false (inv_init stream) hm.2 h
  have h2' : st.reader.capturedStart = cutAfter stream 0 pre := h2
  have h3' : st.fed = readMax 0 pre := h3
  refine ⟨hi.cap, h2', hi.le, h3', ?_⟩
  rw [hi.cap, slice_length, ← h3', ← h2']
  omega

/-- What `cutAfter` is, event by event: a document start moves it to the start
of the run of spaces before the event's offset (never behind the previous
cut), a document end moves it to the event's end offset, nothing else moves it. -/
theorem cutAfter_snoc (stream : List Nat) (pre : List Ev) (e : Ev) :
    cutAfter stream 0 (pre ++ [e]) =
      match e.kind with
      | .docStart => spaceStart stream (cutAfter stream 0 pre) e.start
      | .docEnd => e.stop
      | _ => cutAfter stream 0 pre := by
  rw [cutAfter_append]
  cases hk : e.kind <;> simp [cutAfter, hk]

/-- Under the two hypotheses no panic site of chunker.rs is reached. -/
theorem no_panic_chunker (oc : Bool) (stream : List Nat) (evs : List Ev) (t : Bool)
    (hm : EventsMonotone stream evs) (hu : ChunksUtf8 stream evs) :
    ∀ s, (chunks oc stream evs t).fin ≠ .panic s := by
  intro s h
  rw [(chunker_partition oc stream evs t hm hu).2.1] at h
  clear hm hu
  induction evs with
  | nil => cases t <;> simp [endOf] at h
  | cons e rest ih =>
    simp only [endOf] at h
    split at h
    · simp at h
    · exact ih h

/-- Under `EventsMonotone` alone (nothing assumed about the bytes) the only
panic that can be reached is the `String::from_utf8(chunk).unwrap()`: the
subtraction, `usize::try_from`, `drain` and `split_off` sites are excluded by
the offsets alone. -/
theorem no_panic_chunker_only_utf8 (oc : Bool) (stream : List Nat) (evs : List Ev) (t : Bool)
    (hm : EventsMonotone stream evs) :
    ∀ s, (chunks oc stream evs t).fin = .panic s → s = .fromUtf8 := by
  intro s h
  rcases run_fin_mono oc stream t hm.1 evs St.init 0 false (inv_init stream) hm.2 with h2 | h2
  · exfalso
    unfold chunks at h; rw [h2] at h
    clear h2 hm
    induction evs with
    | nil => cases t <;> simp [endOf] at h
    | cons e rest ih =>
      simp only [endOf] at h
      split at h
      · simp at h
      · exact ih h
  · unfold chunks at h; rw [h2] at h
    simpa using h.symm

/-- Without the hypotheses the other sites are reachable: an offset that goes
backwards underflows (a panic with overflow checks; without them a wrapped
value that the index in the space-retreating loop rejects), an offset beyond
what was read makes that index / `split_off` panic, and a cut inside a
multi-byte character makes the `unwrap` panic. -/
theorem chunker_panics_without_hypotheses :
    (chunks true [0x61, 0x62] [⟨.docStart, 1, 1, 2⟩, ⟨.docEnd, 0, 0, 2⟩] false).fin = .panic .takeSub ∧
    (chunks false [0x61, 0x62] [⟨.docStart, 1, 1, 2⟩, ⟨.docEnd, 0, 0, 2⟩] false).fin = .panic .splitOffRange ∧
    (chunks true [0x61, 0x62] [⟨.docStart, 1, 1, 2⟩, ⟨.docStart, 0, 0, 2⟩] false).fin = .panic .trimSub ∧
    (chunks false [0x61, 0x62] [⟨.docStart, 1, 1, 2⟩, ⟨.docStart, 0, 0, 2⟩] false).fin = .panic .trimIndex ∧
    (chunks true [0x61, 0x62] [⟨.docStart, 2, 2, 1⟩] false).fin = .panic .trimIndex ∧
    (chunks true [0x61, 0x62] [⟨.docStart, 0, 0, 1⟩, ⟨.docEnd, 2, 2, 1⟩] false).fin = .panic .splitOffRange ∧
    (chunks true [0xC3, 0xA9] [⟨.docStart, 0, 0, 2⟩, ⟨.docEnd, 1, 1, 2⟩] false).fin = .panic .fromUtf8 := by
  decide

/-- For EVERY reader state and offset (no hypothesis at all): the
`drain(..trim_len)` of `trim_to_offset` cannot panic — the loop in front of it
has already indexed `captured[trim_len - 1]`. -/
theorem trim_never_drainRange (oc : Bool) (r : Reader) (offset : Nat) :
    r.trimToOffset oc offset ≠ .panic .drainRange := by
  unfold Reader.trimToOffset
  intro h
  split at h
  · rename_i s hs
    unfold subU64 at hs
    split at hs
    · simp at hs
    · split at hs
      · simp at hs; simp at h; rw [h] at hs; simp at hs
      · simp at hs
  · split at h
    · simp at h
    · split at h
      · rename_i s hs
        simp at h; subst h
        rename_i d _ _
        -- `retreat` has no `drainRange` outcome
        have : ∀ (d offset : Nat), retreat oc r.captured d offset ≠ .panic .drainRange := by
          intro d
          induction d with
          | zero => intro offset; simp [retreat]
          | succ d ih =>
            intro offset
            simp only [retreat]
            split
            · simp
            · split
              · split
                · exact ih _
                · split
                  · simp
                  · exact ih _
              · simp
        exact this _ _ hs
      · rename_i t o hs
        have := retreat_le oc r.captured _ _ t o hs
        simp [this] at h

/-! ### Non-vacuity: a three-document trace (second document a scalar, third an
alias only) of the 22-byte stream `a: 1\n---\nb\n...\n--- *x\n`. -/

def exStream : List Nat :=
  [0x61, 0x3a, 0x20, 0x31, 0x0a, 0x2d, 0x2d, 0x2d, 0x0a, 0x62, 0x0a, 0x2e, 0x2e, 0x2e, 0x0a,
   0x2d, 0x2d, 0x2d, 0x20, 0x2a, 0x78, 0x0a]

def exEvents : List Ev :=
  [⟨.streamStart, 0, 0, 22⟩, ⟨.docStart, 0, 0, 22⟩, ⟨.mapStart, 0, 0, 22⟩, ⟨.scalar, 0, 1, 22⟩,
   ⟨.scalar, 3, 4, 22⟩, ⟨.mapEnd, 5, 5, 22⟩, ⟨.docEnd, 5, 5, 22⟩,
   ⟨.docStart, 5, 8, 22⟩, ⟨.scalar, 9, 10, 22⟩, ⟨.docEnd, 11, 14, 22⟩,
   ⟨.docStart, 15, 18, 22⟩, ⟨.alias, 19, 21, 22⟩, ⟨.docEnd, 22, 22, 22⟩, ⟨.streamEnd, 22, 22, 22⟩]

theorem ex_monotone : EventsMonotone exStream exEvents := by
  refine ⟨by decide, ?_⟩
  simp [exEvents, exStream, Mono]

theorem ex_utf8 : ChunksUtf8 exStream exEvents := by
  simp only [ChunksUtf8, exEvents, Utf8Ok]
  decide

example : (chunks true exStream exEvents false).emits.map (·.doc) =
    [⟨[0x61, 0x3a, 0x20, 0x31, 0x0a], some .collection⟩,
     ⟨[0x2d, 0x2d, 0x2d, 0x0a, 0x62, 0x0a, 0x2e, 0x2e, 0x2e], some .scalar⟩,
     ⟨[0x2d, 0x2d, 0x2d, 0x20, 0x2a, 0x78, 0x0a], none⟩] := by
  rw [(chunker_partition true exStream exEvents false ex_monotone ex_utf8).1]
  decide

example : (chunks true exStream exEvents false).emits.map (·.at_) = [7, 10, 13] := by
  rw [(chunker_lag_one true exStream exEvents false ex_monotone ex_utf8).1]
  decide

/-- With a parser error after the second document's end the second document is
withheld (deferral), the first is still returned. -/
example : (chunks true exStream (exEvents.take 10) true).emits.map (·.doc) =
      [⟨[0x61, 0x3a, 0x20, 0x31, 0x0a], some .collection⟩] ∧
    (chunks true exStream (exEvents.take 10) true).fin = .err := by decide

/-- An indented implicit document keeps its indentation: the chunk starts at the
spaces before the first token (`  a: 1\n`, document start event at offset 2),
and after `...` the next chunk starts at its own indentation, not earlier. -/
example : (chunks true [0x20, 0x20, 0x61, 0x3a, 0x20, 0x31, 0x0a, 0x2e, 0x2e, 0x2e, 0x0a, 0x20, 0x62, 0x0a]
      [⟨.streamStart, 0, 0, 14⟩, ⟨.docStart, 2, 2, 14⟩, ⟨.mapStart, 2, 2, 14⟩, ⟨.scalar, 2, 3, 14⟩,
       ⟨.scalar, 5, 6, 14⟩, ⟨.mapEnd, 7, 7, 14⟩, ⟨.docEnd, 7, 10, 14⟩, ⟨.docStart, 12, 12, 14⟩,
       ⟨.scalar, 12, 13, 14⟩, ⟨.docEnd, 14, 14, 14⟩, ⟨.streamEnd, 14, 14, 14⟩] false).emits.map (·.doc) =
    [⟨[0x20, 0x20, 0x61, 0x3a, 0x20, 0x31, 0x0a, 0x2e, 0x2e, 0x2e], some .collection⟩,
     ⟨[0x20, 0x62, 0x0a], some .scalar⟩] := by decide

example : ∀ s, (chunks false exStream exEvents false).fin ≠ .panic s :=
  no_panic_chunker false exStream exEvents false ex_monotone ex_utf8

end Xt.Props.C03

/-! ## Part 2 — Translator and framing -/
namespace Xt.Props.C03
open Xt.Output

variable {D E V : Type}

/-- For EVERY behaviour of the crates on single documents, every streaming
target and every list of inputs (each any number of documents followed or not
by a source-side failure), fed to one translator until the first failure: the
bytes written are the concatenation, in order, of what translating each
document alone writes (`single`), over exactly the documents up to and
including the first one that fails — nothing after a failure, everything
before it — and the result is that first failure. -/
theorem translator_concat (env : Env D E V) (t : Target) (ht : t ≠ .toml) (inputs : List (Input D E)) :
    (session env t Out.empty inputs).1.sink
      = (processed env t (flat inputs)).flatMap (single env t) ∧
    (session env t Out.empty inputs).2 = firstError env t (flat inputs) := by
  rw [session_stream env t ht]
  refine ⟨?_, rfl⟩
  simp only [Out.empty, List.nil_append]
  congr 1
  funext d
  exact (single_eq_frame env t ht d).symm

/-- The same for a translator that keeps being called after failed calls (the
library API allows it): the output is the concatenation over the calls, each
contributing its documents up to its own first failure; every call's result is
its own first failure.  In particular the output object carries no state from
one call to the next. -/
theorem translator_concat_calls (env : Env D E V) (t : Target) (ht : t ≠ .toml) (inputs : List (Input D E)) :
    (calls env t Out.empty inputs).1.sink
      = inputs.flatMap (fun i => (processed env t (itemsOf i)).flatMap (single env t)) ∧
    (calls env t Out.empty inputs).2 = inputs.map (fun i => firstError env t (itemsOf i)) := by
  rw [calls_stream env t ht]
  refine ⟨?_, rfl⟩
  simp only [Out.empty, List.nil_append]
  congr 1
  funext i
  congr 1
  funext d
  exact (single_eq_frame env t ht d).symm

theorem processed_all_ok (env : Env D E V) (t : Target) (ds : List D)
    (h : ∀ d ∈ ds, (env.body t d).2 = none) :
    processed env t (ds.map .doc) = ds ∧ firstError env t (ds.map .doc) = .ok () := by
  induction ds with
  | nil => simp [processed, firstError]
  | cons d ds ih =>
    have hd := h d (by simp)
    obtain ⟨i1, i2⟩ := ih (fun x hx => h x (by simp [hx]))
    simp [processed, firstError, hd, i1, i2]

theorem flat_no_fail (inputs : List (Input D E)) (h : ∀ i ∈ inputs, i.fail = none) :
    flat inputs = (inputs.flatMap (·.docs)).map .doc := by
  induction inputs with
  | nil => rfl
  | cons i is ih =>
    have hi := h i (by simp)
    have := ih (fun x hx => h x (by simp [hx]))
    simp only [flat, List.flatMap_cons, List.map_append] at this ⊢
    rw [this]
    simp [itemsOf, hi]

/-- When nothing fails: N documents distributed in any way over any number of
calls give exactly the concatenation of the N single-document translations. -/
theorem translator_concat_ok (env : Env D E V) (t : Target) (ht : t ≠ .toml) (inputs : List (Input D E))
    (hsrc : ∀ i ∈ inputs, i.fail = none)
    (hdoc : ∀ d ∈ inputs.flatMap (·.docs), (env.body t d).2 = none) :
    (session env t Out.empty inputs).1.sink = (inputs.flatMap (·.docs)).flatMap (single env t) ∧
    (session env t Out.empty inputs).2 = .ok () := by
  obtain ⟨h1, h2⟩ := translator_concat env t ht inputs
  rw [flat_no_fail inputs hsrc] at h1 h2
  obtain ⟨p1, p2⟩ := processed_all_ok env t _ hdoc
  rw [p1] at h1
  rw [p2] at h2
  exact ⟨h1, h2⟩

/-- JSON: if no document's body contains a newline, splitting the output at
newlines recovers exactly the bodies, in order, with nothing left over: one
line per document. -/
theorem json_frame_one_line_per_doc (env : Env D E V) (inputs : List (Input D E))
    (hsrc : ∀ i ∈ inputs, i.fail = none)
    (hdoc : ∀ d ∈ inputs.flatMap (·.docs), (env.body .json d).2 = none)
    (hnl : ∀ d ∈ inputs.flatMap (·.docs), ∀ b ∈ (env.body .json d).1, b ≠ 0x0A) :
    splitLines (session env .json Out.empty inputs).1.sink
      = ((inputs.flatMap (·.docs)).map (fun d => (env.body .json d).1), []) := by
  rw [(translator_concat_ok env .json (by decide) inputs hsrc hdoc).1]
  generalize inputs.flatMap (·.docs) = ds at hdoc hnl
  induction ds with
  | nil => simp [splitLines]
  | cons d ds ih =>
    have hd := hdoc d (by simp)
    have ih' := ih (fun x hx => hdoc x (by simp [hx])) (fun x hx => hnl x (by simp [hx]))
    have hs : single env .json d = (env.body .json d).1 ++ [0x0A] := by
      rw [single_eq_frame env .json (by decide)]
      unfold frame
      cases hb : env.body .json d with
      | mk bs e => rw [hb] at hd; simp at hd; subst hd; rfl
    simp only [List.flatMap_cons, List.map_cons, hs]
    rw [splitLines_frame _ _ (hnl d (by simp)), ih']

/-- YAML: the output is `---\n` ++ body for every document, in order. -/
theorem yaml_frame (env : Env D E V) (inputs : List (Input D E))
    (hsrc : ∀ i ∈ inputs, i.fail = none)
    (hdoc : ∀ d ∈ inputs.flatMap (·.docs), (env.body .yaml d).2 = none) :
    (session env .yaml Out.empty inputs).1.sink
      = (inputs.flatMap (·.docs)).flatMap (fun d => [0x2D, 0x2D, 0x2D, 0x0A] ++ (env.body .yaml d).1) := by
  rw [(translator_concat_ok env .yaml (by decide) inputs hsrc hdoc).1]
  congr 1
  funext d
  rw [single_eq_frame env .yaml (by decide)]
  rfl

/-- MessagePack: the output is the bodies back to back. -/
theorem msgpack_frame (env : Env D E V) (inputs : List (Input D E))
    (hsrc : ∀ i ∈ inputs, i.fail = none)
    (hdoc : ∀ d ∈ inputs.flatMap (·.docs), (env.body .msgpack d).2 = none) :
    (session env .msgpack Out.empty inputs).1.sink
      = (inputs.flatMap (·.docs)).flatMap (fun d => (env.body .msgpack d).1) := by
  rw [(translator_concat_ok env .msgpack (by decide) inputs hsrc hdoc).1]
  congr 1
  funext d
  rw [single_eq_frame env .msgpack (by decide)]
  rfl

/-! ### Non-vacuity: documents are byte strings that serialize as themselves,
except the document `[0xFF]`, whose serializer fails after writing `[0x7B]`. -/

def exEnv : Env Bytes Nat Nat where
  body := fun _ d => if d = [0xFF] then ([0x7B], some 7) else (d, none)
  build := fun _ => .error 0
  isTable := fun _ => false
  pretty := fun _ => .error 0

example : (session exEnv .json Out.empty [⟨[[0x31], [0x32]], none⟩, ⟨[], none⟩, ⟨[[0x33]], none⟩]).1.sink
    = [0x31, 0x0A, 0x32, 0x0A, 0x33, 0x0A] := by
  rw [(translator_concat_ok exEnv .json (by decide) _ (by simp) (by simp [exEnv])).1]
  decide

/-- Stops at the failing second document: everything before it, its partial
output, nothing after. -/
example : (session exEnv .yaml Out.empty [⟨[[0x31], [0xFF], [0x32]], none⟩, ⟨[[0x33]], none⟩]).1.sink
      = [0x2D, 0x2D, 0x2D, 0x0A, 0x31, 0x2D, 0x2D, 0x2D, 0x0A, 0x7B] ∧
    (session exEnv .yaml Out.empty [⟨[[0x31], [0xFF], [0x32]], none⟩, ⟨[[0x33]], none⟩]).2
      = .error (.other 7) := ⟨by decide, rfl⟩

example : splitLines (session exEnv .json Out.empty [⟨[[0x31], [0x32, 0x32]], none⟩, ⟨[[0x33]], none⟩]).1.sink
    = ([[0x31], [0x32, 0x32], [0x33]], []) := by
  rw [json_frame_one_line_per_doc exEnv _ (by simp) (by simp [exEnv]) (by simp [exEnv])]
  decide

/-! ## Part 3 — read-length guards (statements in `Lemmas/Guards.lean`) -/

open Xt.Chunker in
/-- For EVERY buffer size, stash and reader answer (error, honest count, count
over-reported by any excess): a copy, when made, has a length within both
buffers and `*size_read` equals it; otherwise nothing is copied or reported
and the handler fails. -/
theorem copy_len_in_bounds (degenerate : Bool) (size : Nat) (stash : Option Stash) (res : ReadRes) :
    match (readHandler degenerate size stash res).copyLen with
    | some n =>
      n ≤ size ∧ (readHandler degenerate size stash res).bouncerLen = some size ∧
      (readHandler degenerate size stash res).sizeRead = some n ∧
      (readHandler degenerate size stash res).success = true
    | none =>
      (readHandler degenerate size stash res).sizeRead = none ∧
      (readHandler degenerate size stash res).success = false :=
  Guards.copy_len_in_bounds degenerate size stash res

open Xt.Chunker in
theorem overreport_is_stashed (size honest excess : Nat) (stash : Option Stash) (data : List Nat)
    (h : size < honest + excess) :
    (readHandler false size stash (.ok (honest + excess) data)).copyLen = none ∧
    (readHandler false size stash (.ok (honest + excess) data)).stash = some .misbehaving ∧
    (readHandler false size stash (.ok (honest + excess) data)).success = false :=
  Guards.overreport_is_stashed size honest excess stash data h

open Xt.Chunker in
theorem chunkreader_overreport_is_clean_panic (r : Reader) (buf data : List Nat) (reported : Nat)
    (h : buf.length < reported) :
    r.read buf (.ok reported data) = .panic .readSlice :=
  Guards.chunkreader_overreport_is_clean_panic r buf data reported h

open Xt.Chunker in
theorem stash_cleared_on_success (size : Nat) (stash : Option Stash) (res : ReadRes) :
    ((readHandler false size stash res).success = true → (readHandler false size stash res).stash = none) ∧
    ((readHandler false size stash res).success = false → (readHandler false size stash res).stash ≠ none) ∧
    (readHandler true size stash res).stash = stash :=
  Guards.stash_cleared_on_success size stash res

open Xt.Chunker in
theorem chunker_stack_overreport (size : Nat) (bouncer : List Nat) (stash : Option Stash) (r : Reader)
    (reported : Nat) (data : List Nat) :
    (size < reported →
      handlerOverChunkReader size bouncer stash r (.ok reported data) = .panic .readSlice) ∧
    (reported ≤ size → ∃ r', handlerOverChunkReader size bouncer stash r (.ok reported data)
      = .ok (⟨some size, some reported, some reported, none, true⟩, r')) :=
  Guards.chunker_stack_overreport size bouncer stash r reported data

/-- Non-vacuity: libyaml's 16 KiB buffer, 3 bytes written, 16385 reported. -/
example : (Xt.Chunker.readHandler false 16384 none (.ok 16385 [1, 2, 3])).stash = some .misbehaving := by decide
example : (Xt.Chunker.Reader.read ⟨[], 0⟩ [0, 0, 0, 0] (.ok 5 [1, 2, 3])) = .panic .readSlice :=
  Xt.Chunker.Guards.chunkreader_overreport_is_clean_panic _ _ _ _ (by decide)

#print axioms chunker_partition
#print axioms chunker_lag_one
#print axioms chunker_buffer_bounded
#print axioms chunker_readahead_independent
#print axioms no_panic_chunker
#print axioms no_panic_chunker_only_utf8
#print axioms chunker_panics_without_hypotheses
#print axioms trim_never_drainRange
#print axioms cutAfter_snoc
#print axioms translator_concat
#print axioms translator_concat_calls
#print axioms translator_concat_ok
#print axioms json_frame_one_line_per_doc
#print axioms yaml_frame
#print axioms msgpack_frame
#print axioms copy_len_in_bounds
#print axioms overreport_is_stashed
#print axioms chunkreader_overreport_is_clean_panic
#print axioms stash_cleared_on_success
#print axioms chunker_stack_overreport

#print axioms Xt.Props.C18.msgpack_frame_recover
#print axioms Xt.Props.Json.json_frame_recover
#print axioms Xt.Props.Json.json_split_sources
#print axioms Xt.Props.Json.json_write_no_newline

end Xt.Props.C03
