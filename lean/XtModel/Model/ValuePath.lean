import XtModel.Model.Transcode

/-
Model of /repo/src/transcode/value.rs: the collect-then-replay path
(`transcode::Value::deserialize(de)` followed by `value.serialize(ser)`), used
for JSON slice input and driven by the hook `xt::verif::transcode_value`.

Documented differences from the streaming path, none visible in the op
alphabet: `serialize_seq`/`serialize_map` receive `Some(len)` instead of the
deserializer's size hint (lengths are not part of `Op`); a map entry goes
through `SerializeMap::serialize_entry`, whose provided implementation is
`serialize_key` then `serialize_value`; `visit_borrowed_str`/`visit_string`
(and the bytes analogues) all collect to the same `String`/`Bytes` value.

One difference *is* visible: `Value::Bytes(v) => v.serialize(s)` serializes a
`Cow<[u8]>`, and serde's `Serialize` for `[u8]` is the generic slice one — a
*sequence of `u8`*, not `serialize_bytes`.  The model reproduces this
(`bytesOps`).  It cannot be reached through xt's API: the value path is only
used for JSON slice input, and serde_json never calls `visit_bytes`.
-/
namespace Xt.ValuePath
open Xt.Serde Xt.Transcode

/-- `transcode::Value` (the scalar variants keep serde's constructor). -/
inductive Value where
  | scalar (s : Scalar)
  | seq (items : List Value)
  | map (entries : List (Value × Value))
  deriving Repr, Inhabited

mutual
/-- `Value::deserialize(de)`: the first failure of the deserializer, decorated
once per `deserialize_any` frame it passes, or the collected value. -/
def Value.ofDe (dec : DErr → DErr) : De → Except DErr Value
  | .scalar sc => .ok (.scalar sc)
  | .fail e => .error (.own e)
  | .afail e => .error (.own e)
  | .seq elems close =>
    match Value.ofDeList dec elems with
    | .error e => .error (dec e)
    | .ok items =>
      match close with
      | none => .ok (.seq items)
      | some e => .error (.own e)
  | .map entries close =>
    match Value.ofDeEntries dec entries with
    | .error e => .error (dec e)
    | .ok es =>
      match close with
      | none => .ok (.map es)
      | some e => .error (.own e)
/-- `while let Some(e) = seq.next_element()? { vec.push(e) }` -/
def Value.ofDeList (dec : DErr → DErr) : List De → Except DErr (List Value)
  | [] => .ok []
  | e :: rest =>
    match e.accessFail with
    | some tok => .error (.own tok)
    | none =>
      match Value.ofDe dec e with
      | .error err => .error err
      | .ok v =>
        match Value.ofDeList dec rest with
        | .error err => .error err
        | .ok vs => .ok (v :: vs)
/-- `while let Some(entry) = map.next_entry()? { vec.push(entry) }` -/
def Value.ofDeEntries (dec : DErr → DErr) : List (De × De) → Except DErr (List (Value × Value))
  | [] => .ok []
  | (k, v) :: rest =>
    match k.accessFail with
    | some tok => .error (.own tok)
    | none =>
      match Value.ofDe dec k with
      | .error err => .error err
      | .ok kv =>
        match v.accessFail with
        | some tok => .error (.own tok)
        | none =>
          match Value.ofDe dec v with
          | .error err => .error err
          | .ok vv =>
            match Value.ofDeEntries dec rest with
            | .error err => .error err
            | .ok es => .ok ((kv, vv) :: es)
end

section
variable {σ : Type} (step : σ → Op → Except SErr σ)

/-- What a `serialize` call leaves behind: its error if any, the serializer's
state, the ops issued (including a failing one). -/
abbrev ROut (σ : Type) := Option SErr × σ × List Op

/-- One primitive call. -/
def emit (o : Op) (s : σ) : ROut σ :=
  match step s o with
  | .ok s' => (none, s', [o])
  | .error e => (some e, s, [o])

/-- `a?; b` -/
def andThen (a : ROut σ) (b : σ → ROut σ) : ROut σ :=
  match a with
  | (some e, s, ops) => (some e, s, ops)
  | (none, s, ops) =>
    match b s with
    | (r, s', ops') => (r, s', ops ++ ops')

/-- `<[u8] as Serialize>::serialize` after `serialize_seq` succeeded: each byte
through `serialize_element`. -/
def replayBytes : List Nat → σ → ROut σ
  | [], s => (none, s, [])
  | b :: rest, s =>
    andThen (emit step .elemPre s) fun s =>
    andThen (emit step (.scalar (.u8 b)) s) fun s =>
    andThen (emit step .elemPost s) fun s =>
    replayBytes rest s

mutual
/-- `<Value as Serialize>::serialize` -/
def replay : Value → σ → ROut σ
  | .scalar (.bytes bs), s =>
    -- `Cow<[u8]>::serialize` = `collect_seq` over the bytes
    andThen (emit step .seqBegin s) fun s =>
    andThen (replayBytes step bs s) fun s =>
    emit step .seqEnd s
  | .scalar sc, s => emit step (.scalar sc) s
  | .seq items, s =>
    -- `Vec<Value>::serialize` = `collect_seq`: serialize_seq(Some(len))?, each
    -- element through serialize_element, end()
    andThen (emit step .seqBegin s) fun s =>
    andThen (replayList items s) fun s =>
    emit step .seqEnd s
  | .map entries, s =>
    andThen (emit step .mapBegin s) fun s =>
    andThen (replayEntries entries s) fun s =>
    emit step .mapEnd s
def replayList : List Value → σ → ROut σ
  | [], s => (none, s, [])
  | v :: rest, s =>
    -- the collection serializer's `serialize_element(&v)`
    andThen (emit step .elemPre s) fun s =>
    andThen (replay v s) fun s =>
    andThen (emit step .elemPost s) fun s =>
    replayList rest s
def replayEntries : List (Value × Value) → σ → ROut σ
  | [], s => (none, s, [])
  | (k, v) :: rest, s =>
    -- `serialize_entry(k, v)` = `serialize_key(k)?; serialize_value(v)`
    andThen (emit step .keyPre s) fun s =>
    andThen (replay k s) fun s =>
    andThen (emit step .keyPost s) fun s =>
    andThen (emit step .valPre s) fun s =>
    andThen (replay v s) fun s =>
    andThen (emit step .valPost s) fun s =>
    replayEntries rest s
end

/-- Outcome of `xt::verif::transcode_value`. -/
inductive VResult where
  | ok
  /-- `Err(de_err)`: collecting failed, the serializer was never called -/
  | errDe (deErr : DErr)
  /-- `Ok(Err(ser_err))` -/
  | errSer (serErr : SErr)
  deriving DecidableEq, Repr, Inhabited

/-- `transcode_value(ser, de)` -/
def valuePath (dec : DErr → DErr) (d : De) (s : σ) : VResult × List Op :=
  match Value.ofDe dec d with
  | .error e => (.errDe e, [])
  | .ok v =>
    match replay step v s with
    | (none, _, ops) => (.ok, ops)
    | (some e, _, ops) => (.errSer e, ops)

end

/-- A byte string as the value path serializes it: a sequence of `u8`. -/
def bytesOps (bs : List Nat) : List Op :=
  .seqBegin :: bs.flatMap (fun b => [.elemPre, .scalar (.u8 b), .elemPost]) ++ [.seqEnd]

/-- The one visible difference of the value path, applied to an op sequence. -/
def expandBytes : List Op → List Op
  | [] => []
  | .scalar (.bytes bs) :: rest => bytesOps bs ++ expandBytes rest
  | o :: rest => o :: expandBytes rest

mutual
/-- The ops a value replays into a serializer that never fails. -/
def Value.ops : Value → List Op
  | .scalar (.bytes bs) => bytesOps bs
  | .scalar sc => [.scalar sc]
  | .seq items => .seqBegin :: Value.opsList items ++ [.seqEnd]
  | .map entries => .mapBegin :: Value.opsEntries entries ++ [.mapEnd]
def Value.opsList : List Value → List Op
  | [] => []
  | v :: rest => .elemPre :: v.ops ++ .elemPost :: Value.opsList rest
def Value.opsEntries : List (Value × Value) → List Op
  | [] => []
  | (k, v) :: rest =>
    .keyPre :: k.ops ++ .keyPost :: .valPre :: v.ops ++ .valPost :: Value.opsEntries rest
end

end Xt.ValuePath
