import XtModel.Model.Serde

/-
Model of /repo/src/transcode/stream.rs: the streaming transcoder as an
interpreter over a `De` tree and a serializer given as a state machine
(`step : σ → Op → Except SErr σ`), with the `(parent, error, source)` cells of
`State`, line for line.

How the Rust maps to the model
* `State<P, E>` is `Cells E`.  The `parent` cell is modelled as the *right to
  use* the parent (`true` = `Some(_)`): the parent values themselves — the
  serializer, a `&mut` collection serializer, the element's deserializer — are
  the threaded serializer state `σ` and the subtree in scope.  `take_parent`
  on a taken parent is the `expect` panic ("parent already taken from this
  state"), an explicit outcome.
* Interior mutability (`Cell`) becomes returning the updated cells.
* Every function returns the ops it issued to the serializer (including the
  op that failed, if any) rather than mutating a log.
* Third-party behaviour that is part of the model, and sampled by the harness:
  a deserializer calls at most one visitor method per `deserialize_any`
  (enforced by Rust: the visitor is moved) and decorates, with `dec`, an error
  returned by the visitor; a `SeqAccess`/`MapAccess` calls the seed at most
  once per call (moved) and returns its error unchanged; a collection
  serializer's `serialize_element`/`serialize_key`/`serialize_value` does some
  work of its own (`…Pre`), calls the element's `serialize` once, returns its
  error unchanged, and does some more work (`…Post`).
-/
namespace Xt.Transcode
open Xt.Serde

/-- `ErrorSource` -/
inductive Src where
  | de | ser
  deriving DecidableEq, Repr, Inhabited

/-- `State<P, E>` -/
structure Cells (E : Type) where
  parent : Bool
  error : Option E
  source : Src
  deriving DecidableEq, Repr

/-- `State::new(parent)`: "Errors are assumed to come from the deserializer by default." -/
def Cells.new {E : Type} : Cells E := ⟨true, none, .de⟩

/-- `State::take_parent`; `none` is the `expect` panic. -/
def Cells.takeParent {E : Type} (c : Cells E) : Option (Cells E) :=
  if c.parent then some { c with parent := false } else none

/-- `State::capture_error` -/
def Cells.captureError {E : Type} (c : Cells E) (source : Src) (error : E) : Cells E :=
  { c with source := source, error := some error }

/-- `State::capture_child_error` -/
def Cells.captureChildError {E : Type} (c : Cells E) (child : Cells E) : Cells E :=
  { c with source := child.source, error := child.error }

/-- The panic sites of stream.rs. -/
inductive Site where
  /-- `take_parent`: `.expect("parent already taken from this state")` -/
  | parentTaken
  /-- `transcode`: `visitor.0.into_error().unwrap()` -/
  | unwrapNone
  deriving DecidableEq, Repr, Inhabited

/-- A `Result<_, ε>` whose `Ok` payload is not modelled (`S::Ok`, `()`), or a panic. -/
inductive Res (ε : Type) where
  | ok
  | err (e : ε)
  | panic (site : Site)
  deriving DecidableEq, Repr

/-- What a call that was handed a visitor / seed leaves behind: the result it
returned, the cells of that visitor / seed, the serializer's state, the ops
issued. -/
abbrev VOut (σ : Type) := Res DErr × Cells SErr × σ × List Op

/-- What `Serialize::serialize` on a `Forwarder` leaves behind. -/
abbrev SOut (σ : Type) := Res SErr × Cells DErr × σ × List Op

/-- Result of the element loop of `visit_seq` / `visit_map`. -/
inductive LoopRes where
  /-- the access returned `Ok(None)` -/
  | done
  /-- the access returned `Err(deErr)`; `seed` is the state of the seed in use -/
  | failed (deErr : DErr) (seed : Cells SErr)
  | panicked (site : Site)
  deriving Repr

abbrev LoopOut (σ : Type) := LoopRes × σ × List Op

section
variable {σ : Type} (step : σ → Op → Except SErr σ) (dec : DErr → DErr)

/-- `Visitor::forward_scalar` (all seventeen scalar `visit_*` methods). -/
def forwardScalar (o : Op) (vis : Cells SErr) (s : σ) : VOut σ :=
  match vis.takeParent with
  | none => (.panic .parentTaken, vis, s, [])
  | some vis =>
    match step s o with
    | .ok s' => (.ok, vis, s', [o])
    | .error serErr =>
      (.err (.custom translationFailed), vis.captureError .ser serErr, s, [o])

/-- `visit_seq` / `visit_map`: the two have the same shape around their loops. -/
def visitColl (beginOp endOp : Op) (loop : σ → LoopOut σ) (vis : Cells SErr) (s : σ) : VOut σ :=
  match vis.takeParent with
  | none => (.panic .parentTaken, vis, s, [])
  | some vis =>
    match step s beginOp with
    | .error serErr =>
      (.err (.custom translationFailed), vis.captureError .ser serErr, s, [beginOp])
    | .ok s1 =>
      match loop s1 with
      | (.failed deErr seed, s2, ops) =>
        (.err deErr, vis.captureChildError seed, s2, beginOp :: ops)
      | (.panicked p, s2, ops) => (.panic p, vis, s2, beginOp :: ops)
      | (.done, s2, ops) =>
        match step s2 endOp with
        | .ok s3 => (.ok, vis, s3, beginOp :: ops ++ [endOp])
        | .error serErr =>
          (.err (.custom translationFailed), vis.captureError .ser serErr, s2,
            beginOp :: ops ++ [endOp])

/-- `<Forwarder as Serialize>::serialize`; `deAny` is `de.deserialize_any` of
the forwarder's deserializer. -/
def forwarderSerialize (deAny : Cells SErr → σ → VOut σ) (fwd : Cells DErr) (s : σ) : SOut σ :=
  let visitor : Cells SErr := .new
  match fwd.takeParent with
  | none => (.panic .parentTaken, fwd, s, [])
  | some fwd =>
    match deAny visitor s with
    | (.ok, _, s', ops) => (.ok, fwd, s', ops)
    | (.panic p, _, s', ops) => (.panic p, fwd, s', ops)
    | (.err deErr, visitor, s', ops) =>
      let fwd := fwd.captureError visitor.source deErr
      match visitor.error with
      | some serErr => (.err serErr, fwd, s', ops)
      | none => (.err (.custom translationFailed), fwd, s', ops)

/-- A collection serializer's `serialize_element` / `serialize_key` /
`serialize_value` (third-party): own work, the element's `serialize`, own work. -/
def collSerialize (pre post : Op) (value : Cells DErr → σ → SOut σ)
    (fwd : Cells DErr) (s : σ) : SOut σ :=
  match step s pre with
  | .error serErr => (.err serErr, fwd, s, [pre])
  | .ok s1 =>
    match value fwd s1 with
    | (.ok, fwd, s2, ops) =>
      match step s2 post with
      | .ok s3 => (.ok, fwd, s3, pre :: ops ++ [post])
      | .error serErr => (.err serErr, fwd, s2, pre :: ops ++ [post])
    | (.err serErr, fwd, s2, ops) => (.err serErr, fwd, s2, pre :: ops)
    | (.panic p, fwd, s2, ops) => (.panic p, fwd, s2, pre :: ops)

/-- `SeqSeed` / `KeySeed` / `ValueSeed::deserialize`, i.e.
`Forwarder::new(de).serialize_with_seed(&mut self.0, |ser, x| ser.serialize_…(x))`. -/
def serializeWithSeed (pre post : Op) (deAny : Cells SErr → σ → VOut σ)
    (seed : Cells SErr) (s : σ) : VOut σ :=
  let fwd : Cells DErr := .new
  match seed.takeParent with
  | none => (.panic .parentTaken, seed, s, [])
  | some seed =>
    match collSerialize step pre post (forwarderSerialize deAny) fwd s with
    | (.ok, _, s', ops) => (.ok, seed, s', ops)
    | (.panic p, _, s', ops) => (.panic p, seed, s', ops)
    | (.err serErr, fwd, s', ops) =>
      let source := fwd.source
      match fwd.error with
      | some deErr => (.err deErr, seed.captureError source serErr, s', ops)
      | none =>
        -- "Serializing the element captured no error, so the collection
        -- serializer itself must have failed"
        (.err (.custom translationFailed), seed.captureError .ser serErr, s', ops)

/-- `serialize_with_seed` as it was before commit 7bc5345 (defect D7): the
forwarder's source is copied even when the forwarder captured nothing. -/
def serializeWithSeedOld (pre post : Op) (deAny : Cells SErr → σ → VOut σ)
    (seed : Cells SErr) (s : σ) : VOut σ :=
  let fwd : Cells DErr := .new
  match seed.takeParent with
  | none => (.panic .parentTaken, seed, s, [])
  | some seed =>
    match collSerialize step pre post (forwarderSerialize deAny) fwd s with
    | (.ok, _, s', ops) => (.ok, seed, s', ops)
    | (.panic p, _, s', ops) => (.panic p, seed, s', ops)
    | (.err serErr, fwd, s', ops) =>
      let seed := seed.captureError fwd.source serErr
      match fwd.error with
      | some deErr => (.err deErr, seed, s', ops)
      | none => (.err (.custom translationFailed), seed, s', ops)

/-- What the deserializer's `deserialize_any` does with the visitor's result:
an error is decorated; after `Ok` it can still fail on its own (`close`). -/
def afterVisit (close : Option Nat) : VOut σ → VOut σ
  | (.ok, vis, s, ops) =>
    match close with
    | none => (.ok, vis, s, ops)
    | some e => (.err (.own e), vis, s, ops)
  | (.err e, vis, s, ops) => (.err (dec e), vis, s, ops)
  | (.panic p, vis, s, ops) => (.panic p, vis, s, ops)

/-- The seed implementation in use (`serializeWithSeed step`, or the pre-fix one). -/
abbrev Sws (σ : Type) := Op → Op → (Cells SErr → σ → VOut σ) → Cells SErr → σ → VOut σ

variable (sws : Sws σ)

mutual
/-- `de.deserialize_any(&mut visitor)` for the deserializer `d`. -/
def deserializeAny : De → Cells SErr → σ → VOut σ
  | .scalar sc, vis, s => afterVisit dec none (forwardScalar step (.scalar sc) vis s)
  | .fail e, vis, s => (.err (.own e), vis, s, [])
  | .afail e, vis, s => (.err (.own e), vis, s, [])
  | .seq elems close, vis, s =>
    afterVisit dec close (visitColl step .seqBegin .seqEnd (fun s => seqLoop elems s) vis s)
  | .map entries close, vis, s =>
    afterVisit dec close (visitColl step .mapBegin .mapEnd (fun s => mapLoop entries s) vis s)

/-- The `loop` of `visit_seq` over what `next_element_seed` will hand out. -/
def seqLoop : List De → σ → LoopOut σ
  | [], s => (.done, s, [])
  | e :: rest, s =>
    let seed : Cells SErr := .new
    match e.accessFail with
    | some tok => (.failed (.own tok) seed, s, [])
    | none =>
      match sws .elemPre .elemPost (fun vis s => deserializeAny e vis s) seed s with
      | (.err deErr, seed, s', ops) => (.failed deErr seed, s', ops)
      | (.panic p, _, s', ops) => (.panicked p, s', ops)
      | (.ok, _, s', ops) =>
        match seqLoop rest s' with
        | (r, s'', ops') => (r, s'', ops ++ ops')

/-- The `loop` of `visit_map`. -/
def mapLoop : List (De × De) → σ → LoopOut σ
  | [], s => (.done, s, [])
  | (k, v) :: rest, s =>
    let keySeed : Cells SErr := .new
    match k.accessFail with
    | some tok => (.failed (.own tok) keySeed, s, [])
    | none =>
      match sws .keyPre .keyPost (fun vis s => deserializeAny k vis s) keySeed s with
      | (.err deErr, keySeed, s1, ops1) => (.failed deErr keySeed, s1, ops1)
      | (.panic p, _, s1, ops1) => (.panicked p, s1, ops1)
      | (.ok, _, s1, ops1) =>
        let valueSeed : Cells SErr := .new
        match v.accessFail with
        | some tok => (.failed (.own tok) valueSeed, s1, ops1)
        | none =>
          match sws .valPre .valPost (fun vis s => deserializeAny v vis s) valueSeed s1 with
          | (.err deErr, valueSeed, s2, ops2) => (.failed deErr valueSeed, s2, ops1 ++ ops2)
          | (.panic p, _, s2, ops2) => (.panicked p, s2, ops1 ++ ops2)
          | (.ok, _, s2, ops2) =>
            match mapLoop rest s2 with
            | (r, s3, ops3) => (r, s3, ops1 ++ ops2 ++ ops3)
end

/-- `Result<S::Ok, transcode::Error<S::Error, D::Error>>`, or a panic. -/
inductive Result where
  | ok
  /-- `Error::De(de_err)` -/
  | errDe (deErr : DErr)
  /-- `Error::Ser(ser_err, de_err)` -/
  | errSer (serErr : SErr) (deErr : DErr)
  | panic (site : Site)
  deriving DecidableEq, Repr, Inhabited

/-- `transcode(ser, de)` with the seed implementation `sws`. -/
def transcodeWith (d : De) (s : σ) : Result × List Op :=
  let visitor : Cells SErr := .new
  match deserializeAny step dec sws d visitor s with
  | (.ok, _, _, ops) => (.ok, ops)
  | (.panic p, _, _, ops) => (.panic p, ops)
  | (.err deErr, visitor, _, ops) =>
    match visitor.source with
    | .ser =>
      match visitor.error with
      | some serErr => (.errSer serErr deErr, ops)
      | none => (.panic .unwrapNone, ops)
    | .de => (.errDe deErr, ops)

end

section
variable {σ : Type} (step : σ → Op → Except SErr σ) (dec : DErr → DErr)

/-- `transcode::transcode(ser, de)` of the current tree. -/
def transcode (d : De) (s : σ) : Result × List Op :=
  transcodeWith step dec (serializeWithSeed step) d s

/-- `transcode` before commit 7bc5345. -/
def transcodeOld (d : De) (s : σ) : Result × List Op :=
  transcodeWith step dec (serializeWithSeedOld step) d s

end

/-- `impl Display for Error<S, D>`, given the `Display` of both error types. -/
def display (fmtS : SErr → String) (fmtD : DErr → String) : Result → String
  | .errSer serErr deErr => fmtD deErr ++ ": " ++ fmtS serErr
  | .errDe deErr => fmtD deErr
  | .ok => ""
  | .panic _ => ""

/-! ## toml's `Output::transcode_from`

`let value = ::toml::Value::deserialize(de)?;` — toml's own `Value` visitor is
driven by the deserializer; there is no serializer and no `State`, and the `?`
converts the *deserializer's* error type.  When the target's visitor refuses
something, it does so by returning `Err(de::Error::custom(reason))` (directly,
or through serde's default `visit_*` → `invalid_type(…)`), which travels back
through the deserializer as its own error type and is decorated like any
other.  `Refusals` says what the target's visitor refuses, and with which
reason text (toml 0.8: a unit/null, bytes, a `u64` above `i64::MAX` in value
position; anything but a string in key position — `next_key::<String>()`; a key
already in the table — "duplicate key"). -/

/-- `deserialize_any` fails before calling the visitor. -/
def _root_.Xt.Serde.De.failTok : De → Option Nat
  | .fail e => some e
  | .afail e => some e
  | _ => none

def _root_.Xt.Serde.De.isScalar : De → Bool
  | .scalar _ => true
  | _ => false

structure Refusals where
  /-- a scalar in value position -/
  value : Scalar → Option String
  /-- a key, decided by the first visitor call the key's deserializer makes -/
  key : De → Option String
  /-- an accepted key, given the keys accepted before it in this map -/
  dup : List De → De → Option String

mutual
/-- The error of `toml::Value::deserialize(de)`, if any. -/
def tomlCollect (dec : DErr → DErr) (R : Refusals) : De → Option DErr
  | .scalar sc =>
    match R.value sc with
    | some reason => some (dec (.custom reason))
    | none => none
  | .fail e => some (.own e)
  | .afail e => some (.own e)
  | .seq elems close =>
    match tomlCollectList dec R elems with
    | some e => some (dec e)
    | none => close.map .own
  | .map entries close =>
    match tomlCollectEntries dec R [] entries with
    | some e => some (dec e)
    | none => close.map .own
def tomlCollectList (dec : DErr → DErr) (R : Refusals) : List De → Option DErr
  | [] => none
  | e :: rest =>
    match e.accessFail with
    | some tok => some (.own tok)
    | none =>
      match tomlCollect dec R e with
      | some err => some err
      | none => tomlCollectList dec R rest
def tomlCollectEntries (dec : DErr → DErr) (R : Refusals) (seen : List De) :
    List (De × De) → Option DErr
  | [] => none
  | (k, v) :: rest =>
    match k.accessFail with
    | some tok => some (.own tok)
    | none =>
      -- `next_key::<String>()`: the key's own `deserialize_any` frame decorates
      match (match k.failTok with
             | some e => some (DErr.own e)
             | none =>
               match R.key k with
               | some reason => some (dec (.custom reason))
               | none => if k.isScalar then none else tomlCollect dec R k) with
      | some err => some err
      | none =>
        match R.dup seen k with
        | some reason => some (.custom reason)
        | none =>
          match v.accessFail with
          | some tok => some (.own tok)
          | none =>
            match tomlCollect dec R v with
            | some err => some err
            | none => tomlCollectEntries dec R (seen ++ [k]) rest
end

/-- toml's `transcode_from` up to the `?`: `Error::from(D::Error)`, always the
deserializer's error type. -/
def tomlTranscodeFrom (dec : DErr → DErr) (R : Refusals) (d : De) : Result :=
  match tomlCollect dec R d with
  | some e => .errDe e
  | none => .ok

end Xt.Transcode
