import XtModel.Model.Json
import XtModel.Model.MsgpackCodec
import XtModel.Model.ValuePath

/-
End-to-end model of the JSON → MessagePack and MessagePack → JSON translations
as COMPOSITIONS of the existing models:

    source loop (Json.sliceLoop / readerLoop, Msgpack.sliceLoop / readerLoop)
      → per document: `jsonToDe` / `mvalToDe`   (what the deserializer drives xt's visitor with)
      → `flatten`                                (what the serializer receives:
                                                  `transcode_faithful`; on the JSON slice path
                                                  `expandBytes ∘ flatten`: `valuepath_faithful`)
      → `opsToMsgpack` / `opsToJson`             (rmp_serde's / serde_json's Serializer over the op stream)
      → framing (MessagePack: body; JSON: body ++ "\n").

Third-party behaviour modelled here (all sampled end to end by the `j2m` /
`m2j` correspondence engines, harness/src/engines/bridge.rs):

* serde_json 1.0.138 `deserialize_any`: null → `visit_unit`, bool, a number of
  the `U64` class → `visit_u64`, of the `I64` class → `visit_i64`, everything
  else (`-0`, fractions, exponents, integers outside −2^63 … 2^64−1) →
  `visit_f64`, string → `visit_str` / `visit_borrowed_str` (one serde call for
  xt's visitors), array → `visit_seq` (size hint `None`), object → `visit_map`
  with every key visited as a string.
* rmp_serde 1.1.2 `deserialize_any`: per marker `visit_u8/u16/u32/u64`,
  `visit_i8/…/i64`, `visit_f32/f64`, `visit_str` (well-formed UTF-8) or
  `visit_bytes`, `visit_unit`, `visit_seq` / `visit_map` with an exact size hint.
  `MVal` (the reference decoder's value) has forgotten the marker width, so
  `mvalToDe` uses the 64-bit visit of the right sign class; this is harmless
  because both serializers widen first (`mpScalar`, `jsonScalar`, `jsonKey`
  below depend on the integer only — `Lemmas/Bridge.int_width_irrelevant`).
* rmp_serde `Serializer`: `serialize_u8…u64` → `rmp::encode::write_uint`,
  `serialize_i8…i64` → `write_sint`, both minimal width — and `write_sint` of a
  NON-NEGATIVE number writes the unsigned family (positive fixint, `cc`…`cf`),
  so `serialize_i64(5)` and `serialize_u64(5)` write the same byte `05`;
  `serialize_i128/u128` → `bin` of the 16 big-endian bytes; `serialize_char` →
  `str`; `serialize_seq/map(Some(len))` writes the header at once,
  `serialize_seq/map(None)` (JSON reader path: serde_json has no size hint)
  buffers the elements in a `Vec` and counts them (`MaybeUnknownLengthCompound`),
  writing header + buffer at `end()`.  Lengths are not part of `Op`; the model
  keeps a counter and a buffer per open collection, i.e. the `None` path
  literally; the `Some(len)` path writes the same bytes because the length
  passed is the number of elements that follow (`Vec::len` of the collected
  value / rmp_serde's exact size hint).  The header's count is a `u32`
  (`len as u32`, `elem_count: u32`): `arrHdr` / `mapHdr` take the count modulo
  2^32 (`beBytes 4`), which is what the release build does.
* serde_json `Serializer<_, CompactFormatter>`: integers via itoa, `f32`/`f64`
  via ryu (parameter `FloatIO`), non-finite → `null`, strings escaped byte-wise
  (`ESCAPE` table), `serialize_bytes` → an ARRAY OF NUMBERS (not an error),
  unit → `null`; map keys go through `MapKeySerializer`: strings and chars as
  strings, integers / bools / FINITE floats as quoted strings, a non-finite
  float → `float key must be finite`, unit / bytes / seq / map → `key must be a
  string`.  A refused key has already had its separating `,` written.

Byte buffers grow at the end; they are kept REVERSED (`rev`) so that the
native driver appends in constant time per byte.

Floats: decimal text ↔ binary64 is not modelled.  `FloatIO.parse` is
serde_json's number-text → `f64` (feature `float_roundtrip`) on the source text
of a float literal, `fmt64` / `fmt32` are ryu's shortest text for a finite
`f64` / `f32` given as bit patterns.

Import-free apart from other model files.
-/
namespace Xt.Bridge
open Xt.Serde

/-! ## Float boundary -/

structure FloatIO where
  /-- source bytes of a JSON float literal → binary64 bit pattern -/
  parse : List Nat → Nat
  /-- finite binary64 bit pattern → text -/
  fmt64 : Nat → List Nat
  /-- finite binary32 bit pattern → text -/
  fmt32 : Nat → List Nat

/-- The JSON → JSON float boundary this induces. -/
def FloatIO.toExt (P : FloatIO) : Json.ExtFloat := ⟨fun src => P.fmt64 (P.parse src)⟩

/-- The driver's stand-in: every float parses to bits 0 and is written as `F`. -/
def markerIO : FloatIO := ⟨fun _ => 0, fun _ => [0x46], fun _ => [0x46]⟩

/-- `f64::classify` is neither `Nan` nor `Infinite`: the exponent field is not all ones. -/
def finite64 (bits : Nat) : Bool := bits / 2 ^ 52 % 2048 != 2047

def finite32 (bits : Nat) : Bool := bits / 2 ^ 23 % 256 != 255

/-! ## What the deserializers drive the visitor with -/

/-- The UTF-8 bytes of a string given as code points. -/
def strBytes (cps : List Nat) : List Nat := cps.flatMap Json.utf8

mutual
  /-- serde_json's `deserialize_any` on a parsed value. -/
  def jsonToDe (P : FloatIO) : Json.JVal → De
    | .null => .scalar .unit
    | .bool b => .scalar (.bool b)
    | .int i => if i < 0 then .scalar (.i64 i) else .scalar (.u64 i.toNat)
    | .float src => .scalar (.f64 (P.parse src))
    | .str cps => .scalar (.str (strBytes cps))
    | .arr xs => .seq (jsonToDeList P xs) none
    | .obj es => .map (jsonToDeEntries P es) none
  def jsonToDeList (P : FloatIO) : List Json.JVal → List De
    | [] => []
    | x :: xs => jsonToDe P x :: jsonToDeList P xs
  def jsonToDeEntries (P : FloatIO) : List (List Nat × Json.JVal) → List (De × De)
    | [] => []
    | (k, v) :: es => (.scalar (.str (strBytes k)), jsonToDe P v) :: jsonToDeEntries P es
end

/-- Token of the failure xt's visitor answers an ext value with
(`invalid type: newtype struct`).  The reference decoder as xt drives it
(`acceptExt = false`) never produces an `ext`, so this is not reachable from the
pipelines. -/
def extTok : Nat := 1

mutual
  /-- rmp_serde's `deserialize_any` on a decoded value. -/
  def mvalToDe : Msgpack.MVal → De
    | .nil => .scalar .unit
    | .bool b => .scalar (.bool b)
    | .uint n => .scalar (.u64 n)
    | .nint n => .scalar (.i64 (-(n : Int)))
    | .f32 b => .scalar (.f32 b)
    | .f64 b => .scalar (.f64 b)
    | .str s => .scalar (.str s)
    | .bin s => .scalar (.bytes s)
    | .arr xs => .seq (mvalToDeList xs) none
    | .map kvs => .map (mvalToDePairs kvs) none
    | .ext _ _ => .fail extTok
  def mvalToDeList : List Msgpack.MVal → List De
    | [] => []
    | x :: xs => mvalToDe x :: mvalToDeList xs
  def mvalToDePairs : List (Msgpack.MVal × Msgpack.MVal) → List (De × De)
    | [] => []
    | (k, v) :: kvs => (mvalToDe k, mvalToDe v) :: mvalToDePairs kvs
end

/-! ## Running a serializer given as a state machine -/

/-- Feed ops until one is refused; the state at that point is kept (what has
been written stays written). -/
def runOps {σ : Type} (step : σ → Op → Except SErr σ) : List Op → σ → σ × Option SErr
  | [], s => (s, none)
  | o :: rest, s =>
    match step s o with
    | .ok s' => runOps step rest s'
    | .error e => (s, some e)

/-- An op sequence no serde client can produce (an `end` without a `begin`, …). -/
def malformed : SErr := .custom "malformed op sequence"

/-! ## rmp_serde's `Serializer` -/

/-- `rmp::encode::write_sint`: negative → the signed family, minimal width;
NON-NEGATIVE → the unsigned family, minimal width. -/
def mpInt (v : Int) : List Nat :=
  if v < 0 then Msgpack.encNint v.natAbs else Msgpack.encUint v.toNat

/-- The 16 big-endian bytes of an `i128` (two's complement). -/
def be128 (v : Int) : List Nat := Msgpack.beBytes 16 (v % (2 ^ 128 : Int)).toNat

/-- What one scalar `serialize_*` call writes. -/
def mpScalar : Scalar → List Nat
  | .unit => [0xc0]
  | .bool b => [if b then 0xc3 else 0xc2]
  | .i8 v => mpInt v
  | .i16 v => mpInt v
  | .i32 v => mpInt v
  | .i64 v => mpInt v
  | .i128 v => Msgpack.binHdr 16 ++ be128 v
  | .u8 v => Msgpack.encUint v
  | .u16 v => Msgpack.encUint v
  | .u32 v => Msgpack.encUint v
  | .u64 v => Msgpack.encUint v
  | .u128 v => Msgpack.binHdr 16 ++ Msgpack.beBytes 16 v
  | .f32 b => 0xca :: Msgpack.beBytes 4 b
  | .f64 b => 0xcb :: Msgpack.beBytes 8 b
  | .char c => Msgpack.strHdr (Json.utf8 c).length ++ Json.utf8 c
  | .str s => Msgpack.strHdr s.length ++ s
  | .bytes s => Msgpack.binHdr s.length ++ s

/-- One open writer: the output itself (bottom of the stack) or the buffer of
an open collection; `count` = elements serialized into it so far (keys and
values both count, as in `MaybeUnknownLengthCompound`). -/
structure MFrame where
  count : Nat
  rev : List Nat
  deriving Repr

/-- Innermost open collection first; the last frame is the output. -/
abbrev MSt := List MFrame

def MSt.init : MSt := [⟨0, []⟩]

def mpPut (bs : List Nat) : MSt → Except SErr MSt
  | f :: rest => .ok (⟨f.count, bs.reverse ++ f.rev⟩ :: rest)
  | [] => .error malformed

def mpBump : MSt → Except SErr MSt
  | f :: rest => .ok (⟨f.count + 1, f.rev⟩ :: rest)
  | [] => .error malformed

/-- `end()`: header with the count, then the buffered elements, into the
enclosing writer. -/
def mpClose (hdr : Nat → List Nat) : MSt → Except SErr MSt
  | f :: g :: rest => .ok (⟨g.count, f.rev ++ ((hdr f.count).reverse ++ g.rev)⟩ :: rest)
  | _ => .error malformed

def mpStep (st : MSt) : Op → Except SErr MSt
  | .scalar s => mpPut (mpScalar s) st
  | .seqBegin => .ok (⟨0, []⟩ :: st)
  | .mapBegin => .ok (⟨0, []⟩ :: st)
  | .elemPre => .ok st
  | .keyPre => .ok st
  | .valPre => .ok st
  -- `buf.elem_count += 1` after the element's `serialize` returned `Ok`
  | .elemPost => mpBump st
  | .keyPost => mpBump st
  | .valPost => mpBump st
  | .seqEnd => mpClose Msgpack.arrHdr st
  -- `write_map_len(elem_count / 2)`
  | .mapEnd => mpClose (fun n => Msgpack.mapHdr (n / 2)) st

/-- rmp_serde's `Serializer` over an op stream: the bytes written. -/
def opsToMsgpack (ops : List Op) : Except SErr (List Nat) :=
  match runOps mpStep ops MSt.init with
  | ([f], none) => .ok f.rev.reverse
  | (_, none) => .error malformed
  | (_, some e) => .error e

/-! ## serde_json's `Serializer` with `CompactFormatter` -/

/-- `key must be a string` -/
def keyMustBeString : SErr := .own 1
/-- `float key must be finite (got NaN or an infinity)` -/
def floatKeyMustBeFinite : SErr := .own 2

/-- `format_escaped_str_contents` for one byte (`ESCAPE` table): `"`, `\` and
0x00–0x1F are escaped, every other byte is copied. -/
def escByte (b : Nat) : List Nat := if b < 0x80 then Json.writeCp b else [b]

/-- `format_escaped_str` -/
def jsonStrBytes (s : List Nat) : List Nat := 0x22 :: s.flatMap escByte ++ [0x22]

/-- `write_byte_array`: `[b0,b1,…]`. -/
def jsonByteArray (first : Bool) : List Nat → List Nat
  | [] => []
  | b :: bs => (if first then [] else [0x2C]) ++ Json.natDec b ++ jsonByteArray false bs

def jsonNull : List Nat := [0x6E, 0x75, 0x6C, 0x6C]

def jsonBool (b : Bool) : List Nat :=
  if b then [0x74, 0x72, 0x75, 0x65] else [0x66, 0x61, 0x6C, 0x73, 0x65]

/-- What one scalar `serialize_*` call writes in value position. -/
def jsonScalar (P : FloatIO) : Scalar → List Nat
  | .unit => jsonNull
  | .bool b => jsonBool b
  | .i8 v => Json.intDec v
  | .i16 v => Json.intDec v
  | .i32 v => Json.intDec v
  | .i64 v => Json.intDec v
  | .i128 v => Json.intDec v
  | .u8 v => Json.natDec v
  | .u16 v => Json.natDec v
  | .u32 v => Json.natDec v
  | .u64 v => Json.natDec v
  | .u128 v => Json.natDec v
  | .f32 b => if finite32 b then P.fmt32 b else jsonNull
  | .f64 b => if finite64 b then P.fmt64 b else jsonNull
  | .char c => jsonStrBytes (Json.utf8 c)
  | .str s => jsonStrBytes s
  | .bytes s => 0x5B :: jsonByteArray true s ++ [0x5D]

def quoted (bs : List Nat) : List Nat := 0x22 :: bs ++ [0x22]

/-- `MapKeySerializer`: what one scalar `serialize_*` call does in key position. -/
def jsonKey (P : FloatIO) : Scalar → Except SErr (List Nat)
  | .unit => .error keyMustBeString
  | .bool b => .ok (quoted (jsonBool b))
  | .i8 v => .ok (quoted (Json.intDec v))
  | .i16 v => .ok (quoted (Json.intDec v))
  | .i32 v => .ok (quoted (Json.intDec v))
  | .i64 v => .ok (quoted (Json.intDec v))
  | .i128 v => .ok (quoted (Json.intDec v))
  | .u8 v => .ok (quoted (Json.natDec v))
  | .u16 v => .ok (quoted (Json.natDec v))
  | .u32 v => .ok (quoted (Json.natDec v))
  | .u64 v => .ok (quoted (Json.natDec v))
  | .u128 v => .ok (quoted (Json.natDec v))
  | .f32 b => if finite32 b then .ok (quoted (P.fmt32 b)) else .error floatKeyMustBeFinite
  | .f64 b => if finite64 b then .ok (quoted (P.fmt64 b)) else .error floatKeyMustBeFinite
  | .char c => .ok (jsonStrBytes (Json.utf8 c))
  | .str s => .ok (jsonStrBytes s)
  | .bytes _ => .error keyMustBeString

/-- The serializer's state: bytes written (reversed), one `State::First` flag
per open array / object, and whether a map key is being serialized (the
`MapKeySerializer` is in charge). -/
structure JSt where
  rev : List Nat
  firsts : List Bool
  inKey : Bool
  deriving Repr

def JSt.init : JSt := ⟨[], [], false⟩

def JSt.put (st : JSt) (bs : List Nat) : JSt := { st with rev := bs.reverse ++ st.rev }

/-- `begin_array_value(first)` / `begin_object_key(first)`: a `,` unless first;
then `state = Rest`. -/
def jsonSep (st : JSt) : Except SErr JSt :=
  match st.firsts with
  | f :: fs => .ok { (st.put (if f then [] else [0x2C])) with firsts := false :: fs }
  | [] => .error malformed

def jsonClose (st : JSt) (b : Nat) : Except SErr JSt :=
  match st.firsts with
  | _ :: fs => .ok { (st.put [b]) with firsts := fs }
  | [] => .error malformed

def jsonStep (P : FloatIO) (st : JSt) : Op → Except SErr JSt
  | .scalar s =>
    if st.inKey then
      match jsonKey P s with
      | .ok bs => .ok (st.put bs)
      | .error e => .error e
    else .ok (st.put (jsonScalar P s))
  | .seqBegin =>
    if st.inKey then .error keyMustBeString
    else .ok { (st.put [0x5B]) with firsts := true :: st.firsts }
  | .elemPre => jsonSep st
  | .elemPost => .ok st
  | .seqEnd => jsonClose st 0x5D
  | .mapBegin =>
    if st.inKey then .error keyMustBeString
    else .ok { (st.put [0x7B]) with firsts := true :: st.firsts }
  | .keyPre =>
    match jsonSep st with
    | .ok st' => .ok { st' with inKey := true }
    | .error e => .error e
  | .keyPost => .ok { st with inKey := false }
  | .valPre => .ok (st.put [0x3A])
  | .valPost => .ok st
  | .mapEnd => jsonClose st 0x7D

/-- serde_json's compact `Serializer` over an op stream: the bytes written
before the first refusal, and the refusal. -/
def opsToJsonPartial (P : FloatIO) (ops : List Op) : List Nat × Option SErr :=
  match runOps (jsonStep P) ops JSt.init with
  | (st, r) => (st.rev.reverse, r)

def opsToJson (P : FloatIO) (ops : List Op) : Except SErr (List Nat) :=
  match opsToJsonPartial P ops with
  | (bs, none) => .ok bs
  | (_, some e) => .error e

/-! ## The two pipelines -/

inductive Mode where
  | slice | reader
  deriving DecidableEq, Repr

inductive Verdict where
  | ok
  /-- the JSON source loop ended in this error -/
  | srcJson (e : Json.Err)
  /-- the MessagePack source loop ended this way (never `.ok`) -/
  | srcMsgpack (v : Msgpack.Verdict)
  /-- the target serializer refused a value -/
  | ser (e : SErr)
  deriving Repr

structure Outcome where
  /-- bytes the output received: complete documents, then — only after a
  serializer refusal — what the refused document had written before it -/
  out : List Nat
  verdict : Verdict
  deriving Repr

/-- Documents in order: each is serialized (`body`: bytes, refusal) and
framed; the first refusal ends the translation with its partial bytes
unframed. -/
def emitDocs {α : Type} (body : α → List Nat × Option SErr) (frame : List Nat → List Nat) :
    List α → List Nat × Option SErr
  | [] => ([], none)
  | d :: ds =>
    match body d with
    | (bs, some e) => (bs, some e)
    | (bs, none) =>
      match emitDocs body frame ds with
      | (rest, r) => (frame bs ++ rest, r)

/-- The ops rmp_serde's serializer receives for one JSON document: the slice
path collects a `transcode::Value` and replays it (`valuepath_faithful`), the
reader path streams (`transcode_faithful`). -/
def docOpsJ (P : FloatIO) (mode : Mode) (d : Json.JVal) : List Op :=
  match mode with
  | .slice => ValuePath.expandBytes (flatten (jsonToDe P d))
  | .reader => flatten (jsonToDe P d)

def bodyJ2M (P : FloatIO) (mode : Mode) (d : Json.JVal) : List Nat × Option SErr :=
  match opsToMsgpack (docOpsJ P mode d) with
  | .ok bs => (bs, none)
  -- a refused MessagePack document has written nothing to the output: its
  -- bytes were in a collection buffer (never happens: `Lemmas/Bridge.j2m_total`)
  | .error e => ([], some e)

def jsonSource (mode : Mode) (bs : List Nat) : List Json.JVal × Json.Verdict :=
  match mode with
  | .slice => Json.sliceLoop bs
  | .reader => Json.readerLoop bs

/-- `xt -f json -t msgpack`. -/
def json2msgpack (P : FloatIO) (mode : Mode) (bs : List Nat) : Outcome :=
  match jsonSource mode bs with
  | (docs, v) =>
    match emitDocs (bodyJ2M P mode) id docs with
    | (out, some e) => ⟨out, .ser e⟩
    | (out, none) =>
      match v with
      | .ok => ⟨out, .ok⟩
      | .err e => ⟨out, .srcJson e⟩

def msgpackSource (mode : Mode) (bs : List Nat) : List Msgpack.MVal × Msgpack.Verdict :=
  match mode with
  | .slice => Msgpack.sliceLoop false Msgpack.depthLimit Msgpack.depthLimit bs
  | .reader => Msgpack.readerLoop false Msgpack.depthLimit bs

/-- One MessagePack document through serde_json's serializer (both supply
modes stream: `transcode_from(&mut de)`). -/
def bodyM2J (P : FloatIO) (d : Msgpack.MVal) : List Nat × Option SErr :=
  if (mvalToDe d).errorFree then opsToJsonPartial P (flatten (mvalToDe d))
  else ([], some (.custom "ext value"))

/-- `xt -f msgpack -t json`. -/
def msgpack2json (P : FloatIO) (mode : Mode) (bs : List Nat) : Outcome :=
  match msgpackSource mode bs with
  | (docs, v) =>
    match emitDocs (bodyM2J P) (fun b => b ++ [0x0A]) docs with
    | (out, some e) => ⟨out, .ser e⟩
    | (out, none) =>
      match v with
      | .ok => ⟨out, .ok⟩
      | v => ⟨out, .srcMsgpack v⟩

/-! ## The document at which a MessagePack source fails

`msgpack2json` above is defined on the COMPLETE documents the source loop hands
out.  When the loop ends in a decoder failure, the failing document has been
streamed into the serializer up to that point: serde_json has written a prefix
of it, and — since the first failure in execution order decides
(`transcode_first_failure`) — a key it refuses BEFORE the decoder's failure
makes the run end in that refusal instead.  `decodeOps` is `decodeG` keeping
the ops issued before the failure (`Lemmas/Bridge.decodeOps_spec`: on success
they are `flatten (mvalToDe v)`, and it fails exactly when `decodeG` does, with
the same error).  rmp_serde's accesses call the seed whenever an element is
due, so the collection serializer's own work (`elemPre` / `keyPre` / `valPre`:
serde_json's `,` and `:`) precedes the failure of the element's
`deserialize_any`. -/

/-- The scalar visit for a value that is complete after its header. -/
def scalarOp (v : Msgpack.MVal) : List Op := flatten (mvalToDe v)

def seqOps (f : List Nat → List Op × Except Msgpack.DErr (List Nat)) :
    Nat → List Nat → List Op × Except Msgpack.DErr (List Nat)
  | 0, bs => ([], .ok bs)
  | n + 1, bs =>
    match f bs with
    | (ops, .error e) => (.elemPre :: ops, .error e)
    | (ops, .ok r) =>
      match seqOps f n r with
      | (ops', res) => (.elemPre :: ops ++ .elemPost :: ops', res)

def pairsOps (f : List Nat → List Op × Except Msgpack.DErr (List Nat)) :
    Nat → List Nat → List Op × Except Msgpack.DErr (List Nat)
  | 0, bs => ([], .ok bs)
  | n + 1, bs =>
    match f bs with
    | (kops, .error e) => (.keyPre :: kops, .error e)
    | (kops, .ok r) =>
      match f r with
      | (vops, .error e) => (.keyPre :: kops ++ .keyPost :: .valPre :: vops, .error e)
      | (vops, .ok r') =>
        match pairsOps f n r' with
        | (ops', res) => (.keyPre :: kops ++ .keyPost :: .valPre :: vops ++ .valPost :: ops', res)

/-- `deserialize_any` with depth counter `d` driving xt's visitor: the ops
issued, and the unread rest or the decoder's failure. -/
def decodeOps (d : Nat) (bs : List Nat) : List Op × Except Msgpack.DErr (List Nat) :=
  match bs with
  | [] => ([], .error .eofMarker)
  | b :: t =>
    match Msgpack.header (Msgpack.Marker.ofByte b) t with
    | .error e => ([], .error e)
    | .ok (.scalar v, r) => (scalarOp v, .ok r)
    | .ok (.str len, r) =>
      match Msgpack.readN len r with
      | .error e => ([], .error e)
      | .ok (s, r') => (scalarOp (if Msgpack.validUtf8 s then .str s else .bin s), .ok r')
    | .ok (.bin len, r) =>
      match Msgpack.readN len r with
      | .error e => ([], .error e)
      | .ok (s, r') => (scalarOp (.bin s), .ok r')
    | .ok (.ext _, _) =>
      match d with
      | 0 => ([], .error .depthUnderflow)
      | d' + 1 => if d' = 0 then ([], .error .depthLimitExceeded) else ([], .error .extUnsupported)
    | .ok (.arr count, r) =>
      match d with
      | 0 => ([], .error .depthUnderflow)
      | d' + 1 =>
        if d' = 0 then ([], .error .depthLimitExceeded)
        else
          match seqOps (decodeOps d') count r with
          | (ops, .ok r') => (.seqBegin :: ops ++ [.seqEnd], .ok r')
          | (ops, .error e) => (.seqBegin :: ops, .error e)
    | .ok (.map pairs, r) =>
      match d with
      | 0 => ([], .error .depthUnderflow)
      | d' + 1 =>
        if d' = 0 then ([], .error .depthLimitExceeded)
        else
          match pairsOps (decodeOps d') pairs r with
          | (ops, .ok r') => (.mapBegin :: ops ++ [.mapEnd], .ok r')
          | (ops, .error e) => (.mapBegin :: ops, .error e)
termination_by structural d

/-- Reader supply: the input from the document at which the loop stopped. -/
def readerRest (d : Nat) (bs : List Nat) : List Nat :=
  if bs.isEmpty then []
  else
    match h : Msgpack.decodeG false d bs with
    | .error _ => bs
    | .ok (v, rest) =>
      have : rest.length < bs.length := Msgpack.decodeG_lt false d bs v rest h
      readerRest d rest
termination_by bs.length

/-- Slice supply: the piece handed to the deserializer that failed; `none`
when the loop ended otherwise (in particular when `next_value_size` failed:
then nothing of that document was visited). -/
def sliceRest (l d : Nat) (rest : List Nat) : Option (List Nat) :=
  if rest.isEmpty then none
  else
    match Msgpack.nextValueSize rest l with
    | .ok n =>
      if n ≤ rest.length then
        match h : Msgpack.decodeG false d (rest.take n) with
        | .error _ => some (rest.take n)
        | .ok (v, leftover) =>
          have : rest.length - n < rest.length := by
            have := Msgpack.decodeG_lt false d _ v leftover h
            rw [List.length_take] at this
            omega
          sliceRest l d (rest.drop n)
      else none
    | _ => none
termination_by rest.length

/-- What serde_json had written of the document at which the source failed,
and its refusal if one came first. -/
def failingDoc (P : FloatIO) (mode : Mode) (bs : List Nat) : List Nat × Option SErr :=
  let piece := match mode with
    | .reader => some (readerRest Msgpack.depthLimit bs)
    | .slice => sliceRest Msgpack.depthLimit Msgpack.depthLimit bs
  match piece with
  | none => ([], none)
  | some p => opsToJsonPartial P (decodeOps Msgpack.depthLimit p).1

/-- `xt -f msgpack -t json`, including what a source-side failure leaves
behind: equal to `msgpack2json` unless that ends in a source failure. -/
def msgpack2jsonX (P : FloatIO) (mode : Mode) (bs : List Nat) : Outcome :=
  match msgpack2json P mode bs with
  | ⟨out, .srcMsgpack v⟩ =>
    match failingDoc P mode bs with
    | (part, some e) => ⟨out ++ part, .ser e⟩
    | (part, none) => ⟨out ++ part, .srcMsgpack v⟩
  | r => r

end Xt.Bridge
