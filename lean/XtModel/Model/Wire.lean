/-
Line-protocol helpers shared by the driver's engines: hex, number lists.
Import-free.
-/
namespace Xt.Wire

def hexDigit? (c : Char) : Option Nat :=
  if '0' ≤ c ∧ c ≤ '9' then some (c.toNat - '0'.toNat)
  else if 'a' ≤ c ∧ c ≤ 'f' then some (c.toNat - 'a'.toNat + 10)
  else if 'A' ≤ c ∧ c ≤ 'F' then some (c.toNat - 'A'.toNat + 10)
  else none

/-- Parse an even-length hex string into bytes; `-` stands for the empty string. -/
def parseHex (s : String) : Option (List Nat) :=
  if s = "-" then some [] else
  let rec go : List Char → List Nat → Option (List Nat)
    | [], acc => some acc.reverse
    | [_], _ => none
    | a :: b :: rest, acc =>
      match hexDigit? a, hexDigit? b with
      | some x, some y => go rest ((x * 16 + y) :: acc)
      | _, _ => none
  go s.toList []

def hexChar (n : Nat) : Char :=
  if n < 10 then Char.ofNat ('0'.toNat + n) else Char.ofNat ('a'.toNat + n - 10)

def toHex (bs : List Nat) : String :=
  if bs.isEmpty then "-" else
  String.ofList (bs.flatMap fun b => [hexChar (b / 16 % 16), hexChar (b % 16)])

def natToHex (n : Nat) : String :=
  let rec go (fuel n : Nat) (acc : List Char) : List Char :=
    match fuel with
    | 0 => acc
    | fuel + 1 => if n < 16 then hexChar n :: acc else go fuel (n / 16) (hexChar (n % 16) :: acc)
  String.ofList (go 64 n [])

/-- Parse a comma-separated list of naturals; `-` stands for the empty list. -/
def parseNats (s : String) : Option (List Nat) :=
  if s = "-" then some [] else
  (s.splitOn ",").mapM String.toNat?

def fields (line : String) : List String :=
  (line.trimAscii.toString.splitOn " ").filter (· ≠ "")

end Xt.Wire
