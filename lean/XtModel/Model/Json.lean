/-
Model of the JSON reader and compact writer as xt drives them
(/repo/src/json.rs over serde_json 1.0.138, features `std`, `float_roundtrip`).

* `parseValue d bs` — `<&mut Deserializer>::deserialize_any` with
  `remaining_depth = d` (128 at the top of every document), driven by a visitor
  that takes every element / entry (xt's `transcode::Value` visitor on the slice
  path, the streaming transcoder's visitor on the reader path: both loop
  `next_element` / `next_key`+`next_value` until `None`, so `end_seq` /
  `end_map` always find the closing bracket and their other arms are dead).
* `sliceLoop` — `str::from_utf8(bytes)?` followed by
  `Deserializer::from_str(..).into_iter::<transcode::Value>()`
  (`StreamDeserializer::next` + `peek_end_of_value`).
* `readerLoop` — `loop { match de.end() { Ok(()) => break, Err(e) if e.is_io() =>
  return Err(e), Err(_) => output.transcode_from(&mut de)? } }` over in-memory
  bytes (no reader faults are modelled, so the I/O arm is never taken).
* `write` — `serde_json::Serializer` with `CompactFormatter`.

Bytes and code points are `Nat`s.  Errors are serde_json's `ErrorCode`s (the
position is not modelled) plus `utf8` for xt's up-front check of a slice.

Both loops keep duplicate object keys, in input order: the slice path collects
them into `transcode::Value::Map` (a `Vec` of pairs), the reader path streams
them.  What differs (known finding K3) is what a *target* does with the
collected value versus the streamed entries — outside this file.  Also outside:
on a failure the reader path has already written a prefix of the failing
document (it streams); the loops here return complete documents only.

NOT modelled: decimal text ↔ binary64.  A float is carried as the source text
of its literal (`JVal.float src`); the writer takes the composition
"text → f64 → shortest text" as the parameter `ExtFloat.fmt`.  What *is*
modelled about floats is the one thing a verdict depends on: a literal whose
exact decimal value rounds to ±∞ (`≥ 2^1024 − 2^970`, round-half-even) is the
error `numberOutOfRange`.

* `ignoreValue`, `trialSlice`, `trialReader` — the detection trial
  `json::input_matches` (`IgnoredAny` ⇒ `ignore_value`: iterative, no depth
  limit, no UTF-8 / surrogate / number-range checks; a slice is first checked
  as a whole with `str::from_utf8`, a reader is not).

Recursion: the byte-level lexers are structural on the byte list; `natDec`
recurses on `n / 10`; the string scanners, the recursive-descent parser, the
`ignore_value` loop and the document loops recurse on the length of the
remaining input (parser results carry the proof that the rest is shorter).
No fuel, no unreachable default branches.  Import-free.
-/
namespace Xt.Json

/-- A parsed JSON value.  `int i`: `i ≥ 0` is serde_json's `U64` class, `i < 0`
its `I64` class.  `float src`: everything serde_json turns into an `f64`
(fraction / exponent literals, integers outside `−2^63 … 2^64−1`, and `-0`),
carried as the literal's source bytes.  Object entries are kept in input
order, duplicates included. -/
inductive JVal where
  | null
  | bool (b : Bool)
  | int (i : Int)
  | float (src : List Nat)
  | str (cps : List Nat)
  | arr (xs : List JVal)
  | obj (es : List (List Nat × JVal))
  deriving Repr, Inhabited

/-- serde_json's `ErrorCode`s that a parse can end in, plus `utf8`:
`str::from_utf8` failing on a slice input (json.rs). -/
inductive Err where
  | eofList | eofObject | eofString | eofValue
  | expectedColon | expectedListCommaOrEnd | expectedObjectCommaOrEnd
  | expectedIdent | expectedValue
  | invalidEscape | invalidNumber | numberOutOfRange | invalidUnicode
  | controlChar | keyMustBeString | loneSurrogate
  | trailingComma | trailingChars | unexpectedEndOfHexEscape | recursionLimit
  | utf8
  deriving DecidableEq, Repr, Inhabited

inductive Verdict where
  | ok
  | err (e : Err)
  deriving DecidableEq, Repr, Inhabited

/-! ## UTF-8 -/

/-- `char::encode_utf8` / serde_json's `push_wtf8_codepoint`. -/
def utf8 (c : Nat) : List Nat :=
  if c < 0x80 then [c]
  else if c < 0x800 then [0xC0 + c / 64, 0x80 + c % 64]
  else if c < 0x10000 then [0xE0 + c / 4096, 0x80 + c / 64 % 64, 0x80 + c % 64]
  else [0xF0 + c / 262144, 0x80 + c / 4096 % 64, 0x80 + c / 64 % 64, 0x80 + c % 64]

def isCont (b : Nat) : Bool := 0x80 ≤ b && b ≤ 0xBF

/-- `str::from_utf8`: the code points of a well-formed UTF-8 byte string
(Unicode table 3-7: no overlong forms, no surrogates, nothing above U+10FFFF),
`none` otherwise. -/
def utf8Decode : List Nat → Option (List Nat)
  | [] => some []
  | b0 :: rest =>
    if b0 < 0x80 then (utf8Decode rest).map (b0 :: ·)
    else if 0xC2 ≤ b0 ∧ b0 ≤ 0xDF then
      match rest with
      | b1 :: rest =>
        if isCont b1 then (utf8Decode rest).map (((b0 - 0xC0) * 64 + (b1 - 0x80)) :: ·) else none
      | _ => none
    else if 0xE0 ≤ b0 ∧ b0 ≤ 0xEF then
      match rest with
      | b1 :: b2 :: rest =>
        if (if b0 = 0xE0 then 0xA0 else 0x80) ≤ b1 ∧ b1 ≤ (if b0 = 0xED then 0x9F else 0xBF) ∧ isCont b2 then
          (utf8Decode rest).map ((((b0 - 0xE0) * 64 + (b1 - 0x80)) * 64 + (b2 - 0x80)) :: ·)
        else none
      | _ => none
    else if 0xF0 ≤ b0 ∧ b0 ≤ 0xF4 then
      match rest with
      | b1 :: b2 :: b3 :: rest =>
        if (if b0 = 0xF0 then 0x90 else 0x80) ≤ b1 ∧ b1 ≤ (if b0 = 0xF4 then 0x8F else 0xBF) ∧
            isCont b2 ∧ isCont b3 then
          (utf8Decode rest).map
            (((((b0 - 0xF0) * 64 + (b1 - 0x80)) * 64 + (b2 - 0x80)) * 64 + (b3 - 0x80)) :: ·)
        else none
      | _ => none
    else none

/-- States of the UTF-8 well-formedness automaton (Unicode table 3-7), the
validation pass of `str::from_utf8`. -/
inductive U8 where
  /-- at a character boundary -/
  | acc
  /-- 1 / 2 / 3 continuation bytes `80..BF` still to come -/
  | c1 | c2 | c3
  /-- after `E0`: `A0..BF`, then one more -/
  | e0
  /-- after `ED`: `80..9F`, then one more -/
  | ed
  /-- after `F0`: `90..BF`, then two more -/
  | f0
  /-- after `F4`: `80..8F`, then two more -/
  | f4
  | rej
  deriving DecidableEq, Repr

def u8step : U8 → Nat → U8
  | .acc, b =>
    if b < 0x80 then .acc
    else if 0xC2 ≤ b ∧ b ≤ 0xDF then .c1
    else if b = 0xE0 then .e0
    else if b = 0xED then .ed
    else if 0xE1 ≤ b ∧ b ≤ 0xEF then .c2
    else if b = 0xF0 then .f0
    else if b = 0xF4 then .f4
    else if 0xF1 ≤ b ∧ b ≤ 0xF3 then .c3
    else .rej
  | .c1, b => if isCont b then .acc else .rej
  | .c2, b => if isCont b then .c1 else .rej
  | .c3, b => if isCont b then .c2 else .rej
  | .e0, b => if 0xA0 ≤ b ∧ b ≤ 0xBF then .c1 else .rej
  | .ed, b => if 0x80 ≤ b ∧ b ≤ 0x9F then .c1 else .rej
  | .f0, b => if 0x90 ≤ b ∧ b ≤ 0xBF then .c2 else .rej
  | .f4, b => if 0x80 ≤ b ∧ b ≤ 0x8F then .c2 else .rej
  | .rej, _ => .rej

def u8run (s : U8) (bs : List Nat) : U8 := bs.foldl u8step s

/-- `str::from_utf8(bytes).is_ok()`. -/
def validUtf8 (bs : List Nat) : Bool := decide (u8run .acc bs = .acc)

/-- Unicode scalar value. -/
def isScalar (c : Nat) : Bool := c < 0xD800 || (0xE000 ≤ c && c < 0x110000)

/-! ## Writer (`CompactFormatter`) -/

/-- The float boundary: decimal text → binary64 → shortest decimal text
(serde_json's `f64` parse followed by `ryu`), on the source bytes of a float
literal. -/
structure ExtFloat where
  fmt : List Nat → List Nat

/-- The driver's stand-in: every float is written as the marker `F`. -/
def markerFloat : ExtFloat := ⟨fun _ => [0x46]⟩

/-- `HEX_DIGITS = b"0123456789abcdef"`. -/
def hexLower (n : Nat) : Nat := if n < 10 then 0x30 + n else 0x57 + n

/-- `format_escaped_str_contents` for one character (`ESCAPE` table):
`"` `\` and U+0000–U+001F are escaped, everything else is written raw. -/
def writeCp (c : Nat) : List Nat :=
  if c = 0x22 then [0x5C, 0x22]
  else if c = 0x5C then [0x5C, 0x5C]
  else if c = 0x08 then [0x5C, 0x62]
  else if c = 0x09 then [0x5C, 0x74]
  else if c = 0x0A then [0x5C, 0x6E]
  else if c = 0x0C then [0x5C, 0x66]
  else if c = 0x0D then [0x5C, 0x72]
  else if c < 0x20 then [0x5C, 0x75, 0x30, 0x30, hexLower (c / 16), hexLower (c % 16)]
  else utf8 c

def writeStr (cps : List Nat) : List Nat := 0x22 :: cps.flatMap writeCp ++ [0x22]

/-- `itoa` for a `u64`. -/
def natDec (n : Nat) : List Nat :=
  if n < 10 then [0x30 + n] else natDec (n / 10) ++ [0x30 + n % 10]
decreasing_by omega

/-- `itoa` for an `i64` / `u64`. -/
def intDec (i : Int) : List Nat :=
  if i < 0 then 0x2D :: natDec i.natAbs else natDec i.natAbs

mutual
  /-- `Serialize` into `serde_json::Serializer<_, CompactFormatter>`. -/
  def write (F : ExtFloat) : JVal → List Nat
    | .null => [0x6E, 0x75, 0x6C, 0x6C]
    | .bool true => [0x74, 0x72, 0x75, 0x65]
    | .bool false => [0x66, 0x61, 0x6C, 0x73, 0x65]
    | .int i => intDec i
    | .float src => F.fmt src
    | .str cps => writeStr cps
    | .arr xs => 0x5B :: writeElems F true xs ++ [0x5D]
    | .obj es => 0x7B :: writeEntries F true es ++ [0x7D]
  /-- `begin_array_value(first)` + element, for each element. -/
  def writeElems (F : ExtFloat) (first : Bool) : List JVal → List Nat
    | [] => []
    | x :: xs => (if first then [] else [0x2C]) ++ write F x ++ writeElems F false xs
  /-- `begin_object_key(first)` + key + `:` + value, for each entry. -/
  def writeEntries (F : ExtFloat) (first : Bool) : List (List Nat × JVal) → List Nat
    | [] => []
    | (k, v) :: es =>
      (if first then [] else [0x2C]) ++ writeStr k ++ 0x3A :: write F v ++ writeEntries F false es
end

/-- What `json::Output` appends to the writer for a list of documents: each
body followed by one `\n`. -/
def writeDocs (F : ExtFloat) : List JVal → List Nat
  | [] => []
  | d :: ds => write F d ++ 0x0A :: writeDocs F ds

/-! ## Lexical layer -/

/-- `parse_whitespace`'s set. -/
def isWs (b : Nat) : Bool := b = 0x20 || b = 0x0A || b = 0x09 || b = 0x0D

/-- `parse_whitespace`: the input from the first non-whitespace byte on. -/
def skipWs : List Nat → List Nat
  | [] => []
  | b :: rest => if isWs b then skipWs rest else b :: rest

theorem skipWs_length_le (bs : List Nat) : (skipWs bs).length ≤ bs.length := by
  induction bs with
  | nil => simp [skipWs]
  | cons b rest ih => unfold skipWs; split <;> simp <;> omega

/-- `parse_ident`: the remaining bytes of `null` / `true` / `false`. -/
def ident : List Nat → List Nat → Except Err (List Nat)
  | [], bs => .ok bs
  | _ :: _, [] => .error .eofValue
  | e :: es, b :: bs => if b = e then ident es bs else .error .expectedIdent

theorem ident_length {es bs rest : List Nat} (h : ident es bs = .ok rest) :
    rest.length ≤ bs.length := by
  induction es generalizing bs with
  | nil => simp [ident] at h; subst h; exact Nat.le_refl _
  | cons e es ih =>
    cases bs with
    | nil => simp [ident] at h
    | cons b bs =>
      simp only [ident] at h
      split at h
      · have := ih h; simp; omega
      · simp at h

def isDigit (b : Nat) : Bool := 0x30 ≤ b && b ≤ 0x39

/-- The maximal run of ASCII digits at the front, and what follows it. -/
def takeDigits : List Nat → List Nat × List Nat
  | [] => ([], [])
  | b :: rest =>
    if isDigit b then let (ds, r) := takeDigits rest; (b :: ds, r) else ([], b :: rest)

theorem takeDigits_length (bs : List Nat) :
    (takeDigits bs).1.length + (takeDigits bs).2.length = bs.length := by
  induction bs with
  | nil => simp [takeDigits]
  | cons b rest ih => unfold takeDigits; split <;> simp <;> omega

/-- Value of a digit string. -/
def digitsVal (ds : List Nat) : Nat := ds.foldl (fun a b => a * 10 + (b - 0x30)) 0

def u64Max : Nat := 18446744073709551615

/-- The smallest magnitude that rounds to infinity under round-half-even:
`2^1024 − 2^970` (halfway between `f64::MAX` and `2^1024`). -/
def f64Limit : Nat := 2 ^ 1024 - 2 ^ 970

/-- Whether `m × 10^e` with `m < 10^nd` is finite as a binary64
(`f.is_infinite()` in `f64_from_parts` / `f64_long_from_parts`, and
`parse_exponent_overflow`).  The first two tests only avoid computing huge
powers; they agree with the exact comparison. -/
def floatFinite (m nd : Nat) (e : Int) : Bool :=
  if m = 0 then true
  else if e + nd ≤ 308 then true
  else if 309 ≤ e then false
  else if 0 ≤ e then decide (m * 10 ^ e.toNat < f64Limit)
  else decide (m < f64Limit * 10 ^ (-e).toNat)

/-- What a number literal is turned into (`ParserNumber`). -/
inductive Num where
  | int (i : Int)
  | float
  deriving DecidableEq, Repr

/-- `parse_integer`: the integer part.  First byte missing ⇒ `eofValue`; `0`
followed by a digit ⇒ `invalidNumber`; not a digit ⇒ `invalidNumber`. -/
def lexInt : List Nat → Except Err (List Nat × List Nat)
  | [] => .error .eofValue
  | b :: rest =>
    if b = 0x30 then
      match rest with
      | [] => .ok ([b], rest)
      | c :: _ => if isDigit c then .error .invalidNumber else .ok ([b], rest)
    else if isDigit b then .ok (takeDigits (b :: rest))
    else .error .invalidNumber

/-- `parse_decimal` / `parse_long_decimal`: `.` must be followed by a digit
(else `invalidNumber`, at end of input `eofValue`). -/
def lexFrac : List Nat → Except Err (Option (List Nat) × List Nat)
  | [] => .ok (none, [])
  | b :: r =>
    if b = 0x2E then
      match takeDigits r with
      | ([], []) => .error .eofValue
      | ([], _ :: _) => .error .invalidNumber
      | (d :: ds, r2) => .ok (some (d :: ds), r2)
    else .ok (none, b :: r)

/-- The optional sign of an exponent. -/
def expSign : List Nat → List Nat × List Nat
  | [] => ([], [])
  | s :: r => if s = 0x2B ∨ s = 0x2D then ([s], r) else ([], s :: r)

/-- `parse_exponent` / `parse_long_exponent`: `e`/`E`, an optional sign, then at
least one digit (missing ⇒ `eofValue`, not a digit ⇒ `invalidNumber`).  Result:
the bytes before the digits, "negative", the digits. -/
def lexExp : List Nat → Except Err (Option (List Nat × Bool × List Nat) × List Nat)
  | [] => .ok (none, [])
  | e :: r =>
    if e = 0x65 ∨ e = 0x45 then
      match (expSign r).2 with
      | [] => .error .eofValue
      | c :: r3 =>
        if isDigit c then
          .ok (some (e :: (expSign r).1, decide ((expSign r).1 = [0x2D]), (takeDigits (c :: r3)).1),
            (takeDigits (c :: r3)).2)
        else .error .invalidNumber
    else .ok (none, e :: r)

/-- The `u64` / `i64` / `f64` decision of `parse_integer` + `parse_number`, and
the `is_infinite` checks.  No fraction, no exponent and value ≤ `u64::MAX` ⇒
positive: `U64`; negative: `I64` for 1 … 2^63, `F64` for `-0` and below
`−2^63`.  Anything else is an `F64`; `numberOutOfRange` when not finite. -/
def classifyNum (positive : Bool) (ip : List Nat) (fp : Option (List Nat))
    (ex : Option (List Nat × Bool × List Nat)) : Except Err Num :=
  match fp, ex with
  | none, none =>
    let n := digitsVal ip
    if n ≤ u64Max then
      if positive then .ok (.int n)
      else if n = 0 then .ok .float
      else if n ≤ 9223372036854775808 then .ok (.int (-(n : Int)))
      else .ok .float
    else if floatFinite n ip.length 0 then .ok .float else .error .numberOutOfRange
  | _, _ =>
    let f := fp.getD []
    let ev : Int := match ex with
      | some (_, neg, ds) => if neg then -(digitsVal ds : Int) else (digitsVal ds : Int)
      | none => 0
    if floatFinite (digitsVal (ip ++ f)) (ip ++ f).length (ev - f.length) then .ok .float
    else .error .numberOutOfRange

/-- Source bytes of a literal (without the sign). -/
def numSrc (ip : List Nat) (fp : Option (List Nat)) (ex : Option (List Nat × Bool × List Nat)) :
    List Nat :=
  ip ++ (match fp with | some f => 0x2E :: f | none => [])
    ++ (match ex with | some (pre, _, ds) => pre ++ ds | none => [])

/-- `parse_any_number(positive)` after an optional `-` has been eaten: the
literal's class, its source bytes (without the sign), the rest of the input.
Syntax errors come first, in scan order; the range check is last (the code
raises it where the literal ends — or, when the exponent overflows an `i32`,
inside the exponent digits, where only `numberOutOfRange` can still happen). -/
def lexNumber (positive : Bool) (bs : List Nat) : Except Err (Num × List Nat × List Nat) :=
  match lexInt bs with
  | .error e => .error e
  | .ok (ip, r1) =>
    match lexFrac r1 with
    | .error e => .error e
    | .ok (fp, r2) =>
      match lexExp r2 with
      | .error e => .error e
      | .ok (ex, r3) =>
        match classifyNum positive ip fp ex with
        | .error e => .error e
        | .ok n => .ok (n, numSrc ip fp ex, r3)

theorem takeDigits_snd_le (bs : List Nat) : (takeDigits bs).2.length ≤ bs.length := by
  have := takeDigits_length bs; omega

theorem lexInt_length {bs ip r : List Nat} (h : lexInt bs = .ok (ip, r)) : r.length < bs.length := by
  unfold lexInt at h
  split at h
  · simp at h
  · rename_i b rest
    split at h
    · split at h
      · simp at h; obtain ⟨_, rfl⟩ := h; simp
      · split at h <;> simp at h
        obtain ⟨_, rfl⟩ := h; simp
    · split at h
      · rename_i hd
        simp only [takeDigits, hd, if_true] at h
        simp at h; obtain ⟨_, rfl⟩ := h
        have := takeDigits_snd_le rest; simp; omega
      · simp at h

theorem lexFrac_length {bs r : List Nat} {fp : Option (List Nat)} (h : lexFrac bs = .ok (fp, r)) :
    r.length ≤ bs.length := by
  unfold lexFrac at h
  split at h
  · simp at h; obtain ⟨_, rfl⟩ := h; simp
  · rename_i b r0
    split at h
    · have := takeDigits_snd_le r0
      split at h
      · simp at h
      · simp at h
      · rename_i d ds r2 heq
        simp at h; obtain ⟨_, rfl⟩ := h
        rw [heq] at this; simp at this ⊢; omega
    · simp at h; obtain ⟨_, rfl⟩ := h; simp

theorem expSign_length (r : List Nat) : (expSign r).2.length ≤ r.length := by
  unfold expSign; split
  · simp
  · split <;> simp

theorem lexExp_length {bs r : List Nat} {ex : Option (List Nat × Bool × List Nat)}
    (h : lexExp bs = .ok (ex, r)) : r.length ≤ bs.length := by
  unfold lexExp at h
  split at h
  · simp at h; obtain ⟨_, rfl⟩ := h; simp
  · rename_i e r0
    split at h
    · have hs := expSign_length r0
      split at h
      · simp at h
      · rename_i c r3 heq
        split at h
        · simp at h; obtain ⟨_, rfl⟩ := h
          have := takeDigits_snd_le (c :: r3)
          rw [heq] at hs; simp at hs this ⊢; omega
        · simp at h
    · simp at h; obtain ⟨_, rfl⟩ := h; simp

theorem lexNumber_length {p : Bool} {bs : List Nat} {n : Num} {src rest : List Nat}
    (h : lexNumber p bs = .ok (n, src, rest)) : rest.length < bs.length := by
  unfold lexNumber at h
  split at h
  · simp at h
  · rename_i ip r1 h1
    split at h
    · simp at h
    · rename_i fp r2 h2
      split at h
      · simp at h
      · rename_i ex r3 h3
        split at h
        · simp at h
        · simp at h; obtain ⟨_, _, rfl⟩ := h
          have := lexInt_length h1
          have := lexFrac_length h2
          have := lexExp_length h3
          omega

/-- Value of an ASCII hex digit (`decode_hex_val`). -/
def hexVal (b : Nat) : Option Nat :=
  if 0x30 ≤ b ∧ b ≤ 0x39 then some (b - 0x30)
  else if 0x41 ≤ b ∧ b ≤ 0x46 then some (b - 0x41 + 10)
  else if 0x61 ≤ b ∧ b ≤ 0x66 then some (b - 0x61 + 10)
  else none

/-- `decode_four_hex_digits`. -/
def hex4 (a b c d : Nat) : Option Nat :=
  match hexVal a, hexVal b, hexVal c, hexVal d with
  | some a, some b, some c, some d => some (((a * 16 + b) * 16 + c) * 16 + d)
  | _, _, _, _ => none

/-- `decode_hex_escape`: fewer than 4 bytes left ⇒ `eofString`; a non-hex digit
⇒ `invalidEscape`. -/
def hexEscape : List Nat → Except Err (Nat × List Nat)
  | a :: b :: c :: d :: rest =>
    match hex4 a b c d with
    | some n => .ok (n, rest)
    | none => .error .invalidEscape
  | _ => .error .eofString

/-- `parse_unicode_escape(validate = true)` after `\u`: a trailing surrogate
first ⇒ `loneSurrogate`; a leading surrogate must be followed by `\` `u` (else
`unexpectedEndOfHexEscape`, `eofString` at end of input) and a trailing
surrogate (else `loneSurrogate`).  Result: the UTF-8 bytes pushed to scratch. -/
def unicodeEscape (bs : List Nat) : Except Err (List Nat × List Nat) :=
  match hexEscape bs with
  | .error e => .error e
  | .ok (n, rest) =>
    if 0xDC00 ≤ n ∧ n ≤ 0xDFFF then .error .loneSurrogate
    else if n < 0xD800 ∨ 0xDBFF < n then .ok (utf8 n, rest)
    else
      match rest with
      | [] => .error .eofString
      | c1 :: rest1 =>
        if c1 ≠ 0x5C then .error .unexpectedEndOfHexEscape else
        match rest1 with
        | [] => .error .eofString
        | c2 :: rest2 =>
          if c2 ≠ 0x75 then .error .unexpectedEndOfHexEscape else
          match hexEscape rest2 with
          | .error e => .error e
          | .ok (n2, rest3) =>
            if n2 < 0xDC00 ∨ 0xDFFF < n2 then .error .loneSurrogate
            else .ok (utf8 (0x10000 + ((n - 0xD800) * 1024 + (n2 - 0xDC00))), rest3)

/-- `parse_escape(validate = true)` after the backslash. -/
def escape : List Nat → Except Err (List Nat × List Nat)
  | [] => .error .eofString
  | e :: rest =>
    if e = 0x22 then .ok ([0x22], rest)
    else if e = 0x5C then .ok ([0x5C], rest)
    else if e = 0x2F then .ok ([0x2F], rest)
    else if e = 0x62 then .ok ([0x08], rest)
    else if e = 0x66 then .ok ([0x0C], rest)
    else if e = 0x6E then .ok ([0x0A], rest)
    else if e = 0x72 then .ok ([0x0D], rest)
    else if e = 0x74 then .ok ([0x09], rest)
    else if e = 0x75 then unicodeEscape rest
    else .error .invalidEscape

theorem hexEscape_length {bs rest : List Nat} {n : Nat} (h : hexEscape bs = .ok (n, rest)) :
    rest.length < bs.length := by
  unfold hexEscape at h
  split at h
  · split at h <;> simp at h
    obtain ⟨_, rfl⟩ := h; simp; omega
  · simp at h

theorem unicodeEscape_length {bs out rest : List Nat} (h : unicodeEscape bs = .ok (out, rest)) :
    rest.length < bs.length := by
  unfold unicodeEscape at h
  split at h
  · simp at h
  · rename_i n r0 h0
    have := hexEscape_length h0
    split at h
    · simp at h
    · split at h
      · simp at h; obtain ⟨_, rfl⟩ := h; exact this
      · split at h
        · simp at h
        · split at h
          · simp at h
          · split at h
            · simp at h
            · split at h
              · simp at h
              · split at h
                · simp at h
                · rename_i n2 r3 h3
                  have := hexEscape_length h3
                  split at h
                  · simp at h
                  · simp at h; obtain ⟨_, rfl⟩ := h; simp at *; omega

theorem escape_length {bs out rest : List Nat} (h : escape bs = .ok (out, rest)) :
    rest.length < bs.length := by
  unfold escape at h
  split at h
  · simp at h
  · repeat' split at h
    all_goals first
      | (simp at h; obtain ⟨_, rfl⟩ := h; simp)
      | (have := unicodeEscape_length h; simp; omega)
      | simp at h

/-- `parse_str_bytes(validate = true)` after the opening quote: the scratch
bytes (raw bytes copied, escapes replaced by the UTF-8 of what they denote) and
the input after the closing quote.  End of input ⇒ `eofString`; a raw byte
< 0x20 ⇒ `controlChar`. -/
def strBody (bs : List Nat) : Except Err (List Nat × List Nat) :=
  match bs with
  | [] => .error .eofString
  | b :: rest =>
    if b = 0x22 then .ok ([], rest)
    else if b = 0x5C then
      match h : escape rest with
      | .error e => .error e
      | .ok (out, r) =>
        have : r.length < (b :: rest).length := by
          have := escape_length h; simp; omega
        match strBody r with
        | .ok (s, r') => .ok (out ++ s, r')
        | .error e => .error e
    else if b < 0x20 then .error .controlChar
    else
      match strBody rest with
      | .ok (s, r') => .ok (b :: s, r')
      | .error e => .error e
termination_by bs.length

theorem strBody_length : ∀ {bs scratch rest : List Nat},
    strBody bs = .ok (scratch, rest) → rest.length < bs.length := by
  intro bs
  fun_induction strBody bs <;> intro scratch rest h
  case case4 _ _ _ _ _ _ hx _ hlt ih =>
    simp at h; obtain ⟨_, rfl⟩ := h
    have := ih hx; simp at *; omega
  case case7 _ _ _ _ _ _ _ hx ih =>
    simp at h; obtain ⟨_, rfl⟩ := h
    have := ih hx; simp; omega
  all_goals simp at h
  all_goals (obtain ⟨_, rfl⟩ := h; simp)

/-- `parse_str` after the opening quote: scratch bytes, then the UTF-8 check
of `as_str` (`invalidUnicode`; cannot fail on the slice path, whose input was
validated as a whole). -/
def parseStr (bs : List Nat) : Except Err (List Nat × List Nat) :=
  match strBody bs with
  | .error e => .error e
  | .ok (scratch, rest) =>
    match utf8Decode scratch with
    | none => .error .invalidUnicode
    | some cps => .ok (cps, rest)

theorem parseStr_length {bs cps rest : List Nat} (h : parseStr bs = .ok (cps, rest)) :
    rest.length < bs.length := by
  unfold parseStr at h
  split at h
  · simp at h
  · rename_i scratch r hs
    split at h
    · simp at h
    · simp at h; obtain ⟨_, rfl⟩ := h; exact strBody_length hs

/-! ## The recursive-descent parser -/

/-- First byte of a value, as `deserialize_any` dispatches on it. -/
inductive Tok where
  | n | t | f | minus | digit | quote | lbrack | lbrace | other
  deriving DecidableEq, Repr

def classify (b : Nat) : Tok :=
  if b = 0x6E then .n else if b = 0x74 then .t else if b = 0x66 then .f
  else if b = 0x2D then .minus else if isDigit b then .digit
  else if b = 0x22 then .quote else if b = 0x5B then .lbrack else if b = 0x7B then .lbrace
  else .other

/-- A result whose remaining input is strictly shorter than `bs`. -/
abbrev Shorter (bs : List Nat) := { r : List Nat // r.length < bs.length }

def numVal (positive : Bool) (n : Num) (src : List Nat) : JVal :=
  match n with
  | .int i => .int i
  | .float => .float (if positive then src else 0x2D :: src)

mutual
  /-- `deserialize_any` with `remaining_depth = d`. -/
  def parseValueS (d : Nat) (bs : List Nat) : Except Err (JVal × Shorter bs) :=
    match h : skipWs bs with
    | [] => .error .eofValue
    | b :: r =>
      have hle : (b :: r).length ≤ bs.length := h ▸ skipWs_length_le bs
      match classify b with
      | .n =>
        match hi : ident [0x75, 0x6C, 0x6C] r with
        | .error e => .error e
        | .ok r' => .ok (.null, ⟨r', by have := ident_length hi; simp only [List.length_cons] at *; omega⟩)
      | .t =>
        match hi : ident [0x72, 0x75, 0x65] r with
        | .error e => .error e
        | .ok r' => .ok (.bool true, ⟨r', by have := ident_length hi; simp only [List.length_cons] at *; omega⟩)
      | .f =>
        match hi : ident [0x61, 0x6C, 0x73, 0x65] r with
        | .error e => .error e
        | .ok r' => .ok (.bool false, ⟨r', by have := ident_length hi; simp only [List.length_cons] at *; omega⟩)
      | .minus =>
        match hn : lexNumber false r with
        | .error e => .error e
        | .ok (n, src, r') =>
          .ok (numVal false n src, ⟨r', by have := lexNumber_length hn; simp only [List.length_cons] at *; omega⟩)
      | .digit =>
        match hn : lexNumber true (b :: r) with
        | .error e => .error e
        | .ok (n, src, r') =>
          .ok (numVal true n src, ⟨r', by have := lexNumber_length hn; simp only [List.length_cons] at *; omega⟩)
      | .quote =>
        match hs : parseStr r with
        | .error e => .error e
        | .ok (cps, r') => .ok (.str cps, ⟨r', by have := parseStr_length hs; simp only [List.length_cons] at *; omega⟩)
      | .lbrack =>
        -- check_recursion!: `remaining_depth -= 1; if remaining_depth == 0 { error }`
        -- (`d` is a `u8` starting at 128 and never passed on as 0, so `d ≤ 1`
        -- is `d = 1`; no wrap-around is reachable)
        if d ≤ 1 then .error .recursionLimit else
        match parseElemsS (d - 1) true r with
        | .error e => .error e
        | .ok (xs, ⟨r', hr⟩) => .ok (.arr xs, ⟨r', by simp only [List.length_cons] at *; omega⟩)
      | .lbrace =>
        if d ≤ 1 then .error .recursionLimit else
        match parseEntriesS (d - 1) true r with
        | .error e => .error e
        | .ok (es, ⟨r', hr⟩) => .ok (.obj es, ⟨r', by simp only [List.length_cons] at *; omega⟩)
      | .other => .error .expectedValue
  termination_by (bs.length, 0)
  decreasing_by
    all_goals simp_wf
    all_goals (apply Prod.Lex.left; simp only [List.length_cons] at *; omega)

  /-- `SeqAccess::next_element_seed` until it returns `None`, then `end_seq`
  (which eats the `]`).  `d` is the depth inside the array. -/
  def parseElemsS (d : Nat) (first : Bool) (bs : List Nat) : Except Err (List JVal × Shorter bs) :=
    match h : skipWs bs with
    | [] => .error .eofList
    | c :: r =>
      have hle : (c :: r).length ≤ bs.length := h ▸ skipWs_length_le bs
      if c = 0x5D then .ok ([], ⟨r, by simp at hle; omega⟩)
      else if first then
        match parseValueS d (c :: r) with
        | .error e => .error e
        | .ok (v, ⟨r1, h1⟩) =>
          match parseElemsS d false r1 with
          | .error e => .error e
          | .ok (vs, ⟨r2, h2⟩) => .ok (v :: vs, ⟨r2, by omega⟩)
      else if c = 0x2C then
        match h2 : skipWs r with
        | [] => .error .eofValue
        | c2 :: r2 =>
          have hle2 : (c2 :: r2).length ≤ r.length := h2 ▸ skipWs_length_le r
          if c2 = 0x5D then .error .trailingComma
          else
            match parseValueS d (c2 :: r2) with
            | .error e => .error e
            | .ok (v, ⟨r3, h3⟩) =>
              match parseElemsS d false r3 with
              | .error e => .error e
              | .ok (vs, ⟨r4, h4⟩) => .ok (v :: vs, ⟨r4, by simp only [List.length_cons] at *; omega⟩)
      else .error .expectedListCommaOrEnd
  termination_by (bs.length, 1)
  decreasing_by
    all_goals simp_wf
    · rcases Nat.lt_or_eq_of_le hle with h' | h'
      · apply Prod.Lex.left; simpa using h'
      · simp only [List.length_cons] at h'; rw [h']; apply Prod.Lex.right; omega
    · apply Prod.Lex.left; simp only [List.length_cons] at *; omega
    · apply Prod.Lex.left; simp only [List.length_cons] at *; omega
    · apply Prod.Lex.left; simp only [List.length_cons] at *; omega

  /-- `MapAccess::next_key_seed` / `next_value_seed` until `None`, then `end_map`. -/
  def parseEntriesS (d : Nat) (first : Bool) (bs : List Nat) :
      Except Err (List (List Nat × JVal) × Shorter bs) :=
    match h : skipWs bs with
    | [] => .error .eofObject
    | c :: r =>
      have hle : (c :: r).length ≤ bs.length := h ▸ skipWs_length_le bs
      if c = 0x7D then .ok ([], ⟨r, by simp at hle; omega⟩)
      else
        -- `has_next_key`: where the key's opening quote was found
        let key : Except Err { k : List Nat // k.length < (c :: r).length } :=
          if first then
            if c = 0x22 then .ok ⟨r, by simp⟩ else .error .keyMustBeString
          else if c = 0x2C then
            match h2 : skipWs r with
            | [] => .error .eofValue
            | c2 :: r2 =>
              have hle2 : (c2 :: r2).length ≤ r.length := h2 ▸ skipWs_length_le r
              if c2 = 0x22 then .ok ⟨r2, by simp only [List.length_cons] at *; omega⟩
              else if c2 = 0x7D then .error .trailingComma
              else .error .keyMustBeString
          else .error .expectedObjectCommaOrEnd
        match key with
        | .error e => .error e
        | .ok ⟨kbs, hk⟩ =>
          match hs : parseStr kbs with
          | .error e => .error e
          | .ok (k, r3) =>
            have h3 : r3.length < kbs.length := parseStr_length hs
            -- `parse_object_colon`
            match h4 : skipWs r3 with
            | [] => .error .eofObject
            | c4 :: r4 =>
              have hle4 : (c4 :: r4).length ≤ r3.length := h4 ▸ skipWs_length_le r3
              if c4 ≠ 0x3A then .error .expectedColon
              else
                match parseValueS d r4 with
                | .error e => .error e
                | .ok (v, ⟨r5, h5⟩) =>
                  match parseEntriesS d false r5 with
                  | .error e => .error e
                  | .ok (es, ⟨r6, h6⟩) =>
                    .ok ((k, v) :: es, ⟨r6, by simp only [List.length_cons] at *; omega⟩)
  termination_by (bs.length, 1)
  decreasing_by
    all_goals simp_wf
    all_goals (apply Prod.Lex.left; simp only [List.length_cons] at *; omega)
end

/-- `deserialize_any` with `remaining_depth = d`: the value and the rest of the
input. -/
def parseValue (d : Nat) (bs : List Nat) : Except Err (JVal × List Nat) :=
  match parseValueS d bs with
  | .error e => .error e
  | .ok (v, r) => .ok (v, r.val)

def parseElems (d : Nat) (first : Bool) (bs : List Nat) : Except Err (List JVal × List Nat) :=
  match parseElemsS d first bs with
  | .error e => .error e
  | .ok (v, r) => .ok (v, r.val)

def parseEntries (d : Nat) (first : Bool) (bs : List Nat) :
    Except Err (List (List Nat × JVal) × List Nat) :=
  match parseEntriesS d first bs with
  | .error e => .error e
  | .ok (v, r) => .ok (v, r.val)

/-- `Deserializer::new`: `remaining_depth: 128`. -/
def depthLimit : Nat := 128

/-! ## The two document loops of json.rs -/

/-- Values whose end is visible without looking ahead (`StreamDeserializer::next`). -/
def isSelfDelim (b : Nat) : Bool := b = 0x5B || b = 0x22 || b = 0x7B

/-- `peek_end_of_value`: end of input, whitespace, or one of `" [ ] { } , :`. -/
def endOk : List Nat → Bool
  | [] => true
  | b :: _ =>
    isWs b || b = 0x22 || b = 0x5B || b = 0x5D || b = 0x7B || b = 0x7D || b = 0x2C || b = 0x3A

/-- `for value in de.into_iter::<Value>() { output.transcode_value(value?)? }`:
the documents handed to the output and how the loop ended. -/
def sliceDocs (bs : List Nat) : List JVal × Verdict :=
  match h : skipWs bs with
  | [] => ([], .ok)
  | b :: r =>
    have _hle : (b :: r).length ≤ bs.length := h ▸ skipWs_length_le bs
    match parseValueS depthLimit (b :: r) with
    | .error e => ([], .err e)
    | .ok (v, ⟨rest, _hr⟩) =>
      if isSelfDelim b || endOk rest then
        let (ds, verdict) := sliceDocs rest
        (v :: ds, verdict)
      else ([], .err .trailingChars)
termination_by bs.length
decreasing_by omega

/-- The slice path of `json::transcode`: `str::from_utf8(&b)?` first. -/
def sliceLoop (bs : List Nat) : List JVal × Verdict :=
  if validUtf8 bs then sliceDocs bs else ([], .err .utf8)

/-- The reader path of `json::transcode`: `de.end()` skips whitespace and
succeeds only at end of input; otherwise one value is transcoded. -/
def readerLoop (bs : List Nat) : List JVal × Verdict :=
  match h : skipWs bs with
  | [] => ([], .ok)
  | b :: r =>
    have _hle : (b :: r).length ≤ bs.length := h ▸ skipWs_length_le bs
    match parseValueS depthLimit (b :: r) with
    | .error e => ([], .err e)
    | .ok (v, ⟨rest, _hr⟩) =>
      let (ds, verdict) := readerLoop rest
      (v :: ds, verdict)
termination_by bs.length
decreasing_by omega

/-- Known finding K1's input class: some top-level value that is not
self-delimited (does not start with `[`, `{` or `"`) is immediately followed by
a byte outside ␠ \n \t \r `"` `[` `]` `{` `}` `,` `:`. -/
def hasUnseparatedScalar (bs : List Nat) : Bool :=
  match h : skipWs bs with
  | [] => false
  | b :: r =>
    have _hle : (b :: r).length ≤ bs.length := h ▸ skipWs_length_le bs
    match parseValueS depthLimit (b :: r) with
    | .error _ => false
    | .ok (_, ⟨rest, _hr⟩) =>
      (!isSelfDelim b && !endOk rest) || hasUnseparatedScalar rest
termination_by bs.length
decreasing_by omega

/-! ## The detection trial (`json::input_matches`): `IgnoredAny` -/

/-- `ignore_integer` + `ignore_decimal` + `ignore_exponent`, after an optional
`-` has been eaten.  Same grammar as `lexNumber`, but no range check, and a
missing digit is `invalidNumber` even at end of input (`next_char_or_null`). -/
def ignoreNumber (bs : List Nat) : Except Err (List Nat) :=
  match bs with
  | [] => .error .invalidNumber
  | b :: rest =>
    let afterInt : Except Err (List Nat) :=
      if b = 0x30 then
        match rest with
        | c :: _ => if isDigit c then .error .invalidNumber else .ok rest
        | [] => .ok rest
      else if isDigit b then .ok (takeDigits rest).2
      else .error .invalidNumber
    match afterInt with
    | .error e => .error e
    | .ok r1 =>
      let exponent (r : List Nat) : Except Err (List Nat) :=
        -- `r` starts after the `e`
        match (expSign r).2 with
        | [] => .error .invalidNumber
        | c :: r3 => if isDigit c then .ok (takeDigits r3).2 else .error .invalidNumber
      match r1 with
      | [] => .ok []
      | c :: r =>
        if c = 0x2E then
          match takeDigits r with
          | ([], _) => .error .invalidNumber
          | (_ :: _, r2) =>
            match r2 with
            | [] => .ok []
            | e :: r3 => if e = 0x65 ∨ e = 0x45 then exponent r3 else .ok (e :: r3)
        else if c = 0x65 ∨ c = 0x45 then exponent r
        else .ok (c :: r)

/-- `ignore_escape` after the backslash: a `\u` escape only needs four hex
digits (surrogates are not checked). -/
def ignoreEscape : List Nat → Except Err (List Nat)
  | [] => .error .eofString
  | e :: rest =>
    if e = 0x22 ∨ e = 0x5C ∨ e = 0x2F ∨ e = 0x62 ∨ e = 0x66 ∨ e = 0x6E ∨ e = 0x72 ∨ e = 0x74 then .ok rest
    else if e = 0x75 then
      match hexEscape rest with
      | .ok (_, r) => .ok r
      | .error err => .error err
    else .error .invalidEscape

theorem ignoreEscape_length {bs rest : List Nat} (h : ignoreEscape bs = .ok rest) :
    rest.length < bs.length := by
  unfold ignoreEscape at h
  split at h
  · simp at h
  · split at h
    · simp at h; subst h; simp
    · split at h
      · split at h
        · rename_i n r hh
          simp at h; subst h
          have := hexEscape_length hh; simp; omega
        · simp at h
      · simp at h

/-- `ignore_str` after the opening quote: no UTF-8 validation (neither in
`SliceRead` nor in `IoRead`). -/
def ignoreStr (bs : List Nat) : Except Err (List Nat) :=
  match bs with
  | [] => .error .eofString
  | b :: rest =>
    if b = 0x22 then .ok rest
    else if b = 0x5C then
      match h : ignoreEscape rest with
      | .error e => .error e
      | .ok r =>
        have : r.length < (b :: rest).length := by
          have := ignoreEscape_length h; simp; omega
        ignoreStr r
    else if b < 0x20 then .error .controlChar
    else ignoreStr rest
termination_by bs.length

theorem ignoreStr_length : ∀ {bs rest : List Nat}, ignoreStr bs = .ok rest → rest.length < bs.length := by
  intro bs
  fun_induction ignoreStr bs <;> intro rest h
  case case2 => simp at h; subst h; simp
  case case4 rest0 r hesc _ hlt ih =>
    have := ih h; simp at *; omega
  case case6 b0 rest0 _ _ _ ih =>
    have := ih h; simp; omega
  all_goals simp at h

theorem ignoreNumber_length {bs rest : List Nat} (h : ignoreNumber bs = .ok rest) :
    rest.length < bs.length := by
  unfold ignoreNumber at h
  split at h
  · simp at h
  · rename_i b rest0
    simp only at h
    split at h
    · simp at h
    · rename_i r1 h1
      have hr1 : r1.length ≤ rest0.length := by
        split at h1
        · split at h1
          · split at h1 <;> simp at h1
            subst h1; simp
          · simp at h1; subst h1; simp
        · split at h1
          · simp at h1; subst h1; exact takeDigits_snd_le rest0
          · simp at h1
      have hexp : ∀ r out, (match (expSign r).2 with
          | [] => (.error .invalidNumber : Except Err (List Nat))
          | c :: r3 => if isDigit c then .ok (takeDigits r3).2 else .error .invalidNumber) = .ok out →
          out.length ≤ r.length := by
        intro r out ho
        have hs := expSign_length r
        split at ho
        · simp at ho
        · rename_i c r3 heq
          split at ho
          · simp at ho; subst ho
            have := takeDigits_snd_le r3
            rw [heq] at hs; simp at hs; omega
          · simp at ho
      split at h
      · simp at h; subst h; simp
      · rename_i c r
        split at h
        · split at h
          · simp at h
          · rename_i d ds r2 heq
            have h2 := takeDigits_snd_le r
            rw [heq] at h2
            split at h
            · simp at h; subst h; simp
            · rename_i e r3
              split at h
              · have := hexp _ _ h; simp at *; omega
              · simp at h; subst h; simp at *; omega
        · split at h
          · have := hexp _ _ h; simp at *; omega
          · simp at h; subst h; simp at *; omega

mutual
  /-- One turn of `ignore_value`'s outer loop: a value is expected; `stk` holds
  the open brackets (`scratch` + `enclosing`, innermost first).  Result: the
  input after the complete outermost value. -/
  def igValue (stk : List Nat) (bs : List Nat) : Except Err (List Nat) :=
    match h : skipWs bs with
    | [] => .error .eofValue
    | b :: r =>
      have hle : r.length < bs.length := by
        have := skipWs_length_le bs; rw [h] at this; simp only [List.length_cons] at this; omega
      -- a scalar is done: back to the enclosing bracket, or finished
      let done (r' : List Nat) (_ : r'.length ≤ r.length) : Except Err (List Nat) :=
        match stk with
        | [] => .ok r'
        | frame :: up => igAfter frame up r' true
      match classify b with
      | .n =>
        match hi : ident [0x75, 0x6C, 0x6C] r with
        | .error e => .error e
        | .ok r' => done r' (ident_length hi)
      | .t =>
        match hi : ident [0x72, 0x75, 0x65] r with
        | .error e => .error e
        | .ok r' => done r' (ident_length hi)
      | .f =>
        match hi : ident [0x61, 0x6C, 0x73, 0x65] r with
        | .error e => .error e
        | .ok r' => done r' (ident_length hi)
      | .minus =>
        match hn : ignoreNumber r with
        | .error e => .error e
        | .ok r' => done r' (Nat.le_of_lt (ignoreNumber_length hn))
      | .digit =>
        match hn : ignoreNumber (b :: r) with
        | .error e => .error e
        | .ok r' => done r' (by have := ignoreNumber_length hn; simp only [List.length_cons] at this; omega)
      | .quote =>
        match hs : ignoreStr r with
        | .error e => .error e
        | .ok r' => done r' (Nat.le_of_lt (ignoreStr_length hs))
      | .lbrack => igAfter 0x5B stk r false
      | .lbrace => igAfter 0x7B stk r false
      | .other => .error .expectedValue
  termination_by (bs.length, 0)
  decreasing_by
    all_goals simp_wf
    all_goals (apply Prod.Lex.left; omega)

  /-- `ignore_value`'s inner loop and what follows it, for the innermost open
  bracket `frame` (`up`: the brackets around it): closing brackets are eaten
  (popping), a `,` is eaten when
  one may stand here, then — inside an object — a key and its `:`; after that a
  value is expected. -/
  def igAfter (frame : Nat) (up : List Nat) (bs : List Nat) (acceptComma : Bool) :
      Except Err (List Nat) :=
    match h : skipWs bs with
    | [] => .error (if frame = 0x5B then .eofList else .eofObject)
    | c :: r =>
      have hle : r.length < bs.length := by
        have := skipWs_length_le bs; rw [h] at this; simp only [List.length_cons] at this; omega
      -- after the inner loop: the key of an object entry, then the value
      let next (bs' : List Nat) (_ : bs'.length ≤ r.length + 1) : Except Err (List Nat) :=
        if frame = 0x7B then
          match hk : skipWs bs' with
          | [] => .error .eofObject
          | q :: r1 =>
            have hlek : r1.length < bs'.length := by
              have := skipWs_length_le bs'; rw [hk] at this; simp only [List.length_cons] at this; omega
            if q ≠ 0x22 then .error .keyMustBeString else
            match hs : ignoreStr r1 with
            | .error e => .error e
            | .ok r2 =>
              have h2 : r2.length < r1.length := ignoreStr_length hs
              match hc : skipWs r2 with
              | [] => .error .eofObject
              | c3 :: r3 =>
                have hle3 : r3.length < r2.length := by
                  have := skipWs_length_le r2; rw [hc] at this; simp only [List.length_cons] at this; omega
                if c3 ≠ 0x3A then .error .expectedColon else igValue (frame :: up) r3
        else igValue (frame :: up) bs'
      if c = 0x2C ∧ acceptComma then next r (Nat.le_succ _)
      else if (c = 0x5D ∧ frame = 0x5B) ∨ (c = 0x7D ∧ frame = 0x7B) then
        match up with
        | [] => .ok r
        | frame' :: up' => igAfter frame' up' r true
      else if acceptComma then
        .error (if frame = 0x5B then .expectedListCommaOrEnd else .expectedObjectCommaOrEnd)
      else next (c :: r) (by simp)
  termination_by (bs.length, 1)
  decreasing_by
    all_goals simp_wf
    · apply Prod.Lex.left; omega
    · rename_i hb
      rcases Nat.lt_or_eq_of_le (show bs'.length ≤ bs.length by omega) with h' | h'
      · apply Prod.Lex.left; exact h'
      · rw [h']; apply Prod.Lex.right; omega
    · apply Prod.Lex.left; omega
end

/-- `ignore_value`: the input after the first value. -/
def ignoreValue (bs : List Nat) : Except Err (List Nat) := igValue [] bs

/-- `json::input_matches` on a reader: `IgnoredAny::deserialize` succeeded. -/
def trialReader (bs : List Nat) : Bool :=
  match ignoreValue bs with
  | .ok _ => true
  | .error _ => false

/-- `json::input_matches` on a slice: `str::from_utf8` first (not UTF-8 ⇒ no
match), then the same trial. -/
def trialSlice (bs : List Nat) : Bool := validUtf8 bs && trialReader bs

/-! ## Helpers for the driver and the property statements -/

mutual
  def hasFloat : JVal → Bool
    | .float _ => true
    | .arr xs => hasFloatList xs
    | .obj es => hasFloatEntries es
    | _ => false
  def hasFloatList : List JVal → Bool
    | [] => false
    | x :: xs => hasFloat x || hasFloatList xs
  def hasFloatEntries : List (List Nat × JVal) → Bool
    | [] => false
    | (_, v) :: es => hasFloat v || hasFloatEntries es
end

mutual
  /-- Number of enclosing arrays/objects of the most deeply nested value. -/
  def depthOf : JVal → Nat
    | .arr xs => depthOfList xs + 1
    | .obj es => depthOfEntries es + 1
    | _ => 0
  def depthOfList : List JVal → Nat
    | [] => 0
    | x :: xs => max (depthOf x) (depthOfList xs)
  def depthOfEntries : List (List Nat × JVal) → Nat
    | [] => 0
    | (_, v) :: es => max (depthOf v) (depthOfEntries es)
end

def allScalars (cps : List Nat) : Bool := cps.all isScalar

mutual
  /-- What the parser can produce without floats: integers within
  `−2^63 … 2^64−1`, strings and keys made of Unicode scalar values. -/
  def wellFormed : JVal → Bool
    | .null => true
    | .bool _ => true
    | .int i => decide (-9223372036854775808 ≤ i ∧ i ≤ 18446744073709551615)
    | .float _ => false
    | .str cps => allScalars cps
    | .arr xs => wellFormedList xs
    | .obj es => wellFormedEntries es
  def wellFormedList : List JVal → Bool
    | [] => true
    | x :: xs => wellFormed x && wellFormedList xs
  def wellFormedEntries : List (List Nat × JVal) → Bool
    | [] => true
    | (k, v) :: es => allScalars k && wellFormed v && wellFormedEntries es
end

end Xt.Json
