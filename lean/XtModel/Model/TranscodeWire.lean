import XtModel.Model.Wire
import XtModel.Model.ValuePath

/-
Line-protocol text for the `transcode` / `valuepath` engines (shared with
harness/src/engines/transcode.rs).

    tree    := S(<scalar>) | F(<tok>) | A(<tok>) | Q[<tree>,…]<close> | M{<tree>=<tree>,…}<close>
    close   := (nothing) | !<tok>
    scalar  := unit | bool:0 | bool:1 | i8:<int> … i128:<int> | u8:<nat> … u128:<nat>
             | f32:<hex bits> | f64:<hex bits> | char:<hex code point> | str:<hex|-> | bytes:<hex|->
    script  := never | at:<n>:<tok> | kind:<kind 0..10>:<k>:<tok>
    op log  := - | <op>,<op>,…   with  <scalar> [ e< e> ] { k< k> v< v> }
    errors  := d<tok> | custom(<msg, blanks as _>) | @<error>      (deserializer side)
               s<tok> | custom(<msg>)                              (serializer side)
-/
namespace Xt.TranscodeWire
open Xt.Serde Xt.Transcode Xt.ValuePath Xt.Wire

def spanUntil (stop : Char → Bool) : List Char → List Char × List Char
  | [] => ([], [])
  | c :: cs => if stop c then ([], c :: cs) else
    let (a, b) := spanUntil stop cs
    (c :: a, b)

def parseHexNat (s : String) : Option Nat :=
  if s.isEmpty then none else
  s.toList.foldlM (fun acc c => (hexDigit? c).map (acc * 16 + ·)) 0

def parseScalar (s : String) : Option Scalar :=
  match s.splitOn ":" with
  | ["unit"] => some .unit
  | ["bool", "0"] => some (.bool false)
  | ["bool", "1"] => some (.bool true)
  | ["i8", v] => v.toInt?.map .i8
  | ["i16", v] => v.toInt?.map .i16
  | ["i32", v] => v.toInt?.map .i32
  | ["i64", v] => v.toInt?.map .i64
  | ["i128", v] => v.toInt?.map .i128
  | ["u8", v] => v.toNat?.map .u8
  | ["u16", v] => v.toNat?.map .u16
  | ["u32", v] => v.toNat?.map .u32
  | ["u64", v] => v.toNat?.map .u64
  | ["u128", v] => v.toNat?.map .u128
  | ["f32", v] => (parseHexNat v).map .f32
  | ["f64", v] => (parseHexNat v).map .f64
  | ["char", v] => (parseHexNat v).map .char
  | ["str", v] => (parseHex v).map .str
  | ["bytes", v] => (parseHex v).map .bytes
  | _ => none

def parseClose (cs : List Char) : Option (Option Nat × List Char) :=
  match cs with
  | '!' :: rest =>
    let (ds, rest') := spanUntil (fun c => !c.isDigit) rest
    (String.ofList ds).toNat?.map fun n => (some n, rest')
  | _ => some (none, cs)

mutual
/-- Parser with fuel (the input length suffices). -/
def parseTree : Nat → List Char → Option (De × List Char)
  | 0, _ => none
  | fuel + 1, cs =>
    match cs with
    | 'S' :: '(' :: rest =>
      let (body, rest') := spanUntil (· == ')') rest
      match parseScalar (String.ofList body), rest' with
      | some sc, ')' :: rest'' => some (.scalar sc, rest'')
      | _, _ => none
    | 'F' :: '(' :: rest =>
      let (body, rest') := spanUntil (· == ')') rest
      match (String.ofList body).toNat?, rest' with
      | some n, ')' :: rest'' => some (.fail n, rest'')
      | _, _ => none
    | 'A' :: '(' :: rest =>
      let (body, rest') := spanUntil (· == ')') rest
      match (String.ofList body).toNat?, rest' with
      | some n, ')' :: rest'' => some (.afail n, rest'')
      | _, _ => none
    | 'Q' :: '[' :: ']' :: rest =>
      (parseClose rest).map fun (c, rest') => (.seq [] c, rest')
    | 'Q' :: '[' :: rest =>
      match parseElems fuel rest with
      | some (elems, rest') => (parseClose rest').map fun (c, rest'') => (.seq elems c, rest'')
      | none => none
    | 'M' :: '{' :: '}' :: rest =>
      (parseClose rest).map fun (c, rest') => (.map [] c, rest')
    | 'M' :: '{' :: rest =>
      match parseEntries fuel rest with
      | some (entries, rest') => (parseClose rest').map fun (c, rest'') => (.map entries c, rest'')
      | none => none
    | _ => none
/-- One or more trees separated by `,`, up to and including the closing `]`. -/
def parseElems : Nat → List Char → Option (List De × List Char)
  | 0, _ => none
  | fuel + 1, cs =>
    match parseTree fuel cs with
    | some (e, ',' :: rest) =>
      (parseElems fuel rest).map fun (es, rest') => (e :: es, rest')
    | some (e, ']' :: rest) => some ([e], rest)
    | _ => none
def parseEntries : Nat → List Char → Option (List (De × De) × List Char)
  | 0, _ => none
  | fuel + 1, cs =>
    match parseTree fuel cs with
    | some (k, '=' :: rest) =>
      match parseTree fuel rest with
      | some (v, ',' :: rest') =>
        (parseEntries fuel rest').map fun (es, rest'') => ((k, v) :: es, rest'')
      | some (v, '}' :: rest') => some ([(k, v)], rest')
      | _ => none
    | _ => none
end

def parseDe (s : String) : Option De :=
  match parseTree (s.length + 1) s.toList with
  | some (d, []) => some d
  | _ => none

def parseScript (s : String) : Option Script :=
  match s.splitOn ":" with
  | ["never"] => some {}
  | ["at", n, tok] =>
    match n.toNat?, tok.toNat? with
    | some n, some tok => some { failAt := some n, tok := tok }
    | _, _ => none
  | ["kind", kind, k, tok] =>
    match kind.toNat?, k.toNat?, tok.toNat? with
    | some kind, some k, some tok => some { failKind := some (kind, k), tok := tok }
    | _, _, _ => none
  | _ => none

def hexOrDash (bs : List Nat) : String := toHex bs

def showScalar : Scalar → String
  | .unit => "unit"
  | .bool b => if b then "bool:1" else "bool:0"
  | .i8 v => s!"i8:{v}" | .i16 v => s!"i16:{v}" | .i32 v => s!"i32:{v}"
  | .i64 v => s!"i64:{v}" | .i128 v => s!"i128:{v}"
  | .u8 v => s!"u8:{v}" | .u16 v => s!"u16:{v}" | .u32 v => s!"u32:{v}"
  | .u64 v => s!"u64:{v}" | .u128 v => s!"u128:{v}"
  | .f32 b => "f32:" ++ natToHex b
  | .f64 b => "f64:" ++ natToHex b
  | .char c => "char:" ++ natToHex c
  | .str bs => "str:" ++ toHex bs
  | .bytes bs => "bytes:" ++ toHex bs

def showOp : Op → String
  | .scalar sc => showScalar sc
  | .seqBegin => "[" | .elemPre => "e<" | .elemPost => "e>" | .seqEnd => "]"
  | .mapBegin => "{" | .keyPre => "k<" | .keyPost => "k>" | .valPre => "v<" | .valPost => "v>"
  | .mapEnd => "}"

def showOps (ops : List Op) : String :=
  if ops.isEmpty then "-" else ",".intercalate (ops.map showOp)

/-- `Display` of the harness's deserializer error type. -/
def showDErr : DErr → String
  | .own n => s!"d{n}"
  | .custom m => "custom(" ++ m ++ ")"
  | .wrap e => "@" ++ showDErr e

/-- `Display` of the harness's serializer error type. -/
def showSErr : SErr → String
  | .own n => s!"s{n}"
  | .custom m => "custom(" ++ m ++ ")"

def noBlanks (s : String) : String := s.map fun c => if c == ' ' then '_' else c

def showSite : Site → String
  | .parentTaken => "parent already taken from this state"
  | .unwrapNone => "called `Option::unwrap()` on a `None` value"

def showResult : Result → String
  | .ok => "ok"
  | .errDe d => "de:" ++ showDErr d
  | .errSer s d => "ser:" ++ showSErr s ++ "|" ++ showDErr d
  | .panic p => "panic:" ++ showSite p

def showVResult : VResult → String
  | .ok => "ok"
  | .errDe d => "de:" ++ showDErr d
  | .errSer s => "ser:" ++ showSErr s

/-- Engine `transcode <tree> <script>` ⇒ `<result> <op log> disp=<Display text>`. -/
def runTranscode (tree script : String) : String :=
  match parseDe tree, parseScript script with
  | some d, some sc =>
    let (r, ops) := transcode sc.step DErr.wrap d ({} : SerSt)
    let disp := display showSErr showDErr r
    noBlanks (showResult r) ++ " " ++ showOps ops ++ " disp=" ++
      (if disp.isEmpty then "-" else noBlanks disp)
  | _, _ => "bad-case"

/-- Engine `valuepath <tree> <script>` ⇒ `<result> <op log>`. -/
def runValuePath (tree script : String) : String :=
  match parseDe tree, parseScript script with
  | some d, some sc =>
    let (r, ops) := valuePath sc.step DErr.wrap d ({} : SerSt)
    noBlanks (showVResult r) ++ " " ++ showOps ops
  | _, _ => "bad-case"

end Xt.TranscodeWire
