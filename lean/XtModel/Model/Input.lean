/-
Model of /repo/src/input.rs: the rewindable input handle that format detection
relies on (`CaptureReader`, `GuardedCaptureReader`, `Handle`, `Ref`,
`FusedReader`, `Input`, `Cow`), over a byte `Source` with a read schedule and
an optional persistent fault (the harness's `SchedReader`), and the program
interpreter that mirrors `xt::verif::handle_program`.

Bytes, lengths and positions are plain `Nat`s.  Import-free so that the native
driver links.

std adaptors are modelled by their documented contract:
* `Cursor<Vec<u8>>` read / read_exact / write_all / set_position,
* `Take::read` (returns 0 without touching the inner reader once the limit is
  0; never asks the inner reader for more than the limit),
* `Read::read_to_end` (calls `read` until it returns 0 or an error other than
  `Interrupted`; every byte read before an error stays appended to the vector),
* `Chain::read`.
`read_to_end` chooses its own buffer sizes (a 32-byte probe, then the vector's
spare capacity).  The model asks the source for everything that is still
wanted, so only the source's own per-read cap limits a read.  The two coincide
whenever std's buffer is at least `min cap available` — always for inputs of
at most 8 bytes (a non-empty `Vec<u8>` has capacity ≥ 8), for an uncapped
source and for a source with one constant cap; the correspondence run stays in
that regime for programs that contain `prefix` / `Cow` steps.  The theorems do
not depend on it: they hold for every schedule.
-/
namespace Xt.Input

/-! ## The byte source (`SchedReader` in harness/src/util.rs) -/

/-- A reader over in-memory data.  `data` is what has not been delivered yet,
`pos` the number of bytes delivered.  Each `read` with a non-empty buffer
consumes the next entry of `caps` (entries below 1 count as 1); an exhausted
schedule means uncapped, unless `cycle` is non-empty, in which case the schedule
restarts from `cycle`.  `failAt = some k`: once `k` bytes have been delivered
every further `read` with a non-empty buffer fails (persistent fault). -/
structure Source where
  data : List Nat
  pos : Nat
  caps : List Nat
  cycle : List Nat
  failAt : Option Nat
  deriving Repr

/-- The result of one `Read::read` call on the source. -/
inductive Rd where
  | ok (bs : List Nat)
  | err
  deriving Repr, DecidableEq

def Source.new (data caps : List Nat) (cyclic : Bool) (failAt : Option Nat) : Source :=
  { data := data, pos := 0, caps := caps, cycle := if cyclic then caps else [], failAt := failAt }

/-- The cap that applies to a read of `n` bytes, and the schedule afterwards. -/
def Source.nextCap (s : Source) (n : Nat) : Nat × List Nat :=
  match s.caps with
  | [] => (n, [])
  | c :: cs => (min n (max c 1), if cs.isEmpty then s.cycle else cs)

/-- The source has reached its fault offset. -/
def Source.faulted (s : Source) : Bool :=
  match s.failAt with
  | some k => decide (k ≤ s.pos)
  | none => false

/-- Bytes the source can still deliver before end of input or the fault. -/
def Source.avail (s : Source) : Nat :=
  match s.failAt with
  | some k => min s.data.length (k - s.pos)
  | none => s.data.length

/-- `SchedReader::read` with a buffer of `n` bytes. -/
def Source.read (s : Source) (n : Nat) : Rd × Source :=
  if n = 0 then (.ok [], s) else
  let cc := s.nextCap n
  if s.faulted then (.err, { s with caps := cc.2 })
  else
    let m := min cc.1 s.avail
    (.ok (s.data.take m), { s with data := s.data.drop m, pos := s.pos + m, caps := cc.2 })

/-! ## Outcomes -/

/-- The panic sites of `CaptureReader` (input.rs). -/
inductive Site where
  /-- `self.prefix.get_ref().len() - offset` in `captured_unread_size` -/
  | unreadSub
  /-- `&mut buf[..prefix_size]` in `read` -/
  | bufPrefix
  /-- `&mut buf[prefix_size..]` in `read` -/
  | bufRest
  /-- `&buf[..source_size]` in `read` -/
  | bufSource
  deriving Repr, DecidableEq

/-- Where an `io::Error` came from. -/
inductive IoE where
  /-- the source's `read` returned it -/
  | source
  /-- `Cursor::read_exact` on the captured prefix ran short (`UnexpectedEof`) -/
  | cursorEof
  deriving Repr, DecidableEq

inductive Res (α : Type) where
  | ok (a : α)
  | err (e : IoE)
  | panic (s : Site)
  deriving Repr

/-! ## `CaptureReader` -/

/-- `CaptureReader<R>`: `pre` and `pos` are the `Cursor<Vec<u8>>` (captured
bytes and replay position), `src` the source, `eof` is `source_eof`. -/
structure Cap where
  pre : List Nat
  pos : Nat
  src : Source
  eof : Bool
  deriving Repr

/-- `CaptureReader::new`. -/
def Cap.new (s : Source) : Cap := { pre := [], pos := 0, src := s, eof := false }

/-- `captured_unread_size`: `len - offset`, unchecked. -/
def Cap.unread (c : Cap) : Option Nat :=
  if c.pos ≤ c.pre.length then some (c.pre.length - c.pos) else none

/-- `rewind`: `self.prefix.set_position(0)`. -/
def Cap.rewind (c : Cap) : Cap := { c with pos := 0 }

/-- `Cursor<Vec<u8>>::write_all(bs)` at position `pos`: nothing for an empty
`bs`; otherwise pad with zeros up to `pos`, overwrite / extend, advance. -/
def cursorWrite (vec : List Nat) (pos : Nat) (bs : List Nat) : List Nat × Nat :=
  if bs.isEmpty then (vec, pos) else
  let vec := if vec.length < pos then vec ++ List.replicate (pos - vec.length) 0 else vec
  (vec.take pos ++ bs ++ vec.drop (pos + bs.length), pos + bs.length)

/-- `impl Read for CaptureReader`: `read` with a buffer of `n` bytes. -/
def Cap.read (c : Cap) (n : Nat) : Res (List Nat) × Cap :=
  match c.unread with
  | none => (.panic .unreadSub, c)
  | some unread =>
    let k := min n unread                                   -- prefix_size
    if n < k then (.panic .bufPrefix, c) else               -- &mut buf[..prefix_size]
    -- self.prefix.read_exact(..)?
    if c.pre.length - c.pos < k then (.err .cursorEof, { c with pos := c.pre.length }) else
    let out1 := (c.pre.drop c.pos).take k
    let c1 : Cap := { c with pos := c.pos + k }
    match c1.unread with
    | none => (.panic .unreadSub, c1)
    | some unread2 =>
      if 0 < unread2 ∨ k = n then (.ok out1, c1) else
      if n < k then (.panic .bufRest, c1) else              -- &mut buf[prefix_size..]
      match c1.src.read (n - k) with
      | (.err, s') => (.err .source, { c1 with src := s' })
      | (.ok bs, s') =>
        if n - k < bs.length then (.panic .bufSource, { c1 with src := s' }) else  -- &buf[..source_size]
        let w := cursorWrite c1.pre c1.pos bs               -- self.prefix.write_all(..)?
        (.ok (out1 ++ bs), { pre := w.1, pos := w.2, src := s', eof := bs.isEmpty })

/-- What `Take { inner, limit }.read_to_end(vec)` did. -/
structure TakeRes where
  /-- bytes appended to the vector (also when an error follows) -/
  bytes : List Nat
  /-- the inner reader returned an error -/
  failed : Bool
  /-- `take.limit()` afterwards -/
  limit : Nat
  src : Source
  deriving Repr

/-- `self.source.by_ref().take(limit).read_to_end(vec)`. -/
def takeReadToEnd (s : Source) (limit : Nat) : TakeRes :=
  if limit = 0 then { bytes := [], failed := false, limit := 0, src := s }   -- Take::read ⇒ Ok(0)
  else
    match s.read limit with
    | (.err, s') => { bytes := [], failed := true, limit := limit, src := s' }
    | (.ok [], s') => { bytes := [], failed := false, limit := limit, src := s' }
    | (.ok (b :: bs), s') =>
      let r := takeReadToEnd s' (limit - (bs.length + 1))
      { r with bytes := b :: bs ++ r.bytes }
termination_by limit
decreasing_by omega

/-- `capture_up_to_size(size)`. -/
def Cap.captureUpToSize (c : Cap) (size : Nat) : Res Unit × Cap :=
  let needed := size - c.pre.length                          -- saturating_sub
  if needed = 0 then (.ok (), c) else
  let r := takeReadToEnd c.src needed
  let c' : Cap := { c with pre := c.pre ++ r.bytes, src := r.src }
  if r.failed then (.err .source, c')                        -- `?`
  else if 0 < r.limit then (.ok (), { c' with eof := true })
  else (.ok (), c')

theorem Source.read_len (s s' : Source) (n : Nat) (bs : List Nat) (h : s.read n = (.ok bs, s')) :
    s'.data.length + bs.length = s.data.length := by
  unfold Source.read at h
  split at h
  · simp at h; obtain ⟨rfl, rfl⟩ := h; simp
  · split at h
    · simp at h
    · simp only [Prod.mk.injEq, Rd.ok.injEq] at h
      obtain ⟨rfl, rfl⟩ := h
      simp only [List.length_drop, List.length_take]
      have : min (s.nextCap n).1 s.avail ≤ s.data.length := by
        have : s.avail ≤ s.data.length := by
          unfold Source.avail; split <;> omega
        omega
      omega

/-- What `source.read_to_end(vec)` did. -/
structure EndRes where
  bytes : List Nat
  failed : Bool
  src : Source
  deriving Repr

/-- `self.source.read_to_end(vec)`: the model asks for more than is left, so
that only the source's cap limits each read. -/
def readToEnd (s : Source) : EndRes :=
  match _h : s.read (s.data.length + 1) with
  | (.err, s') => { bytes := [], failed := true, src := s' }
  | (.ok [], s') => { bytes := [], failed := false, src := s' }
  | (.ok (b :: bs), s') =>
    let r := readToEnd s'
    { r with bytes := b :: bs ++ r.bytes }
termination_by s.data.length
decreasing_by
  have := Source.read_len s s' _ _ _h
  simp at this
  omega

/-- `capture_to_end`. -/
def Cap.captureToEnd (c : Cap) : Res Unit × Cap :=
  if c.eof then (.ok (), c) else
  let r := readToEnd c.src
  let c' : Cap := { c with pre := c.pre ++ r.bytes, src := r.src }
  if r.failed then (.err .source, c') else (.ok (), { c' with eof := true })

/-! ## `Handle`, `Ref`, `Input`, `Cow` -/

/-- `Handle` / `Source` in input.rs (the `GuardedCaptureReader` wrapper only
forces the rewind, which `borrow` / `Input.ofHandle` / `Cow.ofHandle` do). -/
inductive Handle where
  | slice (bs : List Nat)
  | reader (c : Cap)
  deriving Repr

def Handle.fromReader (s : Source) : Handle := .reader (Cap.new s)

/-- Which kind of `Ref` is live. -/
inductive RefK where
  | none | slice | reader
  deriving Repr, DecidableEq

/-- `Handle::borrow_mut`: rewinds; a fully buffered reader is viewed as a slice. -/
def Handle.borrow : Handle → RefK × Handle
  | .slice bs => (.slice, .slice bs)
  | .reader c =>
    let c := c.rewind
    (if c.eof then .slice else .reader, .reader c)

/-- The content of a slice reference. -/
def Handle.sliceView : Handle → List Nat
  | .slice bs => bs
  | .reader c => c.pre

/-- `FusedReader::new(cursor).chain(source)` (`fused = none`: the cursor has
been dropped) or the bare source. -/
inductive InReader where
  | bare (s : Source)
  | chain (fused : Option (List Nat × Nat)) (doneFirst : Bool) (s : Source)
  deriving Repr

inductive Input where
  | slice (bs : List Nat)
  | reader (r : InReader)
  deriving Repr

/-- `impl From<Handle> for Input`. -/
def Input.ofHandle : Handle → Input
  | .slice bs => .slice bs
  | .reader c =>
    let c := c.rewind
    if c.eof then .slice c.pre
    else if c.pre.isEmpty then .reader (.bare c.src)
    else .reader (.chain (some (c.pre, c.pos)) false c.src)

/-- `Read::read` on the reader of an `Input` with a buffer of `n` bytes:
`Chain::read` over `FusedReader<Cursor<Vec<u8>>>` and the source. -/
def InReader.read : InReader → Nat → Rd × InReader
  | .bare s, n => let r := s.read n; (r.1, .bare r.2)
  | .chain fused true s, n => let r := s.read n; (r.1, .chain fused true r.2)
  | .chain none false s, n =>
    -- FusedReader(None) ⇒ Ok(0); Chain: `0 if !buf.is_empty() => done_first = true`
    if n = 0 then (.ok [], .chain none false s)
    else let r := s.read n; (r.1, .chain none true r.2)
  | .chain (some (vec, pos)) false s, n =>
    let k := min n (vec.length - pos)                        -- Cursor::read
    if k = 0 ∧ n ≠ 0 then
      -- FusedReader drops the cursor, Chain moves on to the source
      let r := s.read n; (r.1, .chain none true r.2)
    else (.ok ((vec.drop pos).take k), .chain (some (vec, pos + k)) false s)

/-- Bytes an `Input` reader can still produce. -/
def InReader.remaining : InReader → Nat
  | .bare s => s.data.length
  | .chain (some (vec, pos)) false s => (vec.length - pos) + s.data.length
  | .chain _ _ s => s.data.length

theorem Source.read_len' (s : Source) (n : Nat) (bs : List Nat) (h : (s.read n).1 = .ok bs) :
    (s.read n).2.data.length + bs.length = s.data.length :=
  Source.read_len s (s.read n).2 n bs (by rw [← h])

theorem InReader.read_remaining (r r' : InReader) (n : Nat) (bs : List Nat)
    (h : r.read n = (.ok bs, r')) : r'.remaining + bs.length = r.remaining := by
  unfold InReader.read at h
  split at h
  · simp only [Prod.mk.injEq] at h
    obtain ⟨h1, rfl⟩ := h
    simpa [InReader.remaining] using Source.read_len' _ _ _ h1
  · simp only [Prod.mk.injEq] at h
    obtain ⟨h1, rfl⟩ := h
    simpa [InReader.remaining] using Source.read_len' _ _ _ h1
  · split at h
    · simp only [Prod.mk.injEq, Rd.ok.injEq] at h
      obtain ⟨rfl, rfl⟩ := h
      simp [InReader.remaining]
    · simp only [Prod.mk.injEq] at h
      obtain ⟨h1, rfl⟩ := h
      simpa [InReader.remaining] using Source.read_len' _ _ _ h1
  · dsimp only at h
    split at h
    · rename_i hk
      simp only [Prod.mk.injEq] at h
      obtain ⟨h1, rfl⟩ := h
      have := Source.read_len' _ _ _ h1
      simp only [InReader.remaining]
      omega
    · simp only [Prod.mk.injEq, Rd.ok.injEq] at h
      obtain ⟨rfl, rfl⟩ := h
      simp only [InReader.remaining, List.length_take, List.length_drop]
      omega

/-- What reading an `Input` reader to its end produced. -/
structure DrainRes where
  bytes : List Nat
  failed : Bool
  rdr : InReader
  deriving Repr

/-- The drain loop of `handle_program` / `detect_reader_then_drain`: `read`
with a buffer of `b` bytes until `Ok(0)` or an error. -/
def drain (r : InReader) (b : Nat) : DrainRes :=
  match _h : r.read b with
  | (.err, r') => { bytes := [], failed := true, rdr := r' }
  | (.ok [], r') => { bytes := [], failed := false, rdr := r' }
  | (.ok (x :: xs), r') =>
    let d := drain r' b
    { d with bytes := x :: xs ++ d.bytes }
termination_by r.remaining
decreasing_by
  have := InReader.read_remaining r r' _ _ _h
  simp at this
  omega

/-- `impl TryFrom<Handle> for Cow<[u8]>`. -/
def Cow.ofHandle : Handle → Res (List Nat)
  | .slice bs => .ok bs
  | .reader c =>
    match c.rewind.captureToEnd with
    | (.ok (), c') => .ok c'.pre
    | (.err e, _) => .err e
    | (.panic s, _) => .panic s

/-! ## Programs (`HandleOp`, `HandleObs`, `handle_program` in /repo/src/verif.rs) -/

inductive Op where
  | borrow
  | read (n : Nat)
  | prefix (n : Nat)
  | intoInput (drainBuf : Nat)
  | intoCow
  deriving Repr, DecidableEq

/-- Which step an error observation belongs to (all print as `e`). -/
inductive ErrAt where
  | read | prefix | input | cow
  deriving Repr, DecidableEq

inductive Obs where
  | refSlice (bs : List Nat)
  | refReader
  | read (bs : List Nat)
  | prefix (bs : List Nat)
  | inputSlice (bs : List Nat)
  | inputReader (bs : List Nat)
  | cow (bs : List Nat)
  | err (at_ : ErrAt) (e : IoE)
  | skipped
  | panic (s : Site)
  deriving Repr, DecidableEq

/-- Program state: the handle and the kind of the live reference. -/
structure St where
  h : Handle
  ref : RefK
  deriving Repr

def St.init (s : Source) : St := { h := Handle.fromReader s, ref := .none }

/-- `Ref::prefix(n)` through the live reference. -/
def St.prefix (st : St) (n : Nat) : Obs × St :=
  match st.ref, st.h with
  | .none, _ => (.skipped, st)
  | .slice, h => (.prefix h.sliceView, st)
  | .reader, .slice bs => (.prefix bs, st)       -- not reachable: a slice handle never yields a reader ref
  | .reader, .reader c =>
    match c.captureUpToSize n with
    | (.ok (), c') => (.prefix c'.pre, { st with h := .reader c' })
    | (.err e, c') => (.err .prefix e, { st with h := .reader c' })
    | (.panic s, c') => (.panic s, { st with h := .reader c' })

/-- `read` with a buffer of `n` bytes through the live reference. -/
def St.read (st : St) (n : Nat) : Obs × St :=
  match st.ref, st.h with
  | .reader, .reader c =>
    match c.read n with
    | (.ok bs, c') => (.read bs, { st with h := .reader c' })
    | (.err e, c') => (.err .read e, { st with h := .reader c' })
    | (.panic s, c') => (.panic s, { st with h := .reader c' })
  | _, _ => (.skipped, st)

/-- The observation of `IntoInput(drain_buf)`. -/
def intoInputObs (h : Handle) (drainBuf : Nat) : Obs :=
  match Input.ofHandle h with
  | .slice bs => .inputSlice bs
  | .reader r =>
    let d := drain r (max drainBuf 1)
    if d.failed then .err .input .source else .inputReader d.bytes

/-- The observation of `IntoCow`. -/
def intoCowObs (h : Handle) : Obs :=
  match Cow.ofHandle h with
  | .ok bs => .cow bs
  | .err e => .err .cow e
  | .panic s => .panic s

/-- `handle_program` from a given state: the list of observations. -/
def run (st : St) : List Op → List Obs
  | [] => []
  | .borrow :: ops =>
    let b := st.h.borrow
    (match b.1 with
      | .slice => .refSlice b.2.sliceView
      | _ => .refReader) :: run { h := b.2, ref := b.1 } ops
  | .read n :: ops => let r := st.read n; r.1 :: run r.2 ops
  | .prefix n :: ops => let r := st.prefix n; r.1 :: run r.2 ops
  | .intoInput b :: _ => [intoInputObs st.h b]
  | .intoCow :: _ => [intoCowObs st.h]

/-- `handle_program(reader, ops)`. -/
def handleProgram (s : Source) (ops : List Op) : List Obs := run (St.init s) ops

end Xt.Input
