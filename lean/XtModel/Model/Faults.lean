/-
Model of the writers the fault properties quantify over, and of
`std::io::Write::write_all` (the loop every serializer xt uses goes through:
`serde_json`, `rmp`, `serde_yaml` and `toml.rs` all call `write_all`).
Import-free.
-/
namespace Xt.Faults

/-- A writer that accepts data only in short pieces (the next entries of
`pieces`, each used as `max 1`; exhausted ⇒ everything offered) and, when
`limit = some k`, accepts `k` bytes in total and fails persistently from then
on — harness `FaultWriter`. -/
structure W where
  accepted : List Nat
  limit : Option Nat
  pieces : List Nat
  deriving Repr

inductive WErr where
  /-- the injected persistent fault -/
  | fault
  /-- `ErrorKind::WriteZero` ("failed to write whole buffer") -/
  | writeZero
  deriving Repr, DecidableEq

/-- How many of `n` offered bytes the writer is willing to take in one call. -/
def W.cap (w : W) (n : Nat) : Nat :=
  match w.pieces with
  | [] => n
  | p :: _ => min n (max p 1)

/-- `Write::write(buf)` for a non-empty `buf`: number of bytes accepted. -/
def W.write (w : W) (buf : List Nat) : Except WErr Nat × W :=
  let cap := w.cap buf.length
  let pieces' := w.pieces.drop 1
  match w.limit with
  | none => (.ok cap, { w with accepted := w.accepted ++ buf.take cap, pieces := pieces' })
  | some k =>
    if k ≤ w.accepted.length then (.error .fault, w)
    else
      let n := min cap (k - w.accepted.length)
      (.ok n, { w with accepted := w.accepted ++ buf.take n, pieces := pieces' })

/-- `Write::write_all(buf)`: loop until the whole buffer is accepted; a write
of 0 bytes is `WriteZero`; an error ends it (what was accepted stays accepted). -/
def writeAll (w : W) (buf : List Nat) : Except WErr Unit × W :=
  match buf with
  | [] => (.ok (), w)
  | b :: bs =>
    match hw : w.write (b :: bs) with
    | (.error e, w') => (.error e, w')
    | (.ok 0, w') => (.error .writeZero, w')
    | (.ok (n + 1), w') => writeAll w' ((b :: bs).drop (n + 1))
termination_by buf.length
decreasing_by simp; omega

/-- A serializer's output as the sequence of `write_all` calls it makes; it
stops at the first error. -/
def writeAlls (w : W) : List (List Nat) → Except WErr Unit × W
  | [] => (.ok (), w)
  | p :: ps =>
    match writeAll w p with
    | (.ok (), w') => writeAlls w' ps
    | (.error e, w') => (.error e, w')

end Xt.Faults
