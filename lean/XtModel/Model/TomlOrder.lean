/-
Model of the only reordering a TOML target may perform, and of the one the
`toml` crate actually performs (`impl Serialize for toml::Value`, `Value::Table`
arm: three passes over the entries) as driven by xt's `toml::Output`.
Import-free.
-/
namespace Xt.TomlOrder

/-- A TOML value, reduced to what ordering depends on. Keys are opaque tokens. -/
inductive TV where
  | scalar (tag : Nat)
  | arr (xs : List TV)
  | tbl (es : List (Nat × TV))
  deriving Repr, Inhabited

def isTbl : TV → Bool
  | .tbl _ => true
  | _ => false

/-- A non-empty array all of whose elements are tables (`[[header]]` form). -/
def isAot : TV → Bool
  | .arr xs => !xs.isEmpty && xs.all isTbl
  | _ => false

/-- An array containing at least one table. -/
def hasTbl : TV → Bool
  | .arr xs => xs.any isTbl
  | _ => false

/-- "Table entry" in the sense of the property: a table or an array of tables. -/
def tableLike (v : TV) : Bool := isTbl v || isAot v

mutual
  /-- The permitted reordering (two groups): in every table, non-table entries
  first, then table entries, each group in input order. -/
  def reorder : TV → TV
    | .scalar t => .scalar t
    | .arr xs => .arr (reorderList xs)
    | .tbl es =>
      let es' := reorderEntries es
      .tbl (es'.filter (fun e => !tableLike e.2) ++ es'.filter (fun e => tableLike e.2))
  def reorderList : List TV → List TV
    | [] => []
    | x :: xs => reorder x :: reorderList xs
  def reorderEntries : List (Nat × TV) → List (Nat × TV)
    | [] => []
    | (k, v) :: es => (k, reorder v) :: reorderEntries es
end

/-- toml_edit's document layout of a sectioned table: key/value lines first,
then `[table]` / `[[array of tables]]` sections, each in the order received. -/
def part (l : List (Nat × TV)) : List (Nat × TV) :=
  l.filter (fun e => !tableLike e.2) ++ l.filter (fun e => tableLike e.2)

/-- `impl Serialize for toml::Value`, `Value::Table` arm: three passes —
(1) neither a table nor an array containing a table, (2) arrays containing a
table, (3) tables — each in input order. -/
def part3 (l : List (Nat × TV)) : List (Nat × TV) :=
  l.filter (fun e => !isTbl e.2 && !hasTbl e.2) ++ l.filter (fun e => hasTbl e.2) ++
    l.filter (fun e => isTbl e.2)

mutual
  /-- A value written inline (inside an array that is not an array of tables):
  every table below it is an inline table, ordered by the three passes only. -/
  def wInline : TV → TV
    | .scalar t => .scalar t
    | .arr xs => .arr (wInlineList xs)
    | .tbl es => .tbl (part3 (wInlineEntries es))
  def wInlineList : List TV → List TV
    | [] => []
    | x :: xs => wInline x :: wInlineList xs
  def wInlineEntries : List (Nat × TV) → List (Nat × TV)
    | [] => []
    | (k, v) :: es => (k, wInline v) :: wInlineEntries es
end

mutual
  /-- The value of an entry of a sectioned table (or an element of an array of
  tables): a table becomes a `[section]` — three passes by the serializer, then
  toml_edit's key/values-before-sections layout; an array of tables becomes
  `[[sections]]`; any other array is written inline. -/
  def wSection : TV → TV
    | .scalar t => .scalar t
    | .arr xs => if isAot (.arr xs) then .arr (wSectionList xs) else .arr (wInlineList xs)
    | .tbl es => .tbl (part (part3 (wSectionEntries es)))
  def wSectionList : List TV → List TV
    | [] => []
    | x :: xs => wSection x :: wSectionList xs
  def wSectionEntries : List (Nat × TV) → List (Nat × TV)
    | [] => []
    | (k, v) :: es => (k, wSection v) :: wSectionEntries es
end

/-- The document xt writes for a root table (`toml::to_string_pretty(&Table)`):
the root map is serialized in input order and laid out by toml_edit; everything
below it goes through `wSection`. -/
def written : TV → TV
  | .tbl es => .tbl (part (wSectionEntries es))
  | v => v

end Xt.TomlOrder
