/-
The part of the serde data model that xt's transcoder sees (layer L1).

* `Scalar` — one constructor per `visit_*` / `serialize_*` pair the transcoder
  forwards (src/transcode/stream.rs, the `xt_transcode_impl_scalar_visitors!`
  table).  The constructor records the *width* serde used, so `u8 5` and
  `i64 5` are different scalars: forwarding to the wrong `serialize_*` is
  observable.  Floats are bit patterns, characters are code points, strings
  and byte strings are byte lists.
* `De` — the tree of what a `serde::Deserializer` does when it is driven
  through `deserialize_any`, including every point where it can fail.
* `Op` — the primitive calls a `serde::Serializer` (and its `SerializeSeq` /
  `SerializeMap`) receives.
* `DErr` / `SErr` — error values of the two sides.  Both serde error traits can
  be constructed from a message only (`custom`), which is what the transcoder
  does with its synthetic "translation failed" error.
* `Script` — a scripted serializer failing at a chosen op.

Import-free, so that the native driver links.
-/
namespace Xt.Serde

inductive Scalar where
  | unit
  | bool (b : Bool)
  | i8 (v : Int) | i16 (v : Int) | i32 (v : Int) | i64 (v : Int) | i128 (v : Int)
  | u8 (v : Nat) | u16 (v : Nat) | u32 (v : Nat) | u64 (v : Nat) | u128 (v : Nat)
  /-- `f32` as its 32-bit pattern -/
  | f32 (bits : Nat)
  /-- `f64` as its 64-bit pattern -/
  | f64 (bits : Nat)
  /-- `char` as its code point -/
  | char (c : Nat)
  /-- `&str` as UTF-8 bytes -/
  | str (utf8 : List Nat)
  | bytes (bs : List Nat)
  deriving DecidableEq, Repr, Inhabited

/-- `TRANSLATION_FAILED` in src/transcode/stream.rs: the message of the
synthetic errors the transcoder creates to unwind through the other side. -/
def translationFailed : String := "translation failed"

/-- A deserializer error value (`D::Error`). -/
inductive DErr where
  /-- an error the deserializer produced itself (syntax error, I/O error …),
  identified by a token -/
  | own (tok : Nat)
  /-- `de::Error::custom(msg)`: constructed by the deserializer's *client* -/
  | custom (msg : String)
  /-- a decoration added by the deserializer to an error passing back through
  one of its `deserialize_any` frames (serde_json's `fix_position`,
  serde_yaml's path).  The model is parametric in the decoration; this
  constructor is the one the driver and the harness use. -/
  | wrap (e : DErr)
  deriving DecidableEq, Repr, Inhabited

/-- A serializer error value (`S::Error`). -/
inductive SErr where
  /-- an error the serializer produced itself (unsupported value, write error) -/
  | own (tok : Nat)
  /-- `ser::Error::custom(msg)` -/
  | custom (msg : String)
  deriving DecidableEq, Repr, Inhabited

/--
What a deserializer does when `deserialize_any(visitor)` is called on it.

* `scalar s` — calls `visitor.visit_<s>(v)` and returns what the visitor
  returned (an error decorated).
* `fail e` — returns `Err(own e)` without calling the visitor.
* `seq elems close` — calls `visitor.visit_seq(access)`.  `access` hands out
  `elems` in order through `next_element_seed`: for an element `afail e` the
  call returns `Err(own e)` *without calling the seed* (a failure between
  elements, or where the end of the sequence should have been); for any other
  element it calls `seed.deserialize(element)` once and returns its result;
  after the last element it returns `Ok(None)`.  When the visitor has returned
  `Ok`, `close = some e` makes `deserialize_any` return `Err(own e)` all the
  same (a failure after the collection, e.g. serde_json's `end_seq`).
* `map entries close` — likewise with `next_key_seed` / `next_value_seed`; an
  `afail e` in key position is a failure between entries, in value position a
  failure after a key.
* `afail e` anywhere else (top level) behaves like `fail e`: there is no
  access that could fail.

Nothing is observable after the first failure (the transcoder stops calling),
so "the failure after element i" is expressed by cutting the collection there:
every position of a first failure in execution order is a tree.
-/
inductive De where
  | scalar (s : Scalar)
  | fail (tok : Nat)
  | afail (tok : Nat)
  | seq (elems : List De) (close : Option Nat)
  | map (entries : List (De × De)) (close : Option Nat)
  deriving Repr, Inhabited

/-- `some e` when the access fails instead of handing out this element. -/
def De.accessFail : De → Option Nat
  | .afail e => some e
  | _ => none

/-- The primitive calls a serializer receives.  `…Pre` / `…Post` stand for the
collection serializer's own work inside `serialize_element` / `serialize_key` /
`serialize_value` before and after it calls the element's `serialize` — where a
separator is written, and where that write can fail. -/
inductive Op where
  | scalar (s : Scalar)
  | seqBegin | elemPre | elemPost | seqEnd
  | mapBegin | keyPre | keyPost | valPre | valPost | mapEnd
  deriving DecidableEq, Repr, Inhabited

/-- Kind of an op as a number 0..10 (all scalars are kind 0). -/
def Op.kind : Op → Nat
  | .scalar _ => 0
  | .seqBegin => 1 | .elemPre => 2 | .elemPost => 3 | .seqEnd => 4
  | .mapBegin => 5 | .keyPre => 6 | .keyPost => 7 | .valPre => 8 | .valPost => 9 | .mapEnd => 10

/-! ## Error-free trees and the op sequence they denote -/

mutual
/-- No failure point anywhere in the tree. -/
def De.errorFree : De → Bool
  | .scalar _ => true
  | .fail _ => false
  | .afail _ => false
  | .seq elems close => De.errorFreeList elems && close.isNone
  | .map entries close => De.errorFreeEntries entries && close.isNone
def De.errorFreeList : List De → Bool
  | [] => true
  | e :: rest => e.errorFree && De.errorFreeList rest
def De.errorFreeEntries : List (De × De) → Bool
  | [] => true
  | (k, v) :: rest => k.errorFree && v.errorFree && De.errorFreeEntries rest
end

mutual
/-- The op sequence a tree denotes: begin/end properly nested, elements and
entries in order, each scalar with its own constructor. -/
def flatten : De → List Op
  | .scalar s => [.scalar s]
  | .fail _ => []
  | .afail _ => []
  | .seq elems _ => .seqBegin :: flattenList elems ++ [.seqEnd]
  | .map entries _ => .mapBegin :: flattenEntries entries ++ [.mapEnd]
def flattenList : List De → List Op
  | [] => []
  | e :: rest => .elemPre :: flatten e ++ .elemPost :: flattenList rest
def flattenEntries : List (De × De) → List Op
  | [] => []
  | (k, v) :: rest =>
    .keyPre :: flatten k ++ .keyPost :: .valPre :: flatten v ++ .valPost :: flattenEntries rest
end

/-! ## A scripted serializer -/

/-- A serializer that accepts every op except the one the script selects: the
op with (0-based) index `failAt`, and/or the `k`-th op of kind `kind`
(`failKind = some (kind, k)`); the selected op fails with `own tok`. -/
structure Script where
  failAt : Option Nat := none
  failKind : Option (Nat × Nat) := none
  tok : Nat := 0
  deriving Repr, Inhabited

/-- State of the scripted serializer: ops accepted so far, and how many of them
were of the selected kind. -/
structure SerSt where
  count : Nat := 0
  seen : Nat := 0
  deriving Repr, Inhabited, DecidableEq

def Script.selects (sc : Script) (st : SerSt) (o : Op) : Bool :=
  (match sc.failAt with
   | some n => st.count == n
   | none => false) ||
  (match sc.failKind with
   | some (kind, k) => o.kind == kind && st.seen == k
   | none => false)

def Script.step (sc : Script) (st : SerSt) (o : Op) : Except SErr SerSt :=
  if sc.selects st o then .error (.own sc.tok)
  else .ok
    { count := st.count + 1
      seen := match sc.failKind with
        | some (kind, _) => if o.kind == kind then st.seen + 1 else st.seen
        | none => st.seen }

end Xt.Serde
