/-
C05 — streaming translation at the level of the interaction over time.

What is modelled here is the ORDER in which xt asks its source for bytes and
hands bytes to its writer, for the three streaming sources:

* /repo/src/json.rs, reader branch:
    `let mut de = Deserializer::from_reader(BufReader::new(r));
     loop { match de.end() { Ok(()) => break, …, Err(_) => output.transcode_from(&mut de)? } }`
* /repo/src/msgpack.rs, reader branch:
    `let mut r = BufReader::new(r);
     while !r.fill_buf()?.is_empty() { … output.transcode_from(&mut de)?; }`
* /repo/src/yaml.rs `transcode_reader` over /repo/src/yaml/chunker.rs:
    `for doc in Chunker::new(Encoder::from_reader(input)?) { … output.transcode_from(de)?; }`
  where `Chunker::next` returns document k when libyaml's parser delivers the
  DOCUMENT-START event of document k+1 or the STREAM-END event
  (`Model/Chunker.lean`; `Props/C03.chunker_lag_one`).
* /repo/src/input.rs + /repo/src/detect.rs: with format detection the trials
  read through a `CaptureReader`; `Input::from(handle)` then hands over
  `FusedReader(cursor over the captured prefix).chain(source)`: the captured
  bytes are replayed without touching the source, the source is read again
  only beyond them (`Model/Input.lean`; `Props/C09.capture_released`).

Only offsets are modelled, no bytes: the trace alphabet is

  `rd off n` — the source was asked to read when `off` bytes had been delivered
               so far, and returned `n` bytes (`n = 0`: end of input);
  `wr n`     — the writer accepted `n` bytes.

The third-party parsers (serde_json, rmp_serde, libyaml) enter as ONE
parameter per document: `Doc.la`, the number of bytes beyond the document's
end that the parser asks for before the document is complete for it (its
look-ahead).  What is assumed about them is the named hypothesis
`DemandDriven L` (`Lemmas/Stream.lean`): that look-ahead is at most `L`
(serde_json: 1 — the byte that ends a number; rmp_serde: 0; libyaml: the 4
characters the scanner caches to recognise `---` / `...` + blank at the start
of the next document, `stop` being the offset at which that next document
starts).  The harness samples it on every real trace.

std adaptors by their documented contract: `BufReader` (capacity `C`, 8192 by
default) asks its inner reader only when its buffer is empty, one `read` per
refill, with a buffer of `C` bytes — or, when the consumer's own buffer is at
least `C` bytes, directly with that buffer (libyaml's 16384-byte raw buffer;
rmp_serde's `read_exact` into a long string).  Either way one source `read`
returns at most min(request, what the source has available now); the model
takes the list `sizes` of the byte counts the successive source reads return
(`sizesOf C packets` computes it for a constant request size `C` over a source
that makes its bytes available packet by packet).  The theorems hold for EVERY
such list.

Import-free.
-/
namespace Xt.Stream

/-- One event of a trace. -/
inductive Ev where
  | rd (off : Nat) (n : Nat)
  | wr (n : Nat)
  deriving DecidableEq, Repr, Inhabited

/-! ## The acceptor

Document bounds: `ends[i]` is the input offset at which document i ends,
`outEnds[i]` the output offset at which its translation ends.

The property text: "by the time xt asks the reader for data beyond document
k+2, the complete translation of document k has been handed to the output
writer".  A read request issued when `off` bytes have been delivered asks for
the bytes from offset `off` on; it asks for data beyond document j exactly when
`ends[j] ≤ off`.  So: at every `rd off _`, for every k with `ends[k+2] ≤ off`,
the bytes written so far are at least `outEnds[k]`.

`readOk bounds outEnds off w` is that test for one read request against the
list of pairs (`bounds[k]`, `outEnds[k]`): "if `bounds[k] ≤ off` then
`outEnds[k] ≤ w`", for every k both lists have. -/
def readOk : List Nat → List Nat → Nat → Nat → Bool
  | b :: bs, o :: os, off, w => (!(decide (b ≤ off)) || decide (o ≤ w)) && readOk bs os off w
  | _, _, _, _ => true

/-- Walks a trace with `w` bytes written so far; the index (counted from `i`)
of the first read request that fails `readOk`, if any. -/
def firstBad (bounds outEnds : List Nat) : Nat → Nat → List Ev → Option Nat
  | _, _, [] => none
  | w, i, .wr n :: t => firstBad bounds outEnds (w + n) (i + 1) t
  | w, i, .rd off _ :: t =>
    if readOk bounds outEnds off w then firstBad bounds outEnds w (i + 1) t else some i

/-- The general acceptor: document k must be written before any read request at
an offset `≥ bounds[k]`. -/
def accepts (bounds outEnds : List Nat) (trace : List Ev) : Bool :=
  (firstBad bounds outEnds 0 0 trace).isNone

/-- The bounds "data beyond document k+d, and `la` bytes more". -/
def boundsAt (d la : Nat) (ends : List Nat) : List Nat := (ends.drop d).map (· + la)

/-- The acceptor with configurable slack: at every `rd off _`, for every k with
`ends[k+d] + la ≤ off`, at least `outEnds[k]` bytes have been written. -/
def lagOkAt (d la : Nat) (ends outEnds : List Nat) (trace : List Ev) : Bool :=
  accepts (boundsAt d la ends) outEnds trace

/-- The acceptor of the property: `lagOk 0` is the literal statement
(`ends[k+2] ≤ off → outEnds[k] ≤ written`), `lagOk lag` allows `lag` documents
more. -/
def lagOk (lag : Nat) (ends outEnds : List Nat) (trace : List Ev) : Bool :=
  lagOkAt (2 + lag) 0 ends outEnds trace

/-- First offending event of `lagOkAt` (for the driver's `bad:<index>`). -/
def lagFirstBad (d la : Nat) (ends outEnds : List Nat) (trace : List Ev) : Option Nat :=
  firstBad (boundsAt d la ends) outEnds 0 0 trace

/-! ## A one-pass acceptor

`firstBad` re-tests every document at every read request.  When both lists are
nondecreasing, documents are written in order and the earliest bound among the
unwritten ones is the first: a cursor suffices.  `Lemmas/Stream.lean`
(`firstBadFast_eq`) proves the two equal on nondecreasing lists; the driver uses
the fast one exactly then. -/

/-- Drops the leading documents whose translation is complete. -/
def dropDone (w : Nat) : List Nat → List Nat → List Nat × List Nat
  | b :: bs, o :: os => if o ≤ w then dropDone w bs os else (b :: bs, o :: os)
  | bs, os => (bs, os)

def firstBadFast : List Nat → List Nat → Nat → Nat → List Ev → Option Nat
  | _, _, _, _, [] => none
  | bs, os, w, i, .wr n :: t => firstBadFast bs os (w + n) (i + 1) t
  | bs, os, w, i, .rd off _ :: t =>
    match dropDone w bs os with
    | (b :: bs', o :: os') => if b ≤ off then some i else firstBadFast (b :: bs') (o :: os') w (i + 1) t
    | (bs', os') => firstBadFast bs' os' w (i + 1) t

/-- Nondecreasing, tested in one pass. -/
def sortedB : List Nat → Bool
  | a :: b :: t => decide (a ≤ b) && sortedB (b :: t)
  | _ => true

/-- `lagFirstBad` through the one-pass acceptor when the bounds are
nondecreasing, through the definition otherwise. -/
def lagFirstBadFast (d la : Nat) (ends outEnds : List Nat) (trace : List Ev) : Option Nat :=
  if sortedB ends && sortedB outEnds then firstBadFast (boundsAt d la ends) outEnds 0 0 trace
  else lagFirstBad d la ends outEnds trace

/-- Consecutive writes merged into one (what the harness's logging writer
records between two reads). -/
def coalesce : List Ev → List Ev
  | .wr a :: .wr b :: t => coalesce (.wr (a + b) :: t)
  | e :: t => e :: coalesce t
  | [] => []
termination_by l => l.length

/-! ## The source as seen through a buffered reader -/

/-- `std::io::BufReader`'s default capacity (`DEFAULT_BUF_SIZE`). -/
def bufReaderCap : Nat := 8192

/-- unsafe-libyaml `INPUT_RAW_BUFFER_SIZE`: the size of the reads with which
libyaml refills its raw buffer. -/
def yamlRawBufferSize : Nat := 16384

/-- Characters the libyaml scanner caches to recognise a document indicator
(`---` / `...` followed by a blank) at the start of a line. -/
def yamlIndicatorLookahead : Nat := 4

/-- The byte counts returned by the reads that drain one packet of `p` bytes
with a buffer of `c` bytes (`c = 0`: unlimited). -/
def chunk (c p : Nat) : List Nat :=
  List.replicate (p / c) c ++ (if p % c = 0 then [] else [p % c])

/-- The byte counts the successive source reads return, for reads with a
`c`-byte buffer over a source that delivers the given packets: a read returns
what is left of the current packet, at most `c` bytes. -/
def sizesOf (c : Nat) (packets : List Nat) : List Nat := packets.flatMap (chunk c)

/-- Demand: the consumer needs the input up to offset `need`.  While fewer
bytes have been delivered (`del`), the buffer in front of the source runs empty
and is refilled by ONE source read, which returns the next entry of `sizes`
(`0` once the source is exhausted: end of input, and the consumer stops asking
for this need).  Returns the events, the bytes delivered afterwards and the
remaining read sizes. -/
def fetch (need : Nat) : Nat → List Nat → List Ev × Nat × List Nat
  | del, [] => if del < need then ([.rd del 0], del, []) else ([], del, [])
  | del, s :: ss =>
    if del < need then
      let r := fetch need (del + s) ss
      (.rd del s :: r.1, r.2.1, r.2.2)
    else ([], del, s :: ss)

/-! ## The demand-driven reader loop -/

/-- One document of the stream as the loop sees it. -/
structure Doc where
  /-- input offset at which the document ends (for YAML: at which the next
  document starts, or the end of the stream for the last one) -/
  stop : Nat
  /-- look-ahead: the parser asks for the input up to `stop + la` before the
  document is complete for it -/
  la : Nat
  /-- length of the document's translation -/
  outLen : Nat
  deriving DecidableEq, Repr, Inhabited

/-- `ends` of a document list. -/
def stops (docs : List Doc) : List Nat := docs.map (·.stop)

/-- `outEnds` of a document list, `po` bytes having been written before. -/
def outEnds : Nat → List Doc → List Nat
  | _, [] => []
  | po, d :: ds => (po + d.outLen) :: outEnds (po + d.outLen) ds

/-- The loop.  For each document: ask for the input up to `stop + la`, then hand
the whole translation to the writer; when `strict` (JSON, MessagePack) and the
input ended inside the document, stop instead (the parser reports the
truncation).  After the last document ask up to `fin` (`de.end()` /
`fill_buf()` probing for the end of the input: `fin` = input length + 1; the
YAML chunker does not ask again after the stream end: `fin` = 0). -/
def demandLoop (strict : Bool) (fin : Nat) : Nat → List Nat → List Doc → List Ev
  | del, sizes, [] => (fetch fin del sizes).1
  | del, sizes, d :: ds =>
    let r := fetch (d.stop + d.la) del sizes
    if strict && decide (r.2.1 < d.stop) then r.1
    else r.1 ++ .wr d.outLen :: demandLoop strict fin r.2.1 r.2.2 ds

/-- Explicit source format: nothing has been read when the loop starts. -/
def explicitRun (strict : Bool) (fin : Nat) (sizes : List Nat) (docs : List Doc) : List Ev :=
  demandLoop strict fin 0 sizes docs

/-- Detected source format.  The trials read through the capture wrapper up to
offset `detNeed` at most (the selected format's trial reads the first document
plus its look-ahead; `toml_trial_capped`: the TOML trial stops at SIZE_CUTOFF);
nothing is written meanwhile.  After take-over the captured bytes are replayed
from memory — no source read — and the loop's own reads continue where the
capture stopped; nothing is captured any more (`capture_released`). -/
def detectedRun (strict : Bool) (fin detNeed : Nat) (sizes : List Nat) (docs : List Doc) : List Ev :=
  let r := fetch detNeed 0 sizes
  r.1 ++ demandLoop strict fin r.2.1 r.2.2 docs

/-- JSON / MessagePack reader loop over an input of `total` bytes. -/
def eagerRun (total : Nat) (sizes : List Nat) (docs : List Doc) : List Ev :=
  explicitRun true (total + 1) sizes docs

/-- YAML reader loop. -/
def yamlRun (sizes : List Nat) (docs : List Doc) : List Ev :=
  explicitRun false 0 sizes docs

/-! ## The counter-model: slurp, then translate -/

/-- `read_to_end`: every read until the one that returns 0. -/
def readAll : Nat → List Nat → List Ev
  | del, [] => [.rd del 0]
  | del, s :: ss => .rd del s :: readAll (del + s) ss

/-- What xt did for JSON / MessagePack before v0.7.0 and for YAML before
v0.14.0: read the whole input, then write every translation. -/
def slurpRun (sizes : List Nat) (docs : List Doc) : List Ev :=
  readAll 0 sizes ++ docs.map (fun d => .wr d.outLen)

/-! ## Bytes held

`HeldBound M del starts trace`: walking the trace with `del` bytes delivered,
`starts` being the input offsets at which the documents not yet written start
(head: the current one): after every read the bytes delivered beyond the start
of the current document — buffered-reader contents plus the document being
assembled — are at most `M`; once every document is written a read returns at
most `M`. -/
def HeldBound (M : Nat) : Nat → List Nat → List Ev → Prop
  | _, _, [] => True
  | del, s :: ss, .rd _ n :: t => del + n ≤ s + M ∧ HeldBound M (del + n) (s :: ss) t
  | del, [], .rd _ n :: t => n ≤ M ∧ HeldBound M (del + n) [] t
  | del, _ :: ss, .wr _ :: t => HeldBound M del ss t
  | del, [], .wr _ :: t => HeldBound M del [] t

/-- Start offsets of the documents: `prev` (the previous document's end; 0 for
the first), then each earlier document's end. -/
def startsFrom : Nat → List Doc → List Nat
  | _, [] => []
  | prev, d :: ds => prev :: startsFrom d.stop ds

/-- Largest distance from a document's start to its end, `prev` being the
previous document's end. -/
def maxDocLen : Nat → List Doc → Nat
  | _, [] => 0
  | prev, d :: ds => max (d.stop - prev) (maxDocLen d.stop ds)

end Xt.Stream
