import XtModel.Model.Wire
import XtModel.Model.Cli

/-!
Line protocol of the `cli` family of driver engines (C13–C16): parsing of
case lines into the parameters of `Xt.Cli.run`, canonical answers.

```
cli  <argv0> <version> <tty:0|1> <fd> <argv> <files> <calls>
       argv0, version : x<hex of UTF-8>
       fd     : ok | limit:<n>:epipe | limit:<n>:x<hex of message>     (accept n bytes in total, then fail)
       argv   : - | x<hex>,x<hex>,…
       files  : - | x<pathhex>=<kind>,…   kind: r regular, p fifo, d directory, m missing, u unreadable, n not-a-directory
                (a path that is not listed is missing)
       calls  : - | <call>,<call>,…        the library's behaviour for the k-th translate call of the run
         call : <res>;<werr>;<ev>.<ev>.…   res: ok | x<hex of message>;  werr: - | x<hex> (message when a write fails)
         ev   : A<hex> write_all | W<hex> write | F<hex>/<hex>/… write_fmt | V<hex>/<hex>/… write_vectored | L flush
                | R<count>:<ev>~<ev>~… a block of events repeated count times
     → exit:<n|sigpipe|panic> stdout:<digest> stderr:<hex>
noflush …same fields…                      the variant of main without the per-input flush
ext      x<hex of a path>                  → json|msgpack|toml|yaml|none      (InputPath::extension_format)
stdinpath x<hex of a path>                 → stdin|file                       (InputPath::from)
fmtname  x<hex>                            → json|msgpack|toml|yaml|invalid   (try_parse_format)
pipecheck <method> <inner>                 → returned:ok|returned:other|killed
lexopt   <valueopts: x<hex of the short options that take a value>> <argv> → token stream
```
-/
namespace Xt.CliWire
open Xt.Wire Xt.Cli

/-- Decode UTF-8 bytes to characters (the harness only sends valid UTF-8). -/
def decodeUtf8 : List Nat → Option (List Char)
  | [] => some []
  | a :: rest =>
    if a < 0x80 then (decodeUtf8 rest).map (Char.ofNat a :: ·)
    else if a < 0xC0 then none
    else if a < 0xE0 then
      match rest with
      | b :: rest => (decodeUtf8 rest).map (Char.ofNat ((a - 0xC0) * 64 + (b - 0x80)) :: ·)
      | _ => none
    else if a < 0xF0 then
      match rest with
      | b :: c :: rest => (decodeUtf8 rest).map (Char.ofNat (((a - 0xE0) * 64 + (b - 0x80)) * 64 + (c - 0x80)) :: ·)
      | _ => none
    else
      match rest with
      | b :: c :: d :: rest =>
        (decodeUtf8 rest).map (Char.ofNat ((((a - 0xF0) * 64 + (b - 0x80)) * 64 + (c - 0x80)) * 64 + (d - 0x80)) :: ·)
      | _ => none

/-- `x<hex>` → bytes (`x` alone is the empty string). -/
def xBytes (s : String) : Option (List Nat) :=
  match s.toList with
  | 'x' :: [] => some []
  | 'x' :: rest => parseHex (String.ofList rest)
  | _ => none

def xStr (s : String) : Option Str := xBytes s >>= decodeUtf8

def listOf {α : Type} (sep : String) (f : String → Option α) (s : String) : Option (List α) :=
  if s = "-" then some [] else (s.splitOn sep).mapM f

/-- FNV-1a, 64 bit. -/
def fnv (bs : List Nat) : UInt64 :=
  bs.foldl (fun h b => (h ^^^ UInt64.ofNat b) * 0x100000001b3) 0xcbf29ce484222325

/-- Short byte strings in hex, long ones as `#<length>:<fnv64>`. -/
def digest (bs : List Nat) : String :=
  if bs.length ≤ 64 then toHex bs else s!"#{bs.length}:{natToHex (fnv bs).toNat}"

def fmtName : Fmt → String
  | .json => "json" | .msgpack => "msgpack" | .toml => "toml" | .yaml => "yaml"

def hexOfStr' (s : Str) : String := "x" ++ (let h := toHex (utf8 s); if h = "-" then "" else h)

def parseKind (s : String) : Option FileKind :=
  match s with
  | "r" => some (.regular []) | "p" => some (.fifo []) | "d" => some .directory
  | "m" => some .missing | "u" => some .unreadable | "n" => some .notADirectory
  | _ => none

def parseFile (s : String) : Option (Str × FileKind) :=
  match s.splitOn "=" with
  | [p, k] => do
    let p ← xStr p
    let k ← parseKind k
    pure (p, k)
  | _ => none

def hexOrEmpty (s : String) : Option (List Nat) :=
  if s = "" then some [] else parseHex s

def parseEvent (s : String) : Option WEvent :=
  match s.toList with
  | 'A' :: rest => (hexOrEmpty (String.ofList rest)).map .writeAll
  | 'W' :: rest => (hexOrEmpty (String.ofList rest)).map .write
  | 'F' :: rest => ((String.ofList rest).splitOn "/").mapM hexOrEmpty |>.map .writeFmt
  | 'V' :: rest => ((String.ofList rest).splitOn "/").mapM hexOrEmpty |>.map .writeVectored
  | ['L'] => some .flush
  | _ => none

/-- One `.`-separated item of an event list: a single event, or a repeated
block `R<count>:<ev>~<ev>~…` (the harness run-length-compresses periodic output). -/
def parseEventItem (s : String) : Option (List WEvent) :=
  match s.toList with
  | 'R' :: rest =>
    match (String.ofList rest).splitOn ":" with
    | [n, body] => do
      let n ← n.toNat?
      let block ← (body.splitOn "~").mapM parseEvent
      pure (List.replicate n block).flatten
    | _ => none
  | _ => (parseEvent s).map fun e => [e]

structure CallSpec where
  out : LibOut
  werr : Str

def parseCall (s : String) : Option CallSpec :=
  match s.splitOn ";" with
  | [res, werr, evs] => do
    let result ← if res = "ok" then some none else (xStr res).map some
    let werr ← if werr = "-" then some [] else xStr werr
    let events ← if evs = "" then some [] else ((evs.splitOn ".").mapM parseEventItem).map List.flatten
    pure { out := { events := events, result := result }, werr := werr }
  | _ => none

def parseFd (s : String) : Option Fd :=
  match s.splitOn ":" with
  | ["ok"] => some (fun _ _ => .all)
  | ["limit", n, e] => do
    let n ← n.toNat?
    let e ← if e = "epipe" then some IoErr.brokenPipe else (xStr e).map IoErr.other
    pure (fun _ acc => if acc ≥ n then .err e else .upTo (n - acc))
  | _ => none

def lookupFile (files : List (Str × FileKind)) (p : Str) : FileKind :=
  match files.find? (·.1 = p) with
  | some (_, k) => k
  | none => .missing

def libOf (calls : List CallSpec) : Lib :=
  { run := fun earlier _ =>
      match calls.drop earlier.length with
      | c :: _ => c.out
      | [] => { events := [], result := some "MODEL-DRIVER: no outcome supplied for this call".toList }
    onWriteErr := fun earlier _ _ e =>
      match calls.drop earlier.length with
      | c :: _ => if c.werr = [] then e.display else c.werr
      | [] => e.display }

def exitName : Exit → String
  | .code n => toString n
  | .sigpipe => "sigpipe"
  | .panic _ => "panic"

def runAnswer (r : Run) : String :=
  s!"exit:{exitName r.exit} stdout:{digest r.stdout} stderr:{toHex (utf8 r.stderr)}"

def cli (flush : Bool) (fs : List String) : String :=
  match fs with
  | [argv0, ver, tty, fd, argv, files, calls] =>
    match xStr argv0, xStr ver, parseFd fd, listOf "," xStr argv, listOf "," parseFile files,
        listOf "," parseCall calls with
    | some argv0, some ver, some fd, some argv, some files, some calls =>
      let w : World :=
        { argv0 := argv0, version := ver, fs := lookupFile files, stdin := [], isTty := tty = "1",
          fd := fd, lib := libOf calls, perInputFlush := flush }
      runAnswer (run w argv)
    | _, _, _, _, _, _ => "bad-case"
  | _ => "bad-case"

def optFmt : Option Fmt → String
  | some f => fmtName f
  | none => "none"

/-- `plan`: which library calls the run makes when every call succeeds and
every write is accepted (used by the harness to know which real library calls
to make for the `calls` field). -/
def plan (fs : List String) : String :=
  match fs with
  | [tty, argv, files] =>
    match listOf "," xStr argv, listOf "," parseFile files with
    | some argv, some files =>
      let lib : Lib := { run := fun _ _ => { events := [], result := none }, onWriteErr := fun _ _ _ e => e.display }
      let w : World :=
        { argv0 := [], version := [], fs := lookupFile files, stdin := [], isTty := tty = "1",
          fd := fun _ _ => .all, lib := lib }
      match parseArgs argv with
      | .ok _ _ to =>
        let r := run w argv
        if w.isTty ∧ unsafeForTerminal to = true then "guard"
        else
          " ".intercalate (("calls:" ++ fmtName to) :: r.calls.map fun (p, c) =>
            (match p with | .stdin => "stdin" | .file path => hexOfStr' path) ++ ";" ++
            (match c.data with | .slice _ => "s" | .reader _ => "r" | .dirReader => "d") ++ ";" ++ optFmt c.from)
      | .err _ => "argverr"
      | .panic _ => "panic"
      | _ => "exit0"
    | _, _ => "bad-case"
  | _ => "bad-case"

/-! ### lexopt token stream -/

def hexOfStr (s : Str) : String := "x" ++ (let h := toHex (utf8 s); if h = "-" then "" else h)

def lerrTok (e : LErr) : String := "err:" ++ hexOfStr e.display

/-- Drive the parser the way an application does: `next()` until it is
exhausted or fails; after a short option listed in `valueOpts`, `value()`. -/
def lexoptStream (valueOpts : Str) (p : Parser) (fuel : Nat) : List String :=
  match fuel with
  | 0 => ["out-of-fuel"]
  | fuel + 1 =>
    match p.next with
    | (.done, _) => ["end"]
    | (.panic _, _) => ["panic"]
    | (.err e, _) => [lerrTok e]
    | (.arg (.short c), p') =>
      let tok := "S:" ++ hexOfStr [c]
      if c ∈ valueOpts then
        match p'.value with
        | (.ok v, p'') => tok :: ("v:" ++ hexOfStr v) :: lexoptStream valueOpts p'' fuel
        | (.error e, _) => [tok, lerrTok e]
      else tok :: lexoptStream valueOpts p' fuel
    | (.arg (.long n), p') => ("L:" ++ hexOfStr n) :: lexoptStream valueOpts p' fuel
    | (.arg (.value v), p') => ("V:" ++ hexOfStr v) :: lexoptStream valueOpts p' fuel

/-! ### pipecheck -/

def pcInner (s : String) : Option (Option IoErr) :=
  match s with
  | "ok" => some none
  | "epipe" => some (some .brokenPipe)
  | "other" => some (some (.other "other".toList))
  | _ => none

def pcShow {α : Type} : PcOut α → String
  | .killedBySigpipe => "killed"
  | .returned (.ok _) => "returned:ok"
  | .returned (.error .brokenPipe) => "returned:epipe"
  | .returned (.error (.other _)) => "returned:other"

/-- `check_for_broken_pipe(self.0.<method>(…))` for an inner writer whose method returns `inner`. -/
def pipecheck (method inner : String) : String :=
  match pcInner inner with
  | none => "bad-case"
  | some r =>
    let unit : IoR Unit := match r with | none => .ok () | some e => .error e
    let num : IoR Nat := match r with | none => .ok 1 | some e => .error e
    match method with
    | "write" | "write_vectored" => pcShow (checkForBrokenPipe num)
    | "flush" | "write_all" | "write_fmt" => pcShow (checkForBrokenPipe unit)
    | _ => "bad-case"

def small (fs : List String) : String :=
  match fs with
  | ["ext", p] =>
    match xStr p with
    | some p => optFmt (InputPath.file p).extensionFormat
    | none => "bad-case"
  | ["stdinpath", p] =>
    match xStr p with
    | some p => (match InputPath.ofArg p with | .stdin => "stdin" | .file _ => "file")
    | none => "bad-case"
  | ["fmtname", s] =>
    match xStr s with
    | some s => (match tryParseFormat s with | some f => fmtName f | none => "invalid")
    | none => "bad-case"
  | ["pipecheck", m, i] => pipecheck m i
  | ["lexopt", vo, argv] =>
    match xStr vo, listOf "," xStr argv with
    | some vo, some argv =>
      " ".intercalate (lexoptStream vo (Parser.init argv) (sizeOfSource argv + 2))
    | _, _ => "bad-case"
  | _ => "bad-case"

def answer (fs : List String) : String :=
  match fs with
  | "cli" :: rest => cli true rest
  | "noflush" :: rest => cli false rest
  | "plan" :: rest => plan rest
  | _ => small fs

end Xt.CliWire
