/-
Model of the MessagePack size calculator in /repo/src/msgpack.rs:
`next_value_size`, `total_seq_size`, `total_map_size`, `try_read_length*`,
and of `rmp::Marker::from_u8` (rmp 0.8.12), which classifies the first byte.

Bytes, lengths and the depth budget are plain `Nat`s (the driver feeds bytes
< 256).  Every index / range-slice / `unwrap` / unchecked `-` of the Rust code
is an explicit `Res.panic site` outcome; "never panics" is a theorem
(`Props/C18.lean`, `no_panic_msgsize`), not an artefact of totalising.
`usize` additions are `Nat` additions; the theorems bound every successful sum
by the input length (and every `k + length-prefix` by `5 + 2^32`), which is
what makes the Rust `+` safe on a 64-bit target.

Import-free so that the native driver links.
-/
namespace Xt.Msgpack

/-- `rmp::Marker` (payload of the fix-markers included). -/
inductive Marker where
  | fixPos (v : Nat) | fixNeg (v : Nat)
  | null | true_ | false_
  | u8 | u16 | u32 | u64 | i8 | i16 | i32 | i64 | f32 | f64
  | fixStr (n : Nat) | str8 | str16 | str32
  | bin8 | bin16 | bin32
  | fixArray (n : Nat) | array16 | array32
  | fixMap (n : Nat) | map16 | map32
  | fixExt1 | fixExt2 | fixExt4 | fixExt8 | fixExt16
  | ext8 | ext16 | ext32
  | reserved
  deriving DecidableEq, Repr, Inhabited

/-- `Marker::from_u8`.  `fixNeg` keeps the raw byte (the Rust payload is the
byte reinterpreted as `i8`). -/
def Marker.ofByte (b : Nat) : Marker :=
  if b < 0x80 then .fixPos b
  else if b < 0x90 then .fixMap (b - 0x80)
  else if b < 0xa0 then .fixArray (b - 0x90)
  else if b < 0xc0 then .fixStr (b - 0xa0)
  else if b = 0xc0 then .null
  else if b = 0xc1 then .reserved
  else if b = 0xc2 then .false_
  else if b = 0xc3 then .true_
  else if b = 0xc4 then .bin8
  else if b = 0xc5 then .bin16
  else if b = 0xc6 then .bin32
  else if b = 0xc7 then .ext8
  else if b = 0xc8 then .ext16
  else if b = 0xc9 then .ext32
  else if b = 0xca then .f32
  else if b = 0xcb then .f64
  else if b = 0xcc then .u8
  else if b = 0xcd then .u16
  else if b = 0xce then .u32
  else if b = 0xcf then .u64
  else if b = 0xd0 then .i8
  else if b = 0xd1 then .i16
  else if b = 0xd2 then .i32
  else if b = 0xd3 then .i64
  else if b = 0xd4 then .fixExt1
  else if b = 0xd5 then .fixExt2
  else if b = 0xd6 then .fixExt4
  else if b = 0xd7 then .fixExt8
  else if b = 0xd8 then .fixExt16
  else if b = 0xd9 then .str8
  else if b = 0xda then .str16
  else if b = 0xdb then .str32
  else if b = 0xdc then .array16
  else if b = 0xdd then .array32
  else if b = 0xde then .map16
  else if b = 0xdf then .map32
  else .fixNeg b

/-- The arms of the `match marker` in `next_value_size`, grouped as in the
source: what the calculator does with a marker. -/
inductive Cls where
  /-- `Marker::Reserved => return Err(InvalidMarker)` -/
  | reserved
  /-- a constant total size (scalars, fixext) -/
  | fixed (size : Nat)
  /-- `FixStr(n) => 1 + n` -/
  | fixStr (n : Nat)
  /-- `base + try_read_length_<8·w>(input)?` (str/bin/ext 8/16/32) -/
  | lenPrefixed (w base : Nat)
  /-- `FixArray(count) => 1 + total_seq_size(&input[1..], count, ..)?` -/
  | fixArray (count : Nat)
  /-- `FixMap(pairs) => 1 + total_map_size(&input[1..], pairs, ..)?` -/
  | fixMap (pairs : Nat)
  /-- `Array16` / `Array32`: length prefix of `w` bytes, then the elements at `&input[1+w..]` -/
  | array (w : Nat)
  /-- `Map16` / `Map32` -/
  | map (w : Nat)
  deriving DecidableEq, Repr, Inhabited

def classify : Marker → Cls
  | .reserved => .reserved
  | .null | .true_ | .false_ | .fixPos _ | .fixNeg _ => .fixed 1
  | .u8 | .i8 => .fixed 2
  | .u16 | .i16 => .fixed 3
  | .u32 | .i32 | .f32 => .fixed 5
  | .u64 | .i64 | .f64 => .fixed 9
  | .fixExt1 => .fixed 3
  | .fixExt2 => .fixed 4
  | .fixExt4 => .fixed 6
  | .fixExt8 => .fixed 10
  | .fixExt16 => .fixed 18
  | .ext8 => .lenPrefixed 1 3
  | .ext16 => .lenPrefixed 2 4
  | .ext32 => .lenPrefixed 4 6
  | .fixStr n => .fixStr n
  | .str8 | .bin8 => .lenPrefixed 1 2
  | .str16 | .bin16 => .lenPrefixed 2 3
  | .str32 | .bin32 => .lenPrefixed 4 5
  | .fixArray n => .fixArray n
  | .fixMap n => .fixMap n
  | .array16 => .array 2
  | .array32 => .array 4
  | .map16 => .map 2
  | .map32 => .map 4

/-- Places in the modelled Rust that can panic. -/
inductive Site where
  /-- `.try_into().unwrap()` in `try_read_length` -/
  | tryIntoUnwrap
  /-- `&input[1..]`, `&input[3..]`, `&input[5..]` in `next_value_size` -/
  | inputSlice (start : Nat)
  /-- `depth_limit - 1` in `total_seq_size` -/
  | depthSub
  /-- `&seq[size..]` in `total_seq_size` -/
  | seqSlice
  /-- `&input[first..]` in `total_map_size` -/
  | mapSlice
  deriving DecidableEq, Repr, Inhabited

/-- `Result<usize, ReadSizeError>`, plus the panic outcomes. -/
inductive Res where
  | ok (n : Nat)
  | truncated
  | invalidMarker
  | depthExceeded
  | panic (site : Site)
  deriving DecidableEq, Repr, Inhabited

/-- Big-endian value of a byte list (`uN::from_be_bytes`). -/
def beNat : List Nat → Nat
  | [] => 0
  | b :: bs => b * 256 ^ bs.length + beNat bs

/-- `try_read_length::<N>`: `input.get(1..1 + N).ok_or(Truncated)?.try_into().unwrap()`
then `from_be_bytes`. -/
def tryReadLength (input : List Nat) (n : Nat) : Res :=
  if 1 + n ≤ input.length then
    let s := (input.drop 1).take n
    if s.length = n then .ok (beNat s) else .panic .tryIntoUnwrap
  else .truncated

/-- `&input[k..]`. -/
def sliceFrom (input : List Nat) (k : Nat) (site : Site) : Except Site (List Nat) :=
  if k ≤ input.length then .ok (input.drop k) else .error site

mutual

/-- `next_value_size(input, depth_limit)`. -/
def nextValueSize (input : List Nat) (d : Nat) : Res :=
  if d = 0 then .depthExceeded
  else
    match input with
    | [] => .ok 0
    | b :: _ =>
      -- `input[0]` cannot fail here: the input is not empty.
      let finish (totalSize : Nat) : Res :=
        if totalSize ≤ input.length then .ok totalSize else .truncated
      match classify (Marker.ofByte b) with
      | .reserved => .invalidMarker
      | .fixed size => finish size
      | .fixStr n => finish (1 + n)
      | .lenPrefixed w base =>
        match tryReadLength input w with
        | .ok len => finish (base + len)
        | e => e
      | .fixArray count =>
        match sliceFrom input 1 (.inputSlice 1) with
        | .error s => .panic s
        | .ok tail =>
          match totalSeqSize tail count d with
          | .ok n => finish (1 + n)
          | e => e
      | .fixMap pairs =>
        match sliceFrom input 1 (.inputSlice 1) with
        | .error s => .panic s
        | .ok tail =>
          match totalMapSize tail pairs d with
          | .ok n => finish (1 + n)
          | e => e
      | .array w =>
        match tryReadLength input w with
        | .ok count =>
          match sliceFrom input (1 + w) (.inputSlice (1 + w)) with
          | .error s => .panic s
          | .ok tail =>
            match totalSeqSize tail count d with
            | .ok n => finish (1 + w + n)
            | e => e
        | e => e
      | .map w =>
        match tryReadLength input w with
        | .ok pairs =>
          match sliceFrom input (1 + w) (.inputSlice (1 + w)) with
          | .error s => .panic s
          | .ok tail =>
            match totalMapSize tail pairs d with
            | .ok n => finish (1 + w + n)
            | e => e
        | e => e
termination_by (d, 3, 0)

/-- `total_map_size(input, pairs, depth_limit)`: two consecutive runs of
`pairs` values each. -/
def totalMapSize (input : List Nat) (pairs d : Nat) : Res :=
  match totalSeqSize input pairs d with
  | .ok first =>
    match sliceFrom input first .mapSlice with
    | .error s => .panic s
    | .ok tail =>
      match totalSeqSize tail pairs d with
      | .ok second => .ok (first + second)
      | e => e
  | e => e
termination_by (d, 2, 0)

/-- `total_seq_size(input, count, depth_limit)`. -/
def totalSeqSize (input : List Nat) (count d : Nat) : Res :=
  totalSeqLoop input count 0 d
termination_by (d, 1, 0)

/-- The `for _ in 0..count` loop of `total_seq_size` with its two mutable
variables `seq` and `total`. -/
def totalSeqLoop (seq : List Nat) (count total d : Nat) : Res :=
  match count with
  | 0 => .ok total
  | count + 1 =>
    if seq.isEmpty then .truncated
    else if _h : d = 0 then .panic .depthSub
    else
      match nextValueSize seq (d - 1) with
      | .ok size =>
        if size ≤ seq.length then totalSeqLoop (seq.drop size) count (total + size) d
        else .panic .seqSlice
      | e => e
termination_by (d, 0, count)
decreasing_by
  all_goals simp_wf
  all_goals first
    | (apply Prod.Lex.left; omega)
    | (apply Prod.Lex.right; apply Prod.Lex.left; omega)
    | (apply Prod.Lex.right; apply Prod.Lex.right; omega)
    | skip

end

/-- The depth limit xt passes (`DEPTH_LIMIT` in src/msgpack.rs; the harness
checks `xt::verif::MSGPACK_DEPTH_LIMIT` against it on every run). -/
def depthLimit : Nat := 1024

end Xt.Msgpack
