/-
Model of /repo/src/yaml/encoding.rs: encoding detection, the UTF-16 and UTF-32
decoders, the UTF-8 encoder with its ≤ 3-byte remainder, and `Encoder`.

Bytes, code units and code points are plain `Nat`s; the driver feeds bytes
< 256.  Everything here is import-free so that the native driver links.
-/
namespace Xt.Encoding

/-- `Encoding` in the Rust source. -/
inductive Enc where
  | utf8 | utf16be | utf32be | utf16le | utf32le
  deriving DecidableEq, Repr, Inhabited

/-- The two-byte patterns of `Encoding::detect`. -/
def detect2 (a b : Nat) : Enc :=
  if (a = 0xFE ∧ b = 0xFF) ∨ a = 0 then .utf16be
  else if (a = 0xFF ∧ b = 0xFE) ∨ b = 0 then .utf16le
  else .utf8

/-- `Encoding::detect`: looks at the first 4 bytes when there are 4, then at
the first 2 when there are 2. -/
def detect : List Nat → Enc
  | a :: b :: c :: d :: _ =>
    if (a = 0 ∧ b = 0 ∧ c = 0xFE ∧ d = 0xFF) ∨ (a = 0 ∧ b = 0 ∧ c = 0) then .utf32be
    else if (a = 0xFF ∧ b = 0xFE ∧ c = 0 ∧ d = 0) ∨ (b = 0 ∧ c = 0 ∧ d = 0) then .utf32le
    else detect2 a b
  | [a, b, _] => detect2 a b
  | [a, b] => detect2 a b
  | _ => .utf8

/-- What a decoder's iterator yields. -/
inductive Item where
  /-- `Some(Ok(ch))` -/
  | ch (c : Nat)
  /-- `Some(Err(EncodingError { unit, pos }))` for a `bits`-bit code unit -/
  | errUnit (bits unit pos : Nat)
  /-- `Some(Err(e))` with `e.kind() == UnexpectedEof` (a truncated code unit,
  or a leading surrogate at the end of input) -/
  | errEof
  deriving DecidableEq, Repr, Inhabited

/-- Unicode scalar value. -/
def isScalar (c : Nat) : Prop := c < 0xD800 ∨ (0xE000 ≤ c ∧ c < 0x110000)

instance (c : Nat) : Decidable (isScalar c) := by unfold isScalar; exact inferInstance

/-- Group bytes into 16-bit units (`next_u16`: `fill_buf` + `read_exact` of 2
bytes).  The flag says that a single trailing byte was left over. -/
def units16 (big : Bool) : List Nat → List Nat × Bool
  | [] => ([], false)
  | [_] => ([], true)
  | a :: b :: rest =>
    let (us, t) := units16 big rest
    ((if big then a * 256 + b else b * 256 + a) :: us, t)

/-- Group bytes into 32-bit units.  The flag says that 1–3 trailing bytes were
left over. -/
def units32 (big : Bool) : List Nat → List Nat × Bool
  | [] => ([], false)
  | a :: b :: c :: d :: rest =>
    let (us, t) := units32 big rest
    ((if big then ((a * 256 + b) * 256 + c) * 256 + d
      else ((d * 256 + c) * 256 + b) * 256 + a) :: us, t)
  | _ => ([], true)

/-- `Utf16Decoder::next`, iterated to the end of input, as the list of items it
yields.  `pos` is the byte offset of the first unit of the list; `trunc` says
that a single byte follows the last unit. -/
def dec16 (us : List Nat) (pos : Nat) (trunc : Bool) : List Item :=
  match us with
  | [] => if trunc then [.errEof] else []
  | u :: rest =>
    if u < 0xD800 ∨ 0xE000 ≤ u then .ch u :: dec16 rest (pos + 2) trunc
    else if 0xDC00 ≤ u then .errUnit 16 u pos :: dec16 rest (pos + 2) trunc
    else
      match rest with
      | [] => [.errEof]
      | t :: rest' =>
        if 0xDC00 ≤ t ∧ t ≤ 0xDFFF then
          .ch (0x10000 + ((u - 0xD800) * 1024 + (t - 0xDC00))) :: dec16 rest' (pos + 4) trunc
        else
          -- the unit is pushed back (`self.buf = Some(trail)`) and decoded
          -- again as a leading unit by the next call
          .errUnit 16 t (pos + 2) :: dec16 (t :: rest') (pos + 2) trunc
termination_by us.length

/-- `Utf32Decoder::next`, iterated. -/
def dec32 (us : List Nat) (pos : Nat) (trunc : Bool) : List Item :=
  match us with
  | [] => if trunc then [.errEof] else []
  | u :: rest =>
    (if u < 0xD800 ∨ (0xE000 ≤ u ∧ u < 0x110000) then .ch u else .errUnit 32 u pos)
      :: dec32 rest (pos + 4) trunc

/-- `char::encode_utf8`. -/
def utf8 (c : Nat) : List Nat :=
  if c < 0x80 then [c]
  else if c < 0x800 then [0xC0 + c / 64, 0x80 + c % 64]
  else if c < 0x10000 then [0xE0 + c / 4096, 0x80 + c / 64 % 64, 0x80 + c % 64]
  else [0xF0 + c / 262144, 0x80 + c / 4096 % 64, 0x80 + c / 64 % 64, 0x80 + c % 64]

/-- `Utf8Encoder::next_char`'s one-time skip of a leading U+FEFF. -/
def stripBom : List Item → List Item
  | .ch 0xFEFF :: rest => rest
  | l => l

/-- State of a `Utf8Encoder`: the items its source will still yield (after
the BOM skip) and the unread part of `remainder`. -/
structure St where
  items : List Item
  rem : List Nat
  deriving Repr

/-- Error reported by a `read` call. -/
inductive RErr where
  | unit (bits unit pos : Nat)
  | eof
  deriving DecidableEq, Repr

/-- The two encoding loops of `Utf8Encoder::read` with `room` bytes of buffer
left.  They differ only in how they copy; both stop at end of input, return an
error as soon as the source yields one (whatever was written by this call is
then dropped, because the caller only sees `Err`), and the second stores the
unwritten tail of a character that does not fit. -/
def fill : List Item → Nat → Except RErr (List Nat) × St
  | [], _ => (.ok [], ⟨[], []⟩)
  | .ch c :: rest, 0 => (.ok [], ⟨.ch c :: rest, []⟩)
  | .errUnit b u p :: rest, 0 => (.ok [], ⟨.errUnit b u p :: rest, []⟩)
  | .errEof :: rest, 0 => (.ok [], ⟨.errEof :: rest, []⟩)
  | .errUnit b u p :: rest, _ + 1 => (.error (.unit b u p), ⟨rest, []⟩)
  | .errEof :: rest, _ + 1 => (.error .eof, ⟨rest, []⟩)
  | .ch c :: rest, n + 1 =>
    let bs := utf8 c
    if bs.length ≤ n + 1 then
      match fill rest (n + 1 - bs.length) with
      | (.ok out, st) => (.ok (bs ++ out), st)
      | (.error e, st) => (.error e, st)
    else (.ok (bs.take (n + 1)), ⟨rest, bs.drop (n + 1)⟩)

/-- `Utf8Encoder::read` with a buffer of `n` bytes. -/
def read (st : St) (n : Nat) : Except RErr (List Nat) × St :=
  if st.rem.length > n then
    (.ok (st.rem.take n), { st with rem := st.rem.drop n })
  else if st.rem = [] then fill st.items n
  else
    -- the remainder is drained completely; if that exactly filled the
    -- buffer the loops do not run
    match fill st.items (n - st.rem.length) with
    | (.ok out, st') => (.ok (st.rem ++ out), st')
    | (.error e, st') => (.error e, st')

/-- One observable result per `read` call. -/
def reads : St → List Nat → List (Except RErr (List Nat))
  | _, [] => []
  | st, n :: ns => (read st n).1 :: reads (read st n).2 ns

/-- The decoder's items for a byte string in encoding `e` (`utf8` has no
decoder: `Encoder` passes the reader through). -/
def decode (e : Enc) (bytes : List Nat) : List Item :=
  match e with
  | .utf8 => []
  | .utf16be => let (us, t) := units16 true bytes; dec16 us 0 t
  | .utf16le => let (us, t) := units16 false bytes; dec16 us 0 t
  | .utf32be => let (us, t) := units32 true bytes; dec32 us 0 t
  | .utf32le => let (us, t) := units32 false bytes; dec32 us 0 t

/-- `Encoder::new(reader, e)` followed by the `read` calls `ns`, for `e ≠ utf8`. -/
def encoderReads (e : Enc) (bytes : List Nat) (ns : List Nat) : List (Except RErr (List Nat)) :=
  reads ⟨stripBom (decode e bytes), []⟩ ns

/-- The bytes a consumer obtains from successive `read` calls up to the first
error, and that error. -/
def collect : List (Except RErr (List Nat)) → List Nat × Option RErr
  | [] => ([], none)
  | .ok bs :: rest => let (o, e) := collect rest; (bs ++ o, e)
  | .error e :: _ => ([], some e)

/-- The complete UTF-8 stream `Encoder` produces for `bytes` read as `e`: all
bytes up to the first error, and that error if any.  For `utf8` the reader is
passed through unchanged. -/
def stream (e : Enc) (bytes : List Nat) : List Nat × Option RErr :=
  match e with
  | .utf8 => (bytes, none)
  | _ =>
    let rec go : List Item → List Nat × Option RErr
      | [] => ([], none)
      | .ch c :: rest => let (o, err) := go rest; (utf8 c ++ o, err)
      | .errUnit b u p :: _ => ([], some (.unit b u p))
      | .errEof :: _ => ([], some .eof)
    go (stripBom (decode e bytes))

/-- `Encoder::from_reader`: detect on the first `DETECT_LEN = 4` bytes, then
re-encode the whole stream (prefix chained back in front). -/
def fromReaderStream (bytes : List Nat) : List Nat × Option RErr :=
  stream (detect (bytes.take 4)) bytes

end Xt.Encoding
