/-
The index arithmetic of /repo/src/yaml/encoding.rs: `ArrayBuffer<SIZE>`
(`unread`, `set`, `read`, `write`, `consume`) and `Utf8Encoder::read`, with
every slice index, `copy_from_slice`, `debug_assert!`, `encode_utf8` buffer
requirement and unchecked `+=` as an explicit `panic site` outcome.

Only lengths are modelled (the bytes are the subject of `Model/Encoding.lean`,
C07): a buffer is its length, a character is the length of its UTF-8 form.
`ovf` is the modulus of `usize` (an unchecked `+` panics in debug builds when
the sum reaches it), `debug` says whether `debug_assert!` is compiled in.
Import-free.
-/
namespace Xt.EncoderBounds

inductive Site where
  /-- `&self.buf[self.pos..self.len]` in `ArrayBuffer::unread` -/
  | unreadRange
  /-- `debug_assert!(n <= SIZE)` in `set` -/
  | setAssert
  /-- `self.buf[..n]` in `set` -/
  | setIndex
  /-- `buf[..n]` in `ArrayBuffer::read` -/
  | abReadBuf
  /-- `unread[..n]` in `ArrayBuffer::read` -/
  | abReadUnread
  /-- `self.buf[self.len..SIZE]` in `ArrayBuffer::write` -/
  | abWriteRange
  /-- `unwritten[..n]` in `write` -/
  | abWriteUnwritten
  /-- `buf[..n]` in `write` -/
  | abWriteBuf
  /-- `debug_assert!(amt <= self.unread().len())` in `consume` -/
  | consumeAssert
  /-- a `copy_from_slice` between slices of different lengths -/
  | copyLen
  /-- an unchecked `+=` reaching the `usize` modulus -/
  | addOverflow
  /-- `buf = &mut buf[len..]` after draining the remainder -/
  | encRemRest
  /-- `ch.encode_utf8(buf)` with a buffer shorter than the character -/
  | encodeUtf8Small
  /-- `buf = &mut buf[len..]` in the direct loop -/
  | encFastRest
  /-- `buf[..emit_len]` in the tail loop -/
  | encEmitBuf
  /-- `tmp[..emit_len]` -/
  | encEmitTmp
  /-- `buf = &mut buf[emit_len..]` -/
  | encTailRest
  /-- `&tmp[emit_len..char_len]` -/
  | encTmpRange
  deriving DecidableEq, Repr

inductive R (α : Type) where
  | ok (a : α)
  | panic (s : Site)
  deriving Repr

/-- `ArrayBuffer<SIZE>`: the array is its size; `pos` and `len` as in the source. -/
structure AB where
  size : Nat
  pos : Nat
  len : Nat
  deriving DecidableEq, Repr

/-- `ArrayBuffer::new`. -/
def AB.new (size : Nat) : AB := ⟨size, 0, 0⟩

/-- `a + b` on `usize`, unchecked. -/
def addU (ovf a b : Nat) : R Nat := if a + b < ovf then .ok (a + b) else .panic .addOverflow

/-- `dst.copy_from_slice(src)` for slices of these lengths. -/
def copyFromSlice (dst src : Nat) : R Unit := if dst = src then .ok () else .panic .copyLen

/-- `unread`: the length of `&self.buf[self.pos..self.len]`. -/
def AB.unread (b : AB) : R Nat :=
  if b.pos ≤ b.len ∧ b.len ≤ b.size then .ok (b.len - b.pos) else .panic .unreadRange

/-- `set(buf)` with `buf.len() = n`. -/
def AB.set (debug : Bool) (b : AB) (n : Nat) : R AB :=
  if debug = true ∧ ¬ n ≤ b.size then .panic .setAssert
  else if ¬ n ≤ b.size then .panic .setIndex            -- self.buf[..n]
  else
    match copyFromSlice n n with                          -- .copy_from_slice(buf)
    | .panic s => .panic s
    | .ok () => .ok { b with pos := 0, len := n }

/-- `impl Read for ArrayBuffer`: `read(buf)` with `buf.len() = m`; the count returned. -/
def AB.read (ovf : Nat) (b : AB) (m : Nat) : R (Nat × AB) :=
  match b.unread with
  | .panic s => .panic s
  | .ok u =>
    let n := min u m
    if ¬ n ≤ m then .panic .abReadBuf                    -- buf[..n]
    else if ¬ n ≤ u then .panic .abReadUnread            -- unread[..n]
    else
      match copyFromSlice n n with
      | .panic s => .panic s
      | .ok () =>
        match addU ovf b.pos n with                       -- self.pos += n
        | .panic s => .panic s
        | .ok p => .ok (n, { b with pos := p })

/-- `impl Write for ArrayBuffer`: `write(buf)` with `buf.len() = m`. -/
def AB.write (ovf : Nat) (b : AB) (m : Nat) : R (Nat × AB) :=
  if ¬ (b.len ≤ b.size) then .panic .abWriteRange        -- &mut self.buf[self.len..SIZE]
  else
    let unwritten := b.size - b.len
    let n := min unwritten m
    if ¬ n ≤ unwritten then .panic .abWriteUnwritten
    else if ¬ n ≤ m then .panic .abWriteBuf
    else
      match copyFromSlice n n with
      | .panic s => .panic s
      | .ok () =>
        match addU ovf b.len n with                       -- self.len += n
        | .panic s => .panic s
        | .ok l => .ok (n, { b with len := l })

/-- `impl BufRead for ArrayBuffer`: `consume(amt)`.  In a release build an
`amt` beyond the unread part is not caught here; it breaks the invariant and
shows at the next `unread`. -/
def AB.consume (ovf : Nat) (debug : Bool) (b : AB) (amt : Nat) : R AB :=
  match (if debug then b.unread else .ok amt) with
  | .panic s => .panic s
  | .ok u =>
    if debug = true ∧ ¬ amt ≤ u then .panic .consumeAssert
    else
      match addU ovf b.pos amt with
      | .panic s => .panic s
      | .ok p => .ok { b with pos := p }

/-- `ArrayBuffer::is_empty`. -/
def AB.isEmpty (b : AB) : R Bool :=
  match b.unread with
  | .panic s => .panic s
  | .ok u => .ok (u == 0)

/-- What the character source yields next: a character whose UTF-8 form has
this length, or an error.  The end of the list is `None`. -/
inductive Src where
  | ch (len : Nat)
  | err
  deriving DecidableEq, Repr

/-- How a `read` call returned. -/
inductive Ret where
  | ok (written : Nat)
  | err
  deriving DecidableEq, Repr

structure St where
  rem : AB
  src : List Src
  deriving Repr

/-- `ch.encode_utf8(dst)` with `dst.len() = room`: panics when the character
does not fit; returns its length. -/
def encodeUtf8 (charLen room : Nat) : R Nat :=
  if charLen ≤ room then .ok charLen else .panic .encodeUtf8Small

/-- The tail loop: `while !buf.is_empty() { … }` with `room = buf.len()`. -/
def tailLoop (ovf : Nat) (debug : Bool) (maxLen : Nat) (rem : AB) (src : List Src) (room written : Nat) :
    R (Ret × St) :=
  if room = 0 then .ok (.ok written, ⟨rem, src⟩)
  else
    match src with
    | [] => .ok (.ok written, ⟨rem, []⟩)
    | .err :: src => .ok (.err, ⟨rem, src⟩)
    | .ch charLen :: src =>
      -- let mut tmp = [0u8; MAX_UTF8_ENCODED_LEN]; ch.encode_utf8(&mut tmp).len()
      match encodeUtf8 charLen maxLen with
      | .panic s => .panic s
      | .ok charLen =>
        let emit := min charLen room
        if ¬ emit ≤ room then .panic .encEmitBuf              -- buf[..emit_len]
        else if ¬ emit ≤ maxLen then .panic .encEmitTmp       -- tmp[..emit_len]
        else
          match copyFromSlice emit emit with
          | .panic s => .panic s
          | .ok () =>
            if ¬ emit ≤ room then .panic .encTailRest         -- buf = &mut buf[emit_len..]
            else
              match addU ovf written emit with                -- written += emit_len
              | .panic s => .panic s
              | .ok written' =>
                if room - emit = 0 then
                  -- self.remainder.set(&tmp[emit_len..char_len])
                  if ¬ (emit ≤ charLen ∧ charLen ≤ maxLen) then .panic .encTmpRange
                  else
                    match rem.set debug (charLen - emit) with
                    | .panic s => .panic s
                    | .ok rem' => .ok (.ok written', ⟨rem', src⟩)
                else tailLoop ovf debug maxLen rem src (room - emit) written'

/-- The direct loop: `while buf.len() >= MAX_UTF8_ENCODED_LEN { … }`, then the
tail loop. -/
def fastLoop (ovf : Nat) (debug : Bool) (maxLen : Nat) (rem : AB) (src : List Src) (room written : Nat) :
    R (Ret × St) :=
  if maxLen ≤ room then
    match src with
    | [] => .ok (.ok written, ⟨rem, []⟩)
    | .err :: src => .ok (.err, ⟨rem, src⟩)
    | .ch charLen :: src =>
      match encodeUtf8 charLen room with                    -- ch.encode_utf8(buf).len()
      | .panic s => .panic s
      | .ok len =>
        if ¬ len ≤ room then .panic .encFastRest            -- buf = &mut buf[len..]
        else
          match addU ovf written len with
          | .panic s => .panic s
          | .ok written' => fastLoop ovf debug maxLen rem src (room - len) written'
  else tailLoop ovf debug maxLen rem src room written

/-- `impl Read for Utf8Encoder`: `read(buf)` with `buf.len() = bufLen`.
`maxLen` is `MAX_UTF8_ENCODED_LEN` (also the size of `remainder`). -/
def encRead (ovf : Nat) (debug : Bool) (maxLen : Nat) (st : St) (bufLen : Nat) : R (Ret × St) :=
  match st.rem.isEmpty with
  | .panic s => .panic s
  | .ok true => fastLoop ovf debug maxLen st.rem st.src bufLen 0
  | .ok false =>
    match st.rem.read ovf bufLen with                       -- let len = self.remainder.read(buf)?
    | .panic s => .panic s
    | .ok (len, rem') =>
      if ¬ len ≤ bufLen then .panic .encRemRest             -- buf = &mut buf[len..]
      else
        match addU ovf 0 len with                           -- written += len
        | .panic s => .panic s
        | .ok written =>
          match rem'.isEmpty with
          | .panic s => .panic s
          | .ok false => .ok (.ok written, ⟨rem', st.src⟩)
          | .ok true => fastLoop ovf debug maxLen rem' st.src (bufLen - len) written

/-- Successive `read` calls with the given buffer sizes; stops at a panic. -/
def encReads (ovf : Nat) (debug : Bool) (maxLen : Nat) : St → List Nat → R (List Ret)
  | _, [] => .ok []
  | st, n :: ns =>
    match encRead ovf debug maxLen st n with
    | .panic s => .panic s
    | .ok (r, st') =>
      match encReads ovf debug maxLen st' ns with
      | .panic s => .panic s
      | .ok rs => .ok (r :: rs)

/-- An operation on an `ArrayBuffer` (as `Encoder::from_reader` and the
`Chain` around it perform them). -/
inductive Op where
  | unread | set (n : Nat) | read (m : Nat) | write (m : Nat) | consume (amt : Nat)
  deriving DecidableEq, Repr

def AB.step (ovf : Nat) (debug : Bool) (b : AB) : Op → R AB
  | .unread => match b.unread with | .panic s => .panic s | .ok _ => .ok b
  | .set n => b.set debug n
  | .read m => match b.read ovf m with | .panic s => .panic s | .ok (_, b') => .ok b'
  | .write m => match b.write ovf m with | .panic s => .panic s | .ok (_, b') => .ok b'
  | .consume amt => b.consume ovf debug amt

def AB.run (ovf : Nat) (debug : Bool) : AB → List Op → R AB
  | b, [] => .ok b
  | b, op :: ops => match b.step ovf debug op with | .panic s => .panic s | .ok b' => AB.run ovf debug b' ops

end Xt.EncoderBounds
