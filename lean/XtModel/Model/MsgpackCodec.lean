import XtModel.Model.MsgpackSize

/-
Reference MessagePack codec and xt's two document loops.

* `decodeG` follows rmp_serde 1.1.2's `Deserializer::deserialize_any` as it is
  driven by xt's transcoding visitor: which bytes are read for each marker, in
  which order, where `depth_count!` decrements the depth counter and where it
  raises `DepthLimitExceeded`.  The flag `acceptExt` says what the visitor does
  with `visit_newtype_struct` (an ext value): xt's visitor does not implement
  it, so for xt (`acceptExt = false`) an ext value is an error raised right
  after the depth check; with `acceptExt = true` the value is read the way
  `ExtDeserializer` hands it out (type byte, then the data).
* `encode` follows rmp_serde's `Serializer` (through `rmp::encode::write_uint`,
  `write_sint`, `write_str_len`, `write_bin_len`, `write_array_len`,
  `write_map_len`, `write_ext_meta`): always the narrowest spelling.
* `sliceLoop` / `readerLoop` are the two arms of `msgpack::transcode`.

Imports only other model files, so that the native driver links.
-/
namespace Xt.Msgpack

/-- The value an rmp_serde event stream denotes.  `nint n` is the negative
integer `-n`; floats are bit patterns; `str` holds the UTF-8 bytes. -/
inductive MVal where
  | nil
  | bool (b : Bool)
  | uint (n : Nat)
  | nint (n : Nat)
  | f32 (bits : Nat)
  | f64 (bits : Nat)
  | str (bytes : List Nat)
  | bin (bytes : List Nat)
  | arr (xs : List MVal)
  | map (kvs : List (MVal × MVal))
  | ext (ty : Nat) (bytes : List Nat)
  deriving Repr, Inhabited

/-- `rmp_serde::decode::Error` as far as xt can see it. -/
inductive DErr where
  /-- `InvalidMarkerRead(UnexpectedEof)`: no byte where a value must start -/
  | eofMarker
  /-- `InvalidDataRead(UnexpectedEof)`: a length prefix or payload is cut short -/
  | eofData
  /-- `TypeMismatch(Marker::Reserved)`: the byte `0xc1` -/
  | reserved
  /-- `DepthLimitExceeded`, raised by `depth_count!` -/
  | depthLimitExceeded
  /-- `self.depth -= 1` with `depth == 0` (arithmetic overflow: a panic in a
  debug build).  Not reachable from xt, which always starts from 1024. -/
  | depthUnderflow
  /-- the visitor's default `visit_newtype_struct`: "invalid type: newtype struct" -/
  | extUnsupported
  deriving DecidableEq, Repr, Inhabited

/-! ### Well-formed UTF-8 (`core::str::from_utf8`) -/

def isCont (b : Nat) : Bool := 0x80 ≤ b && b ≤ 0xBF

def validUtf8 : List Nat → Bool
  | [] => true
  | b :: rest =>
    if b < 0x80 then validUtf8 rest
    else if 0xC2 ≤ b ∧ b ≤ 0xDF then
      match rest with
      | c :: r => isCont c && validUtf8 r
      | _ => false
    else if 0xE0 ≤ b ∧ b ≤ 0xEF then
      match rest with
      | c :: c2 :: r =>
        (if b = 0xE0 then 0xA0 ≤ c && c ≤ 0xBF
         else if b = 0xED then 0x80 ≤ c && c ≤ 0x9F
         else isCont c) && isCont c2 && validUtf8 r
      | _ => false
    else if 0xF0 ≤ b ∧ b ≤ 0xF4 then
      match rest with
      | c :: c2 :: c3 :: r =>
        (if b = 0xF0 then 0x90 ≤ c && c ≤ 0xBF
         else if b = 0xF4 then 0x80 ≤ c && c ≤ 0x8F
         else isCont c) && isCont c2 && isCont c3 && validUtf8 r
      | _ => false
    else false

/-! ### Decoder -/

/-- What `deserialize_any` knows after the marker and its length prefix. -/
inductive Hdr where
  /-- a complete scalar -/
  | scalar (v : MVal)
  | str (len : Nat)
  | bin (len : Nat)
  | ext (len : Nat)
  | arr (count : Nat)
  | map (pairs : Nat)
  deriving Repr, Inhabited

inductive DataKind where
  | uint | sint | f32 | f64
  deriving DecidableEq, Repr

inductive LenKind where
  | str | bin | ext | arr | map
  deriving DecidableEq, Repr

/-- What follows a marker byte before the value's body: nothing, `k` bytes of
big-endian data, or a `w`-byte big-endian length. -/
inductive Layout where
  | reserved
  | imm (h : Hdr)
  | data (k : Nat) (kind : DataKind)
  | len (w : Nat) (kind : LenKind)
  deriving Repr, Inhabited

def layout : Marker → Layout
  | .reserved => .reserved
  | .null => .imm (.scalar .nil)
  | .true_ => .imm (.scalar (.bool true))
  | .false_ => .imm (.scalar (.bool false))
  | .fixPos v => .imm (.scalar (.uint v))
  | .fixNeg v => .imm (.scalar (.nint (256 - v)))
  | .u8 => .data 1 .uint
  | .u16 => .data 2 .uint
  | .u32 => .data 4 .uint
  | .u64 => .data 8 .uint
  | .i8 => .data 1 .sint
  | .i16 => .data 2 .sint
  | .i32 => .data 4 .sint
  | .i64 => .data 8 .sint
  | .f32 => .data 4 .f32
  | .f64 => .data 8 .f64
  | .fixStr n => .imm (.str n)
  | .str8 => .len 1 .str
  | .str16 => .len 2 .str
  | .str32 => .len 4 .str
  | .bin8 => .len 1 .bin
  | .bin16 => .len 2 .bin
  | .bin32 => .len 4 .bin
  | .fixArray n => .imm (.arr n)
  | .array16 => .len 2 .arr
  | .array32 => .len 4 .arr
  | .fixMap n => .imm (.map n)
  | .map16 => .len 2 .map
  | .map32 => .len 4 .map
  | .fixExt1 => .imm (.ext 1)
  | .fixExt2 => .imm (.ext 2)
  | .fixExt4 => .imm (.ext 4)
  | .fixExt8 => .imm (.ext 8)
  | .fixExt16 => .imm (.ext 16)
  | .ext8 => .len 1 .ext
  | .ext16 => .len 2 .ext
  | .ext32 => .len 4 .ext

/-- The scalar denoted by `k` bytes of big-endian data (`visit_u8` … `visit_f64`;
a signed marker holding a non-negative number denotes that number). -/
def mkData (kind : DataKind) (k : Nat) (x : List Nat) : MVal :=
  match kind with
  | .uint => .uint (beNat x)
  | .sint => if beNat x < 256 ^ k / 2 then .uint (beNat x) else .nint (256 ^ k - beNat x)
  | .f32 => .f32 (beNat x)
  | .f64 => .f64 (beNat x)

def mkHdr (kind : LenKind) (n : Nat) : Hdr :=
  match kind with
  | .str => .str n | .bin => .bin n | .ext => .ext n | .arr => .arr n | .map => .map n

/-- `read_exact` / `read_slice` of `n` bytes. -/
def readN (n : Nat) (bs : List Nat) : Except DErr (List Nat × List Nat) :=
  if n ≤ bs.length then .ok (bs.take n, bs.drop n) else .error .eofData

/-- The marker's fixed-size payload or length prefix. -/
def header (m : Marker) (t : List Nat) : Except DErr (Hdr × List Nat) :=
  match layout m with
  | .reserved => .error .reserved
  | .imm h => .ok (h, t)
  | .data k kind =>
    match readN k t with
    | .error e => .error e
    | .ok (x, r) => .ok (.scalar (mkData kind k x), r)
  | .len w kind =>
    match readN w t with
    | .error e => .error e
    | .ok (x, r) => .ok (mkHdr kind (beNat x), r)

/-- `count` consecutive values (`SeqAccess::next_element_seed`). -/
def seqWith (f : List Nat → Except DErr (MVal × List Nat)) :
    Nat → List Nat → Except DErr (List MVal × List Nat)
  | 0, bs => .ok ([], bs)
  | n + 1, bs =>
    match f bs with
    | .error e => .error e
    | .ok (v, r) =>
      match seqWith f n r with
      | .error e => .error e
      | .ok (vs, r') => .ok (v :: vs, r')

/-- `pairs` consecutive key/value pairs (`MapAccess::next_key_seed`, `next_value_seed`). -/
def pairsWith (f : List Nat → Except DErr (MVal × List Nat)) :
    Nat → List Nat → Except DErr (List (MVal × MVal) × List Nat)
  | 0, bs => .ok ([], bs)
  | n + 1, bs =>
    match f bs with
    | .error e => .error e
    | .ok (k, r) =>
      match f r with
      | .error e => .error e
      | .ok (v, r') =>
        match pairsWith f n r' with
        | .error e => .error e
        | .ok (kvs, r'') => .ok ((k, v) :: kvs, r'')

/-- `deserialize_any` with depth counter `d`, on the bytes `bs`: the value and
the unread rest.  Structural recursion on the depth counter, which is the
budget the code has. -/
def decodeG (acceptExt : Bool) (d : Nat) (bs : List Nat) : Except DErr (MVal × List Nat) :=
  match bs with
  | [] => .error .eofMarker
  | b :: t =>
    match header (Marker.ofByte b) t with
    | .error e => .error e
    | .ok (.scalar v, r) => .ok (v, r)
    | .ok (.str len, r) =>
      match readN len r with
      | .error e => .error e
      | .ok (s, r') => .ok (if validUtf8 s then .str s else .bin s, r')
    | .ok (.bin len, r) =>
      match readN len r with
      | .error e => .error e
      | .ok (s, r') => .ok (.bin s, r')
    | .ok (.ext len, r) =>
      match d with
      | 0 => .error .depthUnderflow
      | d' + 1 =>
        if d' = 0 then .error .depthLimitExceeded
        else if acceptExt then
          match readN 1 r with
          | .error e => .error e
          | .ok (ty, r') =>
            match readN len r' with
            | .error e => .error e
            | .ok (s, r'') => .ok (.ext (beNat ty) s, r'')
        else .error .extUnsupported
    | .ok (.arr count, r) =>
      match d with
      | 0 => .error .depthUnderflow
      | d' + 1 =>
        if d' = 0 then .error .depthLimitExceeded
        else
          match seqWith (decodeG acceptExt d') count r with
          | .error e => .error e
          | .ok (vs, r') => .ok (.arr vs, r')
    | .ok (.map pairs, r) =>
      match d with
      | 0 => .error .depthUnderflow
      | d' + 1 =>
        if d' = 0 then .error .depthLimitExceeded
        else
          match pairsWith (decodeG acceptExt d') pairs r with
          | .error e => .error e
          | .ok (kvs, r') => .ok (.map kvs, r')
termination_by structural d

/-- The decoder as xt drives it. -/
abbrev decode (bs : List Nat) (d : Nat) : Except DErr (MVal × List Nat) := decodeG false d bs

/-! ### Encoder -/

/-- `w` big-endian bytes of `n`. -/
def beBytes : Nat → Nat → List Nat
  | 0, _ => []
  | w + 1, n => (n / 256 ^ w % 256) :: beBytes w n

/-- `write_uint`. -/
def encUint (n : Nat) : List Nat :=
  if n < 128 then [n]
  else if n < 256 then [0xcc, n]
  else if n < 65536 then 0xcd :: beBytes 2 n
  else if n < 4294967296 then 0xce :: beBytes 4 n
  else 0xcf :: beBytes 8 n

/-- `write_sint` of the negative number `-n`. -/
def encNint (n : Nat) : List Nat :=
  if n ≤ 32 then [256 - n]
  else if n ≤ 128 then [0xd0, 256 - n]
  else if n ≤ 32768 then 0xd1 :: beBytes 2 (65536 - n)
  else if n ≤ 2147483648 then 0xd2 :: beBytes 4 (4294967296 - n)
  else 0xd3 :: beBytes 8 (18446744073709551616 - n)

/-- `write_str_len`. -/
def strHdr (len : Nat) : List Nat :=
  if len < 32 then [0xa0 + len]
  else if len < 256 then [0xd9, len]
  else if len < 65536 then 0xda :: beBytes 2 len
  else 0xdb :: beBytes 4 len

/-- `write_bin_len`. -/
def binHdr (len : Nat) : List Nat :=
  if len < 256 then [0xc4, len]
  else if len < 65536 then 0xc5 :: beBytes 2 len
  else 0xc6 :: beBytes 4 len

/-- `write_array_len`. -/
def arrHdr (len : Nat) : List Nat :=
  if len < 16 then [0x90 + len]
  else if len < 65536 then 0xdc :: beBytes 2 len
  else 0xdd :: beBytes 4 len

/-- `write_map_len`. -/
def mapHdr (len : Nat) : List Nat :=
  if len < 16 then [0x80 + len]
  else if len < 65536 then 0xde :: beBytes 2 len
  else 0xdf :: beBytes 4 len

/-- `write_ext_meta` (without the type byte). -/
def extHdr (len : Nat) : List Nat :=
  if len = 1 then [0xd4]
  else if len = 2 then [0xd5]
  else if len = 4 then [0xd6]
  else if len = 8 then [0xd7]
  else if len = 16 then [0xd8]
  else if len < 256 then [0xc7, len]
  else if len < 65536 then 0xc8 :: beBytes 2 len
  else 0xc9 :: beBytes 4 len

mutual
/-- What rmp_serde's serializer writes for a value. -/
def encode : MVal → List Nat
  | .nil => [0xc0]
  | .bool b => [if b then 0xc3 else 0xc2]
  | .uint n => encUint n
  | .nint n => encNint n
  | .f32 bits => 0xca :: beBytes 4 bits
  | .f64 bits => 0xcb :: beBytes 8 bits
  | .str s => strHdr s.length ++ s
  | .bin s => binHdr s.length ++ s
  | .arr xs => arrHdr xs.length ++ encodeList xs
  | .map kvs => mapHdr kvs.length ++ encodePairs kvs
  | .ext ty s => extHdr s.length ++ ty :: s
def encodeList : List MVal → List Nat
  | [] => []
  | x :: xs => encode x ++ encodeList xs
def encodePairs : List (MVal × MVal) → List Nat
  | [] => []
  | (k, v) :: kvs => encode k ++ (encode v ++ encodePairs kvs)
end

/-! ### Every successful decode consumes at least one byte -/

theorem readN_le {n : Nat} {bs x r : List Nat} (h : readN n bs = .ok (x, r)) :
    r.length ≤ bs.length := by
  unfold readN at h
  split at h
  · injection h with h; injection h with _ h2; subst h2; simp
  · cases h

theorem header_le {m : Marker} {t : List Nat} {h : Hdr} {r : List Nat}
    (hh : header m t = .ok (h, r)) : r.length ≤ t.length := by
  unfold header at hh
  split at hh
  · cases hh
  · injection hh with hh; injection hh with _ h2; subst h2; exact Nat.le_refl _
  · split at hh
    · cases hh
    · rename_i hr
      injection hh with hh; injection hh with _ h2; subst h2; exact readN_le hr
  · split at hh
    · cases hh
    · rename_i hr
      injection hh with hh; injection hh with _ h2; subst h2; exact readN_le hr

theorem seqWith_le {f : List Nat → Except DErr (MVal × List Nat)}
    (hf : ∀ bs v r, f bs = .ok (v, r) → r.length ≤ bs.length) :
    ∀ n bs vs r, seqWith f n bs = .ok (vs, r) → r.length ≤ bs.length := by
  intro n
  induction n with
  | zero =>
    intro bs vs r h
    simp only [seqWith] at h
    injection h with h; injection h with _ h2; subst h2; exact Nat.le_refl _
  | succ n ih =>
    intro bs vs r h
    simp only [seqWith] at h
    split at h
    · cases h
    · rename_i v r1 h1
      split at h
      · cases h
      · rename_i vs' r2 h2
        injection h with h; injection h with _ h3; subst h3
        exact Nat.le_trans (ih _ _ _ h2) (hf _ _ _ h1)

theorem pairsWith_le {f : List Nat → Except DErr (MVal × List Nat)}
    (hf : ∀ bs v r, f bs = .ok (v, r) → r.length ≤ bs.length) :
    ∀ n bs kvs r, pairsWith f n bs = .ok (kvs, r) → r.length ≤ bs.length := by
  intro n
  induction n with
  | zero =>
    intro bs kvs r h
    simp only [pairsWith] at h
    injection h with h; injection h with _ h2; subst h2; exact Nat.le_refl _
  | succ n ih =>
    intro bs kvs r h
    simp only [pairsWith] at h
    split at h
    · cases h
    · rename_i k r1 h1
      split at h
      · cases h
      · rename_i v r2 h2
        split at h
        · cases h
        · rename_i kvs' r3 h3
          injection h with h; injection h with _ h4; subst h4
          exact Nat.le_trans (ih _ _ _ h3) (Nat.le_trans (hf _ _ _ h2) (hf _ _ _ h1))

theorem decodeG_lt (acceptExt : Bool) (d : Nat) :
    ∀ bs v r, decodeG acceptExt d bs = .ok (v, r) → r.length < bs.length := by
  induction d with
  | zero =>
    intro bs v r h
    unfold decodeG at h
    split at h
    · cases h
    · rename_i b t
      simp only [List.length_cons]
      split at h
      · cases h
      · rename_i hh; injection h with h; injection h with _ h2; subst h2
        exact Nat.lt_succ_of_le (header_le hh)
      · rename_i hh; split at h
        · cases h
        · rename_i hr; injection h with h; injection h with _ h2; subst h2
          exact Nat.lt_succ_of_le (Nat.le_trans (readN_le hr) (header_le hh))
      · rename_i hh; split at h
        · cases h
        · rename_i hr; injection h with h; injection h with _ h2; subst h2
          exact Nat.lt_succ_of_le (Nat.le_trans (readN_le hr) (header_le hh))
      · cases h
      · cases h
      · cases h
  | succ d ih =>
    intro bs v r h
    have ih' : ∀ bs v r, decodeG acceptExt d bs = .ok (v, r) → r.length ≤ bs.length :=
      fun bs v r h => Nat.le_of_lt (ih bs v r h)
    unfold decodeG at h
    split at h
    · cases h
    · rename_i b t
      simp only [List.length_cons]
      split at h
      · cases h
      · rename_i hh; injection h with h; injection h with _ h2; subst h2
        exact Nat.lt_succ_of_le (header_le hh)
      · rename_i hh; split at h
        · cases h
        · rename_i hr; injection h with h; injection h with _ h2; subst h2
          exact Nat.lt_succ_of_le (Nat.le_trans (readN_le hr) (header_le hh))
      · rename_i hh; split at h
        · cases h
        · rename_i hr; injection h with h; injection h with _ h2; subst h2
          exact Nat.lt_succ_of_le (Nat.le_trans (readN_le hr) (header_le hh))
      · rename_i hh
        simp only at h
        split at h
        · cases h
        · split at h
          · split at h
            · cases h
            · rename_i hr1
              split at h
              · cases h
              · rename_i hr2; injection h with h; injection h with _ h2; subst h2
                exact Nat.lt_succ_of_le
                  (Nat.le_trans (readN_le hr2) (Nat.le_trans (readN_le hr1) (header_le hh)))
          · cases h
      · rename_i hh
        simp only at h
        split at h
        · cases h
        · split at h
          · cases h
          · rename_i hs; injection h with h; injection h with _ h2; subst h2
            exact Nat.lt_succ_of_le (Nat.le_trans (seqWith_le ih' _ _ _ _ hs) (header_le hh))
      · rename_i hh
        simp only at h
        split at h
        · cases h
        · split at h
          · cases h
          · rename_i hs; injection h with h; injection h with _ h2; subst h2
            exact Nat.lt_succ_of_le (Nat.le_trans (pairsWith_le ih' _ _ _ _ hs) (header_le hh))

/-! ### xt's document loops (`msgpack::transcode`) -/

/-- How a loop ended. -/
inductive Verdict where
  | ok
  /-- `next_value_size(rest, DEPTH_LIMIT)?` failed -/
  | sizeErr (r : Res)
  /-- `output.transcode_from(&mut de)?` failed in the deserializer -/
  | decErr (e : DErr)
  /-- `rest.split_at(n)` with `n > rest.len()` -/
  | panicSplitAt
  deriving DecidableEq, Repr, Inhabited

/-- `Input::Reader`: `while !r.fill_buf()?.is_empty() { transcode one value }`.
Returns the documents translated before the loop ended, and how it ended.
(The reader never fails here; I/O faults are C12's subject.) -/
def readerLoop (acceptExt : Bool) (d : Nat) (bs : List Nat) : List MVal × Verdict :=
  if bs.isEmpty then ([], .ok)
  else
    match h : decodeG acceptExt d bs with
    | .error e => ([], .decErr e)
    | .ok (v, rest) =>
      have : rest.length < bs.length := decodeG_lt acceptExt d bs v rest h
      let r := readerLoop acceptExt d rest
      (v :: r.1, r.2)
termination_by bs.length

/-- `decodeMany`: the values of a concatenation of documents. -/
abbrev decodeMany (bs : List Nat) (d : Nat) : List MVal × Verdict := readerLoop false d bs

/-- `Input::Slice`: `while !rest.is_empty() { (next, rest) = rest.split_at(next_value_size(rest, L)?); transcode next }`.
`l` is the calculator's budget and `d` the deserializer's (both `DEPTH_LIMIT`). -/
def sliceLoop (acceptExt : Bool) (l d : Nat) (rest : List Nat) : List MVal × Verdict :=
  if rest.isEmpty then ([], .ok)
  else
    match nextValueSize rest l with
    | .ok n =>
      if n ≤ rest.length then
        match h : decodeG acceptExt d (rest.take n) with
        | .error e => ([], .decErr e)
        | .ok (v, leftover) =>
          -- bytes of `next` after the first value are ignored by the code
          have : rest.length - n < rest.length := by
            have := decodeG_lt acceptExt d _ v leftover h
            rw [List.length_take] at this
            omega
          let r := sliceLoop acceptExt l d (rest.drop n)
          (v :: r.1, r.2)
      else ([], .panicSplitAt)
    | e => ([], .sizeErr e)
termination_by rest.length

end Xt.Msgpack
