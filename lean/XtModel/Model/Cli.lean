import XtModel.Model.Encoding

/-!
Model of xt's command line: `/repo/src/main.rs`, `/repo/src/bail.rs`,
`/repo/src/pipecheck.rs`, and of the parts of lexopt 0.3.0 (`Parser::next`,
`Parser::value`, `Arg::unexpected`, `Error`'s `Display`, `ValueExt::parse_with`)
and of Rust's `std` (`Path::components` / `file_name` / `extension`,
`BufWriter`) that they are built on.

Strings are `List Char` everywhere (`Str`); bytes are `Nat`s (`Bytes`).
Arguments are valid UTF-8 (non-UTF-8 `argv` is outside the model), so a
lexopt byte position inside a short-option cluster is represented by the
corresponding character index.

Parameters of a run (`World`): the file system as a function from the literal
path string to a `FileKind`, the bytes on standard input, whether standard
output is a terminal, the behaviour of file descriptor 1 (`Fd`: one response
per write/flush it receives), and the library (`Lib`: for every call the write
events it issues against its writer and its verdict).

Between xt's `BufWriter` and file descriptor 1 Rust's `Stdout` has a
`LineWriter`; it is modelled as the identity (it delivers every byte it
accepted by the time `flush` returns or the process exits through
`process::exit`, which runs std's stdout cleanup).  Writes to standard error
always succeed in the model (`let _ = writeln!(stderr, …)`).
-/
namespace Xt.Cli

abbrev Str := List Char
abbrev Bytes := List Nat

/-- UTF-8 bytes of a text. -/
def utf8 (s : Str) : Bytes := s.flatMap fun c => Xt.Encoding.utf8 c.toNat

/-! ## Formats -/

/-- `xt::Format`. -/
inductive Fmt where
  | json | msgpack | toml | yaml
  deriving DecidableEq, Repr, Inhabited

/-- `impl Display for Format`. -/
def Fmt.display : Fmt → Str
  | .json => "JSON".toList
  | .msgpack => "MessagePack".toList
  | .toml => "TOML".toList
  | .yaml => "YAML".toList

/-- `try_parse_format`: the eight accepted names. -/
def tryParseFormat (s : Str) : Option Fmt :=
  if s = "j".toList ∨ s = "json".toList then some .json
  else if s = "m".toList ∨ s = "msgpack".toList then some .msgpack
  else if s = "t".toList ∨ s = "toml".toList then some .toml
  else if s = "y".toList ∨ s = "yaml".toList then some .yaml
  else none

/-! ## Rust's `{:?}` for strings (used by lexopt's messages) -/

def hexDigitLower (n : Nat) : Char :=
  if n < 10 then Char.ofNat (48 + n) else Char.ofNat (87 + n)

/-- Lower-case hexadecimal without leading zeros (`{:x}`), for values < 256. -/
def hexLower (n : Nat) : Str :=
  if n < 16 then [hexDigitLower n] else [hexDigitLower (n / 16 % 16), hexDigitLower (n % 16)]

/-- `char::escape_debug_ext` as used by `<str as Debug>`: exact for ASCII.
Characters ≥ U+0080 are left as they are, which is what Rust does for every
printable, non-grapheme-extending character (the Unicode tables behind
`is_printable` are not modelled). -/
def escapeDebugChar (singleQuote : Bool) (c : Char) : Str :=
  if c.toNat = 0 then ['\\', '0']
  else if c = '\t' then ['\\', 't']
  else if c = '\r' then ['\\', 'r']
  else if c = '\n' then ['\\', 'n']
  else if c = '\\' then ['\\', '\\']
  else if c = '"' then ['\\', '"']
  else if c = '\'' ∧ singleQuote then ['\\', '\'']
  else if c.toNat < 32 ∨ c.toNat = 127 then ['\\', 'u', '{'] ++ hexLower c.toNat ++ ['}']
  else [c]

/-- `format!("{:?}", s)` for `s : &str`. -/
def strDebug (s : Str) : Str := '"' :: s.flatMap (escapeDebugChar false) ++ ['"']

/-- `format!("{:?}", s)` for `s : OsString` holding valid UTF-8 (Unix). -/
def osDebug (s : Str) : Str := '"' :: s.flatMap (escapeDebugChar false) ++ ['"']

/-! ## lexopt 0.3.0 -/

/-- `enum State`. -/
inductive LState where
  | none
  | pendingValue (v : Str)
  | shorts (arg : Str) (pos : Nat)
  | finishedOpts
  deriving DecidableEq, Repr

/-- `enum LastOption`; `long` holds the option with its two dashes. -/
inductive LastOption where
  | none
  | short (c : Char)
  | long (s : Str)
  deriving DecidableEq, Repr

/-- `struct Parser` (without `bin_name`). -/
structure Parser where
  source : List Str
  state : LState
  last : LastOption
  deriving DecidableEq, Repr

/-- `enum Arg`; `long` holds the name without dashes. -/
inductive Arg where
  | short (c : Char)
  | long (name : Str)
  | value (v : Str)
  deriving DecidableEq, Repr

/-- `enum Error` (without `NonUnicodeValue`). -/
inductive LErr where
  | missingValue (option : Option Str)
  | unexpectedOption (option : Str)
  | unexpectedArgument (value : Str)
  | unexpectedValue (option : Str) (value : Str)
  | parsingFailed (value : Str) (error : Str)
  | custom (msg : Str)
  deriving DecidableEq, Repr

/-- `impl Display for Error`. -/
def LErr.display : LErr → Str
  | .missingValue none => "missing argument".toList
  | .missingValue (some o) => "missing argument for option '".toList ++ o ++ ['\'']
  | .unexpectedOption o => "invalid option '".toList ++ o ++ ['\'']
  | .unexpectedArgument v => "unexpected argument ".toList ++ osDebug v
  | .unexpectedValue o v => "unexpected argument for option '".toList ++ o ++ "': ".toList ++ osDebug v
  | .parsingFailed v e => "cannot parse argument ".toList ++ strDebug v ++ ": ".toList ++ e
  | .custom m => m

/-- The places in the transcribed lexopt code that can panic. -/
inductive Site where
  /-- `.expect("Should only have pending value after long option")` -/
  | lexoptPendingWithoutOption
  /-- `&arg[*pos..]` with `pos > arg.len()` -/
  | lexoptShortsSlice
  /-- `self.format_last_option().unwrap()` in the `-o=value` branch -/
  | lexoptEqWithoutOption
  /-- `self.optional_value().unwrap()` in the `-o=value` branch -/
  | lexoptEqWithoutValue
  deriving DecidableEq, Repr

/-- Result of `Parser::next`. -/
inductive NextR where
  | arg (a : Arg)
  | done
  | err (e : LErr)
  | panic (s : Site)
  deriving DecidableEq, Repr

/-- `Parser::format_last_option`. -/
def Parser.formatLastOption (p : Parser) : Option Str :=
  match p.last with
  | .none => none
  | .short c => some ['-', c]
  | .long s => some s

/-- `Parser::raw_optional_value` (the value, and whether it was joined by `=`). -/
def Parser.rawOptionalValue (p : Parser) : Option (Str × Bool) × Parser :=
  match p.state with
  | .pendingValue v => (some (v, true), { p with state := .none })
  | .shorts arg pos =>
    if pos ≥ arg.length then (none, { p with state := .none })
    else
      match arg.drop pos with
      | '=' :: rest => (some (rest, true), { p with state := .none })
      | rest => (some (rest, false), { p with state := .none })
  | .finishedOpts => (none, p)
  | .none => (none, p)

/-- `Parser::optional_value`. -/
def Parser.optionalValue (p : Parser) : Option Str × Parser :=
  match p.rawOptionalValue with
  | (some (v, _), p') => (some v, p')
  | (none, p') => (none, p')

/-- `Parser::value`. -/
def Parser.value (p : Parser) : Except LErr Str × Parser :=
  match p.optionalValue with
  | (some v, p') => (.ok v, p')
  | (none, p') =>
    match p'.source with
    | v :: rest => (.ok v, { p' with source := rest })
    | [] => (.error (.missingValue p'.formatLastOption), p')

/-- `Parser::next` in state `FinishedOpts`. -/
def Parser.nextFinished (p : Parser) : NextR × Parser :=
  match p.source with
  | [] => (.done, p)
  | a :: rest => (.arg (.value a), { p with source := rest })

/-- The part of `Parser::next` for a short-option cluster that is not yet
exhausted: `rest` is `arg[pos..]`, known to be non-empty. -/
def Parser.nextShortsAt (p : Parser) (arg : Str) (pos : Nat) (ch : Char) : NextR × Parser :=
  if ch = '=' ∧ pos > 1 then
    match p.formatLastOption with
    | none => (.panic .lexoptEqWithoutOption, p)
    | some o =>
      match p.optionalValue with
      | (some v, p') => (.err (.unexpectedValue o v), p')
      | (none, p') => (.panic .lexoptEqWithoutValue, p')
  else
    (.arg (.short ch), { p with state := .shorts arg (pos + 1), last := .short ch })

/-- Does the string start with `--`? -/
def startsWithDashDash : Str → Bool
  | '-' :: '-' :: _ => true
  | _ => false

/-- Split at the first `=`: the part before it and, when there is one, the part after it. -/
def splitEq : Str → Str × Option Str
  | [] => ([], none)
  | c :: cs =>
    if c = '=' then ([], some cs)
    else
      let (b, a) := splitEq cs
      (c :: b, a)

/-- `Parser::next` in state `None`: take the next argument from the source. -/
def Parser.nextFresh (p : Parser) : NextR × Parser :=
  match p.source with
  | [] => (.done, p)
  | a :: rest =>
    if a = ['-', '-'] then
      -- `self.state = State::FinishedOpts; return self.next();`
      Parser.nextFinished { p with source := rest, state := .finishedOpts }
    else if startsWithDashDash a then
      match splitEq a with
      | (name, some v) =>
        (.arg (.long (name.drop 2)), { source := rest, state := .pendingValue v, last := .long name })
      | (name, none) =>
        (.arg (.long (name.drop 2)), { source := rest, state := .none, last := .long name })
    else
      match a with
      | '-' :: ch :: _ =>
        -- `self.state = State::Shorts(arg, 1); self.next()`
        Parser.nextShortsAt { p with source := rest, state := .shorts a 1 } a 1 ch
      | _ => (.arg (.value a), { p with source := rest })

/-- `Parser::next`. -/
def Parser.next (p : Parser) : NextR × Parser :=
  match p.state with
  | .pendingValue v =>
    match p.formatLastOption with
    | none => (.panic .lexoptPendingWithoutOption, { p with state := .none })
    | some o => (.err (.unexpectedValue o v), { p with state := .none })
  | .shorts arg pos =>
    if pos > arg.length then (.panic .lexoptShortsSlice, p)
    else
      match arg.drop pos with
      | [] => Parser.nextFresh { p with state := .none }
      | ch :: _ => Parser.nextShortsAt p arg pos ch
  | .finishedOpts => Parser.nextFinished p
  | .none => Parser.nextFresh p

/-- `Parser::from_env()` after `argv[0]` was split off. -/
def Parser.init (args : List Str) : Parser := { source := args, state := .none, last := .none }

/-- `Arg::unexpected`. -/
def Arg.unexpected : Arg → LErr
  | .short c => .unexpectedOption ['-', c]
  | .long n => .unexpectedOption ('-' :: '-' :: n)
  | .value v => .unexpectedArgument v

/-- What is left to read: strictly decreases with every argument `next` returns. -/
def sizeOfSource : List Str → Nat
  | [] => 0
  | a :: rest => a.length + 2 + sizeOfSource rest

def Parser.measure (p : Parser) : Nat :=
  sizeOfSource p.source +
    match p.state with
    | .shorts arg pos => arg.length + 1 - pos
    | .pendingValue _ => 1
    | _ => 0

/-! ## `Cli::parse_args` -/

/-- The three locals of `parse_args`. -/
structure Acc where
  paths : List Str
  «from» : Option Fmt
  to : Option Fmt
  deriving DecidableEq, Repr

/-- How `parse_args` ends. -/
inductive Parsed where
  /-- `Ok(Cli { input_pathnames, from, to })` -/
  | ok (paths : List Str) («from» : Option Fmt) (to : Fmt)
  /-- `-V` / `--version`: print the version to stdout, `exit(0)` -/
  | version
  /-- `-h`: short help to stdout, `exit(0)` -/
  | shortHelp
  /-- `--help`: long help to stdout, `exit(0)` -/
  | longHelp
  | err (e : LErr)
  | panic (s : Site)
  deriving DecidableEq, Repr

def notAFormat : Str := "not a valid format name".toList

theorem Parser.rawOptionalValue_measure (p : Parser) :
    (p.rawOptionalValue).2.measure ≤ p.measure := by
  cases p with
  | mk source state last =>
    cases state with
    | none => simp [Parser.rawOptionalValue]
    | finishedOpts => simp [Parser.rawOptionalValue]
    | pendingValue v => simp [Parser.rawOptionalValue, Parser.measure]
    | shorts arg pos =>
      simp only [Parser.rawOptionalValue]
      split
      · simp [Parser.measure]
      · split <;> simp [Parser.measure]

theorem Parser.optionalValue_snd (p : Parser) : (p.optionalValue).2 = (p.rawOptionalValue).2 := by
  unfold Parser.optionalValue
  split <;> simp_all

theorem Parser.value_measure (p : Parser) : (p.value).2.measure ≤ p.measure := by
  have h1 := Parser.rawOptionalValue_measure p
  rw [← Parser.optionalValue_snd] at h1
  unfold Parser.value
  split
  · rename_i v p' heq; rw [heq] at h1; exact h1
  · rename_i p' heq; rw [heq] at h1
    simp only at h1
    split
    · rename_i v rest hs
      refine Nat.le_trans ?_ h1
      simp [Parser.measure, hs, sizeOfSource]
    · exact h1

theorem Parser.nextFinished_measure (p : Parser) (a : Arg) (p' : Parser)
    (hs : p.state = .finishedOpts) (h : p.nextFinished = (.arg a, p')) : p'.measure < p.measure := by
  cases p with
  | mk source state last =>
    simp only at hs; subst hs
    cases source with
    | nil => simp [Parser.nextFinished] at h
    | cons x rest =>
      simp [Parser.nextFinished] at h; obtain ⟨_, rfl⟩ := h
      simp [Parser.measure, sizeOfSource]

theorem Parser.nextShortsAt_measure (p : Parser) (arg : Str) (pos : Nat) (ch : Char) (a : Arg)
    (p' : Parser) (h : p.nextShortsAt arg pos ch = (.arg a, p')) :
    p'.source = p.source ∧ p'.state = .shorts arg (pos + 1) := by
  unfold Parser.nextShortsAt at h
  split at h
  · split at h
    · simp at h
    · split at h <;> simp at h
  · simp at h; obtain ⟨_, rfl⟩ := h; simp

theorem Parser.nextFresh_measure (p : Parser) (a : Arg) (p' : Parser) (hs : p.state = .none)
    (h : p.nextFresh = (.arg a, p')) : p'.measure < sizeOfSource p.source := by
  unfold Parser.nextFresh at h
  cases p with
  | mk source state last =>
    simp only at hs; subst hs
    cases source with
    | nil => simp at h
    | cons x rest =>
      simp only at h
      split at h
      · have := Parser.nextFinished_measure _ a p' rfl h
        simp [Parser.measure, sizeOfSource] at this ⊢; omega
      · split at h
        · split at h
          · simp at h; obtain ⟨_, rfl⟩ := h; simp [Parser.measure, sizeOfSource]; omega
          · simp at h; obtain ⟨_, rfl⟩ := h; simp [Parser.measure, sizeOfSource]
        · split at h
          · obtain ⟨h1, h2⟩ := Parser.nextShortsAt_measure _ _ _ _ a p' h
            simp only at h1
            simp [Parser.measure, h1, h2, sizeOfSource]; omega
          · simp at h; obtain ⟨_, rfl⟩ := h
            simp [Parser.measure, sizeOfSource]

theorem Parser.next_measure (p : Parser) (a : Arg) (p' : Parser)
    (h : p.next = (.arg a, p')) : p'.measure < p.measure := by
  unfold Parser.next at h
  cases p with
  | mk source state last =>
    cases state with
    | none =>
      have := Parser.nextFresh_measure _ a p' rfl h
      simp [Parser.measure] at this ⊢; omega
    | finishedOpts => exact Parser.nextFinished_measure _ a p' rfl h
    | pendingValue v => simp only at h; split at h <;> simp at h
    | shorts arg pos =>
      simp only at h
      split at h
      · simp at h
      · rename_i hpos
        split at h
        · rename_i hd
          have := Parser.nextFresh_measure _ a p' rfl h
          simp only [Parser.measure] at this ⊢; omega
        · rename_i ch tl hd
          have hlt : pos < arg.length := by
            have : (arg.drop pos).length = arg.length - pos := List.length_drop
            rw [hd] at this; simp at this; omega
          obtain ⟨h1, h2⟩ := Parser.nextShortsAt_measure _ _ _ _ a p' h
          simp only at h1
          simp only [Parser.measure, h1, h2]; omega

/-- The `while let Some(arg) = parser.next()?` loop of `parse_args`. -/
def parseLoop (p : Parser) (acc : Acc) : Parsed :=
  match h : p.next with
  | (.panic s, _) => .panic s
  | (.err e, _) => .err e
  | (.done, _) =>
    match acc.to with
    | some t => .ok acc.paths acc.from t
    | none => .ok acc.paths acc.from .json
  | (.arg a, p') =>
    if a = .short 'f' then
      if acc.from.isSome then .err (.custom "cannot provide '-f' more than once".toList)
      else
        match hv : p'.value with
        | (.error e, _) => .err e
        | (.ok v, p'') =>
          match tryParseFormat v with
          | none => .err (.parsingFailed v notAFormat)
          | some f => parseLoop p'' { acc with «from» := some f }
    else if a = .short 't' then
      if acc.to.isSome then .err (.custom "cannot provide '-t' more than once".toList)
      else
        match hv : p'.value with
        | (.error e, _) => .err e
        | (.ok v, p'') =>
          match tryParseFormat v with
          | none => .err (.parsingFailed v notAFormat)
          | some f => parseLoop p'' { acc with to := some f }
    else
      match a with
      | .value v => parseLoop p' { acc with paths := acc.paths ++ [v] }
      | .short c =>
        if c = 'V' then .version
        else if c = 'h' then .shortHelp
        else .err (Arg.unexpected a)
      | .long n =>
        if n = "version".toList then .version
        else if n = "help".toList then .longHelp
        else .err (Arg.unexpected a)
termination_by p.measure
decreasing_by
  all_goals
    have h1 := Parser.next_measure p _ p' h
    first
      | exact h1
      | (have h2 := Parser.value_measure p'
         rw [hv] at h2
         exact Nat.lt_of_le_of_lt h2 h1)

/-- `Cli::parse_args` on `argv[1..]`. -/
def parseArgs (args : List Str) : Parsed :=
  parseLoop (Parser.init args) { paths := [], «from» := none, to := none }

/-! ## Paths (`std::path` on Unix) -/

/-- `str::split('/')`. -/
def splitSlashGo (cur : Str) : Str → List Str
  | [] => [cur.reverse]
  | c :: cs => if c = '/' then cur.reverse :: splitSlashGo [] cs else splitSlashGo (c :: cur) cs

def splitSlash (p : Str) : List Str := splitSlashGo [] p

/-- `std::path::Component` (no prefixes on Unix). -/
inductive Comp where
  | rootDir
  | curDir
  | parentDir
  | normal (s : Str)
  deriving DecidableEq, Repr

/-- One piece between separators, as `parse_single_component` sees it. -/
def pieceComp (s : Str) : Option Comp :=
  if s = [] ∨ s = ['.'] then none
  else if s = ['.', '.'] then some .parentDir
  else some (.normal s)

/-- `Path::components()`: a root, or a leading `.`, then every piece that is
neither empty nor `.`. -/
def components (p : Str) : List Comp :=
  let pieces := splitSlash p
  let lead : List Comp :=
    match p with
    | '/' :: _ => [.rootDir]
    | _ =>
      match pieces with
      | ['.'] :: _ => [.curDir]
      | _ => []
  lead ++ pieces.filterMap pieceComp

/-- `Path::file_name`. -/
def fileName (p : Str) : Option Str :=
  match (components p).getLast? with
  | some (.normal s) => some s
  | _ => none

/-- Split at the last `.`: what is before it and what is after it. -/
def splitLastDot : Str → Option (Str × Str)
  | [] => none
  | c :: cs =>
    match splitLastDot cs with
    | some (b, a) => some (c :: b, a)
    | none => if c = '.' then some ([], cs) else none

/-- `Path::extension`: of the file name, the part after the last `.`, unless
there is no `.`, or the only one is the first character, or the name is `..`. -/
def extension (p : Str) : Option Str :=
  match fileName p with
  | none => none
  | some f =>
    if f = ['.', '.'] then none
    else
      match splitLastDot f with
      | none => none
      | some (before, after) => if before = [] then none else some after

/-- `u8::to_ascii_lowercase` on a character. -/
def asciiLower (c : Char) : Char :=
  if 65 ≤ c.toNat ∧ c.toNat ≤ 90 then Char.ofNat (c.toNat + 32) else c

/-- A parsed input pathname (`enum InputPath`). -/
inductive InputPath where
  | stdin
  | file (path : Str)
  deriving DecidableEq, Repr

/-- `impl From<PathBuf> for InputPath`: `path == Path::new("-")` compares
components, so a `-` followed by slashes and dots is standard input too. -/
def InputPath.ofArg (a : Str) : InputPath :=
  if components a = [.normal ['-']] then .stdin else .file a

/-- The match at the end of `extension_format`. -/
def extTable (e : Str) : Option Fmt :=
  if e = "json".toList then some .json
  else if e = "msgpack".toList then some .msgpack
  else if e = "toml".toList then some .toml
  else if e = "yaml".toList ∨ e = "yml".toList then some .yaml
  else none

/-- `InputPath::extension_format`. -/
def InputPath.extensionFormat : InputPath → Option Fmt
  | .stdin => none
  | .file path =>
    match extension path with
    | none => none
    | some e => extTable (e.map asciiLower)

/-- `impl Display for InputPath`. -/
def InputPath.display : InputPath → Str
  | .stdin => "standard input".toList
  | .file p => p

/-! ## The file system, the library, file descriptor 1 -/

/-- What a path names.  `directory` can be opened but every read fails;
the last three fail in `File::open`. -/
inductive FileKind where
  | regular (data : Bytes)
  | fifo (data : Bytes)
  | directory
  | missing
  | unreadable
  | notADirectory
  deriving DecidableEq, Repr

/-- `io::Error`s as far as the CLI distinguishes them: `ErrorKind::BrokenPipe`,
or anything else with its `Display` text. -/
inductive IoErr where
  | brokenPipe
  | other (msg : Str)
  deriving DecidableEq, Repr

def IoErr.display : IoErr → Str
  | .brokenPipe => "Broken pipe (os error 32)".toList
  | .other m => m

/-- What the library is handed for one input. -/
inductive Data where
  /-- `translate_slice(&map, from)`: the memory-mapped file -/
  | slice (b : Bytes)
  /-- `translate_reader(file | stdin, from)` -/
  | reader (b : Bytes)
  /-- `translate_reader(file, from)` on an opened directory: every read fails -/
  | dirReader
  deriving DecidableEq, Repr

/-- One `Translator::translate_*` call. -/
structure Call where
  data : Data
  «from» : Option Fmt
  to : Fmt
  deriving DecidableEq, Repr

/-- A call a serializer makes on its writer (`&mut pipecheck::Writer<…>`
forwards each `Write` method to the method of the same name). -/
inductive WEvent where
  | write (b : Bytes)
  | writeAll (b : Bytes)
  | writeFmt (frags : List Bytes)
  | writeVectored (bufs : List Bytes)
  | flush
  deriving DecidableEq, Repr

/-- Bytes an event hands to the writer. -/
def WEvent.bytes : WEvent → Bytes
  | .write b => b
  | .writeAll b => b
  | .writeFmt fs => fs.flatten
  | .writeVectored bs => bs.flatten
  | .flush => []

/-- What one library call does when every write succeeds. -/
structure LibOut where
  events : List WEvent
  /-- `None` = `Ok(())`, `Some msg` = `Err(e)` with `e.to_string() = msg` -/
  result : Option Str
  deriving DecidableEq, Repr

/-- The library: `run earlier call` describes `call` made on a `Translator`
that has already served `earlier`; `onWriteErr earlier call i e` is the text
of the error the call returns when its `i`-th write event fails with `e`
(assumption: a failed write makes the call return an error). -/
structure Lib where
  run : List Call → Call → LibOut
  onWriteErr : List Call → Call → Nat → IoErr → Str

/-- Response of file descriptor 1 to one operation. -/
inductive FdResp where
  /-- accepts everything offered -/
  | all
  /-- accepts at most `n` bytes (`Ok(0)` when `n = 0`) -/
  | upTo (n : Nat)
  | err (e : IoErr)
  deriving DecidableEq, Repr

/-- Behaviour of file descriptor 1: the response to its `i`-th operation when
it has accepted `n` bytes so far (`fd i n`). -/
abbrev Fd := Nat → Nat → FdResp

/-- State of file descriptor 1: number of operations so far, bytes accepted
(= what the consumer of standard output can see), and two ghost flags for the
C16 theorems: whether any operation was answered with `EPIPE`, and whether any
was answered with another error. -/
structure FdSt where
  ops : Nat
  accepted : Bytes
  epipe : Bool
  oerr : Bool
  deriving DecidableEq, Repr

def FdSt.init : FdSt := { ops := 0, accepted := [], epipe := false, oerr := false }

def isEpipe : IoErr → Bool
  | .brokenPipe => true
  | .other _ => false

/-- `write(1, buf)`. -/
def fdWrite (fd : Fd) (s : FdSt) (buf : Bytes) : Except IoErr Nat × FdSt :=
  match fd s.ops s.accepted.length with
  | .all => (.ok buf.length, { s with ops := s.ops + 1, accepted := s.accepted ++ buf })
  | .upTo n => (.ok (min n buf.length), { s with ops := s.ops + 1, accepted := s.accepted ++ buf.take n })
  | .err e => (.error e, { s with ops := s.ops + 1, epipe := s.epipe || isEpipe e, oerr := s.oerr || !isEpipe e })

/-- `flush` on standard output below xt's `BufWriter`. -/
def fdFlush (fd : Fd) (s : FdSt) : Except IoErr Unit × FdSt :=
  match fd s.ops s.accepted.length with
  | .err e => (.error e, { s with ops := s.ops + 1, epipe := s.epipe || isEpipe e, oerr := s.oerr || !isEpipe e })
  | _ => (.ok (), { s with ops := s.ops + 1 })

def writeZeroBuffered : IoErr := .other "failed to write the buffered data".toList
def writeZeroWhole : IoErr := .other "failed to write whole buffer".toList

/-- `write_all` on the inner writer / the loop of `BufWriter::flush_buf`:
write until everything is taken; `Ok(0)` is the error `zero`.  Returns the
error if any, the state, and the part not written. -/
def writeLoop (fd : Fd) (zero : IoErr) (buf : Bytes) (s : FdSt) : Option IoErr × FdSt × Bytes :=
  if hb : buf = [] then (none, s, [])
  else
    match fdWrite fd s buf with
    | (.error e, s') => (some e, s', buf)
    | (.ok n, s') =>
      if hn : n = 0 then (some zero, s', buf)
      else writeLoop fd zero (buf.drop n) s'
termination_by buf.length
decreasing_by
  have : buf.length ≠ 0 := by intro h; exact hb (List.eq_nil_of_length_eq_zero h)
  simp [List.length_drop]; omega

/-! ## `std::io::BufWriter` with capacity 8192 -/

def CAP : Nat := 8192

/-- xt's output stack below `pipecheck::Writer`: the `BufWriter`'s buffer and file descriptor 1. -/
structure Out where
  buf : Bytes
  fd : FdSt
  deriving DecidableEq, Repr

def Out.init : Out := { buf := [], fd := FdSt.init }

abbrev IoR (α : Type) := Except IoErr α

/-- `BufWriter::flush_buf`: on an error the unwritten part stays in the buffer. -/
def flushBuf (fd : Fd) (o : Out) : IoR Unit × Out :=
  match writeLoop fd writeZeroBuffered o.buf o.fd with
  | (none, s, _) => (.ok (), { buf := [], fd := s })
  | (some e, s, rest) => (.error e, { buf := rest, fd := s })

/-- The common front of `write_cold` / `write_all_cold` / `write_vectored`:
flush first when `n` more bytes do not fit. -/
def makeRoom (fd : Fd) (o : Out) (n : Nat) : IoR Unit × Out :=
  if n + o.buf.length > CAP then flushBuf fd o else (.ok (), o)

/-- `BufWriter::write`. -/
def bwWrite (fd : Fd) (o : Out) (b : Bytes) : IoR Nat × Out :=
  if b.length + o.buf.length < CAP then (.ok b.length, { o with buf := o.buf ++ b })
  else
    match makeRoom fd o b.length with
    | (.error e, o1) => (.error e, o1)
    | (.ok (), o1) =>
      if b.length ≥ CAP then
        match fdWrite fd o1.fd b with
        | (r, s) => (r, { o1 with fd := s })
      else (.ok b.length, { o1 with buf := o1.buf ++ b })

/-- `BufWriter::write_all`. -/
def bwWriteAll (fd : Fd) (o : Out) (b : Bytes) : IoR Unit × Out :=
  if b.length + o.buf.length < CAP then (.ok (), { o with buf := o.buf ++ b })
  else
    match makeRoom fd o b.length with
    | (.error e, o1) => (.error e, o1)
    | (.ok (), o1) =>
      if b.length ≥ CAP then
        match writeLoop fd writeZeroWhole b o1.fd with
        | (none, s, _) => (.ok (), { o1 with fd := s })
        | (some e, s, _) => (.error e, { o1 with fd := s })
      else (.ok (), { o1 with buf := o1.buf ++ b })

/-- `Write::write_fmt` (the default method): `write_all` per fragment, stopping at the first error. -/
def bwWriteFmt (fd : Fd) (o : Out) : List Bytes → IoR Unit × Out
  | [] => (.ok (), o)
  | f :: fs =>
    match bwWriteAll fd o f with
    | (.error e, o1) => (.error e, o1)
    | (.ok (), o1) => bwWriteFmt fd o1 fs

/-- `BufWriter::write_vectored` over a writer with `is_write_vectored()`. -/
def bwWriteVectored (fd : Fd) (o : Out) (bufs : List Bytes) : IoR Nat × Out :=
  let total := bufs.flatten.length
  match makeRoom fd o total with
  | (.error e, o1) => (.error e, o1)
  | (.ok (), o1) =>
    if total ≥ CAP then
      match fdWrite fd o1.fd bufs.flatten with
      | (r, s) => (r, { o1 with fd := s })
    else (.ok total, { o1 with buf := o1.buf ++ bufs.flatten })

/-- `BufWriter::flush`. -/
def bwFlush (fd : Fd) (o : Out) : IoR Unit × Out :=
  match flushBuf fd o with
  | (.error e, o1) => (.error e, o1)
  | (.ok (), o1) =>
    match fdFlush fd o1.fd with
    | (r, s) => (r, { o1 with fd := s })

/-! ## `pipecheck::Writer` -/

/-- How a call on `pipecheck::Writer` ends. -/
inductive PcOut (α : Type) where
  | returned (r : IoR α)
  /-- `signal(SIGPIPE, SIG_DFL); raise(SIGPIPE)` -/
  | killedBySigpipe
  deriving Repr

/-- `check_for_broken_pipe`. -/
def checkForBrokenPipe {α : Type} (r : IoR α) : PcOut α :=
  match r with
  | .error .brokenPipe => .killedBySigpipe
  | r => .returned r

/-- The five methods of `impl Write for pipecheck::Writer<BufWriter<StdoutLock>>`. -/
def Writer.write (fd : Fd) (o : Out) (b : Bytes) : PcOut Nat × Out :=
  match bwWrite fd o b with
  | (r, o') => (checkForBrokenPipe r, o')

def Writer.flush (fd : Fd) (o : Out) : PcOut Unit × Out :=
  match bwFlush fd o with
  | (r, o') => (checkForBrokenPipe r, o')

def Writer.writeAll (fd : Fd) (o : Out) (b : Bytes) : PcOut Unit × Out :=
  match bwWriteAll fd o b with
  | (r, o') => (checkForBrokenPipe r, o')

def Writer.writeFmt (fd : Fd) (o : Out) (frags : List Bytes) : PcOut Unit × Out :=
  match bwWriteFmt fd o frags with
  | (r, o') => (checkForBrokenPipe r, o')

def Writer.writeVectored (fd : Fd) (o : Out) (bufs : List Bytes) : PcOut Nat × Out :=
  match bwWriteVectored fd o bufs with
  | (r, o') => (checkForBrokenPipe r, o')

/-! ## One library call against the writer -/

/-- How a write event ends for the library. -/
inductive EvR where
  | ok
  | err (e : IoErr)
  | killed
  deriving DecidableEq, Repr

def evOfUnit : PcOut Unit → EvR
  | .returned (.ok ()) => .ok
  | .returned (.error e) => .err e
  | .killedBySigpipe => .killed

/-- A caller of the plain `write` method repeats it for the rest after a
short count, as `Write::write_all` does. -/
def callerWriteLoop (fd : Fd) (b : Bytes) (o : Out) : EvR × Out :=
  if hb : b = [] then (.ok, o)
  else
    match Writer.write fd o b with
    | (.killedBySigpipe, o') => (.killed, o')
    | (.returned (.error e), o') => (.err e, o')
    | (.returned (.ok n), o') =>
      if hn : n = 0 then (.err writeZeroWhole, o')
      else callerWriteLoop fd (b.drop n) o'
termination_by b.length
decreasing_by
  have : b.length ≠ 0 := by intro h; exact hb (List.eq_nil_of_length_eq_zero h)
  simp [List.length_drop]; omega

/-- Same for `write_vectored` (over the concatenation). -/
def callerVectoredLoop (fd : Fd) (bufs : List Bytes) (o : Out) : EvR × Out :=
  match Writer.writeVectored fd o bufs with
  | (.killedBySigpipe, o') => (.killed, o')
  | (.returned (.error e), o') => (.err e, o')
  | (.returned (.ok n), o') =>
    if n ≥ bufs.flatten.length then (.ok, o')
    else if n = 0 then (.err writeZeroWhole, o')
    else callerWriteLoop fd (bufs.flatten.drop n) o'

def execEvent (fd : Fd) (o : Out) : WEvent → EvR × Out
  | .write b => callerWriteLoop fd b o
  | .writeAll b => match Writer.writeAll fd o b with | (r, o') => (evOfUnit r, o')
  | .writeFmt fs => match Writer.writeFmt fd o fs with | (r, o') => (evOfUnit r, o')
  | .writeVectored bs => callerVectoredLoop fd bs o
  | .flush => match Writer.flush fd o with | (r, o') => (evOfUnit r, o')

/-- Run the events of one call until one does not succeed; the index of that event is reported. -/
def execEvents (fd : Fd) : List WEvent → Nat → Out → EvR × Nat × Out
  | [], i, o => (.ok, i, o)
  | ev :: rest, i, o =>
    match execEvent fd o ev with
    | (.ok, o') => execEvents fd rest (i + 1) o'
    | (r, o') => (r, i, o')

/-- How a `translate_*` call ends for `main`. -/
inductive TrR where
  | ok
  | failed (msg : Str)
  | killed
  deriving DecidableEq, Repr

/-! ## `main` -/

/-- Everything outside `argv` that a run depends on. -/
structure World where
  argv0 : Str
  /-- `concat!(CARGO_PKG_NAME, " ", CARGO_PKG_VERSION)` -/
  version : Str
  fs : Str → FileKind
  stdin : Bytes
  isTty : Bool
  fd : Fd
  lib : Lib
  /-- `false` gives the variant of `main` without `translator.flush()` after
  each input (xt before v0.12.2); the real `main` is `true`. -/
  perInputFlush : Bool := true

inductive Exit where
  | code (n : Nat)
  | sigpipe
  | panic (s : Site)
  deriving DecidableEq, Repr

/-- Everything observable about a finished run. -/
structure Run where
  exit : Exit
  stderr : Str
  /-- library calls started, in order -/
  calls : List (InputPath × Call)
  /-- final state of the output stack: `out.fd.accepted` is what reached
  standard output, `out.buf` what was still in xt's `BufWriter` -/
  out : Out
  deriving DecidableEq, Repr

def Run.stdout (r : Run) : Bytes := r.out.fd.accepted

/-- `static USAGE`. -/
def usage : Str := "[-f format] [-t format] [file ...]".toList

/-- `write_short_help`. -/
def shortHelpText (argv0 : Str) : Str :=
  "Usage: ".toList ++ argv0 ++ [' '] ++ usage ++
  "\nFormats: json, msgpack, toml, yaml\nTry '".toList ++ argv0 ++ " --help' for more information.\n".toList

/-- `print_long_help`. -/
def longHelpText (version argv0 : Str) : Str :=
  version ++ " - Translate between serialized data formats\n\nUSAGE\n    ".toList ++ argv0 ++ [' '] ++ usage ++
  "

    Without -f, xt detects the format of each input by extension
    or content inspection.

    With no file, or with the special name \"-\" at any one position,
    xt translates from standard input.

OPTIONS
    -f format      Skip detection and convert every input from the given format
    -h, --help     Print a usage summary, then exit
    -t format      Convert to the given format (default: json)
    -V, --version  Print version information, then exit

FORMATS
    json, j
        Default for .json files.
        Multi-document (self-delineating or whitespace between values).

    msgpack, m
        Default for .msgpack files.
        Multi-document (naturally self-delineating).

    toml, t
        Default for .toml files.
        Single document per input or output.

    yaml, y
        Default for .yaml and .yml files.
        Multi-document (with --- or ... syntax).

CAVEATS
    xt does not guarantee that every translation is possible, or lossless, or
    reversible. xt's behavior is undefined if an input file is modified while
    running.
".toList

def xtError : Str := "xt error".toList

/-- The line `xt_bail!` prints. -/
def bailLine (msg : Str) : Str := xtError ++ ": ".toList ++ msg ++ ['\n']

/-- The line `xt_bail_path!` prints. -/
def bailPathLine (path : InputPath) (msg : Str) : Str :=
  xtError ++ " in ".toList ++ path.display ++ ": ".toList ++ msg ++ ['\n']

def noSuchFile : Str := "No such file or directory (os error 2)".toList
def permissionDenied : Str := "Permission denied (os error 13)".toList
def notADirectoryMsg : Str := "Not a directory (os error 20)".toList
def stdinTwice : Str := "cannot read from standard input more than once".toList

/-- `enum Input`, with what the library will be handed. -/
inductive Input where
  | stdin
  | file (d : Data)
  | mmap (b : Bytes)
  deriving DecidableEq, Repr

/-- `InputPath::open`: a regular file is mapped; when mapping fails (FIFO,
directory) the opened file is read instead. -/
def InputPath.open (fs : Str → FileKind) : InputPath → Except Str Input
  | .stdin => .ok .stdin
  | .file path =>
    match fs path with
    | .regular b => .ok (.mmap b)
    | .fifo b => .ok (.file (.reader b))
    | .directory => .ok (.file .dirReader)
    | .missing => .error noSuchFile
    | .unreadable => .error permissionDenied
    | .notADirectory => .error notADirectoryMsg

/-- What the library is handed for an opened input. -/
def Input.data (stdin : Bytes) : Input → Data
  | .stdin => .reader stdin
  | .file d => d
  | .mmap b => .slice b

/-- `process::exit(code)` from inside the loop: xt's `BufWriter` is not flushed. -/
def exitWith (code : Nat) (stderr : Str) (calls : List (InputPath × Call)) (o : Out) : Run :=
  { exit := .code code, stderr := stderr, calls := calls, out := o }

/-- One `translator.translate_*` call: the library's write events go through
`pipecheck::Writer`; the first event that fails ends the call with an error. -/
def translateCall (w : World) (earlier : List Call) (call : Call) (o : Out) : TrR × Out :=
  let lo := w.lib.run earlier call
  match execEvents w.fd lo.events 0 o with
  | (.killed, _, o') => (.killed, o')
  | (.err e, i, o') => (.failed (w.lib.onWriteErr earlier call i e), o')
  | (.ok, _, o') =>
    match lo.result with
    | none => (.ok, o')
    | some m => (.failed m, o')

/-- The locals of `main` that live across loop iterations: `stdin_used`, the
library calls started so far (in the Rust code: the state of `translator`),
and the output stack. -/
structure LoopSt where
  stdinUsed : Bool
  calls : List (InputPath × Call)
  out : Out
  deriving DecidableEq, Repr

def LoopSt.init : LoopSt := { stdinUsed := false, calls := [], out := Out.init }

/-- How one iteration of the loop ends. -/
inductive StepR where
  /-- the input was translated (and flushed): on to the next one -/
  | next (s : LoopSt)
  /-- the process ended inside this iteration -/
  | stop (r : Run)
  deriving DecidableEq, Repr

/-- `args.from.or_else(|| path.extension_format())`. -/
def resolveFrom (cliFrom : Option Fmt) (path : InputPath) : Option Fmt :=
  match cliFrom with
  | some f => some f
  | none => path.extensionFormat

/-- The body of `for path in input_paths { … }`. -/
def step (w : World) (cliFrom : Option Fmt) (to : Fmt) (s : LoopSt) (path : InputPath) : StepR :=
  match path.open w.fs with
  | .error msg => .stop (exitWith 1 (bailPathLine path msg) s.calls s.out)
  | .ok input =>
    if input = .stdin ∧ s.stdinUsed = true then .stop (exitWith 1 (bailLine stdinTwice) s.calls s.out)
    else
      let call : Call := { data := input.data w.stdin, «from» := resolveFrom cliFrom path, to := to }
      let calls' := s.calls ++ [(path, call)]
      let used := s.stdinUsed || (input = .stdin)
      match translateCall w (s.calls.map (·.2)) call s.out with
      | (.killed, o1) => .stop { exit := .sigpipe, stderr := [], calls := calls', out := o1 }
      | (.failed msg, o1) => .stop (exitWith 1 (bailPathLine path msg) calls' o1)
      | (.ok, o1) =>
        if w.perInputFlush then
          -- `translator.flush()` forwards to the writer's `flush`
          match Writer.flush w.fd o1 with
          | (.killedBySigpipe, o2) => .stop { exit := .sigpipe, stderr := [], calls := calls', out := o2 }
          | (.returned (.error e), o2) => .stop (exitWith 1 (bailLine e.display) calls' o2)
          | (.returned (.ok ()), o2) => .next { stdinUsed := used, calls := calls', out := o2 }
        else .next { stdinUsed := used, calls := calls', out := o1 }

/-- `main` returns after the loop: `output` is dropped, `BufWriter::drop`
flushes what is buffered (errors ignored), exit status 0. -/
def finish (w : World) (s : LoopSt) : Run :=
  { exit := .code 0, stderr := [], calls := s.calls, out := (flushBuf w.fd s.out).2 }

/-- The `for path in input_paths` loop of `main`, and the return from `main`. -/
def mainLoop (w : World) (cliFrom : Option Fmt) (to : Fmt) : List InputPath → LoopSt → Run
  | [], s => finish w s
  | path :: rest, s =>
    match step w cliFrom to s path with
    | .next s' => mainLoop w cliFrom to rest s'
    | .stop r => r

/-- `let _ = write!(io::stdout().lock(), …); process::exit(0)`: help and
version bypass `pipecheck::Writer` and the `BufWriter`, and ignore errors. -/
def printAndExit0 (w : World) (text : Str) : Run :=
  { exit := .code 0, stderr := [], calls := [],
    out := { buf := [], fd := (writeLoop w.fd writeZeroWhole (utf8 text) FdSt.init).2.1 } }

/-- `if args.input_pathnames.is_empty() { one(Stdin) } else { many(…map(Into::into)) }`. -/
def inputPaths (paths : List Str) : List InputPath :=
  match paths with
  | [] => [.stdin]
  | _ => paths.map InputPath.ofArg

/-- `format_is_unsafe_for_terminal`. -/
def unsafeForTerminal : Fmt → Bool
  | .msgpack => true
  | _ => false

/-- `main` for `argv = argv0 :: args`. -/
def run (w : World) (args : List Str) : Run :=
  match parseArgs args with
  | .panic s => { exit := .panic s, stderr := [], calls := [], out := Out.init }
  | .err e => exitWith 2 (bailLine e.display ++ shortHelpText w.argv0) [] Out.init
  | .version => printAndExit0 w (w.version ++ ['\n'])
  | .shortHelp => printAndExit0 w (shortHelpText w.argv0)
  | .longHelp => printAndExit0 w (longHelpText w.version w.argv0)
  | .ok paths «from» to =>
    if w.isTty ∧ unsafeForTerminal to = true then
      exitWith 1 (bailLine ("refusing to output ".toList ++ to.display ++ " to a terminal".toList)) [] Out.init
    else mainLoop w «from» to (inputPaths paths) LoopSt.init

end Xt.Cli
