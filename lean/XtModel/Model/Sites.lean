/-
Hand-written account of every panic / unsafe site of xt's sources.

`Generated/PanicSites.lean` (`Xt.Generated.sites`, rewritten from /repo's
working tree by `gen_from_source.py` before every build) is the inventory:
`(file, enclosing fn, kind, count)`.  `covered` below says, for each
`(file, fn, kind)`, how many such sites are accounted for and by WHAT: the
fully-qualified name of the theorem that shows the site unreachable / its
precondition satisfied, or a reason tag.  `Props/C17.lean` and
`Props/C04Sites.lean` prove `uncovered Generated.sites covered = []` by
`decide`: a site added to the sources (or a checked access turned into an
unchecked one) has no entry here and breaks that proof.  Removing a site never
does.  Several entries may share a key; their counts add up.  An account with
fn `*` speaks for a file and kind as a whole (used for the CLI files only).

Reason tags (everything that is not a theorem name):

* `deliberate:oom`                 -- `panic!` in `Parser::new` when libyaml cannot allocate
* `deliberate:misbehaving-reader`  -- a reader that violates the `Read` contract by reporting
                                      more than the buffer holds is answered by a clean panic
* `deliberate:debug_assert`        -- `debug_assert!` (debug builds only; the condition is what
                                      the named model theorem proves, see `no_panic_encoding`)
* `delegated:libyaml`              -- soundness rests on unsafe-libyaml honouring its C contract
                                      (initialises what it says it initialises, valid or null
                                      C strings, calls the read handler with a valid buffer)
* `delegated:box-maybeuninit`      -- `Box<MaybeUninit<T>>` → `Box<T>` after a successful init
* `delegated:aliasing`             -- the raw `*mut ReadState` exclusivity argument
                                      (`&mut self` ⇒ the parser is not running); not expressible
                                      in a functional model, Miri's borrow tracker is the search
* `delegated:libc`                 -- `libc::signal` / `libc::raise`
* `delegated:mmap`                 -- `memmap2::Mmap::map` (documented as unsound if the file
                                      changes; outside the library)
* `cli:not-library`                -- main.rs / bail.rs / pipecheck.rs sites outside the
                                      library scope of the properties
* `lossless-cast`                  -- widening cast (`u8/u16/u32 → usize`, `usize → u64` on the
                                      ≤ 64-bit targets xt builds for), or `Cursor::position()`
                                      of an in-memory `Vec` back to `usize`
* `full-range-index`               -- `v[..]`, cannot panic
* `byte-counter`                   -- `u64` position / line / column counters that advance by at
                                      most the number of bytes read: no overflow below 2^64 bytes
* `bounded-add`                    -- a sum of lengths bounded by the length of an existing
                                      buffer (`≤ isize::MAX`); the bound is part of the named
                                      theorem where one exists
* `const-eval`                     -- evaluated by the compiler (an overflow is a build error)

Import-free.
-/
namespace Xt.Sites

/-- `(file, fn, kind, count)` -/
abbrev Entry := String × String × String × Nat
/-- `(file, fn, kind, count accounted for, by what)` -/
abbrev Cover := String × String × String × Nat × String

def chunkerRs := "src/yaml/chunker.rs"
def parserRs := "src/yaml/chunker/parser.rs"
def encodingRs := "src/yaml/encoding.rs"
def inputRs := "src/input.rs"
def msgpackRs := "src/msgpack.rs"
def streamRs := "src/transcode/stream.rs"

def covered : List Cover := [
  -- ---------------------------------------------------------------- src/input.rs (model: Input.lean)
  (inputRs, "CaptureReader::capture_up_to_size", "cast", 1, "lossless-cast"),
  (inputRs, "CaptureReader::captured_unread_size", "cast", 1, "lossless-cast"),
  (inputRs, "CaptureReader::captured_unread_size", "unchecked_sub", 1, "Xt.Props.C09.no_panic_input"),
  (inputRs, "CaptureReader::read", "index", 3, "Xt.Props.C09.no_panic_input"),
  (inputRs, "CaptureReader::read", "unchecked_add", 1, "bounded-add"),
  -- ---------------------------------------------------------------- src/main.rs, src/pipecheck.rs (CLI)
  -- fn `*`: per file and kind, whatever function the site is written in (no theorem is
  -- attached to a function here; what matters is that there is ONE mmap call, TWO libc calls)
  ("src/main.rs", "*", "unsafe_block", 1, "delegated:mmap"),
  ("src/main.rs", "*", "unsafe_call", 1, "delegated:mmap"),
  ("src/pipecheck.rs", "*", "unsafe_block", 1, "delegated:libc"),
  ("src/pipecheck.rs", "*", "unsafe_call", 2, "delegated:libc"),
  -- ---------------------------------------------------------------- src/msgpack.rs (model: MsgpackSize, slice C18)
  (msgpackRs, "next_value_size", "cast", 7, "lossless-cast"),
  (msgpackRs, "next_value_size", "index", 7, "Xt.Props.C18.no_panic_msgsize"),
  (msgpackRs, "next_value_size", "unchecked_add", 13, "Xt.Props.C18.no_panic_msgsize"),
  (msgpackRs, "total_map_size", "index", 1, "Xt.Props.C18.no_panic_msgsize"),
  (msgpackRs, "total_map_size", "unchecked_add", 1, "Xt.Props.C18.no_panic_msgsize"),
  (msgpackRs, "total_seq_size", "index", 1, "Xt.Props.C18.no_panic_msgsize"),
  (msgpackRs, "total_seq_size", "unchecked_add", 1, "Xt.Props.C18.no_panic_msgsize"),
  (msgpackRs, "total_seq_size", "unchecked_sub", 1, "Xt.Props.C18.no_panic_msgsize"),
  (msgpackRs, "transcode", "split_at", 1, "Xt.Props.C18.no_panic_msgsize"),
  (msgpackRs, "try_read_length", "unchecked_add", 1, "Xt.Props.C18.no_panic_msgsize"),
  (msgpackRs, "try_read_length", "unwrap", 1, "Xt.Props.C18.no_panic_msgsize"),
  -- ---------------------------------------------------------------- src/transcode/stream.rs (model: Transcode.lean)
  (streamRs, "State::take_parent", "expect", 1, "Xt.Props.C11.no_panic_transcode"),
  (streamRs, "transcode", "unwrap", 1, "Xt.Props.C11.no_panic_transcode"),
  -- ---------------------------------------------------------------- src/yaml/chunker.rs (model: Chunker.lean)
  (chunkerRs, "ChunkReader::read", "index", 1, "Xt.Chunker.Guards.chunkreader_overreport_is_clean_panic"),
  (chunkerRs, "ChunkReader::take_to_offset", "split_off", 1, "Xt.Props.C03.no_panic_chunker"),
  (chunkerRs, "ChunkReader::take_to_offset", "unchecked_sub", 1, "Xt.Props.C03.no_panic_chunker"),
  (chunkerRs, "ChunkReader::take_to_offset", "unwrap", 1, "Xt.Props.C03.no_panic_chunker"),
  (chunkerRs, "ChunkReader::trim_to_offset", "drain", 1, "Xt.Props.C03.trim_never_drainRange"),
  (chunkerRs, "ChunkReader::trim_to_offset", "index", 1, "Xt.Props.C03.no_panic_chunker"),
  (chunkerRs, "ChunkReader::trim_to_offset", "unchecked_sub", 4, "Xt.Props.C03.no_panic_chunker"),
  (chunkerRs, "ChunkReader::trim_to_offset", "unwrap", 1, "Xt.Props.C03.no_panic_chunker"),
  (chunkerRs, "Chunker::next", "unwrap", 1, "Xt.Props.C03.no_panic_chunker"),
  -- ---------------------------------------------------------------- src/yaml/chunker/parser.rs
  (parserRs, "Event::drop", "unsafe_block", 1, "delegated:libyaml"),
  (parserRs, "Event::drop", "unsafe_call", 1, "delegated:libyaml"),
  (parserRs, "Event::parse_next", "unsafe_block", 1, "delegated:libyaml"),
  (parserRs, "Event::parse_next", "unsafe_call", 7, "delegated:libyaml"),
  (parserRs, "LocatedError::from_parts", "unchecked_add", 2, "byte-counter"),
  -- Drop: exactly one yaml_parser_delete, then exactly one Box::from_raw(read_state)
  (parserRs, "Parser::drop", "unsafe_block", 1, "Xt.Props.C17.events_drop_safe"),
  (parserRs, "Parser::drop", "unsafe_call", 3, "Xt.Props.C17.events_drop_safe"),
  (parserRs, "Parser::drop", "unsafe_deref", 1, "Xt.Props.C17.events_drop_safe"),
  (parserRs, "Parser::new", "panic", 1, "deliberate:oom"),
  -- first block: Box<MaybeUninit<yaml_parser_t>> + yaml_parser_initialize + Box::from_raw(into_raw.cast())
  (parserRs, "Parser::new", "unsafe_block", 1, "delegated:box-maybeuninit"),
  (parserRs, "Parser::new", "unsafe_call", 7, "delegated:box-maybeuninit"),
  -- second block: yaml_parser_set_encoding / yaml_parser_set_input on the initialised parser
  (parserRs, "Parser::new", "unsafe_block", 1, "delegated:libyaml"),
  (parserRs, "Parser::new", "unsafe_call", 3, "delegated:libyaml"),
  (parserRs, "Parser::new", "unsafe_deref", 2, "delegated:libyaml"),
  -- read_handler: `&mut *read_state.cast()` is the aliasing argument; the copy block is the guard
  (parserRs, "Parser::read_handler", "unsafe_fn", 1, "Xt.Props.C17.read_handler_total"),
  (parserRs, "Parser::read_handler", "cast", 1, "lossless-cast"),
  (parserRs, "Parser::read_handler", "index", 1, "full-range-index"),
  (parserRs, "Parser::read_handler", "unsafe_block", 1, "delegated:aliasing"),
  (parserRs, "Parser::read_handler", "unsafe_call", 1, "delegated:aliasing"),
  (parserRs, "Parser::read_handler", "unsafe_deref", 1, "delegated:aliasing"),
  (parserRs, "Parser::read_handler", "unsafe_block", 1, "Xt.Chunker.Guards.copy_len_in_bounds"),
  (parserRs, "Parser::read_handler", "unsafe_call", 2, "Xt.Chunker.Guards.copy_len_in_bounds"),
  (parserRs, "Parser::read_handler", "unsafe_deref", 1, "Xt.Chunker.Guards.copy_len_in_bounds"),
  (parserRs, "Parser::read_state_mut", "unsafe_block", 1, "delegated:aliasing"),
  (parserRs, "Parser::read_state_mut", "unsafe_deref", 1, "delegated:aliasing"),
  (parserRs, "ParserError::new", "unsafe_block", 1, "delegated:libyaml"),
  (parserRs, "ParserError::new", "unsafe_call", 4, "delegated:libyaml"),
  (parserRs, "ParserError::try_cstr_into_string", "unsafe_block", 1, "delegated:libyaml"),
  (parserRs, "ParserError::try_cstr_into_string", "unsafe_call", 3, "delegated:libyaml"),
  (parserRs, "ParserError::try_cstr_into_string", "unsafe_fn", 1, "delegated:libyaml"),
  -- ---------------------------------------------------------------- src/yaml/encoding.rs (models: Encoding.lean, EncoderBounds.lean)
  (encodingRs, "ArrayBuffer::consume", "debug_assert", 1, "deliberate:debug_assert"),
  (encodingRs, "ArrayBuffer::consume", "unchecked_add", 1, "Xt.Props.C17.no_panic_encoding"),
  (encodingRs, "ArrayBuffer::read", "copy_from_slice", 1, "Xt.Props.C17.no_panic_encoding"),
  (encodingRs, "ArrayBuffer::read", "index", 2, "Xt.Props.C17.no_panic_encoding"),
  (encodingRs, "ArrayBuffer::read", "unchecked_add", 1, "Xt.Props.C17.no_panic_encoding"),
  (encodingRs, "ArrayBuffer::set", "copy_from_slice", 1, "Xt.Props.C17.no_panic_encoding"),
  (encodingRs, "ArrayBuffer::set", "debug_assert", 1, "deliberate:debug_assert"),
  (encodingRs, "ArrayBuffer::set", "index", 1, "Xt.Props.C17.no_panic_encoding"),
  (encodingRs, "ArrayBuffer::unread", "index", 1, "Xt.Props.C17.no_panic_encoding"),
  (encodingRs, "ArrayBuffer::write", "copy_from_slice", 1, "Xt.Props.C17.no_panic_encoding"),
  (encodingRs, "ArrayBuffer::write", "index", 3, "Xt.Props.C17.no_panic_encoding"),
  (encodingRs, "ArrayBuffer::write", "unchecked_add", 1, "Xt.Props.C17.no_panic_encoding"),
  (encodingRs, "Encoder::from_reader", "cast", 1, "lossless-cast"),
  (encodingRs, "EncodingError::-", "unchecked_mul", 1, "const-eval"),
  (encodingRs, "Utf16Decoder::next", "unchecked_add", 1, "Xt.Props.C17.surrogate_pair_arith"),
  (encodingRs, "Utf16Decoder::next", "unchecked_sub", 2, "Xt.Props.C17.surrogate_pair_arith"),
  (encodingRs, "Utf16Decoder::next", "unchecked_call", 2, "Xt.Props.C17.unchecked_char_is_scalar"),
  (encodingRs, "Utf16Decoder::next", "unsafe_block", 2, "Xt.Props.C17.unchecked_char_is_scalar"),
  (encodingRs, "Utf16Decoder::next", "unsafe_call", 5, "Xt.Props.C17.unchecked_char_is_scalar"),
  (encodingRs, "Utf16Decoder::next_u16", "cast", 1, "lossless-cast"),
  (encodingRs, "Utf16Decoder::next_u16", "unchecked_add", 1, "byte-counter"),
  (encodingRs, "Utf32Decoder::next", "cast", 1, "lossless-cast"),
  (encodingRs, "Utf32Decoder::next", "unchecked_add", 1, "byte-counter"),
  (encodingRs, "Utf8Encoder::read", "copy_from_slice", 1, "Xt.Props.C17.no_panic_encoding"),
  (encodingRs, "Utf8Encoder::read", "index", 6, "Xt.Props.C17.no_panic_encoding"),
  (encodingRs, "Utf8Encoder::read", "unchecked_add", 3, "Xt.Props.C17.no_panic_encoding")
]

def sameKey (e : Entry) (c : Cover) : Bool :=
  c.1 == e.1 && c.2.1 == e.2.1 && c.2.2.1 == e.2.2.1

/-- An account with fn `*` speaks for a whole file and kind. -/
def wildKey (e : Entry) (c : Cover) : Bool :=
  c.2.1 == "*" && c.1 == e.1 && c.2.2.1 == e.2.2.1

/-- How many sites with the key of `e` the list `cov` accounts for. -/
def accounted (cov : List Cover) (e : Entry) : Nat :=
  (cov.filter (sameKey e)).foldl (fun n c => n + c.2.2.2.1) 0

/-- How many sites of `e`'s file and kind the `*` accounts of `cov` speak for. -/
def accountedWild (cov : List Cover) (e : Entry) : Nat :=
  (cov.filter (wildKey e)).foldl (fun n c => n + c.2.2.2.1) 0

/-- The sites of `e`'s file and kind in `gen` that have no account under their own fn. -/
def looseTotal (gen : List Entry) (cov : List Cover) (e : Entry) : Nat :=
  (gen.filter fun g => g.1 == e.1 && g.2.2.1 == e.2.2.1 && !cov.any (sameKey g)).foldl (fun n g => n + g.2.2.2) 0

/-- The generated entries that `cov` does not (fully) account for: an entry
with accounts under its own fn needs their counts to add up to its own; an
entry without one is pooled with the others of its file and kind against the
`*` accounts (so that moving such a site to another function of the same file
changes nothing, and a second one is still detected). -/
def uncovered (gen : List Entry) (cov : List Cover) : List Entry :=
  gen.filter fun e =>
    if cov.any (sameKey e) then accounted cov e < e.2.2.2
    else accountedWild cov e < looseTotal gen cov e

/-- Kinds that only exist because of `unsafe`. -/
def unsafeKinds : List String := ["unsafe_block", "unsafe_fn", "unsafe_impl", "unsafe_call", "unsafe_deref", "unchecked_call"]

def isUnsafeKind (e : Entry) : Bool := unsafeKinds.contains e.2.2.1

/-- All sites of `e`'s file and kind in `gen`. -/
def fileKindTotal (gen : List Entry) (e : Entry) : Nat :=
  (gen.filter fun g => g.1 == e.1 && g.2.2.1 == e.2.2.1).foldl (fun n g => n + g.2.2.2) 0

/-- All sites of `e`'s file and kind the accounts of `cov` speak for. -/
def fileKindAccounted (cov : List Cover) (e : Entry) : Nat :=
  (cov.filter fun c => c.1 == e.1 && c.2.2.1 == e.2.2.1).foldl (fun n c => n + c.2.2.2.1) 0

/-- `uncovered`, except that a panic-capable site which only MOVED between
functions of one file (a helper extracted or inlined, a function renamed or
split — the commonest harmless rewrite) is not reported: an entry the strict
rule rejects is reported only if its file now has MORE sites of that kind than
all accounts of that file and kind together.  A new site, or a checked access
turned into an unchecked one, still has no account.  What this lets through
that the strict rule would stop is an exchange — one site of a kind removed and
another of the same kind added in the same file — which is left to the
correspondences.  Sites that exist because of `unsafe` keep the strict,
per-function rule. -/
def uncoveredModuloMoves (gen : List Entry) (cov : List Cover) : List Entry :=
  (uncovered gen cov).filter fun e => isUnsafeKind e || fileKindAccounted cov e < fileKindTotal gen e

/-- `pre` is a prefix of `s` (on character lists, so that it reduces by `decide`). -/
def hasPrefix (pre s : String) : Bool := pre.toList.isPrefixOf s.toList

/-- The accounts accepted for an unsafe site: the precondition theorems and the
`delegated:` tags (`Props/C17.lean` checks that the list contains nothing else). -/
def unsafeAccounts : List String := [
  "Xt.Chunker.Guards.copy_len_in_bounds",
  "Xt.Props.C17.read_handler_total",
  "Xt.Props.C17.events_drop_safe",
  "Xt.Props.C17.unchecked_char_is_scalar",
  "delegated:libyaml", "delegated:box-maybeuninit", "delegated:aliasing", "delegated:libc", "delegated:mmap"
]

/-- An account of an unsafe site must be a precondition theorem or a `delegated:` tag. -/
def isUnsafeAccount (c : Cover) : Bool := unsafeAccounts.contains c.2.2.2.2

/-- The CLI files, outside the library scope of the properties. -/
def cliFiles : List String := ["src/main.rs", "src/bail.rs", "src/pipecheck.rs"]

def isLibrary (e : Entry) : Bool := !cliFiles.contains e.1

/-- The files property C17 is about. -/
def c17Files : List String := [parserRs, chunkerRs, encodingRs]

def isC17 (e : Entry) : Bool := c17Files.contains e.1

/-- The names of theorems used as accounts (for the audit that each exists). -/
def theoremNames (cov : List Cover) : List String :=
  (cov.map (·.2.2.2.2)).filter (hasPrefix "Xt.") |>.eraseDups

end Xt.Sites
