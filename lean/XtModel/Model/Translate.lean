import XtModel.Model.Input
import XtModel.Model.Detect
import XtModel.Model.Json
import XtModel.Model.MsgpackCodec

/-
Model of `Translator::translate` (/repo/src/lib.rs) as a COMPOSITION of the
models that exist:

* `detect_format` (src/detect.rs) is the decision list `Detect.detectFormat`,
  run with early exit over four trials;
* each trial is handed `input.borrow_mut()`: a rewound borrow of the handle of
  `Model/Input.lean` (a slice view once the source has reported its end);
* the MessagePack and JSON trials are concrete: the first-byte marker test and
  rmp_serde's decoder as `IgnoredAny` drives it (`Msgpack.decodeG true 1024`:
  `IgnoredAny` accepts ext values), resp. serde_json's `ignore_value`
  (`Json.ignoreValue`), classified by `Detect.msgpackMatches` /
  `Detect.jsonMatches`;
* the YAML and TOML parsers stay parameters (`Ext`); the TOML trial's use of
  the handle is `Detect.tomlTrial`;
* after detection `Input::from(handle)` (`Input.ofHandle`) decides what the
  format module is given (`Seen`): a slice iff the source has reported its end
  (`eof_flips_to_slice`), else a reader that replays what was captured and
  continues with the source (`capture_released`); the JSON / MessagePack
  modules then run `Json.sliceLoop` / `readerLoop`, `Msgpack.sliceLoop` /
  `readerLoop` on those bytes.

How far a concrete trial READS through a reader borrow.  A parser reading a
stream is a function of the bytes delivered, and through the capture reader the
bytes delivered are the original ones from offset 0 (`capture_transparent`).
So a trial is modelled by its *demand*: the number of bytes it asks for, one
request after the other, where a demand of `length + 1` means that it also made
the request that the source answers with "end of input".  `pull` performs those
requests on the `CaptureReader` model (`Cap.read`), so what is captured, when
`source_eof` is set and what a source fault does are the Input model's, not
re-stated here.

* rmp_serde reads with `read_exact` (marker, fixed-width data, length prefix)
  and `take(len).read_to_end` (str / bin / ext payload): it never asks for a
  byte beyond the value it is decoding.  Success ⇒ demand = extent of the first
  value; `UnexpectedEof` (`eofMarker` / `eofData`) ⇒ it consumed everything and
  asked for more; any other failure (`0xc1`, depth limit) ⇒ up to the byte at
  which it failed: the least prefix on which the decoder does not run out of
  input (`failPoint`).
* serde_json's `IoRead` reads single bytes (`io::Bytes`).  `ignore_value` stops
  right after a string / array / object / literal, and after a number it has
  peeked at the byte that ends it (`peek_or_null`): one look-ahead byte, which
  at the end of the data is the request that reports "end of input".  A failing
  trial: the `Eof…` error codes mean that it ran out of input; so does
  `invalid number` raised by `next_char_or_null` / `peek_or_null` at the end of
  the data (`-`, `1.`, `1e`, `1e+` + end) — recognised as: a digit appended
  makes the error go away; any other failure stops at the offending byte (least
  prefix on which the trial does not run out of input).

The request SIZES (single bytes for serde_json, field by field for rmp_serde,
8 KiB for the `BufReader` of the YAML trial) are a parameter `chunk` of `pull`;
what is captured and whether `source_eof` is set do not depend on them
(`Lemmas/Translate.lean: pull_spec`, for every chunk size and read schedule).
Both demands are checked against the real crates, on matching and on failing
inputs, by the `trialextent` correspondence engine (a byte-counting reader
around `input_matches_reader`).

Imports only other model files so that the native driver links.
-/
namespace Xt.Translate
open Xt.Input Xt.Detect

/-! ## Sequential requests through the capture reader -/

/-- How a run of requests ended. -/
inductive PullEnd where
  /-- everything asked for was delivered -/
  | full
  /-- a request was answered with no byte: end of input (`Ok(0)`) -/
  | eof
  | err (e : IoE)
  | panic (s : Site)
  deriving Repr, DecidableEq

structure Pulled where
  bytes : List Nat
  fin : PullEnd
  cap : Cap
  deriving Repr

/-- The size of the next request when `want` bytes are still wanted:
`chunk = 0` asks for all of them (`read_exact`, `Take::read_to_end`), otherwise
at most `chunk` at a time (1: `io::Bytes`; 8192: `BufReader`). -/
def request (chunk want : Nat) : Nat := if chunk = 0 then want else min chunk want

/-- `read` calls on the capture reader until `want` bytes have been delivered,
a call returns no byte, or a call fails. -/
def pull (chunk : Nat) (c : Cap) (want : Nat) : Pulled :=
  if want = 0 then { bytes := [], fin := .full, cap := c } else
  match c.read (request chunk want) with
  | (.ok [], c') => { bytes := [], fin := .eof, cap := c' }
  | (.ok (b :: bs), c') =>
    let r := pull chunk c' (want - (bs.length + 1))
    { r with bytes := b :: bs ++ r.bytes }
  | (.err e, c') => { bytes := [], fin := .err e, cap := c' }
  | (.panic s, c') => { bytes := [], fin := .panic s, cap := c' }
termination_by want
decreasing_by omega

/-- The least `n` in `lo … hi` with `p n`, for a monotone `p` with `p hi`
(bisection; the result is always within `lo … hi`). -/
def failPoint (p : Nat → Bool) (lo hi : Nat) : Nat :=
  if lo < hi then
    if p ((lo + hi) / 2) then failPoint p lo ((lo + hi) / 2)
    else failPoint p ((lo + hi) / 2 + 1) hi
  else hi
termination_by hi - lo
decreasing_by all_goals omega

/-! ## The MessagePack trial (`msgpack::input_matches`) -/

/-- `IgnoredAny::deserialize(&mut rmp_serde::Deserializer)` with
`set_max_depth(DEPTH_LIMIT)`: `IgnoredAny` takes ext values
(`visit_newtype_struct`), so this is `decodeG` with `acceptExt = true`. -/
def mpDecode (bs : List Nat) : Except Msgpack.DErr (Msgpack.MVal × List Nat) :=
  Msgpack.decodeG true Msgpack.depthLimit bs

/-- `InvalidMarkerRead(UnexpectedEof)` / `InvalidDataRead(UnexpectedEof)`. -/
def mpIsEof : Msgpack.DErr → Bool
  | .eofMarker | .eofData => true
  | _ => false

/-- The class of the decoder's result that `input_matches` looks at (no source
fault: the only read error is `UnexpectedEof`). -/
def mpClass : Except Msgpack.DErr (Msgpack.MVal × List Nat) → MsgpackRes
  | .ok _ => .ok
  | .error e => if mpIsEof e then .readErr true else .other

/-- The decoder ran out of input on these bytes. -/
def mpRunsOut (bs : List Nat) : Bool :=
  match mpDecode bs with
  | .error e => mpIsEof e
  | .ok _ => false

/-- Bytes the reader-mode decoder asks for on a stream holding `bs`
(`bs.length + 1`: all of them and one request more). -/
def mpDemand (bs : List Nat) : Nat :=
  match mpDecode bs with
  | .ok (_, rest) => bs.length - rest.length
  | .error e =>
    if mpIsEof e then bs.length + 1
    else failPoint (fun n => !mpRunsOut (bs.take n)) 0 bs.length

/-- The outcome of one trial: its answer, or a panic site of the handle. -/
inductive Step where
  | answer (t : Trial)
  | panic (s : Site)
  deriving Repr, DecidableEq

/-- Request size of rmp_serde's reads (whole fields). -/
def mpChunk : Nat := 0
/-- Request size of serde_json's `IoRead` (`io::Bytes`). -/
def jsonChunk : Nat := 1
/-- Request size of the `BufReader` the YAML trial wraps the borrow in. -/
def yamlChunk : Nat := 8192

/-- `msgpack::input_matches(input.borrow_mut())`. -/
def mpTrialWith (chunk : Nat) (h : Handle) : Step × Handle :=
  match h.borrow with
  | (.reader, .reader c) =>
    match c.captureUpToSize 1 with                     -- input.prefix(1)?
    | (.err _, c1) => (.answer .ioErr, .reader c1)
    | (.panic s, c1) => (.panic s, .reader c1)
    | (.ok (), c1) =>
      let first := c1.pre                              -- r.captured()
      match first.head? with
      | none => (.answer .noMatch, .reader c1)
      | some b =>
        if markerTest b then
          -- match_input_reader(r): the decoder reads from offset 0 again
          let data := c1.pre ++ c1.src.data
          let p := pull chunk c1 (mpDemand data)
          match p.fin with
          | .panic s => (.panic s, .reader p.cap)
          -- InvalidMarkerRead / InvalidDataRead of a kind other than UnexpectedEof
          | .err _ => (.answer (msgpackMatches (.ok first) (.readErr false)), .reader p.cap)
          | _ => (.answer (msgpackMatches (.ok first) (mpClass (mpDecode data))), .reader p.cap)
        else (.answer .noMatch, .reader c1)
  | (_, h') =>
    let bs := h'.sliceView                             -- Ref::Slice(b): prefix(1) = b
    (.answer (msgpackMatches (.ok bs) (mpClass (mpDecode bs))), h')

def mpTrial (h : Handle) : Step × Handle := mpTrialWith mpChunk h

/-! ## The JSON trial (`json::input_matches`) -/

def jsonIsEof : Json.Err → Bool
  | .eofList | .eofObject | .eofString | .eofValue => true
  | _ => false

/-- The first value is a number (`-` or a digit after optional whitespace):
`ignore_integer` / `ignore_decimal` / `ignore_exponent` end by peeking at the
next byte. -/
def topNumber (bs : List Nat) : Bool :=
  match Json.skipWs bs with
  | b :: _ => b = 0x2D || Json.isDigit b
  | [] => false

/-- The reader-mode trial asked for a byte beyond these bytes. -/
def jsonRunsOut (bs : List Nat) : Bool :=
  match Json.ignoreValue bs with
  | .ok rest => rest.isEmpty && topNumber bs
  | .error e =>
    jsonIsEof e ||
      (e == .invalidNumber &&
        (match Json.ignoreValue (bs ++ [0x30]) with
          | .error .invalidNumber => false
          | _ => true))

/-- Bytes the reader-mode trial asks for on a stream holding `bs`. -/
def jsonDemand (bs : List Nat) : Nat :=
  match Json.ignoreValue bs with
  | .ok rest => (bs.length - rest.length) + (if topNumber bs then 1 else 0)
  | .error _ =>
    if jsonRunsOut bs then bs.length + 1
    else failPoint (fun n => !jsonRunsOut (bs.take n)) 0 bs.length

/-- The class of `IgnoredAny::deserialize(&mut serde_json::Deserializer)`
(no source fault: never `is_io()`). -/
def jsonClass (bs : List Nat) : JsonRes := if Json.trialReader bs then .ok else .other

/-- `json::input_matches(input.borrow_mut())`. -/
def jsonTrialWith (chunk : Nat) (h : Handle) : Step × Handle :=
  match h.borrow with
  | (.reader, .reader c) =>
    let data := c.pre ++ c.src.data
    let p := pull chunk c (jsonDemand data)
    match p.fin with
    | .panic s => (.panic s, .reader p.cap)
    | .err _ => (.answer (jsonMatches .reader .io), .reader p.cap)     -- err.is_io()
    | _ => (.answer (jsonMatches .reader (jsonClass data)), .reader p.cap)
  | (_, h') =>
    let bs := h'.sliceView
    (.answer (jsonMatches (.slice (Json.validUtf8 bs)) (jsonClass bs)), h')

def jsonTrial (h : Handle) : Step × Handle := jsonTrialWith jsonChunk h

/-! ## The YAML and TOML trials: the parsers are parameters -/

/-- What is not modelled concretely: libyaml + the chunker + the re-encoder
behind `yaml::input_matches`, and the `toml` parser. -/
structure Ext where
  /-- the YAML trial's answer on `Ref::Slice(b)` -/
  yamlSlice : List Nat → Trial
  /-- the YAML trial on a reader borrow over a stream holding these bytes: its
  answer and its demand (more than there are: it saw the end of the input) -/
  yamlReader : List Nat → Trial × Nat
  /-- `str::from_utf8(..).is_ok()` as the TOML trial applies it -/
  tomlUtf8 : List Nat → Bool
  /-- `IgnoredAny::deserialize(toml::Deserializer::new(..)).is_ok()` -/
  tomlParses : List Nat → Bool

/-- `yaml::input_matches(input.borrow_mut())`. -/
def yamlTrialWith (chunk : Nat) (E : Ext) (h : Handle) : Step × Handle :=
  match h.borrow with
  | (.reader, .reader c) =>
    match c.captureUpToSize 4 with                     -- input.prefix(Encoding::DETECT_LEN)?
    | (.err _, c1) => (.answer .ioErr, .reader c1)
    | (.panic s, c1) => (.panic s, .reader c1)
    | (.ok (), c1) =>
      let data := c1.pre ++ c1.src.data
      let p := pull chunk c1 (E.yamlReader data).2
      match p.fin with
      | .panic s => (.panic s, .reader p.cap)
      -- the chunker labels every parser failure, a reader failure included,
      -- `InvalidData`: "no match" (chunker.rs)
      | .err _ => (.answer .noMatch, .reader p.cap)
      | _ => (.answer (E.yamlReader data).1, .reader p.cap)
  | (_, h') => (.answer (E.yamlSlice h'.sliceView), h')

def yamlTrial (E : Ext) (h : Handle) : Step × Handle := yamlTrialWith yamlChunk E h

/-- `toml::input_matches(input.borrow_mut())`: `Detect.tomlTrial`. -/
def tomlTrialStep (E : Ext) (h : Handle) : Step × Handle :=
  let r := tomlTrial h E.tomlUtf8 E.tomlParses
  (.answer r.1, r.2)

/-! ## `detect_format` -/

/-- The result of detection, or a panic site of the handle. -/
inductive DetRes where
  | det (d : Detected)
  | panic (s : Site)
  deriving Repr, DecidableEq

/-- `if F::input_matches(input.borrow_mut())? { return Ok(Some(F)) }`: what one
trial's outcome means for the decision list — decided, or go on. -/
def decided (f : Fmt) : Step → Option DetRes
  | .panic s => some (.panic s)
  | .answer .matched => some (.det (.fmt f))
  | .answer .ioErr => some (.det .ioErr)
  | .answer .noMatch => none

/-- `detect_format(&mut input)`: the four trials in the order MessagePack, JSON,
YAML, TOML on the same handle, stopping at the first that does not answer "no
match"; the handle as that trial left it. -/
def detectOn (E : Ext) (h : Handle) : DetRes × Handle :=
  let m := mpTrial h
  match decided .msgpack m.1 with
  | some r => (r, m.2)
  | none =>
    let j := jsonTrial m.2
    match decided .json j.1 with
    | some r => (r, j.2)
    | none =>
      let y := yamlTrial E j.2
      match decided .yaml y.1 with
      | some r => (r, y.2)
      | none =>
        let t := tomlTrialStep E y.2
        match decided .toml t.1 with
        | some r => (r, t.2)
        | none => (.det .none, t.2)

/-! ## What the selected format module is given -/

/-- What `Input::from(handle)` hands the format module: the complete input as
a slice, or a reader — described by the bytes it delivers when read to its end
and whether it then fails (a source fault; C12's subject). -/
inductive Seen where
  | slice (bs : List Nat)
  | reader (bs : List Nat) (failed : Bool)
  deriving Repr, DecidableEq

/-- The buffer size with which the reader of an `Input` is read to its end
(`BufReader`'s; any size ≥ 1 yields the same bytes: `drain_spec`). -/
def drainBuf : Nat := 8192

/-- `Input::from(handle)`. -/
def seenOfHandle (h : Handle) : Seen :=
  match Input.ofHandle h with
  | .slice bs => .slice bs
  | .reader r => .reader (drain r drainBuf).bytes (drain r drainBuf).failed

/-- The input of one `translate` call: `translate_slice` / `translate_reader`. -/
inductive Src where
  | slice (bs : List Nat)
  | reader (s : Source)
  deriving Repr

/-- `Handle::from_slice` / `Handle::from_reader`. -/
def Src.handle : Src → Handle
  | .slice bs => .slice bs
  | .reader s => Handle.fromReader s

/-- The bytes of the input. -/
def Src.bytes : Src → List Nat
  | .slice bs => bs
  | .reader s => s.data

/-! ## The per-format runners and `translate` -/

/-- `F::transcode(input, output)` for each source format, as a function of what
`Input::from(handle)` yields. -/
structure Runners (R : Type) where
  json : Seen → R
  msgpack : Seen → R
  yaml : Seen → R
  toml : Seen → R

def Runners.run {R : Type} (F : Runners R) : Fmt → Seen → R
  | .json => F.json
  | .msgpack => F.msgpack
  | .yaml => F.yaml
  | .toml => F.toml

inductive Outcome (R : Type) where
  /-- the selected format module ran -/
  | ran (r : R)
  /-- `Err("unable to detect input format")` -/
  | unableToDetect
  /-- `detect_format(..)?` failed -/
  | ioError
  | panic (s : Site)
  deriving Repr

/-- `Translator::translate(input, from)`. -/
def translate {R : Type} (E : Ext) (F : Runners R) (from_ : Option Fmt) (src : Src) : Outcome R :=
  match from_ with
  | some f => .ran (F.run f (seenOfHandle src.handle))
  | none =>
    match detectOn E src.handle with
    | (.panic s, _) => .panic s
    | (.det (.fmt f), h') => .ran (F.run f (seenOfHandle h'))
    | (.det .none, _) => .unableToDetect
    | (.det .ioErr, _) => .ioError

/-! ## The concrete JSON and MessagePack runners -/

/-- What a run of a format module produced: the documents handed to the output
and how the loop ended. -/
inductive Run (X : Type) where
  | json (docs : List Json.JVal) (v : Json.Verdict)
  | msgpack (docs : List Msgpack.MVal) (v : Msgpack.Verdict)
  /-- the source failed while the module was reading it (C12) -/
  | readerFault
  /-- a YAML / TOML run (parameter) -/
  | ext (x : X)
  deriving Repr

/-- `json::transcode`: the slice loop on a slice, the reader loop on a reader. -/
def jsonRun {X : Type} : Seen → Run X
  | .slice bs => .json (Json.sliceLoop bs).1 (Json.sliceLoop bs).2
  | .reader bs false => .json (Json.readerLoop bs).1 (Json.readerLoop bs).2
  | .reader _ true => .readerFault

/-- `msgpack::transcode` (xt's visitor does not take ext values). -/
def msgpackRun {X : Type} : Seen → Run X
  | .slice bs =>
    .msgpack (Msgpack.sliceLoop false Msgpack.depthLimit Msgpack.depthLimit bs).1
      (Msgpack.sliceLoop false Msgpack.depthLimit Msgpack.depthLimit bs).2
  | .reader bs false =>
    .msgpack (Msgpack.readerLoop false Msgpack.depthLimit bs).1
      (Msgpack.readerLoop false Msgpack.depthLimit bs).2
  | .reader _ true => .readerFault

/-- The runners with JSON and MessagePack concrete, YAML and TOML parameters. -/
def concrete {X : Type} (yaml toml : Seen → X) : Runners (Run X) where
  json := jsonRun
  msgpack := msgpackRun
  yaml := fun s => .ext (yaml s)
  toml := fun s => .ext (toml s)

/-! ## What a reader-mode trial did to the handle (for the driver and C05) -/

/-- Bytes held in the capture buffer. -/
def captured : Handle → Nat
  | .slice _ => 0
  | .reader c => c.pre.length

/-- The source has reported its end: the handle is a slice from now on. -/
def flipped : Handle → Bool
  | .slice _ => false
  | .reader c => c.eof

/-- `borrow_mut` and `Input::from` yield a slice: a slice input, or a reader
whose source has reported its end. -/
def sliceMode : Handle → Bool
  | .slice _ => true
  | .reader c => c.eof

/-- The input of an explicit run that is given exactly `seen`. -/
def srcOf : Seen → Src
  | .slice bs => .slice bs
  | .reader bs _ => .reader (Source.new bs [] false none)

/-- The source of a reader input has no fault offset. -/
def Src.noFault : Src → Prop
  | .slice _ => True
  | .reader s => s.failAt = none

end Xt.Translate
