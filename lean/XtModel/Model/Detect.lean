import XtModel.Model.Input

/-
Model of /repo/src/detect.rs and of the four `input_matches` functions
(src/msgpack.rs, src/json.rs, src/yaml.rs, src/toml.rs): what each trial does
with the result of its third-party parser, and the fixed-order decision list.
The parsers themselves (rmp_serde, serde_json, libyaml + the chunker, toml) are
parameters: a trial takes the *class* of the parser's result.

Imports only other model files so that the native driver links.
-/
namespace Xt.Detect

/-- The outcome of one trial: `Ok(true)`, `Ok(false)`, `Err(_)`. -/
inductive Trial where
  | matched | noMatch | ioErr
  deriving Repr, DecidableEq

inductive Fmt where
  | msgpack | json | yaml | toml
  deriving Repr, DecidableEq

/-- The result of `detect_format`: `Ok(Some(f))`, `Ok(None)`, `Err(_)`. -/
inductive Detected where
  | fmt (f : Fmt) | none | ioErr
  deriving Repr, DecidableEq

/-- `if F::input_matches(input.borrow_mut())? { return Ok(Some(F)) }` repeated
over a list of trials: the first trial that does not answer "no match" decides. -/
def decideList : List (Fmt × Trial) → Detected
  | [] => .none
  | (f, .matched) :: _ => .fmt f
  | (_, .ioErr) :: _ => .ioErr
  | (_, .noMatch) :: rest => decideList rest

/-- `detect_format`: MessagePack, JSON, YAML, TOML, in this order. -/
def detectFormat (m j y t : Trial) : Detected :=
  decideList [(.msgpack, m), (.json, j), (.yaml, y), (.toml, t)]

/-- What `Translator::translate` does with the answer. -/
inductive Selection where
  | translateAs (f : Fmt)
  /-- `Err("unable to detect input format")` -/
  | unableToDetect
  /-- `detect_format(..)?` -/
  | ioError
  deriving Repr, DecidableEq

def select : Detected → Selection
  | .fmt f => .translateAs f
  | .none => .unableToDetect
  | .ioErr => .ioError

/-! ## MessagePack -/

/-- `rmp::Marker`. -/
inductive Marker where
  | fixPos (n : Nat) | fixNeg (n : Nat) | null | true_ | false_
  | u8 | u16 | u32 | u64 | i8 | i16 | i32 | i64 | f32 | f64
  | fixStr (n : Nat) | str8 | str16 | str32 | bin8 | bin16 | bin32
  | fixArray (n : Nat) | array16 | array32 | fixMap (n : Nat) | map16 | map32
  | fixExt1 | fixExt2 | fixExt4 | fixExt8 | fixExt16 | ext8 | ext16 | ext32 | reserved
  deriving Repr, DecidableEq

/-- `Marker::from_u8`. -/
def Marker.fromU8 (n : Nat) : Marker :=
  if n ≤ 0x7f then .fixPos n
  else if 0xe0 ≤ n then .fixNeg n
  else if n ≤ 0x8f then .fixMap (n % 16)
  else if n ≤ 0x9f then .fixArray (n % 16)
  else if n ≤ 0xbf then .fixStr (n % 32)
  else if n = 0xc0 then .null
  else if n = 0xc1 then .reserved
  else if n = 0xc2 then .false_
  else if n = 0xc3 then .true_
  else if n = 0xc4 then .bin8
  else if n = 0xc5 then .bin16
  else if n = 0xc6 then .bin32
  else if n = 0xc7 then .ext8
  else if n = 0xc8 then .ext16
  else if n = 0xc9 then .ext32
  else if n = 0xca then .f32
  else if n = 0xcb then .f64
  else if n = 0xcc then .u8
  else if n = 0xcd then .u16
  else if n = 0xce then .u32
  else if n = 0xcf then .u64
  else if n = 0xd0 then .i8
  else if n = 0xd1 then .i16
  else if n = 0xd2 then .i32
  else if n = 0xd3 then .i64
  else if n = 0xd4 then .fixExt1
  else if n = 0xd5 then .fixExt2
  else if n = 0xd6 then .fixExt4
  else if n = 0xd7 then .fixExt8
  else if n = 0xd8 then .fixExt16
  else if n = 0xd9 then .str8
  else if n = 0xda then .str16
  else if n = 0xdb then .str32
  else if n = 0xdc then .array16
  else if n = 0xdd then .array32
  else if n = 0xde then .map16
  else .map32

/-- `matches!(.., Some(FixArray(_) | Array16 | Array32 | FixMap(_) | Map16 | Map32))`. -/
def Marker.isCollection : Marker → Bool
  | .fixArray _ | .array16 | .array32 | .fixMap _ | .map16 | .map32 => true
  | _ => false

/-- The first-byte test of `msgpack::input_matches`. -/
def markerTest (b : Nat) : Bool := (Marker.fromU8 b).isCollection

/-- What `input.prefix(n)` returned. -/
inductive PrefixRes where
  | err
  | ok (bs : List Nat)
  deriving Repr

/-- The class of `IgnoredAny::deserialize(&mut rmp_serde::Deserializer)`. -/
inductive MsgpackRes where
  | ok
  /-- `InvalidMarkerRead(err) | InvalidDataRead(err)`; `eof` says that
  `err.kind() == UnexpectedEof` -/
  | readErr (eof : Bool)
  /-- any other `rmp_serde::decode::Error` -/
  | other
  deriving Repr, DecidableEq

/-- `msgpack::input_matches` (after the `fix:` commit: running out of input is
"no match"). -/
def msgpackMatches (p : PrefixRes) (d : MsgpackRes) : Trial :=
  match p with
  | .err => .ioErr                                 -- input.prefix(1)?
  | .ok bs =>
    match bs.head? with                            -- .first().copied().map(Marker::from_u8)
    | none => .noMatch
    | some b =>
      if markerTest b then
        match d with
        | .readErr false => .ioErr
        | .readErr true => .noMatch
        | .other => .noMatch
        | .ok => .matched
      else .noMatch

/-! ## JSON -/

/-- The class of `IgnoredAny::deserialize(&mut serde_json::Deserializer)`. -/
inductive JsonRes where
  | ok
  /-- `err.is_io()` -/
  | io
  | other
  deriving Repr, DecidableEq

/-- The reference a trial received. -/
inductive RefIn where
  /-- `Ref::Slice(b)`; `utf8` says whether `str::from_utf8(b)` succeeds -/
  | slice (utf8 : Bool)
  | reader
  deriving Repr, DecidableEq

/-- `json::input_matches`. -/
def jsonMatches (r : RefIn) (d : JsonRes) : Trial :=
  match r with
  | .slice false => .noMatch
  | _ =>
    match d with
    | .io => .ioErr
    | .other => .noMatch
    | .ok => .matched

/-! ## YAML -/

/-- `Chunker::next()`: no document, a document (is it a collection?), or an
error (is its kind `InvalidData`?). -/
inductive ChunkRes where
  | none
  | doc (collection : Bool)
  | err (invalidData : Bool)
  deriving Repr, DecidableEq

/-- `yaml::input_matches`. -/
def yamlMatches (p : PrefixRes) (c : ChunkRes) : Trial :=
  match p with
  | .err => .ioErr                                 -- input.prefix(Encoding::DETECT_LEN)?
  | .ok _ =>
    match c with
    | .doc true => .matched
    | .doc false => .noMatch
    | .err true => .noMatch
    | .err false => .ioErr
    | .none => .noMatch

/-! ## TOML -/

/-- `SIZE_CUTOFF`: 2 MiB. -/
def sizeCutoff : Nat := 2 * 1024 ^ 2

/-- `toml::input_matches`: `p` is the slice itself, or for a reader the result
of `input.prefix(SIZE_CUTOFF)`; `utf8` and `parses` are `str::from_utf8(..)
.is_ok()` and `IgnoredAny::deserialize(toml::Deserializer::new(..)).is_ok()`
on those bytes. -/
def tomlMatches (isReader : Bool) (p : PrefixRes) (utf8 parses : List Nat → Bool) : Trial :=
  match p with
  | .err => .ioErr
  | .ok bs =>
    if isReader ∧ sizeCutoff ≤ bs.length then .noMatch
    else if utf8 bs = false then .noMatch
    else if parses bs then .matched else .noMatch

/-- The TOML trial on a model handle: a slice is used as it is, a reader is
asked for a prefix of `SIZE_CUTOFF` bytes. -/
def tomlTrial (h : Input.Handle) (utf8 parses : List Nat → Bool) : Trial × Input.Handle :=
  match h.borrow with
  | (.reader, .reader c) =>
    match c.captureUpToSize sizeCutoff with
    | (.ok (), c') => (tomlMatches true (.ok c'.pre) utf8 parses, .reader c')
    | (_, c') => (.ioErr, .reader c')
  | (_, h') => (tomlMatches false (.ok h'.sliceView) utf8 parses, h')

end Xt.Detect
