/-
Model of /repo/src/yaml/chunker.rs (`Chunker::next`, `ChunkReader`) and of the
length guards of /repo/src/yaml/chunker/parser.rs (`read_handler`) and
`ChunkReader::read`.

The parser (libyaml) is not modelled: its behaviour is an *input* — the list of
events it returns, each with the type and the two byte offsets the chunker
looks at, plus `readOff`, the number of bytes the parser had pulled through the
`ChunkReader` when it returned that event.  Bytes and offsets are `Nat`s.
Import-free.
-/
namespace Xt.Chunker

/-- `yaml_event_type_t` (numbered as in libyaml: 0 = NO_EVENT … 10 = MAPPING_END). -/
inductive Kind where
  | noEvent | streamStart | streamEnd | docStart | docEnd
  | alias | scalar | seqStart | seqEnd | mapStart | mapEnd
  deriving DecidableEq, Repr, Inhabited

/-- One `Event` as `Chunker::next` sees it. -/
structure Ev where
  kind : Kind
  /-- `start_mark.index` -/
  start : Nat
  /-- `end_mark.index` -/
  stop : Nat
  /-- bytes delivered by the reader (and so captured) when the event is returned -/
  readOff : Nat
  deriving DecidableEq, Repr, Inhabited

/-- Panic sites of chunker.rs. -/
inductive Site where
  /-- `offset - self.captured_start_offset` in `trim_to_offset` (overflow checks on) -/
  | trimSub
  /-- `usize::try_from(..).unwrap()` in `trim_to_offset` -/
  | trimTryFrom
  /-- `self.captured[trim_len - 1]` in the space-retreating loop of `trim_to_offset` -/
  | trimIndex
  /-- `offset -= 1` in that loop (overflow checks on) -/
  | trimOffsetDec
  /-- `self.captured.drain(..trim_len)` beyond the length -/
  | drainRange
  /-- `offset - self.captured_start_offset` in `take_to_offset` (overflow checks on) -/
  | takeSub
  /-- `usize::try_from(..).unwrap()` in `take_to_offset` -/
  | takeTryFrom
  /-- `self.captured.split_off(take_len)` beyond the length -/
  | splitOffRange
  /-- `String::from_utf8(chunk).unwrap()` -/
  | fromUtf8
  /-- `&buf[..len]` in `ChunkReader::read` -/
  | readSlice
  deriving DecidableEq, Repr, Inhabited

/-- A value or a panic. -/
inductive R (α : Type) where
  | ok (a : α)
  | panic (s : Site)
  deriving Repr

/-- `DocumentKind`. -/
inductive DocKind where
  | scalar | collection
  deriving DecidableEq, Repr, Inhabited

/-- `Document`. -/
structure Doc where
  content : List Nat
  kind : Option DocKind
  deriving DecidableEq, Repr, Inhabited

/-- `Document::is_collection`. -/
def Doc.isCollection (d : Doc) : Bool :=
  match d.kind with
  | some .collection => true
  | _ => false

/-- 2^64: `u64` wraps at this value, and `usize::try_from(u64)` fails from it
on (on the 64-bit targets the harness runs on). -/
def u64Bound : Nat := 18446744073709551616

/-! ## `ChunkReader` -/

/-- `ChunkReader` without its inner reader. -/
structure Reader where
  captured : List Nat
  capturedStart : Nat
  deriving DecidableEq, Repr, Inhabited

/-- `offset - self.captured_start_offset` on `u64`: with overflow checks (debug
builds) an underflow panics, without them (release builds) it wraps. -/
def subU64 (oc : Bool) (offset cs : Nat) (site : Site) : R Nat :=
  if cs ≤ offset then .ok (offset - cs)
  else if oc then .panic site
  else .ok (offset + u64Bound - cs)

/-- The loop of `trim_to_offset`:
`while trim_len > 0 && self.captured[trim_len - 1] == b' ' { trim_len -= 1; offset -= 1; }`
as recursion on `trim_len` (which the loop decrements); returns the final
`(trim_len, offset)`. -/
def retreat (oc : Bool) (captured : List Nat) : Nat → Nat → R (Nat × Nat)
  | 0, offset => .ok (0, offset)
  | t + 1, offset =>
    match captured[t]? with
    | none => .panic .trimIndex
    | some b =>
      if b = 0x20 then
        if 0 < offset then retreat oc captured t (offset - 1)
        else if oc then .panic .trimOffsetDec
        else retreat oc captured t (u64Bound - 1)
      else .ok (t + 1, offset)

/-- `ChunkReader::trim_to_offset`. -/
def Reader.trimToOffset (oc : Bool) (r : Reader) (offset : Nat) : R Reader :=
  match subU64 oc offset r.capturedStart .trimSub with
  | .panic s => .panic s
  | .ok d =>
    if u64Bound ≤ d then .panic .trimTryFrom
    else
      match retreat oc r.captured d offset with
      | .panic s => .panic s
      | .ok (trimLen, offset') =>
        if trimLen ≤ r.captured.length then .ok ⟨r.captured.drop trimLen, offset'⟩
        else .panic .drainRange

/-- `ChunkReader::take_to_offset`: the chunk and the reader afterwards. -/
def Reader.takeToOffset (oc : Bool) (r : Reader) (offset : Nat) : R (List Nat × Reader) :=
  match subU64 oc offset r.capturedStart .takeSub with
  | .panic s => .panic s
  | .ok d =>
    if u64Bound ≤ d then .panic .takeTryFrom
    else if d ≤ r.captured.length then .ok (r.captured.take d, ⟨r.captured.drop d, offset⟩)
    else .panic .splitOffRange

/-! ## `String::from_utf8` -/

def isCont (b : Nat) : Bool := 0x80 ≤ b && b ≤ 0xBF

/-- Well-formed UTF-8 (Unicode table 3-7), which is what `String::from_utf8`
accepts. -/
def validUtf8 : List Nat → Bool
  | [] => true
  | a :: rest =>
    if a < 0x80 then validUtf8 rest
    else if 0xC2 ≤ a ∧ a ≤ 0xDF then
      match rest with
      | b :: r => isCont b && validUtf8 r
      | _ => false
    else if 0xE0 ≤ a ∧ a ≤ 0xEF then
      match rest with
      | b :: c :: r =>
        (if a = 0xE0 then 0xA0 ≤ b && b ≤ 0xBF
         else if a = 0xED then 0x80 ≤ b && b ≤ 0x9F
         else isCont b) && isCont c && validUtf8 r
      | _ => false
    else if 0xF0 ≤ a ∧ a ≤ 0xF4 then
      match rest with
      | b :: c :: d :: r =>
        (if a = 0xF0 then 0x90 ≤ b && b ≤ 0xBF
         else if a = 0xF4 then 0x80 ≤ b && b ≤ 0x8F
         else isCont b) && isCont c && isCont d && validUtf8 r
      | _ => false
    else false

/-! ## `Chunker` -/

/-- `Chunker` state: the reader, the number of stream bytes delivered so far
(the environment's bookkeeping, not a field of the Rust struct),
`last_document`, `current_document_kind`.  `stream_ended` is the run having
stopped. -/
structure St where
  reader : Reader
  fed : Nat
  last : Option Doc
  kind : Option DocKind
  deriving DecidableEq, Repr, Inhabited

def St.init : St := ⟨⟨[], 0⟩, 0, none, none⟩

/-- The bytes `[a, b)` of the stream. -/
def slice (stream : List Nat) (a b : Nat) : List Nat := (stream.drop a).take (b - a)

/-- The parser pulls the stream through `ChunkReader::read` until `upto` bytes
have been delivered: each honest `read` appends what it returned to
`captured`. -/
def St.feed (stream : List Nat) (st : St) (upto : Nat) : St :=
  if st.fed < upto then
    { st with reader := { st.reader with captured := st.reader.captured ++ slice stream st.fed upto },
              fed := upto }
  else st

/-- `Option::get_or_insert`. -/
def getOrInsert (o : Option DocKind) (k : DocKind) : Option DocKind :=
  match o with
  | some x => some x
  | none => some k

/-- What one turn of the `loop` in `Chunker::next` does. -/
inductive Step where
  /-- the loop goes on (with `return Some(Ok(doc))` in between when a document
  is given: the caller's next call re-enters the loop in the same state) -/
  | cont (st : St) (emit : Option Doc)
  /-- `YAML_STREAM_END_EVENT`: `stream_ended = true`, the last document if any -/
  | fin (emit : Option Doc)
  | panic (s : Site)
  deriving Repr

/-- One event through the `match event.event_type()` of `Chunker::next`. -/
def step (oc : Bool) (stream : List Nat) (st0 : St) (e : Ev) : Step :=
  let st := st0.feed stream e.readOff
  match e.kind with
  | .docStart =>
    match st.reader.trimToOffset oc e.start with
    | .panic s => .panic s
    | .ok r => .cont { st with reader := r, kind := none, last := none } st.last
  | .scalar => .cont { st with kind := getOrInsert st.kind .scalar } none
  | .seqStart => .cont { st with kind := getOrInsert st.kind .collection } none
  | .mapStart => .cont { st with kind := getOrInsert st.kind .collection } none
  | .docEnd =>
    match st.reader.takeToOffset oc e.stop with
    | .panic s => .panic s
    | .ok (chunk, r) =>
      if validUtf8 chunk then
        .cont { st with reader := r, last := some ⟨chunk, st.kind⟩, kind := none } none
      else .panic .fromUtf8
  | .streamEnd => .fin st.last
  | _ => .cont st none

/-- How the iteration over the chunker ended. -/
inductive End where
  /-- `None` after the stream end event -/
  | done
  /-- `Some(Err(InvalidData))`: `parser.next_event()` failed.  The run stops
  here, as both users of `Chunker` in xt do (`for doc in … { let doc = doc?; … }`
  and the single `next()` of `input_matches`).  Calling `next()` again is not
  modelled: libyaml answers every parse call after an error with an empty event,
  `_ => {}` ignores it, and the `loop` never exits (observed on the real code:
  `xtverif chunker-after-error <hex>` does not return) — there is no structural
  recursion for it, which is the finding. -/
  | err
  /-- the event list ran out without a stream end or an error (not a trace a
  parser produces; kept so that the function is total without inventing one) -/
  | incomplete
  | panic (s : Site)
  deriving DecidableEq, Repr, Inhabited

/-- A document together with the index of the event at which it was returned. -/
structure Emit where
  at_ : Nat
  doc : Doc
  deriving DecidableEq, Repr, Inhabited

structure Result where
  emits : List Emit
  fin : End
  deriving Repr

def emitList (idx : Nat) : Option Doc → List Emit
  | none => []
  | some d => [⟨idx, d⟩]

/-- `for doc in Chunker::new(reader) { let doc = doc?; … }`: the documents
returned, in order, until the iterator ends, fails or panics.  `tailErr` says
that after the listed events `parser.next_event()` returns an error. -/
def run (oc : Bool) (stream : List Nat) (tailErr : Bool) : St → Nat → List Ev → Result
  | _, _, [] => ⟨[], if tailErr then .err else .incomplete⟩
  | st, idx, e :: rest =>
    match step oc stream st e with
    | .panic s => ⟨[], .panic s⟩
    | .fin em => ⟨emitList idx em, .done⟩
    | .cont st' em =>
      let r := run oc stream tailErr st' (idx + 1) rest
      ⟨emitList idx em ++ r.emits, r.fin⟩

/-- The chunker over a whole trace. -/
def chunks (oc : Bool) (stream : List Nat) (evs : List Ev) (tailErr : Bool) : Result :=
  run oc stream tailErr St.init 0 evs

/-- The state after a prefix of the trace (`none` once the run has stopped). -/
def stateAfter (oc : Bool) (stream : List Nat) : St → List Ev → Option St
  | st, [] => some st
  | st, e :: rest =>
    match step oc stream st e with
    | .cont st' _ => stateAfter oc stream st' rest
    | _ => none

/-! ## Guards -/

/-- What the reader under `read_handler` / `ChunkReader::read` answered:
`Ok(reported)` having actually written `data` to the front of the buffer, or
an error. -/
inductive ReadRes where
  | ok (reported : Nat) (data : List Nat)
  | err (tok : Nat)
  deriving DecidableEq, Repr, Inhabited

/-- `ReadState::error`. -/
inductive Stash where
  | misbehaving
  | io (tok : Nat)
  deriving DecidableEq, Repr, Inhabited

/-- What `read_handler` did. -/
structure HandlerOut where
  /-- `bouncer.len()` after `resize` (none when the early `READ_FAILURE` returns ran) -/
  bouncerLen : Option Nat
  /-- length given to `ptr::copy_nonoverlapping`, when it is called -/
  copyLen : Option Nat
  /-- `*size_read` when written -/
  sizeRead : Option Nat
  stash : Option Stash
  success : Bool
  deriving DecidableEq, Repr, Inhabited

/-- `Parser::read_handler` with a `buffer_size`-byte destination.  `degenerate`
stands for the null-pointer / `usize::try_from(buffer_size)` early returns,
which leave the stash alone. -/
def readHandler (degenerate : Bool) (bufferSize : Nat) (stash : Option Stash) (res : ReadRes) : HandlerOut :=
  if degenerate then ⟨none, none, none, stash, false⟩
  else
    -- read_state.bouncer.resize(buffer_size, 0)
    let bouncerLen := bufferSize
    match res with
    | .ok readLen _ =>
      if readLen ≤ bufferSize then ⟨some bouncerLen, some readLen, some readLen, none, true⟩
      else ⟨some bouncerLen, none, none, some .misbehaving, false⟩
    | .err tok => ⟨some bouncerLen, none, none, some (.io tok), false⟩

/-- The buffer after the inner reader wrote `data` to its front (a safe
`Read` cannot write past the slice it was given). -/
def bufAfter (buf data : List Nat) : List Nat :=
  (data ++ buf.drop data.length).take buf.length

/-- `ChunkReader::read`: the result handed on and the reader afterwards.
`buf` is the buffer's content before the call. -/
def Reader.read (r : Reader) (buf : List Nat) (res : ReadRes) : R (ReadRes × Reader) :=
  match res with
  | .err tok => .ok (.err tok, r)
  | .ok len data =>
    -- self.captured.extend_from_slice(&buf[..len])
    if len ≤ buf.length then
      .ok (.ok len data, { r with captured := r.captured ++ (bufAfter buf data).take len })
    else .panic .readSlice

/-- `read_handler` over a `ChunkReader` (the configuration inside `Chunker`):
the `ChunkReader` sees the inner reader's answer first. -/
def handlerOverChunkReader (bufferSize : Nat) (bouncer : List Nat) (stash : Option Stash)
    (r : Reader) (res : ReadRes) : R (HandlerOut × Reader) :=
  -- bouncer.resize(buffer_size, 0)
  let buf := (bouncer ++ List.replicate (bufferSize - bouncer.length) 0).take bufferSize
  match r.read buf res with
  | .panic s => .panic s
  | .ok (res', r') => .ok (readHandler false bufferSize stash res', r')

end Xt.Chunker
