/-
Model of the four `Output` implementations (/repo/src/{json,yaml,msgpack,toml}.rs)
and of `Translator` (/repo/src/lib.rs) over an abstract per-document behaviour.

What the third-party serializers / deserializers do with ONE document is a
parameter (`Env`): for a streaming target the bytes the serializer writes for
the document until it finishes or fails; for TOML the value `toml::Value`
builds (or its refusal), whether it is a table, and its pretty form.  What is
modelled is xt's own framing and bookkeeping around that.  Import-free.
-/
namespace Xt.Output

abbrev Bytes := List Nat

/-- Output format. -/
inductive Target where
  | json | yaml | msgpack | toml
  deriving DecidableEq, Repr, Inhabited

/-- Why a call failed. -/
inductive Err (E : Type) where
  /-- `TomlOutputError::MultiDocument` -/
  | multiDocument
  /-- `TomlOutputError::NonTableRoot` -/
  | nonTableRoot
  /-- an error of a serializer, a deserializer or the source side -/
  | other (e : E)
  deriving DecidableEq, Repr

/-- Behaviour of the crates on one document (`D`: documents, `E`: their error
tokens, `V`: `toml::Value`s). -/
structure Env (D E V : Type) where
  /-- Streaming targets: the bytes the serializer writes into the writer while
  transcoding the document (all of them on success; a prefix of some kind when
  the serializer or the document's deserializer fails midway), and the failure. -/
  body : Target → D → Bytes × Option E
  /-- `toml::Value::deserialize(de)` / `toml::Value::try_from(value)` -/
  build : D → Except E V
  /-- `if let toml::Value::Table(table) = value` -/
  isTable : V → Bool
  /-- `toml::to_string_pretty(table)` -/
  pretty : V → Except E Bytes

/-- An `Output` and its writer: everything offered to the writer so far, the
separate `write_all` calls made by the TOML output, the TOML `used` flag, and
the documents that were handed to `toml::Value`'s deserializer. -/
structure Out (D : Type) where
  sink : Bytes
  pieces : List Bytes
  used : Bool
  built : List D
  deriving Repr

def Out.empty {D : Type} : Out D := ⟨[], [], false, []⟩

/-- `"---\n"` -/
def yamlMarker : Bytes := [0x2D, 0x2D, 0x2D, 0x0A]

/-- `Output::transcode_from` / `Output::transcode_value` for one document. -/
def emitDoc {D E V : Type} (env : Env D E V) (t : Target) (o : Out D) (d : D) :
    Out D × Except (Err E) Unit :=
  match t with
  | .json =>
    -- transcode(&mut ser, de)?; writeln!(&mut self.0)?;
    match env.body .json d with
    | (bs, none) => ({ o with sink := o.sink ++ (bs ++ [0x0A]) }, .ok ())
    | (bs, some e) => ({ o with sink := o.sink ++ bs }, .error (.other e))
  | .yaml =>
    -- writeln!(&mut self.0, "---")?; transcode(&mut ser, de)?;
    match env.body .yaml d with
    | (bs, none) => ({ o with sink := o.sink ++ (yamlMarker ++ bs) }, .ok ())
    | (bs, some e) => ({ o with sink := o.sink ++ (yamlMarker ++ bs) }, .error (.other e))
  | .msgpack =>
    match env.body .msgpack d with
    | (bs, none) => ({ o with sink := o.sink ++ bs }, .ok ())
    | (bs, some e) => ({ o with sink := o.sink ++ bs }, .error (.other e))
  | .toml =>
    -- self.ensure_one_use()?;
    if o.used then (o, .error .multiDocument)
    else
      let o1 := { o with used := true }
      -- let value = toml::Value::deserialize(de)?;
      let o2 := { o1 with built := o1.built ++ [d] }
      match env.build d with
      | .error e => (o2, .error (.other e))
      | .ok v =>
        -- self.output_value(&value)
        if env.isTable v then
          match env.pretty v with
          | .error e => (o2, .error (.other e))
          | .ok bs => ({ o2 with sink := o2.sink ++ bs, pieces := o2.pieces ++ [bs] }, .ok ())
        else (o2, .error .nonTableRoot)

/-- What the source side yields for one input: the documents it hands to the
output one after the other, and then possibly a failure of its own (syntax
error between documents, invalid UTF-8 found up front — then `docs = []` —,
an I/O error, "unable to detect input format"). -/
structure Input (D E : Type) where
  docs : List D
  fail : Option E

/-- The document loop of `json::transcode` / `yaml::transcode` /
`msgpack::transcode` / `toml::transcode`: every `output.transcode_*(..)?`. -/
def feedDocs {D E V : Type} (env : Env D E V) (t : Target) : Out D → List D → Out D × Except (Err E) Unit
  | o, [] => (o, .ok ())
  | o, d :: ds =>
    match emitDoc env t o d with
    | (o', .ok ()) => feedDocs env t o' ds
    | (o', .error e) => (o', .error e)

/-- One `Translator::translate_slice` / `translate_reader` call. -/
def call {D E V : Type} (env : Env D E V) (t : Target) (o : Out D) (i : Input D E) :
    Out D × Except (Err E) Unit :=
  match feedDocs env t o i.docs with
  | (o', .ok ()) =>
    match i.fail with
    | none => (o', .ok ())
    | some e => (o', .error (.other e))
  | (o', .error e) => (o', .error e)

/-- A `Translator` used for a sequence of calls, whatever their results (the
library API allows calling again after a failure). -/
def calls {D E V : Type} (env : Env D E V) (t : Target) :
    Out D → List (Input D E) → Out D × List (Except (Err E) Unit)
  | o, [] => (o, [])
  | o, i :: is =>
    let (o', r) := call env t o i
    let (o'', rs) := calls env t o' is
    (o'', r :: rs)

/-- A `Translator` fed inputs until the first failure (`main`'s loop with `?`). -/
def session {D E V : Type} (env : Env D E V) (t : Target) :
    Out D → List (Input D E) → Out D × Except (Err E) Unit
  | o, [] => (o, .ok ())
  | o, i :: is =>
    match call env t o i with
    | (o', .ok ()) => session env t o' is
    | (o', .error e) => (o', .error e)

/-- `translate_slice(doc, …)` of one document taken alone: what it writes. -/
def single {D E V : Type} (env : Env D E V) (t : Target) (d : D) : Bytes :=
  (call env t Out.empty ⟨[d], none⟩).1.sink

/-- Reader for the JSON framing: the complete lines and the unterminated rest. -/
def splitLines : Bytes → List Bytes × Bytes
  | [] => ([], [])
  | b :: rest =>
    match splitLines rest with
    | (ls, rem) =>
      if b = 0x0A then ([] :: ls, rem)
      else
        match ls with
        | [] => ([], b :: rem)
        | l :: ls' => ((b :: l) :: ls', rem)

end Xt.Output
