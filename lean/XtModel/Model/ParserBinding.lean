import XtModel.Model.Chunker

/-
Model of the parts of /repo/src/yaml/chunker/parser.rs that are xt's own logic
around libyaml:

* the entry guards of `Parser::read_handler` (null pointers,
  `usize::try_from(buffer_size)`), in front of `Xt.Chunker.readHandler`;
* the resource life cycle of `Parser::new` / `next_event`* / `Drop`: which
  allocation is made, used and released at which step, as a trace of actions,
  and a checker that says what "no leak, no double free, no use after free"
  means for such a trace.

libyaml itself is not modelled: whether `yaml_parser_initialize` succeeds,
whether a parse call succeeds and how often it calls the read handler are
inputs.  Imports only the chunker model.
-/
namespace Xt.ParserBinding
open Xt.Chunker

/-! ## `read_handler`: the early exits -/

/-- What libyaml passed to the callback. -/
structure CallArgs where
  /-- `read_state.is_null()` -/
  readStateNull : Bool
  /-- `buffer.is_null()` -/
  bufferNull : Bool
  /-- `size_read.is_null()` -/
  sizeReadNull : Bool
  /-- `buffer_size: u64` -/
  bufferSize : Nat
  deriving DecidableEq, Repr

/-- The two early `return READ_FAILURE`s: a null pointer, or a `buffer_size`
that `usize::try_from` rejects (`usizeBound` = 2^32 or 2^64). -/
def earlyExit (usizeBound : Nat) (a : CallArgs) : Bool :=
  a.readStateNull || a.bufferNull || a.sizeReadNull || decide (usizeBound ≤ a.bufferSize)

/-- `Parser::read_handler`, whole. -/
def readHandlerCall (usizeBound : Nat) (a : CallArgs) (stash : Option Stash) (res : ReadRes) : HandlerOut :=
  readHandler (earlyExit usizeBound a) a.bufferSize stash res

/-! ## Resource life cycle -/

/-- The allocations the binding is responsible for. -/
inductive Res where
  /-- the `Box<yaml_parser_t>` memory (`Box::new(MaybeUninit::uninit())`) -/
  | parserBox
  /-- what `yaml_parser_initialize` allocates and `yaml_parser_delete` releases -/
  | internals
  /-- the `ReadState<R>` behind the raw pointer (`Box::into_raw` … `Box::from_raw`) -/
  | readState
  /-- what the `i`-th successful `yaml_parser_parse` put into its event
  (`yaml_event_delete` in `Event::drop`) -/
  | event (i : Nat)
  deriving DecidableEq, Repr

inductive Act where
  | alloc (r : Res)
  | use (r : Res)
  | free (r : Res)
  deriving DecidableEq, Repr

/-- `Parser::new(reader)`.  When `yaml_parser_initialize` fails the function
panics: unwinding drops the `Box<MaybeUninit<yaml_parser_t>>` (memory only) —
and the read state has not been allocated yet, so there is nothing else to
release ("new() should no longer panic after this point"). -/
def newTrace (initOk : Bool) : List Act :=
  if initOk then
    [.alloc .parserBox, .alloc .internals,      -- Box::new(uninit); yaml_parser_initialize; from_raw(into_raw)
     .alloc .readState,                         -- Box::into_raw(Box::new(ReadState { .. }))
     .use .internals]                           -- yaml_parser_set_encoding, yaml_parser_set_input
  else
    [.alloc .parserBox, .free .parserBox]       -- panic!("out of memory …")

/-- One `next_event()`: `yaml_parser_parse` runs on the parser, calling
`read_handler` (which dereferences the read state) `reads` times.  On success
the event is initialised; the caller (`Chunker::next`, `verif_events`) drops it
before it calls the parser again or returns.  On failure `ParserError::new`
reads the parser's problem fields and `read_state_mut().error.take()` touches
the read state; no event exists. -/
def nextTrace (i reads : Nat) (ok : Bool) : List Act :=
  .use .internals :: (List.replicate reads (.use .readState) ++
    (if ok then [.alloc (.event i), .use (.event i), .free (.event i)]
     else [.use .internals, .use .readState]))

/-- `impl Drop for Parser`: `yaml_parser_delete(&mut *self.parser)`, then
`drop(Box::from_raw(self.read_state))`, then the field `parser: Box<_>` is
dropped by the compiler. -/
def dropTrace : List Act :=
  [.use .internals, .free .internals, .free .readState, .free .parserBox]

/-- The `next_event` calls made before the parser is dropped: for each, how
often libyaml called the read handler and whether the call succeeded. -/
def callsTrace : Nat → List (Nat × Bool) → List Act
  | _, [] => []
  | i, (reads, ok) :: rest => nextTrace i reads ok ++ callsTrace (i + 1) rest

/-- A whole life: construction, any number of `next_event` calls, drop.  When
construction panicked there is no `Parser` value, so nothing else happens. -/
def lifeTrace (initOk : Bool) (calls : List (Nat × Bool)) : List Act :=
  newTrace initOk ++ (if initOk then callsTrace 0 calls ++ dropTrace else [])

/-- What can go wrong with a trace. -/
inductive Fault where
  | doubleAlloc (r : Res)
  /-- released while not live: a double free or a free of something never allocated -/
  | badFree (r : Res)
  | useAfterFree (r : Res)
  /-- the read state released while the parser that holds its address is still live -/
  | danglingInParser
  deriving DecidableEq, Repr

/-- Runs a trace from a set of live allocations; `ok live'` gives what is
still live at the end. -/
def check : List Res → List Act → Except Fault (List Res)
  | live, [] => .ok live
  | live, .alloc r :: rest => if live.contains r then .error (.doubleAlloc r) else check (r :: live) rest
  | live, .use r :: rest => if live.contains r then check live rest else .error (.useAfterFree r)
  | live, .free r :: rest =>
    if !live.contains r then .error (.badFree r)
    else if r = .readState ∧ live.contains .internals then .error .danglingInParser
    else check (live.erase r) rest

end Xt.ParserBinding
