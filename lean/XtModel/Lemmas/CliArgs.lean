import XtModel.Model.Cli

/-!
A reference reading of xt's command line, written without lexopt's state
machine, and the proof that `parseArgs` (lexopt's `next`/`value` driven by the
`parse_args` loop) computes exactly it — for every argument vector.
-/
namespace Xt.Cli

def dupFrom : LErr := .custom "cannot provide '-f' more than once".toList
def dupTo : LErr := .custom "cannot provide '-t' more than once".toList

/-- The value of a short option whose cluster continues with `tail`: the rest
of the cluster (without one leading `=`) when there is one. -/
def attachedValue : Str → Str
  | '=' :: v => v
  | v => v

/-- The command line, argument by argument.  `finished` says that `--` was
seen.  Every short option either takes a value (`-f`, `-t`: the rest of the
argument, or else the next argument whatever it looks like), ends the run
(`-V`, `-h`) or is an error, so only the first character of a cluster is ever
looked at as an option. -/
def refParse (finished : Bool) : List Str → Acc → Parsed
  | [], acc =>
    match acc.to with
    | some t => .ok acc.paths acc.from t
    | none => .ok acc.paths acc.from .json
  | a :: rest, acc =>
    if finished then refParse true rest { acc with paths := acc.paths ++ [a] }
    else if a = ['-', '-'] then refParse true rest acc
    else if startsWithDashDash a then
      let name := (splitEq a).1.drop 2
      if name = "version".toList then .version
      else if name = "help".toList then .longHelp
      else .err (.unexpectedOption ('-' :: '-' :: name))
    else
      match a, rest with
      | '-' :: c :: tail, rest =>
        if c = 'f' then
          if acc.from.isSome then .err dupFrom
          else
            match tail, rest with
            | [], [] => .err (.missingValue (some ['-', 'f']))
            | [], v :: rest' =>
              match tryParseFormat v with
              | none => .err (.parsingFailed v notAFormat)
              | some f => refParse false rest' { acc with «from» := some f }
            | t :: tail', rest =>
              match tryParseFormat (attachedValue (t :: tail')) with
              | none => .err (.parsingFailed (attachedValue (t :: tail')) notAFormat)
              | some f => refParse false rest { acc with «from» := some f }
        else if c = 't' then
          if acc.to.isSome then .err dupTo
          else
            match tail, rest with
            | [], [] => .err (.missingValue (some ['-', 't']))
            | [], v :: rest' =>
              match tryParseFormat v with
              | none => .err (.parsingFailed v notAFormat)
              | some f => refParse false rest' { acc with to := some f }
            | t :: tail', rest =>
              match tryParseFormat (attachedValue (t :: tail')) with
              | none => .err (.parsingFailed (attachedValue (t :: tail')) notAFormat)
              | some f => refParse false rest { acc with to := some f }
        else if c = 'V' then .version
        else if c = 'h' then .shortHelp
        else .err (.unexpectedOption ['-', c])
      | a, rest => refParse false rest { acc with paths := acc.paths ++ [a] }

/-! ### One turn of the `parse_args` loop, by what `next` returned -/

theorem parseLoop_done (p p' : Parser) (acc : Acc) (h : p.next = (.done, p')) :
    parseLoop p acc = match acc.to with
      | some t => .ok acc.paths acc.from t
      | none => .ok acc.paths acc.from .json := by
  rw [parseLoop.eq_def]
  split <;> (rename_i heq; rw [h] at heq; simp at heq)
  rfl

theorem parseLoop_err (p p' : Parser) (acc : Acc) (e : LErr) (h : p.next = (.err e, p')) :
    parseLoop p acc = .err e := by
  rw [parseLoop.eq_def]
  split <;> (rename_i heq; rw [h] at heq; simp at heq)
  simp [heq]

theorem parseLoop_value (p p' : Parser) (acc : Acc) (v : Str) (h : p.next = (.arg (.value v), p')) :
    parseLoop p acc = parseLoop p' { acc with paths := acc.paths ++ [v] } := by
  rw [parseLoop.eq_def]
  split <;> (rename_i heq; rw [h] at heq; simp at heq)
  obtain ⟨rfl, rfl⟩ := heq
  simp

theorem parseLoop_short (p p' : Parser) (acc : Acc) (c : Char) (h : p.next = (.arg (.short c), p'))
    (hf : c ≠ 'f') (ht : c ≠ 't') :
    parseLoop p acc =
      if c = 'V' then .version else if c = 'h' then .shortHelp else .err (.unexpectedOption ['-', c]) := by
  rw [parseLoop.eq_def]
  split <;> (rename_i heq; rw [h] at heq; simp at heq)
  obtain ⟨rfl, rfl⟩ := heq
  simp [hf, ht, Arg.unexpected]

theorem parseLoop_long (p p' : Parser) (acc : Acc) (n : Str) (h : p.next = (.arg (.long n), p')) :
    parseLoop p acc = if n = "version".toList then .version else if n = "help".toList then .longHelp
      else .err (.unexpectedOption ('-' :: '-' :: n)) := by
  rw [parseLoop.eq_def]
  split <;> (rename_i heq; rw [h] at heq; simp at heq)
  obtain ⟨rfl, rfl⟩ := heq
  simp [Arg.unexpected]

theorem parseLoop_f (p p' : Parser) (acc : Acc) (h : p.next = (.arg (.short 'f'), p')) :
    parseLoop p acc =
      if acc.from.isSome then .err dupFrom
      else match p'.value with
        | (.error e, _) => .err e
        | (.ok v, p'') =>
          match tryParseFormat v with
          | none => .err (.parsingFailed v notAFormat)
          | some f => parseLoop p'' { acc with «from» := some f } := by
  rw [parseLoop.eq_def]
  split <;> (rename_i heq; rw [h] at heq; simp at heq)
  obtain ⟨rfl, rfl⟩ := heq
  simp only [if_true]
  by_cases hs : acc.from.isSome
  · simp [hs, dupFrom]
  · simp only [hs, Bool.false_eq_true, if_false]
    split
    · rename_i e snd hv; simp only [hv]
    · rename_i v p'' hv; rw [hv]; rfl

theorem parseLoop_t (p p' : Parser) (acc : Acc) (h : p.next = (.arg (.short 't'), p')) :
    parseLoop p acc =
      if acc.to.isSome then .err dupTo
      else match p'.value with
        | (.error e, _) => .err e
        | (.ok v, p'') =>
          match tryParseFormat v with
          | none => .err (.parsingFailed v notAFormat)
          | some f => parseLoop p'' { acc with to := some f } := by
  rw [parseLoop.eq_def]
  split <;> (rename_i heq; rw [h] at heq; simp at heq)
  obtain ⟨rfl, rfl⟩ := heq
  have : ¬ (Arg.short 't' = Arg.short 'f') := by decide
  simp only [this, if_false, if_true]
  by_cases hs : acc.to.isSome
  · simp [hs, dupTo]
  · simp only [hs, Bool.false_eq_true, if_false]
    split
    · rename_i e snd hv; simp only [hv]
    · rename_i v p'' hv; rw [hv]; rfl

/-! ### What `next` and `value` do on each shape of argument (state `None`) -/

theorem next_finished_nil (last : LastOption) :
    Parser.next ⟨[], .finishedOpts, last⟩ = (.done, ⟨[], .finishedOpts, last⟩) := rfl

theorem next_finished_cons (a : Str) (rest : List Str) (last : LastOption) :
    Parser.next ⟨a :: rest, .finishedOpts, last⟩ = (.arg (.value a), ⟨rest, .finishedOpts, last⟩) := rfl

theorem next_none_nil (last : LastOption) :
    Parser.next ⟨[], .none, last⟩ = (.done, ⟨[], .none, last⟩) := rfl

theorem next_dashdash_nil (last : LastOption) :
    Parser.next ⟨[['-', '-']], .none, last⟩ = (.done, ⟨[], .finishedOpts, last⟩) := rfl

theorem next_dashdash_cons (b : Str) (rest : List Str) (last : LastOption) :
    Parser.next ⟨['-', '-'] :: b :: rest, .none, last⟩ = (.arg (.value b), ⟨rest, .finishedOpts, last⟩) := rfl

theorem next_long (a : Str) (rest : List Str) (last : LastOption) (h1 : a ≠ ['-', '-'])
    (h2 : startsWithDashDash a = true) :
    ∃ p', Parser.next ⟨a :: rest, .none, last⟩ = (.arg (.long ((splitEq a).1.drop 2)), p') := by
  simp only [Parser.next, Parser.nextFresh, h1, h2, if_false, if_true]
  split <;> (rename_i h; simp [h])

theorem next_short (c : Char) (tail : Str) (rest : List Str) (last : LastOption)
    (h2 : startsWithDashDash ('-' :: c :: tail) = false) :
    Parser.next ⟨('-' :: c :: tail) :: rest, .none, last⟩ =
      (.arg (.short c), ⟨rest, .shorts ('-' :: c :: tail) 2, .short c⟩) := by
  have h1 : ('-' :: c :: tail) ≠ ['-', '-'] := by
    intro h; simp at h; obtain ⟨rfl, rfl⟩ := h; simp [startsWithDashDash] at h2
  simp [Parser.next, Parser.nextFresh, h1, h2, Parser.nextShortsAt]

theorem next_plain (a : Str) (rest : List Str) (last : LastOption)
    (h : ∀ c tail, a ≠ '-' :: c :: tail) :
    Parser.next ⟨a :: rest, .none, last⟩ = (.arg (.value a), ⟨rest, .none, last⟩) := by
  have h1 : a ≠ ['-', '-'] := h '-' []
  have h2 : startsWithDashDash a = false := by
    cases a with
    | nil => rfl
    | cons x t =>
      cases t with
      | nil => simp [startsWithDashDash]
      | cons y t' =>
        by_cases hx : x = '-'
        · subst hx; exact absurd rfl (h y t')
        · unfold startsWithDashDash; split <;> simp_all
  simp only [Parser.next, Parser.nextFresh, h1, h2, if_false, Bool.false_eq_true]

theorem value_detached_nil (a : Str) (last : LastOption) (h : a.length = 2) :
    Parser.value ⟨[], .shorts a 2, last⟩ =
      (.error (.missingValue (Parser.formatLastOption ⟨[], .none, last⟩)), ⟨[], .none, last⟩) := by
  simp [Parser.value, Parser.optionalValue, Parser.rawOptionalValue, h]

theorem value_detached_cons (a v : Str) (rest : List Str) (last : LastOption) (h : a.length = 2) :
    Parser.value ⟨v :: rest, .shorts a 2, last⟩ = (.ok v, ⟨rest, .none, last⟩) := by
  simp [Parser.value, Parser.optionalValue, Parser.rawOptionalValue, h]

theorem value_attached (c t : Char) (tail : Str) (rest : List Str) (last : LastOption) :
    Parser.value ⟨rest, .shorts ('-' :: c :: t :: tail) 2, last⟩ =
      (.ok (attachedValue (t :: tail)), ⟨rest, .none, last⟩) := by
  have hlen : ¬ (2 ≥ ('-' :: c :: t :: tail).length) := by simp
  have hd : ('-' :: c :: t :: tail).drop 2 = t :: tail := rfl
  by_cases ht : t = '='
  · subst ht; simp [Parser.value, Parser.optionalValue, Parser.rawOptionalValue, attachedValue]
  · have hraw : Parser.rawOptionalValue ⟨rest, .shorts ('-' :: c :: t :: tail) 2, last⟩ =
        (some (t :: tail, false), ⟨rest, .none, last⟩) := by
      simp only [Parser.rawOptionalValue, hlen, if_false, hd]
      split
      · rename_i r heq; simp at heq; exact absurd heq.1 ht
      · rfl
    have hav : attachedValue (t :: tail) = t :: tail := by
      unfold attachedValue; split
      · rename_i v heq; simp at heq; exact absurd heq.1 ht
      · rfl
    simp [Parser.value, Parser.optionalValue, hraw, hav]

/-- The parser state at the head of the loop: nothing pending, options finished or not. -/
def stOf (fin : Bool) : LState := if fin then .finishedOpts else .none

@[simp] theorem stOf_false : stOf false = .none := rfl
@[simp] theorem stOf_true : stOf true = .finishedOpts := rfl

theorem not_dashdash_of (c : Char) (tail : Str) (h : ¬ startsWithDashDash ('-' :: c :: tail) = true) :
    startsWithDashDash ('-' :: c :: tail) = false := by simpa using h

/-- **lexopt driven by `parse_args` = the reference reading**, for every
argument vector, every accumulated state, and whatever option was emitted last. -/
theorem parseLoop_eq_ref (fin : Bool) (args : List Str) (acc : Acc) :
    ∀ last, parseLoop ⟨args, stOf fin, last⟩ acc = refParse fin args acc := by
  fun_induction refParse fin args acc
  all_goals intro last
  case case1 fin acc t h =>
    cases fin
    · rw [stOf_false, parseLoop_done _ _ _ (next_none_nil last)]; simp [h]
    · rw [stOf_true, parseLoop_done _ _ _ (next_finished_nil last)]; simp [h]
  case case2 fin acc h =>
    cases fin
    · rw [stOf_false, parseLoop_done _ _ _ (next_none_nil last)]; simp [h]
    · rw [stOf_true, parseLoop_done _ _ _ (next_finished_nil last)]; simp [h]
  case case3 a rest acc ih =>
    rw [stOf_true, parseLoop_value _ _ _ _ (next_finished_cons a rest last)]
    exact ih last
  case case4 fin rest acc hfin ih =>
    have : fin = false := by simpa using hfin
    subst this
    cases rest with
    | nil =>
      rw [stOf_false, parseLoop_done _ _ _ (next_dashdash_nil last)]
      have := ih last
      rw [stOf_true, parseLoop_done _ _ _ (next_finished_nil last)] at this
      exact this
    | cons b rest =>
      rw [stOf_false, parseLoop_value _ _ _ _ (next_dashdash_cons b rest last)]
      have := ih last
      rw [stOf_true, parseLoop_value _ _ _ _ (next_finished_cons b rest last)] at this
      exact this
  case case5 fin a rest acc hfin h1 h2 name hv =>
    have hff : fin = false := by simpa using hfin
    subst hff; simp only [stOf_false] at *
    obtain ⟨p', hn⟩ := next_long a rest last h1 h2
    rw [parseLoop_long _ _ _ _ hn, if_pos hv]
  case case6 fin a rest acc hfin h1 h2 name hv hh =>
    have hff : fin = false := by simpa using hfin
    subst hff; simp only [stOf_false] at *
    obtain ⟨p', hn⟩ := next_long a rest last h1 h2
    rw [parseLoop_long _ _ _ _ hn, if_neg hv, if_pos hh]
  case case7 fin a rest acc hfin h1 h2 name hv hh =>
    have hff : fin = false := by simpa using hfin
    subst hff; simp only [stOf_false] at *
    obtain ⟨p', hn⟩ := next_long a rest last h1 h2
    rw [parseLoop_long _ _ _ _ hn, if_neg hv, if_neg hh]
  case case8 fin acc hfin tail rest hs h1 h2 =>
    have hff : fin = false := by simpa using hfin
    subst hff; simp only [stOf_false] at *
    rw [parseLoop_f _ _ _ (next_short 'f' tail rest last (not_dashdash_of _ _ h2))]; simp [hs]
  case case9 fin acc hfin hs h1 h2 =>
    have hff : fin = false := by simpa using hfin
    subst hff; simp only [stOf_false] at *
    rw [parseLoop_f _ _ _ (next_short 'f' [] [] last (not_dashdash_of _ _ h2))]
    rw [value_detached_nil _ _ rfl]; simp [hs, Parser.formatLastOption]
  case case10 fin acc hfin hs v rest' hv h1 h2 =>
    have hff : fin = false := by simpa using hfin
    subst hff; simp only [stOf_false] at *
    rw [parseLoop_f _ _ _ (next_short 'f' [] (v :: rest') last (not_dashdash_of _ _ h2))]
    rw [value_detached_cons _ _ _ _ rfl]; simp [hs, hv]
  case case11 fin acc hfin hs v rest' f hv h1 h2 ih =>
    have hff : fin = false := by simpa using hfin
    subst hff; simp only [stOf_false] at *
    rw [parseLoop_f _ _ _ (next_short 'f' [] (v :: rest') last (not_dashdash_of _ _ h2))]
    rw [value_detached_cons _ _ _ _ rfl]; simp only [hs, hv, Bool.false_eq_true, if_false]
    exact ih _
  case case12 fin acc hfin hs t tail' rest hv h1 h2 =>
    have hff : fin = false := by simpa using hfin
    subst hff; simp only [stOf_false] at *
    rw [parseLoop_f _ _ _ (next_short 'f' (t :: tail') rest last (not_dashdash_of _ _ h2))]
    rw [value_attached]; simp [hs, hv]
  case case13 fin acc hfin hs t tail' rest f hv h1 h2 ih =>
    have hff : fin = false := by simpa using hfin
    subst hff; simp only [stOf_false] at *
    rw [parseLoop_f _ _ _ (next_short 'f' (t :: tail') rest last (not_dashdash_of _ _ h2))]
    rw [value_attached]; simp only [hs, hv, Bool.false_eq_true, if_false]
    exact ih _
  case case14 fin acc hfin tail rest hs hnf h1 h2 =>
    have hff : fin = false := by simpa using hfin
    subst hff; simp only [stOf_false] at *
    rw [parseLoop_t _ _ _ (next_short 't' tail rest last (not_dashdash_of _ _ h2))]; simp [hs]
  case case15 fin acc hfin hs hnf h1 h2 =>
    have hff : fin = false := by simpa using hfin
    subst hff; simp only [stOf_false] at *
    rw [parseLoop_t _ _ _ (next_short 't' [] [] last (not_dashdash_of _ _ h2))]
    rw [value_detached_nil _ _ rfl]; simp [hs, Parser.formatLastOption]
  case case16 fin acc hfin hs v rest' hv hnf h1 h2 =>
    have hff : fin = false := by simpa using hfin
    subst hff; simp only [stOf_false] at *
    rw [parseLoop_t _ _ _ (next_short 't' [] (v :: rest') last (not_dashdash_of _ _ h2))]
    rw [value_detached_cons _ _ _ _ rfl]; simp [hs, hv]
  case case17 fin acc hfin hs v rest' f hv hnf h1 h2 ih =>
    have hff : fin = false := by simpa using hfin
    subst hff; simp only [stOf_false] at *
    rw [parseLoop_t _ _ _ (next_short 't' [] (v :: rest') last (not_dashdash_of _ _ h2))]
    rw [value_detached_cons _ _ _ _ rfl]; simp only [hs, hv, Bool.false_eq_true, if_false]
    exact ih _
  case case18 fin acc hfin hs t tail' rest hv hnf h1 h2 =>
    have hff : fin = false := by simpa using hfin
    subst hff; simp only [stOf_false] at *
    rw [parseLoop_t _ _ _ (next_short 't' (t :: tail') rest last (not_dashdash_of _ _ h2))]
    rw [value_attached]; simp [hs, hv]
  case case19 fin acc hfin hs t tail' rest f hv hnf h1 h2 ih =>
    have hff : fin = false := by simpa using hfin
    subst hff; simp only [stOf_false] at *
    rw [parseLoop_t _ _ _ (next_short 't' (t :: tail') rest last (not_dashdash_of _ _ h2))]
    rw [value_attached]; simp only [hs, hv, Bool.false_eq_true, if_false]
    exact ih _
  case case20 fin acc hfin tail rest hnf hnt h1 h2 =>
    have hff : fin = false := by simpa using hfin
    subst hff; simp only [stOf_false] at *
    rw [parseLoop_short _ _ _ _ (next_short 'V' tail rest last (not_dashdash_of _ _ h2)) (by decide) (by decide)]
    simp
  case case21 fin acc hfin tail rest hnf hnt hnV h1 h2 =>
    have hff : fin = false := by simpa using hfin
    subst hff; simp only [stOf_false] at *
    rw [parseLoop_short _ _ _ _ (next_short 'h' tail rest last (not_dashdash_of _ _ h2)) (by decide) (by decide)]
    simp
  case case22 fin acc hfin c tail rest hnf hnt hnV hnh h1 h2 =>
    have hff : fin = false := by simpa using hfin
    subst hff; simp only [stOf_false] at *
    rw [parseLoop_short _ _ _ _ (next_short c tail rest last (not_dashdash_of _ _ h2)) hnf hnt]
    simp [hnV, hnh]
  case case23 fin acc hfin a rest hx h1 h2 ih =>
    have hff : fin = false := by simpa using hfin
    subst hff; simp only [stOf_false] at *
    rw [parseLoop_value _ _ _ _ (next_plain a rest last (fun c tail h => hx c tail h))]
    exact ih _

theorem refParse_ne_panic (fin : Bool) (args : List Str) (acc : Acc) (site : Site) :
    refParse fin args acc ≠ .panic site := by
  fun_induction refParse fin args acc <;> simp_all [dupFrom, dupTo]

/-! ### The first decisive token wins -/

/-- One turn of the reference reading, for an argument of any shape. -/
theorem refParse_cons (fin : Bool) (a : Str) (rest : List Str) (acc : Acc) :
    refParse fin (a :: rest) acc =
    if fin then refParse true rest { acc with paths := acc.paths ++ [a] }
    else if a = ['-', '-'] then refParse true rest acc
    else if startsWithDashDash a then
      (if (splitEq a).1.drop 2 = "version".toList then .version
      else if (splitEq a).1.drop 2 = "help".toList then .longHelp
      else .err (.unexpectedOption ('-' :: '-' :: (splitEq a).1.drop 2)))
    else
      match a, rest with
      | '-' :: c :: tail, rest =>
        if c = 'f' then
          if acc.from.isSome then .err dupFrom
          else
            match tail, rest with
            | [], [] => .err (.missingValue (some ['-', 'f']))
            | [], v :: rest' =>
              match tryParseFormat v with
              | none => .err (.parsingFailed v notAFormat)
              | some f => refParse false rest' { acc with «from» := some f }
            | t :: tail', rest =>
              match tryParseFormat (attachedValue (t :: tail')) with
              | none => .err (.parsingFailed (attachedValue (t :: tail')) notAFormat)
              | some f => refParse false rest { acc with «from» := some f }
        else if c = 't' then
          if acc.to.isSome then .err dupTo
          else
            match tail, rest with
            | [], [] => .err (.missingValue (some ['-', 't']))
            | [], v :: rest' =>
              match tryParseFormat v with
              | none => .err (.parsingFailed v notAFormat)
              | some f => refParse false rest' { acc with to := some f }
            | t :: tail', rest =>
              match tryParseFormat (attachedValue (t :: tail')) with
              | none => .err (.parsingFailed (attachedValue (t :: tail')) notAFormat)
              | some f => refParse false rest { acc with to := some f }
        else if c = 'V' then .version
        else if c = 'h' then .shortHelp
        else .err (.unexpectedOption ['-', c])
      | a, rest => refParse false rest { acc with paths := acc.paths ++ [a] } := by
  rw [refParse.eq_def]


/-- A result of reading a prefix of the command line that later arguments
cannot change: a help/version request, or an argument error other than a
value still missing at the end. -/
def Decisive : Parsed → Prop
  | .version | .shortHelp | .longHelp => True
  | .err (.missingValue _) => False
  | .err _ => True
  | _ => False

theorem refParse_prefix (suf : List Str) : ∀ (fin : Bool) (pre : List Str) (acc : Acc), Decisive (refParse fin pre acc) →
      refParse fin (pre ++ suf) acc = refParse fin pre acc := by
  intro fin pre acc
  fun_induction refParse fin pre acc <;> intro hd
  case case1 => simp [Decisive] at hd
  case case2 => simp [Decisive] at hd
  case case3 a rest acc ih =>
    simp only [List.cons_append]; rw [refParse_cons]; simp only [if_true]; exact ih hd
  case case4 fin rest acc hfin ih =>
    have hff : fin = false := by simpa using hfin
    subst hff
    simp only [List.cons_append]; rw [refParse_cons]
    simp only [Bool.false_eq_true, if_false, if_true]; exact ih hd
  case case5 fin a rest acc hfin h1 h2 name hv =>
    have hff : fin = false := by simpa using hfin
    subst hff
    simp only [List.cons_append]; rw [refParse_cons]
    simp only [Bool.false_eq_true, if_false, h1, h2, if_true]; rw [if_pos hv]
  case case6 fin a rest acc hfin h1 h2 name hv hh =>
    have hff : fin = false := by simpa using hfin
    subst hff
    simp only [List.cons_append]; rw [refParse_cons]
    simp only [Bool.false_eq_true, if_false, h1, h2, if_true]; rw [if_neg hv, if_pos hh]
  case case7 fin a rest acc hfin h1 h2 name hv hh =>
    have hff : fin = false := by simpa using hfin
    subst hff
    simp only [List.cons_append]; rw [refParse_cons]
    simp only [Bool.false_eq_true, if_false, h1, h2, if_true]; rw [if_neg hv, if_neg hh]
  case case8 fin acc hfin tail rest hs h1 h2 =>
    have hff : fin = false := by simpa using hfin
    subst hff
    simp only [List.cons_append]; rw [refParse_cons]
    simp [Bool.false_eq_true, if_false, h1, not_dashdash_of _ _ h2, if_true, hs]
  case case9 => simp [Decisive] at hd
  case case10 fin acc hfin hs v rest' hv h1 h2 =>
    have hff : fin = false := by simpa using hfin
    subst hff
    simp only [List.cons_append]; rw [refParse_cons]
    simp [Bool.false_eq_true, if_false, h1, not_dashdash_of _ _ h2, if_true, hs, hv]
  case case11 fin acc hfin hs v rest' f hv h1 h2 ih =>
    have hff : fin = false := by simpa using hfin
    subst hff
    simp only [List.cons_append]; rw [refParse_cons]
    simp only [Bool.false_eq_true, if_false, h1, not_dashdash_of _ _ h2, if_true, hs, List.cons_append, hv]; exact ih hd
  case case12 fin acc hfin hs t tail' rest hv h1 h2 =>
    have hff : fin = false := by simpa using hfin
    subst hff
    simp only [List.cons_append]; rw [refParse_cons]
    simp [Bool.false_eq_true, if_false, h1, not_dashdash_of _ _ h2, if_true, hs, hv]
  case case13 fin acc hfin hs t tail' rest f hv h1 h2 ih =>
    have hff : fin = false := by simpa using hfin
    subst hff
    simp only [List.cons_append]; rw [refParse_cons]
    simp only [Bool.false_eq_true, if_false, h1, not_dashdash_of _ _ h2, if_true, hs, hv]; exact ih hd
  case case14 fin acc hfin tail rest hs hnf h1 h2 =>
    have hff : fin = false := by simpa using hfin
    subst hff
    simp only [List.cons_append]; rw [refParse_cons]
    simp [Bool.false_eq_true, if_false, h1, not_dashdash_of _ _ h2, if_true, hs, hnf]
  case case15 => simp [Decisive] at hd
  case case16 fin acc hfin hs v rest' hv hnf h1 h2 =>
    have hff : fin = false := by simpa using hfin
    subst hff
    simp only [List.cons_append]; rw [refParse_cons]
    simp [Bool.false_eq_true, if_false, h1, not_dashdash_of _ _ h2, if_true, hs, hnf, hv]
  case case17 fin acc hfin hs v rest' f hv hnf h1 h2 ih =>
    have hff : fin = false := by simpa using hfin
    subst hff
    simp only [List.cons_append]; rw [refParse_cons]
    simp only [Bool.false_eq_true, if_false, h1, not_dashdash_of _ _ h2, if_true, hs, hnf, List.cons_append, hv]; exact ih hd
  case case18 fin acc hfin hs t tail' rest hv hnf h1 h2 =>
    have hff : fin = false := by simpa using hfin
    subst hff
    simp only [List.cons_append]; rw [refParse_cons]
    simp [Bool.false_eq_true, if_false, h1, not_dashdash_of _ _ h2, if_true, hs, hnf, hv]
  case case19 fin acc hfin hs t tail' rest f hv hnf h1 h2 ih =>
    have hff : fin = false := by simpa using hfin
    subst hff
    simp only [List.cons_append]; rw [refParse_cons]
    simp only [Bool.false_eq_true, if_false, h1, not_dashdash_of _ _ h2, if_true, hs, hnf, hv]; exact ih hd
  case case20 fin acc hfin tail rest hnf hnt h1 h2 =>
    have hff : fin = false := by simpa using hfin
    subst hff
    simp only [List.cons_append]; rw [refParse_cons]
    simp [h1, not_dashdash_of _ _ h2]
  case case21 fin acc hfin tail rest hnf hnt hnV h1 h2 =>
    have hff : fin = false := by simpa using hfin
    subst hff
    simp only [List.cons_append]; rw [refParse_cons]
    simp [h1, not_dashdash_of _ _ h2]
  case case22 fin acc hfin c tail rest hnf hnt hnV hnh h1 h2 =>
    have hff : fin = false := by simpa using hfin
    subst hff
    simp only [List.cons_append]; rw [refParse_cons]
    simp [h1, not_dashdash_of _ _ h2, hnf, hnt, hnV, hnh]
  case case23 fin acc hfin a rest hx h1 h2 ih =>
    have hff : fin = false := by simpa using hfin
    subst hff
    simp only [List.cons_append]; rw [refParse_cons]
    simp only [Bool.false_eq_true, if_false, h1, h2]
    exact ih hd

/-- `parse_args` is the reference reading of the command line. -/
theorem parseArgs_eq_ref (args : List Str) :
    parseArgs args = refParse false args { paths := [], «from» := none, to := none } :=
  parseLoop_eq_ref false args _ .none

end Xt.Cli
