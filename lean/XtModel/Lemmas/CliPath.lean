import XtModel.Model.Cli

/-! Paths: the last-dot split, file names of simple paths, the extension table. -/
namespace Xt.Cli

theorem splitLastDot_none (s : Str) : splitLastDot s = none ↔ '.' ∉ s := by
  induction s with
  | nil => simp [splitLastDot]
  | cons c cs ih =>
    unfold splitLastDot
    cases h : splitLastDot cs with
    | some ba =>
      have : ¬ ('.' ∉ cs) := fun hn => by rw [ih.2 hn] at h; simp at h
      simp only [List.mem_cons, not_or]; constructor
      · intro h'; simp at h'
      · intro ⟨_, h2⟩; exact absurd h2 this
    | none =>
      have hcs := ih.1 h
      by_cases hc : c = '.'
      · subst hc; simp
      · have : ¬ ('.' = c) := fun e => hc e.symm
        simp [hc, hcs, this]

theorem splitLastDot_sound (s b a : Str) (h : splitLastDot s = some (b, a)) : s = b ++ '.' :: a ∧ '.' ∉ a := by
  induction s generalizing b a with
  | nil => simp [splitLastDot] at h
  | cons c cs ih =>
    unfold splitLastDot at h
    cases hcs : splitLastDot cs with
    | some ba =>
      obtain ⟨b', a'⟩ := ba
      rw [hcs] at h; simp at h
      obtain ⟨rfl, rfl⟩ := h
      obtain ⟨h1, h2⟩ := ih b' a' hcs
      exact ⟨by rw [h1]; rfl, h2⟩
    | none =>
      rw [hcs] at h
      have hn := (splitLastDot_none cs).1 hcs
      by_cases hc : c = '.'
      · subst hc; simp at h; obtain ⟨rfl, rfl⟩ := h; exact ⟨rfl, hn⟩
      · simp [hc] at h

theorem splitLastDot_complete (b a : Str) (h : '.' ∉ a) : splitLastDot (b ++ '.' :: a) = some (b, a) := by
  induction b with
  | nil =>
    simp only [List.nil_append]
    unfold splitLastDot
    rw [(splitLastDot_none a).2 h]; simp
  | cons x b' ih =>
    simp only [List.cons_append]
    unfold splitLastDot
    rw [ih]

theorem splitLastDot_some (s b a : Str) :
    splitLastDot s = some (b, a) ↔ s = b ++ '.' :: a ∧ '.' ∉ a :=
  ⟨splitLastDot_sound s b a, fun ⟨h1, h2⟩ => by rw [h1]; exact splitLastDot_complete b a h2⟩

theorem pieceComp_normal (piece s : Str) (h : pieceComp piece = some (.normal s)) :
    s = piece ∧ s ≠ [] ∧ s ≠ ['.'] ∧ s ≠ ['.', '.'] := by
  unfold pieceComp at h
  split at h
  · simp at h
  · rename_i h1
    split at h
    · simp at h
    · rename_i h2
      simp at h; subst h
      simp only [not_or] at h1
      exact ⟨rfl, h1.1, h1.2, h2⟩

theorem fileName_normal (path name : Str) (h : fileName path = some name) :
    name ≠ [] ∧ name ≠ ['.'] ∧ name ≠ ['.', '.'] := by
  unfold fileName at h
  cases hl : (components path).getLast? with
  | none => rw [hl] at h; simp at h
  | some c =>
    rw [hl] at h
    cases c with
    | normal s =>
      simp at h; subst h
      have hm : Comp.normal s ∈ components path := List.mem_of_getLast? hl
      unfold components at hm
      simp only [List.mem_append, List.mem_filterMap] at hm
      rcases hm with hm | ⟨piece, _, hp⟩
      · split at hm
        · simp at hm
        · split at hm <;> simp at hm
      · exact (pieceComp_normal piece s hp).2
    | rootDir => simp at h
    | curDir => simp at h
    | parentDir => simp at h

theorem extension_iff (path ext : Str) :
    extension path = some ext ↔
      ∃ name stem, fileName path = some name ∧ name = stem ++ '.' :: ext ∧ stem ≠ [] ∧ '.' ∉ ext := by
  unfold extension
  cases hf : fileName path with
  | none => simp
  | some name =>
    simp only
    constructor
    · intro h
      split at h
      · simp at h
      · cases hs : splitLastDot name with
        | none => rw [hs] at h; simp at h
        | some ba =>
          obtain ⟨b, a⟩ := ba
          rw [hs] at h; simp only at h
          obtain ⟨h1, h2⟩ := splitLastDot_sound name b a hs
          split at h
          · simp at h
          · rename_i hb; injection h with h; subst h
            exact ⟨name, b, rfl, h1, hb, h2⟩
    · rintro ⟨name', stem, e0, e1, e2, e3⟩
      injection e0 with e0; subst e0
      have hs := splitLastDot_complete stem ext e3
      rw [← e1] at hs
      have hdd : name ≠ ['.', '.'] := by
        intro hdd; rw [hdd] at hs
        have : splitLastDot ['.', '.'] = some (['.'], []) := by decide
        rw [this] at hs; simp at hs
        exact (fileName_normal path name hf).2.2 hdd
      simp [hdd, hs, e2]
/-- The five spellings. -/
def extSpellings : List (Str × Fmt) :=
  [("json".toList, .json), ("msgpack".toList, .msgpack), ("toml".toList, .toml), ("yaml".toList, .yaml),
   ("yml".toList, .yaml)]

theorem extTable_iff (e : Str) (f : Fmt) : extTable e = some f ↔ (e, f) ∈ extSpellings := by
  unfold extTable extSpellings
  constructor
  · intro h
    split at h
    · rename_i hs; injection h with h; subst h; simp [hs]
    · split at h
      · rename_i hs; injection h with h; subst h; simp [hs]
      · split at h
        · rename_i hs; injection h with h; subst h; simp [hs]
        · split at h
          · rename_i hs; injection h with h; subst h; rcases hs with hs | hs <;> simp [hs]
          · simp at h
  · intro h
    simp only [List.mem_cons, Prod.mk.injEq, List.not_mem_nil, or_false] at h
    rcases h with ⟨h1, h2⟩ | ⟨h1, h2⟩ | ⟨h1, h2⟩ | ⟨h1, h2⟩ | ⟨h1, h2⟩ <;> subst h1 <;> subst h2 <;> decide

/-- `asciiLower` is `to_ascii_lowercase`: `A`–`Z` map to `a`–`z`, every other character is unchanged. -/
theorem asciiLower_spec (c : Char) :
    (65 ≤ c.toNat ∧ c.toNat ≤ 90 → (asciiLower c).toNat = c.toNat + 32) ∧
    (¬ (65 ≤ c.toNat ∧ c.toNat ≤ 90) → asciiLower c = c) := by
  unfold asciiLower
  constructor
  · intro h
    simp only [h, and_self, if_true]
    generalize c.toNat = n at *
    have hv : (n + 32).isValidChar := by left; omega
    simp [Char.ofNat, hv, Char.ofNatAux, Char.toNat]
    omega
  · intro h; simp [h]

/-! ### File names of simple paths -/

theorem splitSlashGo_no_slash (cur name : Str) (h : '/' ∉ name) :
    splitSlashGo cur name = [cur.reverse ++ name] := by
  induction name generalizing cur with
  | nil => simp [splitSlashGo]
  | cons c cs ih =>
    have hc : c ≠ '/' := fun e => h (by simp [e])
    have hcs : '/' ∉ cs := fun e => h (by simp [e])
    simp [splitSlashGo, hc, ih _ hcs]

theorem splitSlashGo_append (cur dir name : Str) (h : '/' ∉ name) :
    splitSlashGo cur (dir ++ '/' :: name) = splitSlashGo cur dir ++ [name] := by
  induction dir generalizing cur with
  | nil => simp [splitSlashGo, splitSlashGo_no_slash _ _ h]
  | cons c cs ih =>
    by_cases hc : c = '/'
    · subst hc; simp [splitSlashGo, ih]
    · simp [splitSlashGo, hc, ih]

theorem getLast?_append_singleton {α : Type} (xs : List α) (x : α) : (xs ++ [x]).getLast? = some x := by
  simp

/-- A name that is not empty, `.` or `..` and contains no `/`. -/
def PlainName (name : Str) : Prop := '/' ∉ name ∧ name ≠ [] ∧ name ≠ ['.'] ∧ name ≠ ['.', '.']

theorem pieceComp_plain (name : Str) (h : PlainName name) : pieceComp name = some (.normal name) := by
  obtain ⟨_, h1, h2, h3⟩ := h
  simp [pieceComp, h1, h2, h3]

/-- `file_name` of `dir/name`. -/
theorem fileName_dir (dir name : Str) (h : PlainName name) : fileName (dir ++ '/' :: name) = some name := by
  unfold fileName components splitSlash
  rw [splitSlashGo_append _ _ _ h.1]
  simp only [List.filterMap_append, List.filterMap_cons, pieceComp_plain name h, List.filterMap_nil]
  rw [← List.append_assoc, getLast?_append_singleton]

/-- `file_name` of a bare `name`. -/
theorem fileName_plain (name : Str) (h : PlainName name) : fileName name = some name := by
  unfold fileName components splitSlash
  rw [splitSlashGo_no_slash _ _ h.1]
  simp only [List.reverse_nil, List.nil_append, List.filterMap_cons, pieceComp_plain name h, List.filterMap_nil]
  rw [getLast?_append_singleton]

end Xt.Cli
