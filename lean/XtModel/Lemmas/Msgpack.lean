import XtModel.Model.MsgpackSize

/-!
Lemmas about the MessagePack size calculator model (`Model/MsgpackSize.lean`).
Property files (C18, and later C01/C02/C03/C04/C06/C10) import this file.
-/
namespace Xt.Msgpack

theorem tryReadLength_not_panic (input : List Nat) (n : Nat) (s : Site) :
    tryReadLength input n ≠ .panic s := by
  unfold tryReadLength
  split
  · have : ((input.drop 1).take n).length = n := by
      rw [List.length_take, List.length_drop]; omega
    simp only [this, ↓reduceIte]
    exact fun h => by cases h
  · exact fun h => by cases h

theorem tryReadLength_ok (input : List Nat) (n len : Nat) (h : tryReadLength input n = .ok len) :
    1 + n ≤ input.length ∧ len = beNat ((input.drop 1).take n) := by
  unfold tryReadLength at h
  split at h
  · rename_i hl
    refine ⟨hl, ?_⟩
    simp only at h
    split at h
    · injection h with h; exact h.symm
    · cases h
  · cases h

/-- What the loop guarantees when the calls it makes at depth `d - 1` are safe. -/
def SafeAt (d : Nat) : Prop :=
  ∀ input, (∀ s, nextValueSize input d ≠ .panic s) ∧
    (∀ n, nextValueSize input d = .ok n → n ≤ input.length)

theorem loop_safe (d : Nat) (hd : d ≠ 0) (ih : SafeAt (d - 1)) :
    ∀ count seq total, (∀ s, totalSeqLoop seq count total d ≠ .panic s) ∧
      (∀ n, totalSeqLoop seq count total d = .ok n → total ≤ n ∧ n ≤ total + seq.length) := by
  intro count
  induction count with
  | zero =>
    intro seq total
    rw [totalSeqLoop.eq_def]
    simp
  | succ c ihc =>
    intro seq total
    rw [totalSeqLoop.eq_def]
    simp only
    by_cases he : seq.isEmpty
    · simp [he]
    · simp only [he, hd]
      obtain ⟨np, ok⟩ := ih seq
      cases hr : nextValueSize seq (d - 1) with
      | ok size =>
        have hs := ok size hr
        simp only [hs]
        obtain ⟨np', ok'⟩ := ihc (seq.drop size) (total + size)
        refine ⟨by simpa using np', ?_⟩
        intro n hn
        have := ok' n (by simpa using hn)
        rw [List.length_drop] at this
        omega
      | truncated => simp
      | invalidMarker => simp
      | depthExceeded => simp
      | panic s => exact absurd hr (np s)


theorem seq_safe (d : Nat) (hd : d ≠ 0) (ih : SafeAt (d - 1)) (input : List Nat) (count : Nat) :
    (∀ s, totalSeqSize input count d ≠ .panic s) ∧
      (∀ n, totalSeqSize input count d = .ok n → n ≤ input.length) := by
  rw [totalSeqSize.eq_def]
  obtain ⟨np, ok⟩ := loop_safe d hd ih count input 0
  exact ⟨np, fun n hn => by have := ok n hn; omega⟩

theorem map_safe (d : Nat) (hd : d ≠ 0) (ih : SafeAt (d - 1)) (input : List Nat) (pairs : Nat) :
    (∀ s, totalMapSize input pairs d ≠ .panic s) ∧
      (∀ n, totalMapSize input pairs d = .ok n → n ≤ input.length) := by
  rw [totalMapSize.eq_def]
  obtain ⟨np, ok⟩ := seq_safe d hd ih input pairs
  cases h1 : totalSeqSize input pairs d with
  | ok first =>
    have hf := ok first h1
    simp only [sliceFrom, hf, ↓reduceIte]
    obtain ⟨np2, ok2⟩ := seq_safe d hd ih (input.drop first) pairs
    cases h2 : totalSeqSize (input.drop first) pairs d with
    | ok second =>
      have := ok2 second h2
      rw [List.length_drop] at this
      simp; omega
    | truncated => simp
    | invalidMarker => simp
    | depthExceeded => simp
    | panic s => exact absurd h2 (np2 s)
  | truncated => simp
  | invalidMarker => simp
  | depthExceeded => simp
  | panic s => exact absurd h1 (np s)

theorem safeAt (d : Nat) : SafeAt d := by
  induction d with
  | zero => intro input; rw [nextValueSize.eq_def]; simp
  | succ d ih =>
    intro input
    have hd : d + 1 ≠ 0 := by omega
    have ih' : SafeAt (d + 1 - 1) := by simpa using ih
    rw [nextValueSize.eq_def]
    simp only [hd, ↓reduceIte]
    cases input with
    | nil => simp
    | cons b t =>
      simp only
      cases hc : classify (Marker.ofByte b) with
      | reserved => simp
      | fixed size => simp only; split <;> simp_all
      | fixStr n => simp only; split <;> simp_all
      | lenPrefixed w base =>
        simp only
        cases hl : tryReadLength (b :: t) w with
        | ok len => simp only; split <;> simp_all
        | truncated => simp
        | invalidMarker => simp
        | depthExceeded => simp
        | panic s => exact absurd hl (tryReadLength_not_panic _ _ _)
      | fixArray count =>
        have h1 : 1 ≤ (b :: t).length := by simp
        simp only [sliceFrom, h1, ↓reduceIte]
        obtain ⟨np, ok⟩ := seq_safe (d + 1) hd ih' (List.drop 1 (b :: t)) count
        cases hs : totalSeqSize (List.drop 1 (b :: t)) count (d + 1) with
        | ok n => simp only; split <;> simp_all
        | truncated => simp
        | invalidMarker => simp
        | depthExceeded => simp
        | panic s => exact absurd hs (np s)
      | fixMap pairs =>
        have h1 : 1 ≤ (b :: t).length := by simp
        simp only [sliceFrom, h1, ↓reduceIte]
        obtain ⟨np, ok⟩ := map_safe (d + 1) hd ih' (List.drop 1 (b :: t)) pairs
        cases hs : totalMapSize (List.drop 1 (b :: t)) pairs (d + 1) with
        | ok n => simp only; split <;> simp_all
        | truncated => simp
        | invalidMarker => simp
        | depthExceeded => simp
        | panic s => exact absurd hs (np s)
      | array w =>
        simp only
        cases hl : tryReadLength (b :: t) w with
        | ok count =>
          have h1 := (tryReadLength_ok _ _ _ hl).1
          simp only [sliceFrom, h1, ↓reduceIte]
          obtain ⟨np, ok⟩ := seq_safe (d + 1) hd ih' (List.drop (1 + w) (b :: t)) count
          cases hs : totalSeqSize (List.drop (1 + w) (b :: t)) count (d + 1) with
          | ok n => simp only; split <;> simp_all
          | truncated => simp
          | invalidMarker => simp
          | depthExceeded => simp
          | panic s => exact absurd hs (np s)
        | truncated => simp
        | invalidMarker => simp
        | depthExceeded => simp
        | panic s => exact absurd hl (tryReadLength_not_panic _ _ _)
      | map w =>
        simp only
        cases hl : tryReadLength (b :: t) w with
        | ok count =>
          have h1 := (tryReadLength_ok _ _ _ hl).1
          simp only [sliceFrom, h1, ↓reduceIte]
          obtain ⟨np, ok⟩ := map_safe (d + 1) hd ih' (List.drop (1 + w) (b :: t)) count
          cases hs : totalMapSize (List.drop (1 + w) (b :: t)) count (d + 1) with
          | ok n => simp only; split <;> simp_all
          | truncated => simp
          | invalidMarker => simp
          | depthExceeded => simp
          | panic s => exact absurd hs (np s)
        | truncated => simp
        | invalidMarker => simp
        | depthExceeded => simp
        | panic s => exact absurd hl (tryReadLength_not_panic _ _ _)

end Xt.Msgpack
