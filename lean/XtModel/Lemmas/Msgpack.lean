import XtModel.Model.MsgpackSize
import XtModel.Model.MsgpackCodec

/-!
Lemmas about the MessagePack size calculator model (`Model/MsgpackSize.lean`).
Property files (C18, and later C01/C02/C03/C04/C06/C10) import this file.
-/
namespace Xt.Msgpack

theorem tryReadLength_not_panic (input : List Nat) (n : Nat) (s : Site) :
    tryReadLength input n ≠ .panic s := by
  unfold tryReadLength
  split
  · have : ((input.drop 1).take n).length = n := by
      rw [List.length_take, List.length_drop]; omega
    simp only [this, ↓reduceIte]
    exact fun h => by cases h
  · exact fun h => by cases h

theorem tryReadLength_ok (input : List Nat) (n len : Nat) (h : tryReadLength input n = .ok len) :
    1 + n ≤ input.length ∧ len = beNat ((input.drop 1).take n) := by
  unfold tryReadLength at h
  split at h
  · rename_i hl
    refine ⟨hl, ?_⟩
    simp only at h
    split at h
    · injection h with h; exact h.symm
    · cases h
  · cases h

/-- What the loop guarantees when the calls it makes at depth `d - 1` are safe. -/
def SafeAt (d : Nat) : Prop :=
  ∀ input, (∀ s, nextValueSize input d ≠ .panic s) ∧
    (∀ n, nextValueSize input d = .ok n → n ≤ input.length)

theorem loop_safe (d : Nat) (hd : d ≠ 0) (ih : SafeAt (d - 1)) :
    ∀ count seq total, (∀ s, totalSeqLoop seq count total d ≠ .panic s) ∧
      (∀ n, totalSeqLoop seq count total d = .ok n → total ≤ n ∧ n ≤ total + seq.length) := by
  intro count
  induction count with
  | zero =>
    intro seq total
    rw [totalSeqLoop.eq_def]
    simp
  | succ c ihc =>
    intro seq total
    rw [totalSeqLoop.eq_def]
    simp only
    by_cases he : seq.isEmpty
    · simp [he]
    · simp only [he, hd]
      obtain ⟨np, ok⟩ := ih seq
      cases hr : nextValueSize seq (d - 1) with
      | ok size =>
        have hs := ok size hr
        simp only [hs]
        obtain ⟨np', ok'⟩ := ihc (seq.drop size) (total + size)
        refine ⟨by simpa using np', ?_⟩
        intro n hn
        have := ok' n (by simpa using hn)
        rw [List.length_drop] at this
        omega
      | truncated => simp
      | invalidMarker => simp
      | depthExceeded => simp
      | panic s => exact absurd hr (np s)


theorem seq_safe (d : Nat) (hd : d ≠ 0) (ih : SafeAt (d - 1)) (input : List Nat) (count : Nat) :
    (∀ s, totalSeqSize input count d ≠ .panic s) ∧
      (∀ n, totalSeqSize input count d = .ok n → n ≤ input.length) := by
  rw [totalSeqSize.eq_def]
  obtain ⟨np, ok⟩ := loop_safe d hd ih count input 0
  exact ⟨np, fun n hn => by have := ok n hn; omega⟩

theorem map_safe (d : Nat) (hd : d ≠ 0) (ih : SafeAt (d - 1)) (input : List Nat) (pairs : Nat) :
    (∀ s, totalMapSize input pairs d ≠ .panic s) ∧
      (∀ n, totalMapSize input pairs d = .ok n → n ≤ input.length) := by
  rw [totalMapSize.eq_def]
  obtain ⟨np, ok⟩ := seq_safe d hd ih input pairs
  cases h1 : totalSeqSize input pairs d with
  | ok first =>
    have hf := ok first h1
    simp only [sliceFrom, hf, ↓reduceIte]
    obtain ⟨np2, ok2⟩ := seq_safe d hd ih (input.drop first) pairs
    cases h2 : totalSeqSize (input.drop first) pairs d with
    | ok second =>
      have := ok2 second h2
      rw [List.length_drop] at this
      simp; omega
    | truncated => simp
    | invalidMarker => simp
    | depthExceeded => simp
    | panic s => exact absurd h2 (np2 s)
  | truncated => simp
  | invalidMarker => simp
  | depthExceeded => simp
  | panic s => exact absurd h1 (np s)

theorem safeAt (d : Nat) : SafeAt d := by
  induction d with
  | zero => intro input; rw [nextValueSize.eq_def]; simp
  | succ d ih =>
    intro input
    have hd : d + 1 ≠ 0 := by omega
    have ih' : SafeAt (d + 1 - 1) := by simpa using ih
    rw [nextValueSize.eq_def]
    simp only [hd, ↓reduceIte]
    cases input with
    | nil => simp
    | cons b t =>
      simp only
      cases hc : classify (Marker.ofByte b) with
      | reserved => simp
      | fixed size => simp only; split <;> simp_all
      | fixStr n => simp only; split <;> simp_all
      | lenPrefixed w base =>
        simp only
        cases hl : tryReadLength (b :: t) w with
        | ok len => simp only; split <;> simp_all
        | truncated => simp
        | invalidMarker => simp
        | depthExceeded => simp
        | panic s => exact absurd hl (tryReadLength_not_panic _ _ _)
      | fixArray count =>
        have h1 : 1 ≤ (b :: t).length := by simp
        simp only [sliceFrom, h1, ↓reduceIte]
        obtain ⟨np, ok⟩ := seq_safe (d + 1) hd ih' (List.drop 1 (b :: t)) count
        cases hs : totalSeqSize (List.drop 1 (b :: t)) count (d + 1) with
        | ok n => simp only; split <;> simp_all
        | truncated => simp
        | invalidMarker => simp
        | depthExceeded => simp
        | panic s => exact absurd hs (np s)
      | fixMap pairs =>
        have h1 : 1 ≤ (b :: t).length := by simp
        simp only [sliceFrom, h1, ↓reduceIte]
        obtain ⟨np, ok⟩ := map_safe (d + 1) hd ih' (List.drop 1 (b :: t)) pairs
        cases hs : totalMapSize (List.drop 1 (b :: t)) pairs (d + 1) with
        | ok n => simp only; split <;> simp_all
        | truncated => simp
        | invalidMarker => simp
        | depthExceeded => simp
        | panic s => exact absurd hs (np s)
      | array w =>
        simp only
        cases hl : tryReadLength (b :: t) w with
        | ok count =>
          have h1 := (tryReadLength_ok _ _ _ hl).1
          simp only [sliceFrom, h1, ↓reduceIte]
          obtain ⟨np, ok⟩ := seq_safe (d + 1) hd ih' (List.drop (1 + w) (b :: t)) count
          cases hs : totalSeqSize (List.drop (1 + w) (b :: t)) count (d + 1) with
          | ok n => simp only; split <;> simp_all
          | truncated => simp
          | invalidMarker => simp
          | depthExceeded => simp
          | panic s => exact absurd hs (np s)
        | truncated => simp
        | invalidMarker => simp
        | depthExceeded => simp
        | panic s => exact absurd hl (tryReadLength_not_panic _ _ _)
      | map w =>
        simp only
        cases hl : tryReadLength (b :: t) w with
        | ok count =>
          have h1 := (tryReadLength_ok _ _ _ hl).1
          simp only [sliceFrom, h1, ↓reduceIte]
          obtain ⟨np, ok⟩ := map_safe (d + 1) hd ih' (List.drop (1 + w) (b :: t)) count
          cases hs : totalMapSize (List.drop (1 + w) (b :: t)) count (d + 1) with
          | ok n => simp only; split <;> simp_all
          | truncated => simp
          | invalidMarker => simp
          | depthExceeded => simp
          | panic s => exact absurd hs (np s)
        | truncated => simp
        | invalidMarker => simp
        | depthExceeded => simp
        | panic s => exact absurd hl (tryReadLength_not_panic _ _ _)


/-! ## The decoder reads a prefix of its input and nothing beyond it -/

/-- A parser that reads a prefix of its input and does not look beyond it. -/
def Local {α : Type} (f : List Nat → Except DErr (α × List Nat)) : Prop :=
  ∀ bs v rest, f bs = .ok (v, rest) →
    ∃ used, bs = used ++ rest ∧ ∀ r', f (used ++ r') = .ok (v, r')

theorem readN_ok {n : Nat} {bs x r : List Nat} (h : readN n bs = .ok (x, r)) :
    bs = x ++ r ∧ x.length = n ∧ ∀ r', readN n (x ++ r') = .ok (x, r') := by
  unfold readN at h
  split at h
  · rename_i hn
    injection h with h; injection h with h1 h2; subst h1; subst h2
    refine ⟨(List.take_append_drop n bs).symm, by rw [List.length_take]; omega, ?_⟩
    intro r'
    have hl : (List.take n bs).length = n := by rw [List.length_take]; omega
    unfold readN
    rw [if_pos (by rw [List.length_append]; omega)]
    rw [List.take_left' hl, List.drop_left' hl]
  · cases h

theorem readN_local (n : Nat) : Local (readN n) := by
  intro bs x r h
  obtain ⟨h1, _, h3⟩ := readN_ok h
  exact ⟨x, h1, h3⟩

theorem header_local (m : Marker) : Local (header m) := by
  intro t h r hh
  unfold header at hh
  split at hh
  · cases hh
  · rename_i h' hl
    injection hh with hh; injection hh with h1 h2; subst h1; subst h2
    refine ⟨[], rfl, ?_⟩
    intro r'; unfold header; rw [hl]; rfl
  · rename_i k kind hl
    split at hh
    · cases hh
    · rename_i x r1 hr
      injection hh with hh; injection hh with h1 h2; subst h1; subst h2
      obtain ⟨e1, _, e3⟩ := readN_ok hr
      refine ⟨x, e1, ?_⟩
      intro r'; unfold header; rw [hl]; simp only [e3 r']
  · rename_i w kind hl
    split at hh
    · cases hh
    · rename_i x r1 hr
      injection hh with hh; injection hh with h1 h2; subst h1; subst h2
      obtain ⟨e1, _, e3⟩ := readN_ok hr
      refine ⟨x, e1, ?_⟩
      intro r'; unfold header; rw [hl]; simp only [e3 r']

theorem seqWith_local {f : List Nat → Except DErr (MVal × List Nat)} (hf : Local f) :
    ∀ n, Local (seqWith f n) := by
  intro n
  induction n with
  | zero =>
    intro bs vs r h
    simp only [seqWith] at h
    injection h with h; injection h with h1 h2; subst h1; subst h2
    exact ⟨[], rfl, fun r' => by simp [seqWith]⟩
  | succ n ih =>
    intro bs vs r h
    simp only [seqWith] at h
    split at h
    · cases h
    · rename_i v r1 h1
      split at h
      · cases h
      · rename_i vs' r2 h2
        injection h with h; injection h with h3 h4; subst h3; subst h4
        obtain ⟨u1, e1, g1⟩ := hf _ _ _ h1
        obtain ⟨u2, e2, g2⟩ := ih _ _ _ h2
        refine ⟨u1 ++ u2, by rw [e1, e2, List.append_assoc], ?_⟩
        intro r'
        simp only [seqWith, List.append_assoc, g1 (u2 ++ r'), g2 r']

theorem pairsWith_local {f : List Nat → Except DErr (MVal × List Nat)} (hf : Local f) :
    ∀ n, Local (pairsWith f n) := by
  intro n
  induction n with
  | zero =>
    intro bs vs r h
    simp only [pairsWith] at h
    injection h with h; injection h with h1 h2; subst h1; subst h2
    exact ⟨[], rfl, fun r' => by simp [pairsWith]⟩
  | succ n ih =>
    intro bs vs r h
    simp only [pairsWith] at h
    split at h
    · cases h
    · rename_i k r1 h1
      split at h
      · cases h
      · rename_i v r2 h2
        split at h
        · cases h
        · rename_i kvs r3 h3
          injection h with h; injection h with h4 h5; subst h4; subst h5
          obtain ⟨u1, e1, g1⟩ := hf _ _ _ h1
          obtain ⟨u2, e2, g2⟩ := hf _ _ _ h2
          obtain ⟨u3, e3, g3⟩ := ih _ _ _ h3
          refine ⟨u1 ++ (u2 ++ u3), by rw [e1, e2, e3]; simp, ?_⟩
          intro r'
          simp only [pairsWith, List.append_assoc, g1 (u2 ++ (u3 ++ r')), g2 (u3 ++ r'), g3 r']



theorem decodeG_local_step (ext : Bool) (d : Nat)
    (ih : ∀ d', d' < d → Local (decodeG ext d')) : Local (decodeG ext d) := by
  intro bs v rest h
  unfold decodeG at h
  split at h
  · cases h
  · rename_i b t
    split at h
    · cases h
    · -- scalar
      rename_i v' r hh
      injection h with h; injection h with h1 h2; subst h1; subst h2
      obtain ⟨u, e, g⟩ := header_local _ _ _ _ hh
      refine ⟨b :: u, by rw [e]; rfl, ?_⟩
      intro r'
      show decodeG ext d (b :: (u ++ r')) = _
      unfold decodeG; simp only [g r']
    · -- str
      rename_i len r hh
      obtain ⟨u, e, g⟩ := header_local _ _ _ _ hh
      split at h
      · cases h
      · rename_i s r2 hr
        injection h with h; injection h with h1 h2; subst h1; subst h2
        obtain ⟨e1, _, g1⟩ := readN_ok hr
        refine ⟨b :: (u ++ s), by rw [e, e1]; simp, ?_⟩
        intro r'
        show decodeG ext d (b :: ((u ++ s) ++ r')) = _
        unfold decodeG; simp only [List.append_assoc, g (s ++ r'), g1 r']
    · -- bin
      rename_i len r hh
      obtain ⟨u, e, g⟩ := header_local _ _ _ _ hh
      split at h
      · cases h
      · rename_i s r2 hr
        injection h with h; injection h with h1 h2; subst h1; subst h2
        obtain ⟨e1, _, g1⟩ := readN_ok hr
        refine ⟨b :: (u ++ s), by rw [e, e1]; simp, ?_⟩
        intro r'
        show decodeG ext d (b :: ((u ++ s) ++ r')) = _
        unfold decodeG; simp only [List.append_assoc, g (s ++ r'), g1 r']
    · -- ext
      rename_i len r hh
      obtain ⟨u, e, g⟩ := header_local _ _ _ _ hh
      split at h
      · cases h
      · rename_i d'
        split at h
        · cases h
        · rename_i hd
          split at h
          · rename_i hext
            split at h
            · cases h
            · rename_i ty r1 hr1
              split at h
              · cases h
              · rename_i s r2 hr2
                injection h with h; injection h with h1 h2; subst h1; subst h2
                obtain ⟨e1, _, g1⟩ := readN_ok hr1
                obtain ⟨e2, _, g2⟩ := readN_ok hr2
                refine ⟨b :: (u ++ (ty ++ s)), by rw [e, e1, e2]; simp, ?_⟩
                intro r'
                show decodeG ext (d' + 1) (b :: ((u ++ (ty ++ s)) ++ r')) = _
                unfold decodeG
                simp only [List.append_assoc, g (ty ++ (s ++ r')), g1 (s ++ r'), g2 r', hd, hext,
                  ↓reduceIte]
          · cases h
    · -- arr
      rename_i count r hh
      obtain ⟨u, e, g⟩ := header_local _ _ _ _ hh
      split at h
      · cases h
      · rename_i d'
        split at h
        · cases h
        · rename_i hd
          split at h
          · cases h
          · rename_i vs r2 hs
            injection h with h; injection h with h1 h2; subst h1; subst h2
            obtain ⟨u2, e2, g2⟩ := seqWith_local (ih d' (by omega)) count _ _ _ hs
            refine ⟨b :: (u ++ u2), by rw [e, e2]; simp, ?_⟩
            intro r'
            show decodeG ext (d' + 1) (b :: ((u ++ u2) ++ r')) = _
            unfold decodeG
            simp only [List.append_assoc, g (u2 ++ r'), g2 r', hd, ↓reduceIte]
    · -- map
      rename_i count r hh
      obtain ⟨u, e, g⟩ := header_local _ _ _ _ hh
      split at h
      · cases h
      · rename_i d'
        split at h
        · cases h
        · rename_i hd
          split at h
          · cases h
          · rename_i vs r2 hs
            injection h with h; injection h with h1 h2; subst h1; subst h2
            obtain ⟨u2, e2, g2⟩ := pairsWith_local (ih d' (by omega)) count _ _ _ hs
            refine ⟨b :: (u ++ u2), by rw [e, e2]; simp, ?_⟩
            intro r'
            show decodeG ext (d' + 1) (b :: ((u ++ u2) ++ r')) = _
            unfold decodeG
            simp only [List.append_assoc, g (u2 ++ r'), g2 r', hd, ↓reduceIte]

theorem decodeG_local (ext : Bool) (d : Nat) : Local (decodeG ext d) := by
  induction d using Nat.strongRecOn with
  | _ d ih => exact decodeG_local_step ext d ih

/-! ## The calculator's size is the decoder's extent -/

/-- The calculator's arm for a marker, read off the decoder's layout table. -/
def clsOf : Layout → Cls
  | .reserved => .reserved
  | .imm (.scalar _) => .fixed 1
  | .imm (.str n) => .fixStr n
  | .imm (.bin n) => .fixStr n
  | .imm (.ext len) => .fixed (2 + len)
  | .imm (.arr n) => .fixArray n
  | .imm (.map n) => .fixMap n
  | .data k _ => .fixed (1 + k)
  | .len w .str => .lenPrefixed w (1 + w)
  | .len w .bin => .lenPrefixed w (1 + w)
  | .len w .ext => .lenPrefixed w (2 + w)
  | .len w .arr => .array w
  | .len w .map => .map w

/-- The calculator and the decoder agree, marker by marker, on what follows
each of the 37 markers. -/
theorem classify_eq_clsOf (m : Marker) : classify m = clsOf (layout m) := by
  cases m <;> rfl

theorem Local.suffix {α : Type} {f : List Nat → Except DErr (α × List Nat)} (hf : Local f)
    {bs : List Nat} {v : α} {rest : List Nat} (h : f bs = .ok (v, rest)) :
    rest.length ≤ bs.length ∧ bs.drop (bs.length - rest.length) = rest := by
  obtain ⟨u, e, _⟩ := hf _ _ _ h
  subst e
  refine ⟨by simp, ?_⟩
  have : (u ++ rest).length - rest.length = u.length := by simp
  rw [this, List.drop_left]

theorem loop_extent {f : List Nat → Except DErr (MVal × List Nat)} (hf : Local f)
    (L : Nat) (hL : L ≠ 0)
    (hlt : ∀ bs v rest, f bs = .ok (v, rest) → rest.length < bs.length)
    (hC : ∀ bs v rest, f bs = .ok (v, rest) →
      nextValueSize bs (L - 1) = .ok (bs.length - rest.length)) :
    ∀ n seq total vs rest, seqWith f n seq = .ok (vs, rest) →
      totalSeqLoop seq n total L = .ok (total + (seq.length - rest.length)) := by
  intro n
  induction n with
  | zero =>
    intro seq total vs rest h
    simp only [seqWith] at h
    injection h with h; injection h with _ h2; subst h2
    rw [totalSeqLoop.eq_def]; simp
  | succ n ih =>
    intro seq total vs rest h
    simp only [seqWith] at h
    split at h
    · cases h
    · rename_i v r1 h1
      split at h
      · cases h
      · rename_i vs' r2 h2
        injection h with h; injection h with _ h4; subst h4
        have hlt1 := hlt _ _ _ h1
        obtain ⟨_, hd1⟩ := hf.suffix h1
        have hle2 := ((seqWith_local hf n).suffix h2).1
        rw [totalSeqLoop.eq_def]
        have hne : seq.isEmpty = false := by
          cases seq with
          | nil => simp at hlt1
          | cons _ _ => rfl
        simp only [hne, hL, hC _ _ _ h1, Nat.sub_le, hd1, ih _ _ _ _ h2]
        simp
        omega

theorem seq_extent {f : List Nat → Except DErr (MVal × List Nat)} (hf : Local f)
    (L : Nat) (hL : L ≠ 0)
    (hlt : ∀ bs v rest, f bs = .ok (v, rest) → rest.length < bs.length)
    (hC : ∀ bs v rest, f bs = .ok (v, rest) →
      nextValueSize bs (L - 1) = .ok (bs.length - rest.length))
    {n : Nat} {seq : List Nat} {vs : List MVal} {rest : List Nat}
    (h : seqWith f n seq = .ok (vs, rest)) :
    totalSeqSize seq n L = .ok (seq.length - rest.length) := by
  rw [totalSeqSize.eq_def, loop_extent hf L hL hlt hC n seq 0 vs rest h]; simp

theorem pairs_to_seq {f : List Nat → Except DErr (MVal × List Nat)} :
    ∀ n seq kvs rest, pairsWith f n seq = .ok (kvs, rest) →
      ∃ vs, seqWith f (n + n) seq = .ok (vs, rest) := by
  intro n
  induction n with
  | zero =>
    intro seq kvs rest h
    simp only [pairsWith] at h
    injection h with h; injection h with _ h2; subst h2
    exact ⟨[], rfl⟩
  | succ n ih =>
    intro seq kvs rest h
    simp only [pairsWith] at h
    split at h
    · cases h
    · rename_i k r1 h1
      split at h
      · cases h
      · rename_i v r2 h2
        split at h
        · cases h
        · rename_i kvs' r3 h3
          injection h with h; injection h with _ h5; subst h5
          obtain ⟨vs, hvs⟩ := ih _ _ _ h3
          have : n + 1 + (n + 1) = (n + n) + 1 + 1 := by omega
          rw [this]
          exact ⟨k :: v :: vs, by simp only [seqWith, h1, h2, hvs]⟩

theorem seq_split {f : List Nat → Except DErr (MVal × List Nat)} :
    ∀ a b seq vs rest, seqWith f (a + b) seq = .ok (vs, rest) →
      ∃ vs1 mid vs2, seqWith f a seq = .ok (vs1, mid) ∧ seqWith f b mid = .ok (vs2, rest) := by
  intro a
  induction a with
  | zero =>
    intro b seq vs rest h
    rw [Nat.zero_add] at h
    exact ⟨[], seq, vs, rfl, h⟩
  | succ a ih =>
    intro b seq vs rest h
    have : a + 1 + b = (a + b) + 1 := by omega
    rw [this] at h
    simp only [seqWith] at h
    split at h
    · cases h
    · rename_i v r1 h1
      split at h
      · cases h
      · rename_i vs' r2 h2
        injection h with h; injection h with _ h4; subst h4
        obtain ⟨vs1, mid, vs2, g1, g2⟩ := ih _ _ _ _ h2
        exact ⟨v :: vs1, mid, vs2, by simp only [seqWith, h1, g1], g2⟩

theorem map_extent {f : List Nat → Except DErr (MVal × List Nat)} (hf : Local f)
    (L : Nat) (hL : L ≠ 0)
    (hlt : ∀ bs v rest, f bs = .ok (v, rest) → rest.length < bs.length)
    (hC : ∀ bs v rest, f bs = .ok (v, rest) →
      nextValueSize bs (L - 1) = .ok (bs.length - rest.length))
    {n : Nat} {seq : List Nat} {kvs : List (MVal × MVal)} {rest : List Nat}
    (h : pairsWith f n seq = .ok (kvs, rest)) :
    totalMapSize seq n L = .ok (seq.length - rest.length) := by
  obtain ⟨vs, hvs⟩ := pairs_to_seq _ _ _ _ h
  obtain ⟨vs1, mid, vs2, g1, g2⟩ := seq_split _ _ _ _ _ hvs
  obtain ⟨hle1, hd1⟩ := (seqWith_local hf n).suffix g1
  obtain ⟨hle2, _⟩ := (seqWith_local hf n).suffix g2
  rw [totalMapSize.eq_def, seq_extent hf L hL hlt hC g1]
  simp only [sliceFrom, Nat.sub_le, ↓reduceIte, hd1, seq_extent hf L hL hlt hC g2]
  congr 1; omega



theorem tryReadLength_cons {b : Nat} {t : List Nat} {w : Nat} {x r : List Nat}
    (hr : readN w t = .ok (x, r)) : tryReadLength (b :: t) w = .ok (beNat x) := by
  unfold readN at hr
  split at hr
  · rename_i hw
    injection hr with hr; injection hr with h1 _; subst h1
    unfold tryReadLength
    have h1 : 1 + w ≤ (b :: t).length := by simp; omega
    have h2 : (List.take w (List.drop 1 (b :: t))).length = w := by
      simp [List.length_take]; omega
    simp only [h1, h2, ↓reduceIte]
    simp
  · cases hr

theorem readN_len {n : Nat} {bs x r : List Nat} (h : readN n bs = .ok (x, r)) :
    n ≤ bs.length ∧ r = bs.drop n ∧ r.length = bs.length - n := by
  unfold readN at h
  split at h
  · rename_i hn
    injection h with h; injection h with _ h2; subst h2
    exact ⟨hn, rfl, by simp⟩
  · cases h

def ExtentAt (ext : Bool) (d : Nat) : Prop :=
  ∀ L, d ≤ L → 1 ≤ L → ∀ bs v rest, decodeG ext d bs = .ok (v, rest) →
    nextValueSize bs L = .ok (bs.length - rest.length)

theorem extent_step (ext : Bool) (d : Nat) (ih : ∀ d', d' < d → ExtentAt ext d') :
    ExtentAt ext d := by
  intro L hdL hL bs v rest h
  have hL0 : L ≠ 0 := by omega
  unfold decodeG at h
  split at h
  · cases h
  · rename_i b t
    rw [nextValueSize.eq_def]
    simp only [hL0, ↓reduceIte, classify_eq_clsOf]
    unfold header at h
    cases hlay : layout (Marker.ofByte b) with
    | reserved => simp only [hlay] at h; cases h
    | imm hd =>
      simp only [hlay] at h
      cases hd with
      | scalar v' =>
        simp only at h
        injection h with h; injection h with _ h2; subst h2
        simp [clsOf]
      | str n =>
        simp only at h
        split at h
        · cases h
        · rename_i s r' hr
          injection h with h; injection h with _ h2; subst h2
          obtain ⟨g1, _, g3⟩ := readN_len hr
          simp only [clsOf, List.length_cons, g3]
          rw [if_pos (by omega)]; congr 1; omega
      | bin n =>
        simp only at h
        split at h
        · cases h
        · rename_i s r' hr
          injection h with h; injection h with _ h2; subst h2
          obtain ⟨g1, _, g3⟩ := readN_len hr
          simp only [clsOf, List.length_cons, g3]
          rw [if_pos (by omega)]; congr 1; omega
      | ext n =>
        simp only at h
        split at h
        · cases h
        · rename_i d'
          split at h
          · cases h
          · split at h
            · split at h
              · cases h
              · rename_i ty r1 hr1
                split at h
                · cases h
                · rename_i s r2 hr2
                  injection h with h; injection h with _ h2; subst h2
                  obtain ⟨g1, _, g3⟩ := readN_len hr1
                  obtain ⟨g4, _, g6⟩ := readN_len hr2
                  simp only [clsOf, List.length_cons, g6, g3]
                  rw [if_pos (by omega)]; congr 1; omega
            · cases h
      | arr n =>
        simp only at h
        split at h
        · cases h
        · rename_i d'
          split at h
          · cases h
          · rename_i hd'
            split at h
            · cases h
            · rename_i vs r' hs
              injection h with h; injection h with _ h2; subst h2
              have hloc := decodeG_local ext d'
              have hle := ((seqWith_local hloc n).suffix hs).1
              have hC := ih d' (by omega) (L - 1) (by omega) (by omega)
              have hx := seq_extent hloc L hL0 (decodeG_lt ext d') hC hs
              simp only [clsOf, sliceFrom, List.length_cons, List.drop_succ_cons, List.drop_zero,
                Nat.le_add_left, ↓reduceIte, hx]
              rw [if_pos (by omega)]; congr 1; omega
      | map n =>
        simp only at h
        split at h
        · cases h
        · rename_i d'
          split at h
          · cases h
          · rename_i hd'
            split at h
            · cases h
            · rename_i vs r' hs
              injection h with h; injection h with _ h2; subst h2
              have hloc := decodeG_local ext d'
              have hle := ((pairsWith_local hloc n).suffix hs).1
              have hC := ih d' (by omega) (L - 1) (by omega) (by omega)
              have hx := map_extent hloc L hL0 (decodeG_lt ext d') hC hs
              simp only [clsOf, sliceFrom, List.length_cons, List.drop_succ_cons, List.drop_zero,
                Nat.le_add_left, ↓reduceIte, hx]
              rw [if_pos (by omega)]; congr 1; omega
    | data k kind =>
      simp only [hlay] at h
      cases hr : readN k t with
      | error e => simp only [hr] at h; cases h
      | ok p =>
        obtain ⟨x, r⟩ := p
        simp only [hr] at h
        injection h with h; injection h with _ h2; subst h2
        obtain ⟨g1, _, g3⟩ := readN_len hr
        simp only [clsOf, List.length_cons, g3]
        rw [if_pos (by omega)]; congr 1; omega
    | len w kind =>
      simp only [hlay] at h
      cases hr : readN w t with
      | error e => simp only [hr] at h; cases h
      | ok p =>
        obtain ⟨x, r⟩ := p
        simp only [hr] at h
        obtain ⟨g1, g2, g3⟩ := readN_len hr
        have htr := tryReadLength_cons (b := b) hr
        cases kind with
        | str =>
          simp only [mkHdr] at h
          split at h
          · cases h
          · rename_i s r' hr'
            injection h with h; injection h with _ h2; subst h2
            obtain ⟨g4, _, g6⟩ := readN_len hr'
            simp only [clsOf, htr, List.length_cons, g6, g3]
            rw [if_pos (by omega)]; congr 1; omega
        | bin =>
          simp only [mkHdr] at h
          split at h
          · cases h
          · rename_i s r' hr'
            injection h with h; injection h with _ h2; subst h2
            obtain ⟨g4, _, g6⟩ := readN_len hr'
            simp only [clsOf, htr, List.length_cons, g6, g3]
            rw [if_pos (by omega)]; congr 1; omega
        | ext =>
          simp only [mkHdr] at h
          split at h
          · cases h
          · rename_i d'
            split at h
            · cases h
            · split at h
              · split at h
                · cases h
                · rename_i ty r1 hr1
                  split at h
                  · cases h
                  · rename_i s r2 hr2
                    injection h with h; injection h with _ h2; subst h2
                    obtain ⟨g4, _, g6⟩ := readN_len hr1
                    obtain ⟨g7, _, g9⟩ := readN_len hr2
                    simp only [clsOf, htr, List.length_cons, g9, g6, g3]
                    rw [if_pos (by omega)]; congr 1; omega
              · cases h
        | arr =>
          simp only [mkHdr] at h
          split at h
          · cases h
          · rename_i d'
            split at h
            · cases h
            · rename_i hd'
              split at h
              · cases h
              · rename_i vs r' hs
                injection h with h; injection h with _ h2; subst h2
                have hloc := decodeG_local ext d'
                have hle := ((seqWith_local hloc _).suffix hs).1
                have hC := ih d' (by omega) (L - 1) (by omega) (by omega)
                have hx := seq_extent hloc L hL0 (decodeG_lt ext d') hC hs
                have hdrop : List.drop (1 + w) (b :: t) = r := by
                  rw [g2, Nat.add_comm]; rfl
                have hsl : 1 + w ≤ (b :: t).length := by simp only [List.length_cons]; omega
                simp only [clsOf, htr, sliceFrom, hsl, ↓reduceIte, hdrop, hx]
                simp only [List.length_cons]
                rw [if_pos (by omega)]; congr 1; omega
        | map =>
          simp only [mkHdr] at h
          split at h
          · cases h
          · rename_i d'
            split at h
            · cases h
            · rename_i hd'
              split at h
              · cases h
              · rename_i vs r' hs
                injection h with h; injection h with _ h2; subst h2
                have hloc := decodeG_local ext d'
                have hle := ((pairsWith_local hloc _).suffix hs).1
                have hC := ih d' (by omega) (L - 1) (by omega) (by omega)
                have hx := map_extent hloc L hL0 (decodeG_lt ext d') hC hs
                have hdrop : List.drop (1 + w) (b :: t) = r := by
                  rw [g2, Nat.add_comm]; rfl
                have hsl : 1 + w ≤ (b :: t).length := by simp only [List.length_cons]; omega
                simp only [clsOf, htr, sliceFrom, hsl, ↓reduceIte, hdrop, hx]
                simp only [List.length_cons]
                rw [if_pos (by omega)]; congr 1; omega

theorem extentAt (ext : Bool) (d : Nat) : ExtentAt ext d := by
  induction d using Nat.strongRecOn with
  | _ d ih => exact extent_step ext d ih


/-! ## The slice loop and the reader loop -/

theorem readerLoop_nil (ext : Bool) (d : Nat) : readerLoop ext d [] = ([], .ok) := by
  rw [readerLoop.eq_def]; simp

theorem readerLoop_ok (ext : Bool) (d : Nat) {bs : List Nat} {v : MVal} {rest : List Nat}
    (h : decodeG ext d bs = .ok (v, rest)) :
    readerLoop ext d bs = (v :: (readerLoop ext d rest).1, (readerLoop ext d rest).2) := by
  have hne : bs.isEmpty = false := by
    cases bs with
    | nil => unfold decodeG at h; cases h
    | cons _ _ => rfl
  rw [readerLoop.eq_def]
  simp only [hne, Bool.false_eq_true, ↓reduceIte]
  split
  · rename_i e he; rw [h] at he; cases he
  · rename_i v' rest' he; rw [h] at he; injection he with he; injection he with h1 h2
    subst h1; subst h2; rfl

theorem readerLoop_err (ext : Bool) (d : Nat) {bs : List Nat} {e : DErr}
    (hne : bs ≠ []) (h : decodeG ext d bs = .error e) :
    readerLoop ext d bs = ([], .decErr e) := by
  have hne' : bs.isEmpty = false := by
    cases bs with
    | nil => exact absurd rfl hne
    | cons _ _ => rfl
  rw [readerLoop.eq_def]
  simp only [hne', Bool.false_eq_true, ↓reduceIte]
  split
  · rename_i e' he; rw [h] at he; injection he with he; subst he; rfl
  · rename_i v' rest' he; rw [h] at he; cases he


theorem sliceLoop_nil (ext : Bool) (l d : Nat) : sliceLoop ext l d [] = ([], .ok) := by
  rw [sliceLoop.eq_def]; simp

theorem sliceLoop_cons (ext : Bool) (l d : Nat) {rest : List Nat} (hne : rest ≠ []) :
    sliceLoop ext l d rest =
      match nextValueSize rest l with
      | .ok n =>
        if n ≤ rest.length then
          match decodeG ext d (rest.take n) with
          | .error e => ([], .decErr e)
          | .ok (v, _) =>
            (v :: (sliceLoop ext l d (rest.drop n)).1, (sliceLoop ext l d (rest.drop n)).2)
        else ([], .panicSplitAt)
      | e => ([], .sizeErr e) := by
  have hne' : rest.isEmpty = false := by
    cases rest with
    | nil => exact absurd rfl hne
    | cons _ _ => rfl
  rw [sliceLoop.eq_def]
  simp only [hne', Bool.false_eq_true, ↓reduceIte]
  cases hs : nextValueSize rest l with
  | ok n =>
    simp only
    by_cases hn : n ≤ rest.length
    · simp only [hn, ↓reduceIte]
      split
      · rename_i e he; simp only [he]
      · rename_i v lo he; simp only [he]
    · simp only [hn, ↓reduceIte]
  | truncated => rfl
  | invalidMarker => rfl
  | depthExceeded => rfl
  | panic s => rfl

/-- The two arms of `msgpack::transcode` translate the same documents and end
with the same verdict, for every input. -/
theorem loops_agree (ext : Bool) (l d : Nat) (hdl : d ≤ l) (hl : 1 ≤ l) (bs : List Nat) :
    (sliceLoop ext l d bs).1 = (readerLoop ext d bs).1 ∧
    ((sliceLoop ext l d bs).2 = .ok ↔ (readerLoop ext d bs).2 = .ok) ∧
    (sliceLoop ext l d bs).2 ≠ .panicSplitAt ∧
    (∀ s, (sliceLoop ext l d bs).2 ≠ .sizeErr (.panic s)) := by
  induction hlen : bs.length using Nat.strongRecOn generalizing bs with
  | _ k ih =>
    cases bs with
    | nil => simp [sliceLoop_nil, readerLoop_nil]
    | cons b t =>
      have hne : (b :: t) ≠ [] := by simp
      cases hdec : decodeG ext d (b :: t) with
      | error e =>
        rw [readerLoop_err ext d hne hdec, sliceLoop_cons ext l d hne]
        cases hs : nextValueSize (b :: t) l with
        | ok n =>
          have hn := (safeAt l (b :: t)).2 n hs
          simp only [hn, ↓reduceIte]
          cases hd2 : decodeG ext d (List.take n (b :: t)) with
          | error e' => simp
          | ok p =>
            obtain ⟨v', lo⟩ := p
            exfalso
            obtain ⟨u, e1, g⟩ := decodeG_local ext d _ _ _ hd2
            have := g (lo ++ List.drop n (b :: t))
            rw [← List.append_assoc, ← e1, List.take_append_drop, hdec] at this
            cases this
        | truncated => simp
        | invalidMarker => simp
        | depthExceeded => simp
        | panic s => exact absurd hs ((safeAt l (b :: t)).1 s)
      | ok p =>
        obtain ⟨v, rest⟩ := p
        have hsz := extentAt ext d l hdl hl _ _ _ hdec
        have hlt := decodeG_lt ext d _ _ _ hdec
        obtain ⟨u, e1, g⟩ := decodeG_local ext d _ _ _ hdec
        have hn : (b :: t).length - rest.length = u.length := by rw [e1]; simp
        have htake : List.take u.length (b :: t) = u := by rw [e1]; exact List.take_left' rfl
        have hdrop : List.drop u.length (b :: t) = rest := by rw [e1]; exact List.drop_left' rfl
        have hdu : decodeG ext d u = .ok (v, []) := by simpa using g []
        have hule : u.length ≤ (b :: t).length := by rw [e1]; simp
        rw [readerLoop_ok ext d hdec, sliceLoop_cons ext l d hne, hsz, hn]
        simp only [hule, ↓reduceIte, htake, hdu, hdrop]
        obtain ⟨i1, i2, i3, i4⟩ := ih rest.length (by omega) rest rfl
        exact ⟨by rw [i1], i2, i3, i4⟩


/-! ## Decoding what the encoder wrote -/

theorem beBytes_length (w n : Nat) : (beBytes w n).length = w := by
  induction w with
  | zero => rfl
  | succ w ih => simp [beBytes, ih]

theorem beNat_beBytes_mod (w n : Nat) : beNat (beBytes w n) = n % 256 ^ w := by
  induction w with
  | zero => simp [beBytes, beNat, Nat.mod_one]
  | succ w ih =>
    simp only [beBytes, beNat, beBytes_length, ih]
    rw [Nat.pow_succ, Nat.mod_mul]
    rw [Nat.mul_comm (256 ^ w)]; omega

theorem beNat_beBytes (w n : Nat) (h : n < 256 ^ w) : beNat (beBytes w n) = n := by
  rw [beNat_beBytes_mod, Nat.mod_eq_of_lt h]

theorem readN_left {n : Nat} {x : List Nat} (h : x.length = n) (r : List Nat) :
    readN n (x ++ r) = .ok (x, r) := by
  unfold readN
  rw [if_pos (by rw [List.length_append]; omega), List.take_left' h, List.drop_left' h]

theorem ofByte_fixPos {b : Nat} (h : b < 128) : Marker.ofByte b = .fixPos b := by
  simp [Marker.ofByte, h]

theorem ofByte_fixMap {n : Nat} (h : n < 16) : Marker.ofByte (0x80 + n) = .fixMap n := by
  have h1 : ¬ (0x80 + n < 0x80) := by omega
  have h2 : 0x80 + n < 0x90 := by omega
  simp only [Marker.ofByte, h1, h2, ↓reduceIte, Nat.add_sub_cancel_left]

theorem ofByte_fixArray {n : Nat} (h : n < 16) : Marker.ofByte (0x90 + n) = .fixArray n := by
  have h1 : ¬ (0x90 + n < 0x80) := by omega
  have h2 : ¬ (0x90 + n < 0x90) := by omega
  have h3 : 0x90 + n < 0xa0 := by omega
  simp only [Marker.ofByte, h1, h2, h3, ↓reduceIte, Nat.add_sub_cancel_left]

theorem ofByte_fixStr {n : Nat} (h : n < 32) : Marker.ofByte (0xa0 + n) = .fixStr n := by
  have h1 : ¬ (0xa0 + n < 0x80) := by omega
  have h2 : ¬ (0xa0 + n < 0x90) := by omega
  have h3 : ¬ (0xa0 + n < 0xa0) := by omega
  have h4 : 0xa0 + n < 0xc0 := by omega
  simp only [Marker.ofByte, h1, h2, h3, h4, ↓reduceIte, Nat.add_sub_cancel_left]

theorem ofByte_fixNeg {b : Nat} (h : 0xe0 ≤ b) : Marker.ofByte b = .fixNeg b := by
  have h1 : ¬ (b < 0x80) := by omega
  have h2 : ¬ (b < 0x90) := by omega
  have h3 : ¬ (b < 0xa0) := by omega
  have h4 : ¬ (b < 0xc0) := by omega
  have e : ∀ k, k < 0xe0 → ¬ (b = k) := by intro k hk; omega
  simp only [Marker.ofByte, h1, h2, h3, h4, ↓reduceIte,
    e 0xc0 (by omega), e 0xc1 (by omega), e 0xc2 (by omega), e 0xc3 (by omega), e 0xc4 (by omega),
    e 0xc5 (by omega), e 0xc6 (by omega), e 0xc7 (by omega), e 0xc8 (by omega), e 0xc9 (by omega),
    e 0xca (by omega), e 0xcb (by omega), e 0xcc (by omega), e 0xcd (by omega), e 0xce (by omega),
    e 0xcf (by omega), e 0xd0 (by omega), e 0xd1 (by omega), e 0xd2 (by omega), e 0xd3 (by omega),
    e 0xd4 (by omega), e 0xd5 (by omega), e 0xd6 (by omega), e 0xd7 (by omega), e 0xd8 (by omega),
    e 0xd9 (by omega), e 0xda (by omega), e 0xdb (by omega), e 0xdc (by omega), e 0xdd (by omega),
    e 0xde (by omega), e 0xdf (by omega)]



/-- Decoding a header whose layout is `data k kind` followed by exactly `k` bytes. -/
theorem dec_data (ext : Bool) (d b k : Nat) (kind : DataKind) (x r : List Nat)
    (hl : layout (Marker.ofByte b) = .data k kind) (hx : x.length = k) :
    decodeG ext d (b :: (x ++ r)) = .ok (mkData kind k x, r) := by
  unfold decodeG
  simp only [header, hl, readN_left hx]

theorem dec_uint_data (ext : Bool) (d b k n : Nat) (r : List Nat)
    (hl : layout (Marker.ofByte b) = .data k .uint) (hn : n < 256 ^ k) :
    decodeG ext d (b :: (beBytes k n ++ r)) = .ok (.uint n, r) := by
  rw [dec_data ext d b k .uint _ r hl (beBytes_length _ _), mkData, beNat_beBytes k n hn]

theorem dec_sint_data (ext : Bool) (d b k n m : Nat) (r : List Nat)
    (hl : layout (Marker.ofByte b) = .data k .sint) (hm : m = 256 ^ k)
    (h1 : 1 ≤ n) (h2 : n ≤ m / 2) :
    decodeG ext d (b :: (beBytes k (m - n) ++ r)) = .ok (.nint n, r) := by
  rw [dec_data ext d b k .sint _ r hl (beBytes_length _ _), mkData,
    beNat_beBytes k (m - n) (by omega)]
  subst hm
  rw [if_neg (by omega)]
  have : 256 ^ k - (256 ^ k - n) = n := by omega
  rw [this]

theorem beBytes_one {n : Nat} (h : n < 256) : beBytes 1 n = [n] := by
  simp [beBytes, Nat.mod_eq_of_lt h]

theorem dec_uint (ext : Bool) (d n : Nat) (r : List Nat) (h : n < 2 ^ 64) :
    decodeG ext d (encUint n ++ r) = .ok (.uint n, r) := by
  unfold encUint
  split
  · rename_i h1
    show decodeG ext d (n :: r) = _
    unfold decodeG
    simp only [header, ofByte_fixPos h1, layout]
  · split
    · rename_i h2
      have := dec_uint_data ext d 0xcc 1 n r rfl (by omega)
      rwa [beBytes_one h2] at this
    · split
      · exact dec_uint_data ext d 0xcd 2 n r rfl (by omega)
      · split
        · exact dec_uint_data ext d 0xce 4 n r rfl (by omega)
        · exact dec_uint_data ext d 0xcf 8 n r rfl (by omega)

theorem dec_nint (ext : Bool) (d n : Nat) (r : List Nat) (h1 : 1 ≤ n) (h2 : n ≤ 2 ^ 63) :
    decodeG ext d (encNint n ++ r) = .ok (.nint n, r) := by
  unfold encNint
  split
  · rename_i h3
    show decodeG ext d ((256 - n) :: r) = _
    unfold decodeG
    simp only [header, ofByte_fixNeg (show 0xe0 ≤ 256 - n by omega), layout]
    have : 256 - (256 - n) = n := by omega
    rw [this]
  · split
    · have := dec_sint_data ext d 0xd0 1 n 256 r rfl (by decide) h1 (by omega)
      rwa [beBytes_one (by omega)] at this
    · split
      · exact dec_sint_data ext d 0xd1 2 n 65536 r rfl (by decide) h1 (by omega)
      · split
        · exact dec_sint_data ext d 0xd2 4 n 4294967296 r rfl (by decide) h1 (by omega)
        · exact dec_sint_data ext d 0xd3 8 n 18446744073709551616 r rfl (by decide) h1 (by omega)



/-- The header of the value at the start of `bs`. -/
def hdrOf : List Nat → Except DErr (Hdr × List Nat)
  | [] => .error .eofMarker
  | b :: t => header (Marker.ofByte b) t

theorem hdrOf_imm {b : Nat} {h : Hdr} (hl : layout (Marker.ofByte b) = .imm h) (r : List Nat) :
    hdrOf (b :: r) = .ok (h, r) := by
  simp only [hdrOf, header, hl]

theorem hdrOf_len {b w n : Nat} {kind : LenKind} (hl : layout (Marker.ofByte b) = .len w kind)
    (hn : n < 256 ^ w) (r : List Nat) :
    hdrOf (b :: (beBytes w n ++ r)) = .ok (mkHdr kind n, r) := by
  simp only [hdrOf, header, hl, readN_left (beBytes_length w n), beNat_beBytes w n hn]

theorem hdrOf_strHdr {n : Nat} (h : n < 2 ^ 32) (r : List Nat) :
    hdrOf (strHdr n ++ r) = .ok (.str n, r) := by
  unfold strHdr
  split
  · rename_i h1
    exact hdrOf_imm (by rw [ofByte_fixStr h1]; rfl) r
  · split
    · rename_i h2
      have := hdrOf_len (b := 0xd9) (w := 1) (n := n) (kind := .str) rfl (by omega) r
      rwa [beBytes_one h2] at this
    · split
      · exact hdrOf_len (b := 0xda) (w := 2) (kind := .str) rfl (by omega) r
      · exact hdrOf_len (b := 0xdb) (w := 4) (kind := .str) rfl (by omega) r

theorem hdrOf_binHdr {n : Nat} (h : n < 2 ^ 32) (r : List Nat) :
    hdrOf (binHdr n ++ r) = .ok (.bin n, r) := by
  unfold binHdr
  split
  · rename_i h2
    have := hdrOf_len (b := 0xc4) (w := 1) (n := n) (kind := .bin) rfl (by omega) r
    rwa [beBytes_one h2] at this
  · split
    · exact hdrOf_len (b := 0xc5) (w := 2) (kind := .bin) rfl (by omega) r
    · exact hdrOf_len (b := 0xc6) (w := 4) (kind := .bin) rfl (by omega) r

theorem hdrOf_arrHdr {n : Nat} (h : n < 2 ^ 32) (r : List Nat) :
    hdrOf (arrHdr n ++ r) = .ok (.arr n, r) := by
  unfold arrHdr
  split
  · rename_i h1
    exact hdrOf_imm (by rw [ofByte_fixArray h1]; rfl) r
  · split
    · exact hdrOf_len (b := 0xdc) (w := 2) (kind := .arr) rfl (by omega) r
    · exact hdrOf_len (b := 0xdd) (w := 4) (kind := .arr) rfl (by omega) r

theorem hdrOf_mapHdr {n : Nat} (h : n < 2 ^ 32) (r : List Nat) :
    hdrOf (mapHdr n ++ r) = .ok (.map n, r) := by
  unfold mapHdr
  split
  · rename_i h1
    exact hdrOf_imm (by rw [ofByte_fixMap h1]; rfl) r
  · split
    · exact hdrOf_len (b := 0xde) (w := 2) (kind := .map) rfl (by omega) r
    · exact hdrOf_len (b := 0xdf) (w := 4) (kind := .map) rfl (by omega) r

theorem hdrOf_extHdr {n : Nat} (h : n < 2 ^ 32) (r : List Nat) :
    hdrOf (extHdr n ++ r) = .ok (.ext n, r) := by
  unfold extHdr
  split
  · rename_i h1; subst h1; exact hdrOf_imm (b := 0xd4) rfl r
  · split
    · rename_i h1; subst h1; exact hdrOf_imm (b := 0xd5) rfl r
    · split
      · rename_i h1; subst h1; exact hdrOf_imm (b := 0xd6) rfl r
      · split
        · rename_i h1; subst h1; exact hdrOf_imm (b := 0xd7) rfl r
        · split
          · rename_i h1; subst h1; exact hdrOf_imm (b := 0xd8) rfl r
          · split
            · rename_i h2
              have := hdrOf_len (b := 0xc7) (w := 1) (n := n) (kind := .ext) rfl (by omega) r
              rwa [beBytes_one h2] at this
            · split
              · exact hdrOf_len (b := 0xc8) (w := 2) (kind := .ext) rfl (by omega) r
              · exact hdrOf_len (b := 0xc9) (w := 4) (kind := .ext) rfl (by omega) r

/-- `decodeG` in terms of the header. -/
theorem decodeG_str (ext : Bool) (d : Nat) {bs : List Nat} {len : Nat} {r : List Nat}
    (h : hdrOf bs = .ok (.str len, r)) :
    decodeG ext d bs =
      match readN len r with
      | .error e => .error e
      | .ok (s, r') => .ok (if validUtf8 s then .str s else .bin s, r') := by
  cases bs with
  | nil => cases h
  | cons b t => unfold decodeG; simp only [hdrOf] at h; simp only [h]; rfl

theorem decodeG_bin (ext : Bool) (d : Nat) {bs : List Nat} {len : Nat} {r : List Nat}
    (h : hdrOf bs = .ok (.bin len, r)) :
    decodeG ext d bs =
      match readN len r with
      | .error e => .error e
      | .ok (s, r') => .ok (.bin s, r') := by
  cases bs with
  | nil => cases h
  | cons b t => unfold decodeG; simp only [hdrOf] at h; simp only [h]; rfl

theorem decodeG_ext (d : Nat) (hd : d ≠ 0) {bs : List Nat} {len : Nat} {r : List Nat}
    (h : hdrOf bs = .ok (.ext len, r)) :
    decodeG true (d + 1) bs =
      match readN 1 r with
      | .error e => .error e
      | .ok (ty, r') =>
        match readN len r' with
        | .error e => .error e
        | .ok (s, r'') => .ok (.ext (beNat ty) s, r'') := by
  cases bs with
  | nil => cases h
  | cons b t => unfold decodeG; simp only [hdrOf] at h; simp only [h, hd, ↓reduceIte]; rfl

theorem decodeG_arr (ext : Bool) (d : Nat) (hd : d ≠ 0) {bs : List Nat} {n : Nat} {r : List Nat}
    (h : hdrOf bs = .ok (.arr n, r)) :
    decodeG ext (d + 1) bs =
      match seqWith (decodeG ext d) n r with
      | .error e => .error e
      | .ok (vs, r') => .ok (.arr vs, r') := by
  cases bs with
  | nil => cases h
  | cons b t => unfold decodeG; simp only [hdrOf] at h; simp only [h, hd, ↓reduceIte]; rfl

theorem decodeG_map (ext : Bool) (d : Nat) (hd : d ≠ 0) {bs : List Nat} {n : Nat} {r : List Nat}
    (h : hdrOf bs = .ok (.map n, r)) :
    decodeG ext (d + 1) bs =
      match pairsWith (decodeG ext d) n r with
      | .error e => .error e
      | .ok (kvs, r') => .ok (.map kvs, r') := by
  cases bs with
  | nil => cases h
  | cons b t => unfold decodeG; simp only [hdrOf] at h; simp only [h, hd, ↓reduceIte]; rfl

/-! ## Round trip -/

mutual
/-- How many nested collections (or an ext, which rmp_serde counts like one)
the value needs the depth counter to allow. -/
def MVal.nesting : MVal → Nat
  | .arr xs => 1 + nestingList xs
  | .map kvs => 1 + nestingPairs kvs
  | .ext _ _ => 1
  | _ => 0
def nestingList : List MVal → Nat
  | [] => 0
  | x :: xs => max x.nesting (nestingList xs)
def nestingPairs : List (MVal × MVal) → Nat
  | [] => 0
  | (k, v) :: kvs => max k.nesting (max v.nesting (nestingPairs kvs))
end

mutual
/-- Values that rmp_serde's serializer can write and its deserializer gives
back: every number in the range of its wire type, every length below 2^32,
`str` holding well-formed UTF-8 (other strings come back as `bin`), and ext
values only when the visitor accepts them (`allowExt`). -/
def MVal.WF (allowExt : Bool) : MVal → Prop
  | .nil => True
  | .bool _ => True
  | .uint n => n < 2 ^ 64
  | .nint n => 1 ≤ n ∧ n ≤ 2 ^ 63
  | .f32 b => b < 2 ^ 32
  | .f64 b => b < 2 ^ 64
  | .str s => s.length < 2 ^ 32 ∧ validUtf8 s = true
  | .bin s => s.length < 2 ^ 32
  | .arr xs => xs.length < 2 ^ 32 ∧ WFList allowExt xs
  | .map kvs => kvs.length < 2 ^ 32 ∧ WFPairs allowExt kvs
  | .ext ty s => allowExt = true ∧ ty < 256 ∧ s.length < 2 ^ 32
def WFList (allowExt : Bool) : List MVal → Prop
  | [] => True
  | x :: xs => x.WF allowExt ∧ WFList allowExt xs
def WFPairs (allowExt : Bool) : List (MVal × MVal) → Prop
  | [] => True
  | (k, v) :: kvs => k.WF allowExt ∧ v.WF allowExt ∧ WFPairs allowExt kvs
end

mutual
theorem roundtrip_val (ext : Bool) : ∀ (v : MVal) (d : Nat) (r : List Nat),
    v.WF ext → v.nesting < d → decodeG ext d (encode v ++ r) = .ok (v, r)
  | .nil, d, r, _, _ => by unfold decodeG; rfl
  | .bool true, d, r, _, _ => by unfold decodeG; rfl
  | .bool false, d, r, _, _ => by unfold decodeG; rfl
  | .uint n, d, r, h, _ => dec_uint ext d n r h
  | .nint n, d, r, h, _ => dec_nint ext d n r h.1 h.2
  | .f32 b, d, r, h, _ => by
    have := dec_data ext d 0xca 4 .f32 (beBytes 4 b) r rfl (beBytes_length _ _)
    rw [mkData, beNat_beBytes 4 b (by simp only [MVal.WF] at h; omega)] at this
    exact this
  | .f64 b, d, r, h, _ => by
    have := dec_data ext d 0xcb 8 .f64 (beBytes 8 b) r rfl (beBytes_length _ _)
    rw [mkData, beNat_beBytes 8 b (by simp only [MVal.WF] at h; omega)] at this
    exact this
  | .str s, d, r, h, _ => by
    simp only [MVal.WF] at h
    simp only [encode, List.append_assoc]
    rw [decodeG_str ext d (hdrOf_strHdr h.1 (s ++ r)), readN_left rfl]
    simp only [h.2, ↓reduceIte]
  | .bin s, d, r, h, _ => by
    simp only [MVal.WF] at h
    simp only [encode, List.append_assoc]
    rw [decodeG_bin ext d (hdrOf_binHdr h (s ++ r)), readN_left rfl]
  | .ext ty s, d, r, h, hn => by
    simp only [MVal.WF] at h
    obtain ⟨he, hty, hs⟩ := h
    subst he
    simp only [MVal.nesting] at hn
    obtain ⟨d', rfl⟩ : ∃ d', d = d' + 1 := ⟨d - 1, by omega⟩
    simp only [encode, List.append_assoc]
    rw [decodeG_ext d' (by omega) (hdrOf_extHdr hs _)]
    have e1 : readN 1 (ty :: s ++ r) = .ok ([ty], s ++ r) := readN_left (x := [ty]) rfl (s ++ r)
    simp only [e1, readN_left (x := s) rfl r]
    simp [beNat]
  | .arr xs, d, r, h, hn => by
    simp only [MVal.WF] at h
    simp only [MVal.nesting] at hn
    obtain ⟨d', rfl⟩ : ∃ d', d = d' + 1 := ⟨d - 1, by omega⟩
    simp only [encode, List.append_assoc]
    rw [decodeG_arr ext d' (by omega) (hdrOf_arrHdr h.1 _),
      roundtrip_list ext xs d' r h.2 (by omega)]
  | .map kvs, d, r, h, hn => by
    simp only [MVal.WF] at h
    simp only [MVal.nesting] at hn
    obtain ⟨d', rfl⟩ : ∃ d', d = d' + 1 := ⟨d - 1, by omega⟩
    simp only [encode, List.append_assoc]
    rw [decodeG_map ext d' (by omega) (hdrOf_mapHdr h.1 _),
      roundtrip_pairs ext kvs d' r h.2 (by omega)]
theorem roundtrip_list (ext : Bool) : ∀ (xs : List MVal) (d : Nat) (r : List Nat),
    WFList ext xs → nestingList xs < d →
    seqWith (decodeG ext d) xs.length (encodeList xs ++ r) = .ok (xs, r)
  | [], d, r, _, _ => by simp [seqWith, encodeList]
  | x :: xs, d, r, h, hn => by
    simp only [WFList] at h
    simp only [nestingList] at hn
    simp only [List.length_cons, seqWith, encodeList, List.append_assoc]
    have e1 := roundtrip_val ext x d (encodeList xs ++ r) h.1 (by omega)
    have e2 := roundtrip_list ext xs d r h.2 (by omega)
    simp only [e1, e2]
theorem roundtrip_pairs (ext : Bool) : ∀ (kvs : List (MVal × MVal)) (d : Nat) (r : List Nat),
    WFPairs ext kvs → nestingPairs kvs < d →
    pairsWith (decodeG ext d) kvs.length (encodePairs kvs ++ r) = .ok (kvs, r)
  | [], d, r, _, _ => by simp [pairsWith, encodePairs]
  | (k, v) :: kvs, d, r, h, hn => by
    simp only [WFPairs] at h
    simp only [nestingPairs] at hn
    simp only [List.length_cons, pairsWith, encodePairs, List.append_assoc]
    have e1 := roundtrip_val ext k d (encode v ++ (encodePairs kvs ++ r)) h.1 (by omega)
    have e2 := roundtrip_val ext v d (encodePairs kvs ++ r) h.2.1 (by omega)
    have e3 := roundtrip_pairs ext kvs d r h.2.2 (by omega)
    simp only [e1, e2, e3]
end


/-! ## What the depth counter accepts -/

/-- "needs at most counter `d`": what the depth counter checks. -/
def MVal.Within (v : MVal) (d : Nat) : Prop := v.nesting < d ∨ v.nesting = 0

theorem seqWith_all {f : List Nat → Except DErr (MVal × List Nat)} {P : MVal → Prop}
    (hf : ∀ bs v r, f bs = .ok (v, r) → P v) :
    ∀ n bs vs r, seqWith f n bs = .ok (vs, r) → ∀ v ∈ vs, P v := by
  intro n
  induction n with
  | zero =>
    intro bs vs r h
    simp only [seqWith] at h
    injection h with h; injection h with h1 _; subst h1; simp
  | succ n ih =>
    intro bs vs r h
    simp only [seqWith] at h
    split at h
    · cases h
    · rename_i v r1 h1
      split at h
      · cases h
      · rename_i vs' r2 h2
        injection h with h; injection h with h3 _; subst h3
        intro x hx
        rcases List.mem_cons.mp hx with rfl | hx
        · exact hf _ _ _ h1
        · exact ih _ _ _ h2 x hx

theorem pairsWith_all {f : List Nat → Except DErr (MVal × List Nat)} {P : MVal → Prop}
    (hf : ∀ bs v r, f bs = .ok (v, r) → P v) :
    ∀ n bs kvs r, pairsWith f n bs = .ok (kvs, r) → ∀ kv ∈ kvs, P kv.1 ∧ P kv.2 := by
  intro n
  induction n with
  | zero =>
    intro bs vs r h
    simp only [pairsWith] at h
    injection h with h; injection h with h1 _; subst h1; simp
  | succ n ih =>
    intro bs vs r h
    simp only [pairsWith] at h
    split at h
    · cases h
    · rename_i k r1 h1
      split at h
      · cases h
      · rename_i v r2 h2
        split at h
        · cases h
        · rename_i kvs r3 h3
          injection h with h; injection h with h4 _; subst h4
          intro x hx
          rcases List.mem_cons.mp hx with rfl | hx
          · exact ⟨hf _ _ _ h1, hf _ _ _ h2⟩
          · exact ih _ _ _ h3 x hx

theorem nestingList_le {xs : List MVal} {m : Nat} (h : ∀ v ∈ xs, v.nesting ≤ m) :
    nestingList xs ≤ m := by
  induction xs with
  | nil => simp [nestingList]
  | cons x xs ih =>
    simp only [nestingList]
    have := h x (by simp)
    have := ih (fun v hv => h v (by simp [hv]))
    omega

theorem nestingPairs_le {kvs : List (MVal × MVal)} {m : Nat}
    (h : ∀ kv ∈ kvs, kv.1.nesting ≤ m ∧ kv.2.nesting ≤ m) : nestingPairs kvs ≤ m := by
  induction kvs with
  | nil => simp [nestingPairs]
  | cons x xs ih =>
    obtain ⟨k, v⟩ := x
    simp only [nestingPairs]
    have h1 := h (k, v) (by simp)
    simp only at h1
    have := ih (fun kv hkv => h kv (by simp [hkv]))
    omega

theorem le_nestingList {xs : List MVal} {v : MVal} (h : v ∈ xs) : v.nesting ≤ nestingList xs := by
  induction xs with
  | nil => cases h
  | cons x xs ih =>
    simp only [nestingList]
    rcases List.mem_cons.mp h with rfl | h
    · omega
    · have := ih h; omega

theorem le_nestingPairs {kvs : List (MVal × MVal)} {kv : MVal × MVal} (h : kv ∈ kvs) :
    kv.1.nesting ≤ nestingPairs kvs ∧ kv.2.nesting ≤ nestingPairs kvs := by
  induction kvs with
  | nil => cases h
  | cons x xs ih =>
    obtain ⟨k, v⟩ := x
    simp only [nestingPairs]
    rcases List.mem_cons.mp h with rfl | h
    · simp only; omega
    · have := ih h; omega

theorem layout_scalar_flat {m : Marker} {v : MVal} (h : layout m = .imm (.scalar v)) :
    v.nesting = 0 := by
  cases m <;> simp only [layout] at h <;> cases h <;> rfl

theorem mkData_flat (kind : DataKind) (k : Nat) (x : List Nat) : (mkData kind k x).nesting = 0 := by
  cases kind
  · rfl
  · simp only [mkData]; split <;> rfl
  · rfl
  · rfl

theorem mkHdr_ne_scalar (kind : LenKind) (n : Nat) (v : MVal) : mkHdr kind n ≠ .scalar v := by
  cases kind <;> simp [mkHdr]

/-- Whatever the decoder accepts with counter `d` nests within `d`: for every
byte string, every spelling, every shape. -/
theorem decode_within (ext : Bool) (d : Nat) :
    ∀ bs v rest, decodeG ext d bs = .ok (v, rest) → v.Within d := by
  induction d using Nat.strongRecOn with
  | _ d ih =>
    intro bs v rest h
    unfold decodeG at h
    split at h
    · cases h
    · rename_i b t
      split at h
      · cases h
      · -- scalar: comes from `layout`, never a collection
        rename_i v' r hh
        injection h with h; injection h with h1 _; subst h1
        right
        unfold header at hh
        split at hh
        · cases hh
        · rename_i h' hl
          injection hh with hh; injection hh with h1 _
          subst h1
          exact layout_scalar_flat hl
        · split at hh
          · cases hh
          · injection hh with hh; injection hh with h1 _
            cases h1
            exact mkData_flat _ _ _
        · split at hh
          · cases hh
          · injection hh with hh; injection hh with h1 _
            exact absurd h1 (mkHdr_ne_scalar _ _ _)
      · split at h
        · cases h
        · injection h with h; injection h with h1 _; subst h1
          right; split <;> rfl
      · split at h
        · cases h
        · injection h with h; injection h with h1 _; subst h1
          right; rfl
      · split at h
        · cases h
        · rename_i d'
          split at h
          · cases h
          · rename_i hd
            split at h
            · split at h
              · cases h
              · split at h
                · cases h
                · injection h with h; injection h with h1 _; subst h1
                  left; simp only [MVal.nesting]; omega
            · cases h
      · split at h
        · cases h
        · rename_i d'
          split at h
          · cases h
          · rename_i hd
            split at h
            · cases h
            · rename_i vs r' hs
              injection h with h; injection h with h1 _; subst h1
              left
              simp only [MVal.nesting]
              have hall := seqWith_all (P := fun v => v.nesting ≤ d' - 1)
                (fun bs v r hv => by
                  have := ih d' (by omega) bs v r hv
                  unfold MVal.Within at this; omega) _ _ _ _ hs
              have := nestingList_le hall
              omega
      · split at h
        · cases h
        · rename_i d'
          split at h
          · cases h
          · rename_i hd
            split at h
            · cases h
            · rename_i kvs r' hs
              injection h with h; injection h with h1 _; subst h1
              left
              simp only [MVal.nesting]
              have hall := pairsWith_all (P := fun v => v.nesting ≤ d' - 1)
                (fun bs v r hv => by
                  have := ih d' (by omega) bs v r hv
                  unfold MVal.Within at this; omega) _ _ _ _ hs
              have := nestingPairs_le hall
              omega



theorem seqWith_transfer {f g : List Nat → Except DErr (MVal × List Nat)} {m : Nat}
    (hfg : ∀ bs v r, f bs = .ok (v, r) → v.nesting ≤ m → g bs = .ok (v, r)) :
    ∀ n bs vs r, seqWith f n bs = .ok (vs, r) → nestingList vs ≤ m →
      seqWith g n bs = .ok (vs, r) := by
  intro n
  induction n with
  | zero => intro bs vs r h _; simpa [seqWith] using h
  | succ n ih =>
    intro bs vs r h hm
    simp only [seqWith] at h
    split at h
    · cases h
    · rename_i v r1 h1
      split at h
      · cases h
      · rename_i vs' r2 h2
        injection h with h; injection h with h3 h4; subst h3; subst h4
        simp only [nestingList] at hm
        simp only [seqWith, hfg _ _ _ h1 (by omega), ih _ _ _ h2 (by omega)]

theorem pairsWith_transfer {f g : List Nat → Except DErr (MVal × List Nat)} {m : Nat}
    (hfg : ∀ bs v r, f bs = .ok (v, r) → v.nesting ≤ m → g bs = .ok (v, r)) :
    ∀ n bs kvs r, pairsWith f n bs = .ok (kvs, r) → nestingPairs kvs ≤ m →
      pairsWith g n bs = .ok (kvs, r) := by
  intro n
  induction n with
  | zero => intro bs vs r h _; simpa [pairsWith] using h
  | succ n ih =>
    intro bs vs r h hm
    simp only [pairsWith] at h
    split at h
    · cases h
    · rename_i k r1 h1
      split at h
      · cases h
      · rename_i v r2 h2
        split at h
        · cases h
        · rename_i kvs r3 h3
          injection h with h; injection h with h4 h5; subst h4; subst h5
          simp only [nestingPairs] at hm
          simp only [pairsWith, hfg _ _ _ h1 (by omega), hfg _ _ _ h2 (by omega),
            ih _ _ _ h3 (by omega)]

/-- The result of a successful decode does not depend on the depth counter: any
counter that the value nests within gives the same value and the same rest. -/
theorem decode_depth_irrelevant (ext : Bool) (d' : Nat) :
    ∀ d bs v rest, decodeG ext d' bs = .ok (v, rest) → v.Within d →
      decodeG ext d bs = .ok (v, rest) := by
  induction d' using Nat.strongRecOn with
  | _ d' ih =>
    intro d bs v rest h hw
    unfold decodeG at h
    split at h
    · cases h
    · rename_i b t
      split at h
      · cases h
      · rename_i v' r hh
        unfold decodeG; simp only [hh]; exact h
      · rename_i len r hh
        unfold decodeG; simp only [hh]; exact h
      · rename_i len r hh
        unfold decodeG; simp only [hh]; exact h
      · rename_i len r hh
        split at h
        · cases h
        · rename_i e'
          split at h
          · cases h
          · rename_i hd
            split at h
            · rename_i hext
              split at h
              · cases h
              · rename_i ty r1 hr1
                split at h
                · cases h
                · rename_i s r2 hr2
                  injection h with h; injection h with h1 h2; subst h1; subst h2
                  have hn : 1 < d := by
                    unfold MVal.Within at hw; simp only [MVal.nesting] at hw; omega
                  obtain ⟨e, rfl⟩ : ∃ e, d = e + 1 := ⟨d - 1, by omega⟩
                  unfold decodeG
                  simp only [hh, show e ≠ 0 by omega, hext, hr1, hr2, ↓reduceIte]
            · cases h
      · rename_i count r hh
        split at h
        · cases h
        · rename_i e'
          split at h
          · cases h
          · rename_i hd
            split at h
            · cases h
            · rename_i vs r' hs
              injection h with h; injection h with h1 h2; subst h1; subst h2
              have hn : 1 + nestingList vs < d := by
                unfold MVal.Within at hw; simp only [MVal.nesting] at hw; omega
              obtain ⟨e, rfl⟩ : ∃ e, d = e + 1 := ⟨d - 1, by omega⟩
              have hs' := seqWith_transfer (g := decodeG ext e) (m := e - 1)
                (fun bs v r hv hm => ih e' (by omega) e bs v r hv (by left; omega)) _ _ _ _ hs
                (by omega)
              unfold decodeG
              simp only [hh, show e ≠ 0 by omega, hs', ↓reduceIte]
      · rename_i count r hh
        split at h
        · cases h
        · rename_i e'
          split at h
          · cases h
          · rename_i hd
            split at h
            · cases h
            · rename_i kvs r' hs
              injection h with h; injection h with h1 h2; subst h1; subst h2
              have hn : 1 + nestingPairs kvs < d := by
                unfold MVal.Within at hw; simp only [MVal.nesting] at hw; omega
              obtain ⟨e, rfl⟩ : ∃ e, d = e + 1 := ⟨d - 1, by omega⟩
              have hs' := pairsWith_transfer (g := decodeG ext e) (m := e - 1)
                (fun bs v r hv hm => ih e' (by omega) e bs v r hv (by left; omega)) _ _ _ _ hs
                (by omega)
              unfold decodeG
              simp only [hh, show e ≠ 0 by omega, hs', ↓reduceIte]



/-! ## Acceptance and rejection at a depth limit, for any spelling -/

theorem within_of_lt {v : MVal} {d : Nat} (h : v.nesting < d) : v.Within d := Or.inl h

/-- If `bs` is a spelling of `v` (it decodes to `v` under some depth counter)
and `v` nests within `D`, then with limit `D` the decoder, the calculator and
both loops accept it. -/
theorem accept_within (ext : Bool) (D : Nat) (hD : 1 ≤ D) {bs : List Nat} {v : MVal} {d' : Nat}
    (hsp : decodeG ext d' bs = .ok (v, [])) (hn : v.Within D) :
    decodeG ext D bs = .ok (v, []) ∧ nextValueSize bs D = .ok bs.length ∧
    sliceLoop ext D D bs = ([v], .ok) ∧ readerLoop ext D bs = ([v], .ok) := by
  have hdec := decode_depth_irrelevant ext d' D bs v [] hsp hn
  have hsz := extentAt ext D D (Nat.le_refl _) hD _ _ _ hdec
  have hr : readerLoop ext D bs = ([v], .ok) := by
    rw [readerLoop_ok ext D hdec, readerLoop_nil]
  obtain ⟨a1, a2, _, _⟩ := loops_agree ext D D (Nat.le_refl _) hD bs
  refine ⟨hdec, by simpa using hsz, ?_, hr⟩
  rw [hr] at a1 a2
  have h2 : (sliceLoop ext D D bs).2 = .ok := a2.mpr rfl
  calc sliceLoop ext D D bs = ((sliceLoop ext D D bs).1, (sliceLoop ext D D bs).2) := rfl
    _ = ([v], .ok) := by rw [a1, h2]

/-- If `bs` starts with a spelling of a value that does not nest within `D`,
then with limit `D` the decoder fails, and so do both loops. -/
theorem reject_beyond (ext : Bool) (D : Nat) (hD : 1 ≤ D) {bs : List Nat} {v : MVal} {d' : Nat}
    {rest : List Nat} (hsp : decodeG ext d' bs = .ok (v, rest)) (hn : ¬ v.Within D) :
    (∃ e, decodeG ext D bs = .error e) ∧
    (readerLoop ext D bs).2 ≠ .ok ∧ (sliceLoop ext D D bs).2 ≠ .ok ∧
    (readerLoop ext D bs).1 = [] ∧ (sliceLoop ext D D bs).1 = [] := by
  have hne : bs ≠ [] := by
    intro hb; subst hb; unfold decodeG at hsp; cases hsp
  have hw' := decode_within ext d' _ _ _ hsp
  have hfail : ∃ e, decodeG ext D bs = .error e := by
    cases hdec : decodeG ext D bs with
    | error e => exact ⟨e, rfl⟩
    | ok p =>
      obtain ⟨v2, r2⟩ := p
      exfalso
      have hw2 := decode_within ext D _ _ _ hdec
      have hlt : D < d' := by
        unfold MVal.Within at hn hw'; omega
      have := decode_depth_irrelevant ext D d' bs v2 r2 hdec (by
        unfold MVal.Within at hw2 ⊢; omega)
      rw [hsp] at this
      injection this with this; injection this with h1 _
      subst h1
      exact hn hw2
  obtain ⟨e, he⟩ := hfail
  have hr := readerLoop_err ext D hne he
  obtain ⟨a1, a2, _, _⟩ := loops_agree ext D D (Nat.le_refl _) hD bs
  rw [hr] at a1 a2
  refine ⟨⟨e, he⟩, by rw [hr]; simp, ?_, by rw [hr], a1⟩
  intro hs
  have := a2.mp hs
  cases this

/-! ## Nesting shapes -/

/-- Width of a collection header. -/
inductive Width where
  | fix | w16 | w32
  deriving DecidableEq, Repr

/-- Header of a one-element array. -/
def Width.arr1 : Width → List Nat
  | .fix => [0x91] | .w16 => [0xdc, 0, 1] | .w32 => [0xdd, 0, 0, 0, 1]

/-- Header of a one-entry map. -/
def Width.map1 : Width → List Nat
  | .fix => [0x81] | .w16 => [0xde, 0, 1] | .w32 => [0xdf, 0, 0, 0, 1]

/-- One level of nesting around an inner value: a one-element array, a map
with the inner value in value position, or a map with the inner value in *key*
position; the header in any of its three widths; the other half of the map
entry any flat value. -/
inductive Wrap where
  | arr (w : Width)
  | mapVal (w : Width) (key : MVal)
  | mapKey (w : Width) (val : MVal)

def Wrap.Ok (ext : Bool) : Wrap → Prop
  | .arr _ => True
  | .mapVal _ k => k.WF ext ∧ k.nesting = 0
  | .mapKey _ v => v.WF ext ∧ v.nesting = 0

def Wrap.bytes : Wrap → List Nat → List Nat
  | .arr w, inner => w.arr1 ++ inner
  | .mapVal w k, inner => w.map1 ++ (encode k ++ inner)
  | .mapKey w v, inner => w.map1 ++ (inner ++ encode v)

def Wrap.val : Wrap → MVal → MVal
  | .arr _, x => .arr [x]
  | .mapVal _ k, x => .map [(k, x)]
  | .mapKey _ v, x => .map [(x, v)]

/-- `ws[0]( ws[1]( … core … ))`. -/
def nestBytes (ws : List Wrap) (core : List Nat) : List Nat := ws.foldr Wrap.bytes core
def nestVal (ws : List Wrap) (core : MVal) : MVal := ws.foldr Wrap.val core

theorem hdrOf_arr1 (w : Width) (t : List Nat) : hdrOf (w.arr1 ++ t) = .ok (.arr 1, t) := by
  cases w <;>
    simp [Width.arr1, hdrOf, header, layout, Marker.ofByte, readN, beNat, mkHdr]

theorem hdrOf_map1 (w : Width) (t : List Nat) : hdrOf (w.map1 ++ t) = .ok (.map 1, t) := by
  cases w <;>
    simp [Width.map1, hdrOf, header, layout, Marker.ofByte, readN, beNat, mkHdr]

theorem nesting_nestVal (ext : Bool) (ws : List Wrap) (hws : ∀ w ∈ ws, w.Ok ext) (cv : MVal) :
    (nestVal ws cv).nesting = ws.length + cv.nesting := by
  induction ws with
  | nil => simp [nestVal]
  | cons w ws ih =>
    have ih' := ih (fun w hw => hws w (by simp [hw]))
    have hw := hws w (by simp)
    simp only [nestVal, List.foldr_cons] at ih' ⊢
    cases w with
    | arr _ =>
      simp only [Wrap.val, MVal.nesting, nestingList, ih', List.length_cons]; omega
    | mapVal _ k =>
      simp only [Wrap.Ok] at hw
      simp only [Wrap.val, MVal.nesting, nestingPairs, ih', List.length_cons, hw.2]; omega
    | mapKey _ v =>
      simp only [Wrap.Ok] at hw
      simp only [Wrap.val, MVal.nesting, nestingPairs, ih', List.length_cons, hw.2]; omega

/-- Every nesting shape is a spelling of the nested value: it decodes, under
a large enough counter, to `nestVal ws cv`. -/
theorem nest_spells (ext : Bool) (ws : List Wrap) (hws : ∀ w ∈ ws, w.Ok ext)
    (core : List Nat) (cv : MVal) (k : Nat) (hk : 1 ≤ k)
    (hcore : ∀ d r, k ≤ d → decodeG ext d (core ++ r) = .ok (cv, r)) :
    ∀ r, decodeG ext (ws.length + k) (nestBytes ws core ++ r) = .ok (nestVal ws cv, r) := by
  induction ws with
  | nil => intro r; simpa [nestBytes, nestVal] using hcore k r (Nat.le_refl _)
  | cons w ws ih =>
    intro r
    have ih' := ih (fun w hw => hws w (by simp [hw]))
    have hw := hws w (by simp)
    have hd : ws.length + k ≠ 0 := by omega
    have e : (w :: ws).length + k = (ws.length + k) + 1 := by simp only [List.length_cons]; omega
    rw [e]
    simp only [nestBytes, nestVal, List.foldr_cons] at ih' ⊢
    cases w with
    | arr wd =>
      simp only [Wrap.bytes, Wrap.val, List.append_assoc]
      rw [decodeG_arr ext _ hd (hdrOf_arr1 wd _)]
      simp only [seqWith, ih' r]
    | mapVal wd key =>
      simp only [Wrap.Ok] at hw
      simp only [Wrap.bytes, Wrap.val, List.append_assoc]
      rw [decodeG_map ext _ hd (hdrOf_map1 wd _)]
      have hk1 := roundtrip_val ext key (ws.length + k) (List.foldr Wrap.bytes core ws ++ r) hw.1
        (by have := hw.2; omega)
      simp only [pairsWith, hk1, ih' r]
    | mapKey wd val =>
      simp only [Wrap.Ok] at hw
      simp only [Wrap.bytes, Wrap.val, List.append_assoc]
      rw [decodeG_map ext _ hd (hdrOf_map1 wd _)]
      have hv1 := roundtrip_val ext val (ws.length + k) r hw.1 (by have := hw.2; omega)
      simp only [pairsWith, ih' (encode val ++ r), hv1]


/-! ## Framing and the first byte -/

theorem encodeList_eq_flatMap (xs : List MVal) : encodeList xs = xs.flatMap encode := by
  induction xs with
  | nil => rfl
  | cons x xs ih => simp [encodeList, ih]

theorem encode_ne_nil (v : MVal) : encode v ≠ [] := by
  cases v <;> simp only [encode, encUint, encNint, strHdr, binHdr, arrHdr, mapHdr, extHdr] <;>
    (repeat' split) <;> simp

/-- Reading back a concatenation of encoded documents gives exactly the
documents (the encoding is self-delimiting). -/
theorem frame_recover (ext : Bool) (d : Nat) (docs : List MVal)
    (hwf : ∀ v ∈ docs, v.WF ext) (hn : ∀ v ∈ docs, v.nesting < d) :
    readerLoop ext d (docs.flatMap encode) = (docs, .ok) := by
  induction docs with
  | nil => simp [readerLoop_nil]
  | cons x xs ih =>
    have h1 := roundtrip_val ext x d (xs.flatMap encode) (hwf x (by simp)) (hn x (by simp))
    have e : (x :: xs).flatMap encode = encode x ++ xs.flatMap encode := by simp
    rw [e, readerLoop_ok ext d h1,
      ih (fun v hv => hwf v (by simp [hv])) (fun v hv => hn v (by simp [hv]))]

/-- The first byte of an encoded array or map is a collection marker. -/
theorem encode_arr_first (xs : List MVal) :
    ∃ b t, encode (.arr xs) = b :: t ∧
      (Marker.ofByte b = .fixArray xs.length ∨ Marker.ofByte b = .array16 ∨
       Marker.ofByte b = .array32) := by
  simp only [encode, arrHdr]
  split
  · rename_i h1
    exact ⟨0x90 + xs.length, encodeList xs, rfl, Or.inl (ofByte_fixArray h1)⟩
  · split
    · exact ⟨0xdc, _, rfl, Or.inr (Or.inl (by simp [Marker.ofByte]))⟩
    · exact ⟨0xdd, _, rfl, Or.inr (Or.inr (by simp [Marker.ofByte]))⟩

theorem encode_map_first (kvs : List (MVal × MVal)) :
    ∃ b t, encode (.map kvs) = b :: t ∧
      (Marker.ofByte b = .fixMap kvs.length ∨ Marker.ofByte b = .map16 ∨
       Marker.ofByte b = .map32) := by
  simp only [encode, mapHdr]
  split
  · rename_i h1
    exact ⟨0x80 + kvs.length, encodePairs kvs, rfl, Or.inl (ofByte_fixMap h1)⟩
  · split
    · exact ⟨0xde, _, rfl, Or.inr (Or.inl (by simp [Marker.ofByte]))⟩
    · exact ⟨0xdf, _, rfl, Or.inr (Or.inr (by simp [Marker.ofByte]))⟩



/-! ## Recursion depth of the calculator

An instrumented copy of the three functions: the second component is the
deepest nesting of `next_value_size` frames reached (counting the frame
itself).  The first component is proved equal to the model's result, the
second is proved to be at most `depth_limit + 1`. -/

def finishI (input : List Nat) (totalSize : Nat) : Res :=
  if totalSize ≤ input.length then .ok totalSize else .truncated

def thenFinish (input : List Nat) (k : Nat) : Res → Res
  | .ok n => finishI input (k + n)
  | e => e

mutual
def nextValueSizeI (input : List Nat) (d : Nat) : Res × Nat :=
  if d = 0 then (.depthExceeded, 1)
  else
    match input with
    | [] => (.ok 0, 1)
    | b :: _ =>
      match classify (Marker.ofByte b) with
      | .reserved => (.invalidMarker, 1)
      | .fixed size => (finishI input size, 1)
      | .fixStr n => (finishI input (1 + n), 1)
      | .lenPrefixed w base => (thenFinish input base (tryReadLength input w), 1)
      | .fixArray count =>
        match sliceFrom input 1 (.inputSlice 1) with
        | .error s => (.panic s, 1)
        | .ok tail =>
          let r := totalSeqSizeI tail count d
          (thenFinish input 1 r.1, 1 + r.2)
      | .fixMap pairs =>
        match sliceFrom input 1 (.inputSlice 1) with
        | .error s => (.panic s, 1)
        | .ok tail =>
          let r := totalMapSizeI tail pairs d
          (thenFinish input 1 r.1, 1 + r.2)
      | .array w =>
        match tryReadLength input w with
        | .ok count =>
          match sliceFrom input (1 + w) (.inputSlice (1 + w)) with
          | .error s => (.panic s, 1)
          | .ok tail =>
            let r := totalSeqSizeI tail count d
            (thenFinish input (1 + w) r.1, 1 + r.2)
        | e => (e, 1)
      | .map w =>
        match tryReadLength input w with
        | .ok pairs =>
          match sliceFrom input (1 + w) (.inputSlice (1 + w)) with
          | .error s => (.panic s, 1)
          | .ok tail =>
            let r := totalMapSizeI tail pairs d
            (thenFinish input (1 + w) r.1, 1 + r.2)
        | e => (e, 1)
termination_by (d, 3, 0)

def totalMapSizeI (input : List Nat) (pairs d : Nat) : Res × Nat :=
  let r1 := totalSeqSizeI input pairs d
  match r1.1 with
  | .ok first =>
    match sliceFrom input first .mapSlice with
    | .error s => (.panic s, r1.2)
    | .ok tail =>
      let r2 := totalSeqSizeI tail pairs d
      (match r2.1 with
        | .ok second => .ok (first + second)
        | e => e, max r1.2 r2.2)
  | e => (e, r1.2)
termination_by (d, 2, 0)

def totalSeqSizeI (input : List Nat) (count d : Nat) : Res × Nat :=
  totalSeqLoopI input count 0 d
termination_by (d, 1, 0)

def totalSeqLoopI (seq : List Nat) (count total d : Nat) : Res × Nat :=
  match count with
  | 0 => (.ok total, 0)
  | count + 1 =>
    if seq.isEmpty then (.truncated, 0)
    else if _h : d = 0 then (.panic .depthSub, 0)
    else
      let r := nextValueSizeI seq (d - 1)
      match r.1 with
      | .ok size =>
        if size ≤ seq.length then
          let r2 := totalSeqLoopI (seq.drop size) count (total + size) d
          (r2.1, max r.2 r2.2)
        else (.panic .seqSlice, r.2)
      | e => (e, r.2)
termination_by (d, 0, count)
decreasing_by
  all_goals simp_wf
  all_goals first
    | (apply Prod.Lex.left; omega)
    | (apply Prod.Lex.right; apply Prod.Lex.left; omega)
    | (apply Prod.Lex.right; apply Prod.Lex.right; omega)
    | skip
end

def InstrAt (d : Nat) : Prop :=
  ∀ input, (nextValueSizeI input d).1 = nextValueSize input d ∧ (nextValueSizeI input d).2 ≤ d + 1

theorem loopI_ok (d : Nat) (hd : d ≠ 0) (ih : InstrAt (d - 1)) :
    ∀ count seq total, (totalSeqLoopI seq count total d).1 = totalSeqLoop seq count total d ∧
      (totalSeqLoopI seq count total d).2 ≤ d := by
  intro count
  induction count with
  | zero =>
    intro seq total
    rw [totalSeqLoopI.eq_def, totalSeqLoop.eq_def]; simp
  | succ c ihc =>
    intro seq total
    rw [totalSeqLoopI.eq_def, totalSeqLoop.eq_def]
    simp only
    by_cases he : seq.isEmpty
    · simp [he]
    · simp only [he, hd, Bool.false_eq_true, ↓reduceIte, ↓reduceDIte]
      obtain ⟨e1, e2⟩ := ih seq
      rw [← e1]
      have e2' : (nextValueSizeI seq (d - 1)).2 ≤ d := by omega
      cases hr : (nextValueSizeI seq (d - 1)).1 with
      | ok size =>
        simp only
        by_cases hs : size ≤ seq.length
        · obtain ⟨i1, i2⟩ := ihc (seq.drop size) (total + size)
          simp only [hs, ↓reduceIte, i1]
          exact ⟨trivial, by omega⟩
        · simp only [hs, ↓reduceIte]; exact ⟨trivial, e2'⟩
      | truncated => exact ⟨rfl, e2'⟩
      | invalidMarker => exact ⟨rfl, e2'⟩
      | depthExceeded => exact ⟨rfl, e2'⟩
      | panic s => exact ⟨rfl, e2'⟩

theorem seqI_ok (d : Nat) (hd : d ≠ 0) (ih : InstrAt (d - 1)) (input : List Nat) (count : Nat) :
    (totalSeqSizeI input count d).1 = totalSeqSize input count d ∧
      (totalSeqSizeI input count d).2 ≤ d := by
  rw [totalSeqSizeI.eq_def, totalSeqSize.eq_def]
  exact loopI_ok d hd ih count input 0

theorem mapI_ok (d : Nat) (hd : d ≠ 0) (ih : InstrAt (d - 1)) (input : List Nat) (pairs : Nat) :
    (totalMapSizeI input pairs d).1 = totalMapSize input pairs d ∧
      (totalMapSizeI input pairs d).2 ≤ d := by
  rw [totalMapSizeI.eq_def, totalMapSize.eq_def]
  obtain ⟨e1, e2⟩ := seqI_ok d hd ih input pairs
  simp only
  rw [← e1]
  cases h1 : (totalSeqSizeI input pairs d).1 with
  | ok first =>
    simp only
    cases hsl : sliceFrom input first .mapSlice with
    | error s => exact ⟨rfl, e2⟩
    | ok tail =>
      obtain ⟨f1, f2⟩ := seqI_ok d hd ih tail pairs
      simp only
      rw [← f1]
      exact ⟨rfl, by omega⟩
  | truncated => exact ⟨rfl, e2⟩
  | invalidMarker => exact ⟨rfl, e2⟩
  | depthExceeded => exact ⟨rfl, e2⟩
  | panic s => exact ⟨rfl, e2⟩

theorem thenFinish_eq (input : List Nat) (k : Nat) (r : Res) :
    thenFinish input k r =
      match r with
      | .ok n => if k + n ≤ input.length then .ok (k + n) else .truncated
      | e => e := by
  cases r <;> rfl

theorem instrAt (d : Nat) : InstrAt d := by
  induction d with
  | zero => intro input; rw [nextValueSizeI.eq_def, nextValueSize.eq_def]; simp
  | succ d ih =>
    intro input
    have hd : d + 1 ≠ 0 := by omega
    have ih' : InstrAt (d + 1 - 1) := by simpa using ih
    rw [nextValueSizeI.eq_def, nextValueSize.eq_def]
    simp only [hd, ↓reduceIte]
    cases input with
    | nil => simp
    | cons b t =>
      simp only
      cases hc : classify (Marker.ofByte b) with
      | reserved => simp
      | fixed size => simp [finishI]
      | fixStr n => simp [finishI]
      | lenPrefixed w base =>
        simp only [thenFinish_eq]
        exact ⟨by cases tryReadLength (b :: t) w <;> rfl, by omega⟩
      | fixArray count =>
        simp only
        cases hsl : sliceFrom (b :: t) 1 (.inputSlice 1) with
        | error s => simp
        | ok tail =>
          obtain ⟨e1, e2⟩ := seqI_ok (d + 1) hd ih' tail count
          simp only [thenFinish_eq, e1]
          exact ⟨by cases totalSeqSize tail count (d + 1) <;> rfl, by omega⟩
      | fixMap pairs =>
        simp only
        cases hsl : sliceFrom (b :: t) 1 (.inputSlice 1) with
        | error s => simp
        | ok tail =>
          obtain ⟨e1, e2⟩ := mapI_ok (d + 1) hd ih' tail pairs
          simp only [thenFinish_eq, e1]
          exact ⟨by cases totalMapSize tail pairs (d + 1) <;> rfl, by omega⟩
      | array w =>
        simp only
        cases hl : tryReadLength (b :: t) w with
        | ok count =>
          simp only
          cases hsl : sliceFrom (b :: t) (1 + w) (.inputSlice (1 + w)) with
          | error s => simp
          | ok tail =>
            obtain ⟨e1, e2⟩ := seqI_ok (d + 1) hd ih' tail count
            simp only [thenFinish_eq, e1]
            exact ⟨by cases totalSeqSize tail count (d + 1) <;> rfl, by omega⟩
        | truncated => simp
        | invalidMarker => simp
        | depthExceeded => simp
        | panic s => simp
      | map w =>
        simp only
        cases hl : tryReadLength (b :: t) w with
        | ok count =>
          simp only
          cases hsl : sliceFrom (b :: t) (1 + w) (.inputSlice (1 + w)) with
          | error s => simp
          | ok tail =>
            obtain ⟨e1, e2⟩ := mapI_ok (d + 1) hd ih' tail count
            simp only [thenFinish_eq, e1]
            exact ⟨by cases totalMapSize tail count (d + 1) <;> rfl, by omega⟩
        | truncated => simp
        | invalidMarker => simp
        | depthExceeded => simp
        | panic s => simp


/-! ## The rejection is the depth error -/

theorem seqWith_reject {f g : List Nat → Except DErr (MVal × List Nat)} {m : Nat} {E : DErr}
    (hok : ∀ bs v r, f bs = .ok (v, r) → v.nesting ≤ m → g bs = .ok (v, r))
    (hrej : ∀ bs v r, f bs = .ok (v, r) → m < v.nesting → g bs = .error E) :
    ∀ n bs vs r, seqWith f n bs = .ok (vs, r) → m < nestingList vs →
      seqWith g n bs = .error E := by
  intro n
  induction n with
  | zero =>
    intro bs vs r h hm
    simp only [seqWith] at h
    injection h with h; injection h with h1 _; subst h1
    simp [nestingList] at hm
  | succ n ih =>
    intro bs vs r h hm
    simp only [seqWith] at h
    split at h
    · cases h
    · rename_i v r1 h1
      split at h
      · cases h
      · rename_i vs' r2 h2
        injection h with h; injection h with h3 h4; subst h3; subst h4
        simp only [nestingList] at hm
        by_cases hv : v.nesting ≤ m
        · simp only [seqWith, hok _ _ _ h1 hv, ih _ _ _ h2 (by omega)]
        · simp only [seqWith, hrej _ _ _ h1 (by omega)]

theorem pairsWith_reject {f g : List Nat → Except DErr (MVal × List Nat)} {m : Nat} {E : DErr}
    (hok : ∀ bs v r, f bs = .ok (v, r) → v.nesting ≤ m → g bs = .ok (v, r))
    (hrej : ∀ bs v r, f bs = .ok (v, r) → m < v.nesting → g bs = .error E) :
    ∀ n bs kvs r, pairsWith f n bs = .ok (kvs, r) → m < nestingPairs kvs →
      pairsWith g n bs = .error E := by
  intro n
  induction n with
  | zero =>
    intro bs vs r h hm
    simp only [pairsWith] at h
    injection h with h; injection h with h1 _; subst h1
    simp [nestingPairs] at hm
  | succ n ih =>
    intro bs vs r h hm
    simp only [pairsWith] at h
    split at h
    · cases h
    · rename_i k r1 h1
      split at h
      · cases h
      · rename_i v r2 h2
        split at h
        · cases h
        · rename_i kvs r3 h3
          injection h with h; injection h with h4 h5; subst h4; subst h5
          simp only [nestingPairs] at hm
          by_cases hk : k.nesting ≤ m
          · by_cases hv : v.nesting ≤ m
            · simp only [pairsWith, hok _ _ _ h1 hk, hok _ _ _ h2 hv, ih _ _ _ h3 (by omega)]
            · simp only [pairsWith, hok _ _ _ h1 hk, hrej _ _ _ h2 (by omega)]
          · simp only [pairsWith, hrej _ _ _ h1 (by omega)]

/-- If `bs` starts with a spelling of a value that does not nest within `d`
(`d ≥ 1`), the decoder with counter `d` fails with exactly `DepthLimitExceeded`:
everything before the first too-deep collection decodes as before, so no
other error can come first. -/
theorem decode_rejects_with_depth (ext : Bool) (d' : Nat) :
    ∀ d bs v rest, 1 ≤ d → decodeG ext d' bs = .ok (v, rest) → ¬ v.Within d →
      decodeG ext d bs = .error .depthLimitExceeded := by
  induction d' using Nat.strongRecOn with
  | _ d' ih =>
    intro d bs v rest hd h hw
    have hflat : v.nesting ≠ 0 ∧ d ≤ v.nesting := by unfold MVal.Within at hw; omega
    obtain ⟨e, rfl⟩ : ∃ e, d = e + 1 := ⟨d - 1, by omega⟩
    have hw0 := decode_within ext d' _ _ _ h
    unfold decodeG at h
    split at h
    · cases h
    · rename_i b t
      split at h
      · cases h
      · -- scalar
        rename_i v' r hh
        exfalso
        have h0 : v.nesting = 0 := by
          have := decode_within ext 0 (b :: t) v rest (by unfold decodeG; simp only [hh]; exact h)
          unfold MVal.Within at this; omega
        exact hflat.1 h0
      · rename_i len r hh
        exfalso
        split at h
        · cases h
        · injection h with h; injection h with h1 _; subst h1
          apply hflat.1; split <;> rfl
      · rename_i len r hh
        exfalso
        split at h
        · cases h
        · injection h with h; injection h with h1 _; subst h1
          exact hflat.1 rfl
      · rename_i len r hh
        split at h
        · cases h
        · split at h
          · cases h
          · split at h
            · split at h
              · cases h
              · split at h
                · cases h
                · injection h with h; injection h with h1 _; subst h1
                  have : e = 0 := by have := hflat.2; simp only [MVal.nesting] at this; omega
                  subst this
                  unfold decodeG; simp only [hh, ↓reduceIte]
            · cases h
      · rename_i count r hh
        split at h
        · cases h
        · rename_i e'
          split at h
          · cases h
          · rename_i hd'
            split at h
            · cases h
            · rename_i vs r' hs
              injection h with h; injection h with h1 _; subst h1
              have hn := hflat.2
              simp only [MVal.nesting] at hn
              by_cases he : e = 0
              · subst he; unfold decodeG; simp only [hh, ↓reduceIte]
              · have hs' := seqWith_reject (g := decodeG ext e) (m := e - 1) (E := .depthLimitExceeded)
                  (fun bs v r hv hm =>
                    decode_depth_irrelevant ext e' e bs v r hv (by left; omega))
                  (fun bs v r hv hm =>
                    ih e' (by omega) e bs v r (by omega) hv (by unfold MVal.Within; omega))
                  _ _ _ _ hs (by omega)
                unfold decodeG; simp only [hh, he, hs', ↓reduceIte]
      · rename_i count r hh
        split at h
        · cases h
        · rename_i e'
          split at h
          · cases h
          · rename_i hd'
            split at h
            · cases h
            · rename_i kvs r' hs
              injection h with h; injection h with h1 _; subst h1
              have hn := hflat.2
              simp only [MVal.nesting] at hn
              by_cases he : e = 0
              · subst he; unfold decodeG; simp only [hh, ↓reduceIte]
              · have hs' := pairsWith_reject (g := decodeG ext e) (m := e - 1) (E := .depthLimitExceeded)
                  (fun bs v r hv hm =>
                    decode_depth_irrelevant ext e' e bs v r hv (by left; omega))
                  (fun bs v r hv hm =>
                    ih e' (by omega) e bs v r (by omega) hv (by unfold MVal.Within; omega))
                  _ _ _ _ hs (by omega)
                unfold decodeG; simp only [hh, he, hs', ↓reduceIte]

/-- `reject_beyond` with the exact cause: the decoder's error is
`DepthLimitExceeded`, and that is the reader loop's verdict. -/
theorem reject_beyond_depth (ext : Bool) (D : Nat) (hD : 1 ≤ D) {bs : List Nat} {v : MVal}
    {d' : Nat} {rest : List Nat} (hsp : decodeG ext d' bs = .ok (v, rest)) (hn : ¬ v.Within D) :
    decodeG ext D bs = .error .depthLimitExceeded ∧
    readerLoop ext D bs = ([], .decErr .depthLimitExceeded) := by
  have hne : bs ≠ [] := by
    intro hb; subst hb; unfold decodeG at hsp; cases hsp
  have he := decode_rejects_with_depth ext d' D bs v rest hD hsp hn
  exact ⟨he, readerLoop_err ext D hne he⟩


/-! ## Decoded values are well-formed; re-encoding is a fixed point -/

theorem beNat_lt (x : List Nat) (h : ∀ b ∈ x, b < 256) : beNat x < 256 ^ x.length := by
  induction x with
  | nil => simp [beNat]
  | cons b bs ih =>
    have hb := h b (by simp)
    have ih' := ih (fun c hc => h c (by simp [hc]))
    simp only [beNat, List.length_cons, Nat.pow_succ]
    have : b * 256 ^ bs.length ≤ 255 * 256 ^ bs.length := Nat.mul_le_mul_right _ (by omega)
    omega

/-- What `Marker::from_u8` guarantees about the payload of the fix-markers. -/
def markerOk (b : Nat) : Marker → Bool
  | .fixPos v => v == b && decide (b < 128)
  | .fixNeg v => v == b && decide (224 ≤ b)
  | .fixStr n => decide (n < 32)
  | .fixArray n => decide (n < 16)
  | .fixMap n => decide (n < 16)
  | _ => true

set_option maxRecDepth 100000 in
theorem ofByte_ok : ∀ b, b < 256 → markerOk b (Marker.ofByte b) = true := by decide



/-- What the header stage guarantees. -/
def hdrOk (ext : Bool) : Hdr → Prop
  | .scalar v => v.WF ext
  | .str n => n < 2 ^ 32
  | .bin n => n < 2 ^ 32
  | .ext n => n < 2 ^ 32
  | .arr n => n < 2 ^ 32
  | .map n => n < 2 ^ 32

theorem layout_imm_ok (ext : Bool) {b : Nat} (hb : b < 256) {hd : Hdr}
    (h : layout (Marker.ofByte b) = .imm hd) : hdrOk ext hd := by
  have hm := ofByte_ok b hb
  generalize Marker.ofByte b = m at h hm
  cases m <;> simp only [layout] at h <;> cases h <;>
    simp only [markerOk, Bool.and_eq_true, beq_iff_eq, decide_eq_true_eq] at hm <;>
    simp only [hdrOk, MVal.WF] <;> omega

theorem layout_data_ok {m : Marker} {k : Nat} {kind : DataKind} (h : layout m = .data k kind) :
    (k = 1 ∨ k = 2 ∨ k = 4 ∨ k = 8) ∧ (kind = .f32 → k = 4) ∧ (kind = .f64 → k = 8) := by
  cases m <;> simp only [layout] at h <;> cases h <;> simp

theorem layout_len_ok {m : Marker} {w : Nat} {kind : LenKind} (h : layout m = .len w kind) :
    w = 1 ∨ w = 2 ∨ w = 4 := by
  cases m <;> simp only [layout] at h <;> cases h <;> simp

theorem readN_bytes {n : Nat} {bs x r : List Nat} (h : readN n bs = .ok (x, r))
    (hb : ∀ c ∈ bs, c < 256) : x.length = n ∧ (∀ c ∈ x, c < 256) ∧ (∀ c ∈ r, c < 256) := by
  obtain ⟨e, hl, _⟩ := readN_ok h
  subst e
  exact ⟨hl, fun c hc => hb c (by simp [hc]), fun c hc => hb c (by simp [hc])⟩

theorem mkData_wf (ext : Bool) {kind : DataKind} {k : Nat} {x : List Nat}
    (hk : (k = 1 ∨ k = 2 ∨ k = 4 ∨ k = 8) ∧ (kind = .f32 → k = 4) ∧ (kind = .f64 → k = 8))
    (hl : x.length = k) (hx : ∀ c ∈ x, c < 256) : (mkData kind k x).WF ext := by
  have hlt := beNat_lt x hx
  rw [hl] at hlt
  obtain ⟨hk1, hk2, hk3⟩ := hk
  cases kind with
  | uint =>
    simp only [mkData, MVal.WF]
    rcases hk1 with h | h | h | h <;> subst h <;> simp only [Nat.reducePow] at hlt ⊢ <;> omega
  | sint =>
    simp only [mkData]
    rcases hk1 with h | h | h | h <;> subst h <;> simp only [Nat.reducePow, Nat.reduceDiv] at hlt ⊢ <;>
      split <;> simp only [MVal.WF] <;> omega
  | f32 =>
    have := hk2 rfl; subst this
    simp only [mkData, MVal.WF]; simp only [Nat.reducePow] at hlt ⊢; omega
  | f64 =>
    have := hk3 rfl; subst this
    simp only [mkData, MVal.WF]; simp only [Nat.reducePow] at hlt ⊢; omega

theorem mkHdr_ok (ext : Bool) (kind : LenKind) {n : Nat} (h : n < 2 ^ 32) :
    hdrOk ext (mkHdr kind n) := by
  cases kind <;> exact h

theorem header_wf (ext : Bool) {b : Nat} {t : List Nat} {h : Hdr} {r : List Nat}
    (hb : b < 256) (ht : ∀ c ∈ t, c < 256) (hh : header (Marker.ofByte b) t = .ok (h, r)) :
    hdrOk ext h ∧ (∀ c ∈ r, c < 256) := by
  unfold header at hh
  split at hh
  · cases hh
  · rename_i h' hl
    injection hh with hh; injection hh with h1 h2; subst h1; subst h2
    exact ⟨layout_imm_ok ext hb hl, ht⟩
  · rename_i k kind hl
    split at hh
    · cases hh
    · rename_i x r1 hr
      injection hh with hh; injection hh with h1 h2; subst h1; subst h2
      obtain ⟨g1, g2, g3⟩ := readN_bytes hr ht
      exact ⟨mkData_wf ext (layout_data_ok hl) g1 g2, g3⟩
  · rename_i w kind hl
    split at hh
    · cases hh
    · rename_i x r1 hr
      injection hh with hh; injection hh with h1 h2; subst h1; subst h2
      obtain ⟨g1, g2, g3⟩ := readN_bytes hr ht
      refine ⟨mkHdr_ok ext kind ?_, g3⟩
      have hlt := beNat_lt x g2
      rw [g1] at hlt
      rcases layout_len_ok hl with h | h | h <;> subst h <;> simp only [Nat.reducePow] at hlt ⊢ <;> omega



theorem Local.rest_bytes {α : Type} {f : List Nat → Except DErr (α × List Nat)} (hf : Local f)
    {bs : List Nat} {v : α} {r : List Nat} (h : f bs = .ok (v, r)) (hb : ∀ c ∈ bs, c < 256) :
    ∀ c ∈ r, c < 256 := by
  obtain ⟨u, e, _⟩ := hf _ _ _ h
  subst e
  exact fun c hc => hb c (by simp [hc])

theorem seqWith_wf {f : List Nat → Except DErr (MVal × List Nat)} {ext : Bool} (hloc : Local f)
    (hf : ∀ bs v r, (∀ c ∈ bs, c < 256) → f bs = .ok (v, r) → v.WF ext) :
    ∀ n bs vs r, (∀ c ∈ bs, c < 256) → seqWith f n bs = .ok (vs, r) →
      WFList ext vs ∧ vs.length = n := by
  intro n
  induction n with
  | zero =>
    intro bs vs r _ h
    simp only [seqWith] at h
    injection h with h; injection h with h1 _; subst h1
    exact ⟨trivial, rfl⟩
  | succ n ih =>
    intro bs vs r hb h
    simp only [seqWith] at h
    split at h
    · cases h
    · rename_i v r1 h1
      split at h
      · cases h
      · rename_i vs' r2 h2
        injection h with h; injection h with h3 _; subst h3
        obtain ⟨i1, i2⟩ := ih _ _ _ (hloc.rest_bytes h1 hb) h2
        exact ⟨⟨hf _ _ _ hb h1, i1⟩, by simp [i2]⟩

theorem pairsWith_wf {f : List Nat → Except DErr (MVal × List Nat)} {ext : Bool} (hloc : Local f)
    (hf : ∀ bs v r, (∀ c ∈ bs, c < 256) → f bs = .ok (v, r) → v.WF ext) :
    ∀ n bs kvs r, (∀ c ∈ bs, c < 256) → pairsWith f n bs = .ok (kvs, r) →
      WFPairs ext kvs ∧ kvs.length = n := by
  intro n
  induction n with
  | zero =>
    intro bs vs r _ h
    simp only [pairsWith] at h
    injection h with h; injection h with h1 _; subst h1
    exact ⟨trivial, rfl⟩
  | succ n ih =>
    intro bs vs r hb h
    simp only [pairsWith] at h
    split at h
    · cases h
    · rename_i k r1 h1
      split at h
      · cases h
      · rename_i v r2 h2
        split at h
        · cases h
        · rename_i kvs r3 h3
          injection h with h; injection h with h4 _; subst h4
          have hb1 := hloc.rest_bytes h1 hb
          have hb2 := hloc.rest_bytes h2 hb1
          obtain ⟨i1, i2⟩ := ih _ _ _ hb2 h3
          exact ⟨⟨hf _ _ _ hb h1, hf _ _ _ hb1 h2, i1⟩, by simp [i2]⟩

/-- Every value the decoder produces from bytes (< 256) is well-formed: the
serializer can write it and it decodes back to itself. -/
theorem decode_wf (ext : Bool) (d : Nat) :
    ∀ bs v rest, (∀ c ∈ bs, c < 256) → decodeG ext d bs = .ok (v, rest) → v.WF ext := by
  induction d using Nat.strongRecOn with
  | _ d ih =>
    intro bs v rest hb h
    unfold decodeG at h
    split at h
    · cases h
    · rename_i b t
      have hb0 : b < 256 := hb b (by simp)
      have ht : ∀ c ∈ t, c < 256 := fun c hc => hb c (by simp [hc])
      split at h
      · cases h
      · rename_i v' r hh
        injection h with h; injection h with h1 _; subst h1
        exact (header_wf ext hb0 ht hh).1
      · rename_i len r hh
        obtain ⟨g1, g2⟩ := header_wf ext hb0 ht hh
        split at h
        · cases h
        · rename_i s r' hr
          injection h with h; injection h with h1 _; subst h1
          obtain ⟨l1, _, _⟩ := readN_bytes hr g2
          simp only [hdrOk] at g1
          split
          · rename_i hv; exact ⟨by omega, hv⟩
          · simp only [MVal.WF]; omega
      · rename_i len r hh
        obtain ⟨g1, g2⟩ := header_wf ext hb0 ht hh
        split at h
        · cases h
        · rename_i s r' hr
          injection h with h; injection h with h1 _; subst h1
          obtain ⟨l1, _, _⟩ := readN_bytes hr g2
          simp only [hdrOk] at g1
          simp only [MVal.WF]; omega
      · rename_i len r hh
        obtain ⟨g1, g2⟩ := header_wf ext hb0 ht hh
        split at h
        · cases h
        · split at h
          · cases h
          · split at h
            · rename_i hext
              split at h
              · cases h
              · rename_i ty r1 hr1
                split at h
                · cases h
                · rename_i s r2 hr2
                  injection h with h; injection h with h1 _; subst h1
                  obtain ⟨l1, l2, l3⟩ := readN_bytes hr1 g2
                  obtain ⟨m1, _, _⟩ := readN_bytes hr2 l3
                  simp only [hdrOk] at g1
                  have := beNat_lt ty l2
                  rw [l1] at this
                  exact ⟨hext, by simpa using this, by omega⟩
            · cases h
      · rename_i count r hh
        obtain ⟨g1, g2⟩ := header_wf ext hb0 ht hh
        split at h
        · cases h
        · rename_i d'
          split at h
          · cases h
          · split at h
            · cases h
            · rename_i vs r' hs
              injection h with h; injection h with h1 _; subst h1
              obtain ⟨i1, i2⟩ := seqWith_wf (decodeG_local ext d') (ih d' (by omega)) _ _ _ _ g2 hs
              simp only [hdrOk] at g1
              exact ⟨by omega, i1⟩
      · rename_i count r hh
        obtain ⟨g1, g2⟩ := header_wf ext hb0 ht hh
        split at h
        · cases h
        · rename_i d'
          split at h
          · cases h
          · split at h
            · cases h
            · rename_i kvs r' hs
              injection h with h; injection h with h1 _; subst h1
              obtain ⟨i1, i2⟩ := pairsWith_wf (decodeG_local ext d') (ih d' (by omega)) _ _ _ _ g2 hs
              simp only [hdrOk] at g1
              exact ⟨by omega, i1⟩

/-- Translating MessagePack to MessagePack is idempotent on every input: what
the decoder read from any bytes, once written by the serializer, decodes back
to the same value (so a second translation writes the same bytes). -/
theorem reencode_fixed_point (ext : Bool) (d : Nat) (hd : 1 ≤ d) (bs : List Nat) (v : MVal)
    (rest : List Nat) (hb : ∀ c ∈ bs, c < 256) (h : decodeG ext d bs = .ok (v, rest)) :
    ∀ r, decodeG ext d (encode v ++ r) = .ok (v, r) := by
  intro r
  have hw := decode_wf ext d bs v rest hb h
  have hn := decode_within ext d bs v rest h
  exact roundtrip_val ext v d r hw (by unfold MVal.Within at hn; omega)



theorem readerLoop_docs_wf (ext : Bool) (D : Nat) (hD : 1 ≤ D) (bs : List Nat)
    (hb : ∀ c ∈ bs, c < 256) :
    ∀ v ∈ (readerLoop ext D bs).1, v.WF ext ∧ v.nesting < D := by
  induction hlen : bs.length using Nat.strongRecOn generalizing bs with
  | _ k ih =>
    cases bs with
    | nil => simp [readerLoop_nil]
    | cons b t =>
      cases hdec : decodeG ext D (b :: t) with
      | error e => rw [readerLoop_err ext D (by simp) hdec]; simp
      | ok p =>
        obtain ⟨v, rest⟩ := p
        rw [readerLoop_ok ext D hdec]
        intro x hx
        rcases List.mem_cons.mp hx with rfl | hx
        · have hw := decode_within ext D _ _ _ hdec
          exact ⟨decode_wf ext D _ _ _ hb hdec, by unfold MVal.Within at hw; omega⟩
        · have hlt := decodeG_lt ext D _ _ _ hdec
          exact ih rest.length (by omega) rest
            ((decodeG_local ext D).rest_bytes hdec hb) rfl x hx

/-- Model-level `xt(m→m)(xt(m→m)(x)) = xt(m→m)(x)` for every input `x`: the
documents a translation wrote are read back unchanged, all of them, and the
second translation succeeds. -/
theorem m2m_idempotent (ext : Bool) (D : Nat) (hD : 1 ≤ D) (bs : List Nat)
    (hb : ∀ c ∈ bs, c < 256) :
    readerLoop ext D (((readerLoop ext D bs).1).flatMap encode) = ((readerLoop ext D bs).1, .ok) :=
  frame_recover ext D _ (fun v hv => (readerLoop_docs_wf ext D hD bs hb v hv).1)
    (fun v hv => (readerLoop_docs_wf ext D hD bs hb v hv).2)

end Xt.Msgpack
