import XtModel.Model.MsgpackSize
import XtModel.Model.MsgpackCodec

/-!
Lemmas about the MessagePack size calculator model (`Model/MsgpackSize.lean`).
Property files (C18, and later C01/C02/C03/C04/C06/C10) import this file.
-/
namespace Xt.Msgpack

theorem tryReadLength_not_panic (input : List Nat) (n : Nat) (s : Site) :
    tryReadLength input n ≠ .panic s := by
  unfold tryReadLength
  split
  · have : ((input.drop 1).take n).length = n := by
      rw [List.length_take, List.length_drop]; omega
    simp only [this, ↓reduceIte]
    exact fun h => by cases h
  · exact fun h => by cases h

theorem tryReadLength_ok (input : List Nat) (n len : Nat) (h : tryReadLength input n = .ok len) :
    1 + n ≤ input.length ∧ len = beNat ((input.drop 1).take n) := by
  unfold tryReadLength at h
  split at h
  · rename_i hl
    refine ⟨hl, ?_⟩
    simp only at h
    split at h
    · injection h with h; exact h.symm
    · cases h
  · cases h

/-- What the loop guarantees when the calls it makes at depth `d - 1` are safe. -/
def SafeAt (d : Nat) : Prop :=
  ∀ input, (∀ s, nextValueSize input d ≠ .panic s) ∧
    (∀ n, nextValueSize input d = .ok n → n ≤ input.length)

theorem loop_safe (d : Nat) (hd : d ≠ 0) (ih : SafeAt (d - 1)) :
    ∀ count seq total, (∀ s, totalSeqLoop seq count total d ≠ .panic s) ∧
      (∀ n, totalSeqLoop seq count total d = .ok n → total ≤ n ∧ n ≤ total + seq.length) := by
  intro count
  induction count with
  | zero =>
    intro seq total
    rw [totalSeqLoop.eq_def]
    simp
  | succ c ihc =>
    intro seq total
    rw [totalSeqLoop.eq_def]
    simp only
    by_cases he : seq.isEmpty
    · simp [he]
    · simp only [he, hd]
      obtain ⟨np, ok⟩ := ih seq
      cases hr : nextValueSize seq (d - 1) with
      | ok size =>
        have hs := ok size hr
        simp only [hs]
        obtain ⟨np', ok'⟩ := ihc (seq.drop size) (total + size)
        refine ⟨by simpa using np', ?_⟩
        intro n hn
        have := ok' n (by simpa using hn)
        rw [List.length_drop] at this
        omega
      | truncated => simp
      | invalidMarker => simp
      | depthExceeded => simp
      | panic s => exact absurd hr (np s)


theorem seq_safe (d : Nat) (hd : d ≠ 0) (ih : SafeAt (d - 1)) (input : List Nat) (count : Nat) :
    (∀ s, totalSeqSize input count d ≠ .panic s) ∧
      (∀ n, totalSeqSize input count d = .ok n → n ≤ input.length) := by
  rw [totalSeqSize.eq_def]
  obtain ⟨np, ok⟩ := loop_safe d hd ih count input 0
  exact ⟨np, fun n hn => by have := ok n hn; omega⟩

theorem map_safe (d : Nat) (hd : d ≠ 0) (ih : SafeAt (d - 1)) (input : List Nat) (pairs : Nat) :
    (∀ s, totalMapSize input pairs d ≠ .panic s) ∧
      (∀ n, totalMapSize input pairs d = .ok n → n ≤ input.length) := by
  rw [totalMapSize.eq_def]
  obtain ⟨np, ok⟩ := seq_safe d hd ih input pairs
  cases h1 : totalSeqSize input pairs d with
  | ok first =>
    have hf := ok first h1
    simp only [sliceFrom, hf, ↓reduceIte]
    obtain ⟨np2, ok2⟩ := seq_safe d hd ih (input.drop first) pairs
    cases h2 : totalSeqSize (input.drop first) pairs d with
    | ok second =>
      have := ok2 second h2
      rw [List.length_drop] at this
      simp; omega
    | truncated => simp
    | invalidMarker => simp
    | depthExceeded => simp
    | panic s => exact absurd h2 (np2 s)
  | truncated => simp
  | invalidMarker => simp
  | depthExceeded => simp
  | panic s => exact absurd h1 (np s)

theorem safeAt (d : Nat) : SafeAt d := by
  induction d with
  | zero => intro input; rw [nextValueSize.eq_def]; simp
  | succ d ih =>
    intro input
    have hd : d + 1 ≠ 0 := by omega
    have ih' : SafeAt (d + 1 - 1) := by simpa using ih
    rw [nextValueSize.eq_def]
    simp only [hd, ↓reduceIte]
    cases input with
    | nil => simp
    | cons b t =>
      simp only
      cases hc : classify (Marker.ofByte b) with
      | reserved => simp
      | fixed size => simp only; split <;> simp_all
      | fixStr n => simp only; split <;> simp_all
      | lenPrefixed w base =>
        simp only
        cases hl : tryReadLength (b :: t) w with
        | ok len => simp only; split <;> simp_all
        | truncated => simp
        | invalidMarker => simp
        | depthExceeded => simp
        | panic s => exact absurd hl (tryReadLength_not_panic _ _ _)
      | fixArray count =>
        have h1 : 1 ≤ (b :: t).length := by simp
        simp only [sliceFrom, h1, ↓reduceIte]
        obtain ⟨np, ok⟩ := seq_safe (d + 1) hd ih' (List.drop 1 (b :: t)) count
        cases hs : totalSeqSize (List.drop 1 (b :: t)) count (d + 1) with
        | ok n => simp only; split <;> simp_all
        | truncated => simp
        | invalidMarker => simp
        | depthExceeded => simp
        | panic s => exact absurd hs (np s)
      | fixMap pairs =>
        have h1 : 1 ≤ (b :: t).length := by simp
        simp only [sliceFrom, h1, ↓reduceIte]
        obtain ⟨np, ok⟩ := map_safe (d + 1) hd ih' (List.drop 1 (b :: t)) pairs
        cases hs : totalMapSize (List.drop 1 (b :: t)) pairs (d + 1) with
        | ok n => simp only; split <;> simp_all
        | truncated => simp
        | invalidMarker => simp
        | depthExceeded => simp
        | panic s => exact absurd hs (np s)
      | array w =>
        simp only
        cases hl : tryReadLength (b :: t) w with
        | ok count =>
          have h1 := (tryReadLength_ok _ _ _ hl).1
          simp only [sliceFrom, h1, ↓reduceIte]
          obtain ⟨np, ok⟩ := seq_safe (d + 1) hd ih' (List.drop (1 + w) (b :: t)) count
          cases hs : totalSeqSize (List.drop (1 + w) (b :: t)) count (d + 1) with
          | ok n => simp only; split <;> simp_all
          | truncated => simp
          | invalidMarker => simp
          | depthExceeded => simp
          | panic s => exact absurd hs (np s)
        | truncated => simp
        | invalidMarker => simp
        | depthExceeded => simp
        | panic s => exact absurd hl (tryReadLength_not_panic _ _ _)
      | map w =>
        simp only
        cases hl : tryReadLength (b :: t) w with
        | ok count =>
          have h1 := (tryReadLength_ok _ _ _ hl).1
          simp only [sliceFrom, h1, ↓reduceIte]
          obtain ⟨np, ok⟩ := map_safe (d + 1) hd ih' (List.drop (1 + w) (b :: t)) count
          cases hs : totalMapSize (List.drop (1 + w) (b :: t)) count (d + 1) with
          | ok n => simp only; split <;> simp_all
          | truncated => simp
          | invalidMarker => simp
          | depthExceeded => simp
          | panic s => exact absurd hs (np s)
        | truncated => simp
        | invalidMarker => simp
        | depthExceeded => simp
        | panic s => exact absurd hl (tryReadLength_not_panic _ _ _)


/-! ## The decoder reads a prefix of its input and nothing beyond it -/

/-- A parser that reads a prefix of its input and does not look beyond it. -/
def Local {α : Type} (f : List Nat → Except DErr (α × List Nat)) : Prop :=
  ∀ bs v rest, f bs = .ok (v, rest) →
    ∃ used, bs = used ++ rest ∧ ∀ r', f (used ++ r') = .ok (v, r')

theorem readN_ok {n : Nat} {bs x r : List Nat} (h : readN n bs = .ok (x, r)) :
    bs = x ++ r ∧ x.length = n ∧ ∀ r', readN n (x ++ r') = .ok (x, r') := by
  unfold readN at h
  split at h
  · rename_i hn
    injection h with h; injection h with h1 h2; subst h1; subst h2
    refine ⟨(List.take_append_drop n bs).symm, by rw [List.length_take]; omega, ?_⟩
    intro r'
    have hl : (List.take n bs).length = n := by rw [List.length_take]; omega
    unfold readN
    rw [if_pos (by rw [List.length_append]; omega)]
    rw [List.take_left' hl, List.drop_left' hl]
  · cases h

theorem readN_local (n : Nat) : Local (readN n) := by
  intro bs x r h
  obtain ⟨h1, _, h3⟩ := readN_ok h
  exact ⟨x, h1, h3⟩

theorem header_local (m : Marker) : Local (header m) := by
  intro t h r hh
  unfold header at hh
  split at hh
  · cases hh
  · rename_i h' hl
    injection hh with hh; injection hh with h1 h2; subst h1; subst h2
    refine ⟨[], rfl, ?_⟩
    intro r'; unfold header; rw [hl]; rfl
  · rename_i k kind hl
    split at hh
    · cases hh
    · rename_i x r1 hr
      injection hh with hh; injection hh with h1 h2; subst h1; subst h2
      obtain ⟨e1, _, e3⟩ := readN_ok hr
      refine ⟨x, e1, ?_⟩
      intro r'; unfold header; rw [hl]; simp only [e3 r']
  · rename_i w kind hl
    split at hh
    · cases hh
    · rename_i x r1 hr
      injection hh with hh; injection hh with h1 h2; subst h1; subst h2
      obtain ⟨e1, _, e3⟩ := readN_ok hr
      refine ⟨x, e1, ?_⟩
      intro r'; unfold header; rw [hl]; simp only [e3 r']

theorem seqWith_local {f : List Nat → Except DErr (MVal × List Nat)} (hf : Local f) :
    ∀ n, Local (seqWith f n) := by
  intro n
  induction n with
  | zero =>
    intro bs vs r h
    simp only [seqWith] at h
    injection h with h; injection h with h1 h2; subst h1; subst h2
    exact ⟨[], rfl, fun r' => by simp [seqWith]⟩
  | succ n ih =>
    intro bs vs r h
    simp only [seqWith] at h
    split at h
    · cases h
    · rename_i v r1 h1
      split at h
      · cases h
      · rename_i vs' r2 h2
        injection h with h; injection h with h3 h4; subst h3; subst h4
        obtain ⟨u1, e1, g1⟩ := hf _ _ _ h1
        obtain ⟨u2, e2, g2⟩ := ih _ _ _ h2
        refine ⟨u1 ++ u2, by rw [e1, e2, List.append_assoc], ?_⟩
        intro r'
        simp only [seqWith, List.append_assoc, g1 (u2 ++ r'), g2 r']

theorem pairsWith_local {f : List Nat → Except DErr (MVal × List Nat)} (hf : Local f) :
    ∀ n, Local (pairsWith f n) := by
  intro n
  induction n with
  | zero =>
    intro bs vs r h
    simp only [pairsWith] at h
    injection h with h; injection h with h1 h2; subst h1; subst h2
    exact ⟨[], rfl, fun r' => by simp [pairsWith]⟩
  | succ n ih =>
    intro bs vs r h
    simp only [pairsWith] at h
    split at h
    · cases h
    · rename_i k r1 h1
      split at h
      · cases h
      · rename_i v r2 h2
        split at h
        · cases h
        · rename_i kvs r3 h3
          injection h with h; injection h with h4 h5; subst h4; subst h5
          obtain ⟨u1, e1, g1⟩ := hf _ _ _ h1
          obtain ⟨u2, e2, g2⟩ := hf _ _ _ h2
          obtain ⟨u3, e3, g3⟩ := ih _ _ _ h3
          refine ⟨u1 ++ (u2 ++ u3), by rw [e1, e2, e3]; simp, ?_⟩
          intro r'
          simp only [pairsWith, List.append_assoc, g1 (u2 ++ (u3 ++ r')), g2 (u3 ++ r'), g3 r']



theorem decodeG_local_step (ext : Bool) (d : Nat)
    (ih : ∀ d', d' < d → Local (decodeG ext d')) : Local (decodeG ext d) := by
  intro bs v rest h
  unfold decodeG at h
  split at h
  · cases h
  · rename_i b t
    split at h
    · cases h
    · -- scalar
      rename_i v' r hh
      injection h with h; injection h with h1 h2; subst h1; subst h2
      obtain ⟨u, e, g⟩ := header_local _ _ _ _ hh
      refine ⟨b :: u, by rw [e]; rfl, ?_⟩
      intro r'
      show decodeG ext d (b :: (u ++ r')) = _
      unfold decodeG; simp only [g r']
    · -- str
      rename_i len r hh
      obtain ⟨u, e, g⟩ := header_local _ _ _ _ hh
      split at h
      · cases h
      · rename_i s r2 hr
        injection h with h; injection h with h1 h2; subst h1; subst h2
        obtain ⟨e1, _, g1⟩ := readN_ok hr
        refine ⟨b :: (u ++ s), by rw [e, e1]; simp, ?_⟩
        intro r'
        show decodeG ext d (b :: ((u ++ s) ++ r')) = _
        unfold decodeG; simp only [List.append_assoc, g (s ++ r'), g1 r']
    · -- bin
      rename_i len r hh
      obtain ⟨u, e, g⟩ := header_local _ _ _ _ hh
      split at h
      · cases h
      · rename_i s r2 hr
        injection h with h; injection h with h1 h2; subst h1; subst h2
        obtain ⟨e1, _, g1⟩ := readN_ok hr
        refine ⟨b :: (u ++ s), by rw [e, e1]; simp, ?_⟩
        intro r'
        show decodeG ext d (b :: ((u ++ s) ++ r')) = _
        unfold decodeG; simp only [List.append_assoc, g (s ++ r'), g1 r']
    · -- ext
      rename_i len r hh
      obtain ⟨u, e, g⟩ := header_local _ _ _ _ hh
      split at h
      · cases h
      · rename_i d'
        split at h
        · cases h
        · rename_i hd
          split at h
          · rename_i hext
            split at h
            · cases h
            · rename_i ty r1 hr1
              split at h
              · cases h
              · rename_i s r2 hr2
                injection h with h; injection h with h1 h2; subst h1; subst h2
                obtain ⟨e1, _, g1⟩ := readN_ok hr1
                obtain ⟨e2, _, g2⟩ := readN_ok hr2
                refine ⟨b :: (u ++ (ty ++ s)), by rw [e, e1, e2]; simp, ?_⟩
                intro r'
                show decodeG ext (d' + 1) (b :: ((u ++ (ty ++ s)) ++ r')) = _
                unfold decodeG
                simp only [List.append_assoc, g (ty ++ (s ++ r')), g1 (s ++ r'), g2 r', hd, hext,
                  ↓reduceIte]
          · cases h
    · -- arr
      rename_i count r hh
      obtain ⟨u, e, g⟩ := header_local _ _ _ _ hh
      split at h
      · cases h
      · rename_i d'
        split at h
        · cases h
        · rename_i hd
          split at h
          · cases h
          · rename_i vs r2 hs
            injection h with h; injection h with h1 h2; subst h1; subst h2
            obtain ⟨u2, e2, g2⟩ := seqWith_local (ih d' (by omega)) count _ _ _ hs
            refine ⟨b :: (u ++ u2), by rw [e, e2]; simp, ?_⟩
            intro r'
            show decodeG ext (d' + 1) (b :: ((u ++ u2) ++ r')) = _
            unfold decodeG
            simp only [List.append_assoc, g (u2 ++ r'), g2 r', hd, ↓reduceIte]
    · -- map
      rename_i count r hh
      obtain ⟨u, e, g⟩ := header_local _ _ _ _ hh
      split at h
      · cases h
      · rename_i d'
        split at h
        · cases h
        · rename_i hd
          split at h
          · cases h
          · rename_i vs r2 hs
            injection h with h; injection h with h1 h2; subst h1; subst h2
            obtain ⟨u2, e2, g2⟩ := pairsWith_local (ih d' (by omega)) count _ _ _ hs
            refine ⟨b :: (u ++ u2), by rw [e, e2]; simp, ?_⟩
            intro r'
            show decodeG ext (d' + 1) (b :: ((u ++ u2) ++ r')) = _
            unfold decodeG
            simp only [List.append_assoc, g (u2 ++ r'), g2 r', hd, ↓reduceIte]

theorem decodeG_local (ext : Bool) (d : Nat) : Local (decodeG ext d) := by
  induction d using Nat.strongRecOn with
  | _ d ih => exact decodeG_local_step ext d ih

/-! ## The calculator's size is the decoder's extent -/

/-- The calculator's arm for a marker, read off the decoder's layout table. -/
def clsOf : Layout → Cls
  | .reserved => .reserved
  | .imm (.scalar _) => .fixed 1
  | .imm (.str n) => .fixStr n
  | .imm (.bin n) => .fixStr n
  | .imm (.ext len) => .fixed (2 + len)
  | .imm (.arr n) => .fixArray n
  | .imm (.map n) => .fixMap n
  | .data k _ => .fixed (1 + k)
  | .len w .str => .lenPrefixed w (1 + w)
  | .len w .bin => .lenPrefixed w (1 + w)
  | .len w .ext => .lenPrefixed w (2 + w)
  | .len w .arr => .array w
  | .len w .map => .map w

/-- The calculator and the decoder agree, marker by marker, on what follows
each of the 37 markers. -/
theorem classify_eq_clsOf (m : Marker) : classify m = clsOf (layout m) := by
  cases m <;> rfl

theorem Local.suffix {α : Type} {f : List Nat → Except DErr (α × List Nat)} (hf : Local f)
    {bs : List Nat} {v : α} {rest : List Nat} (h : f bs = .ok (v, rest)) :
    rest.length ≤ bs.length ∧ bs.drop (bs.length - rest.length) = rest := by
  obtain ⟨u, e, _⟩ := hf _ _ _ h
  subst e
  refine ⟨by simp, ?_⟩
  have : (u ++ rest).length - rest.length = u.length := by simp
  rw [this, List.drop_left]

theorem loop_extent {f : List Nat → Except DErr (MVal × List Nat)} (hf : Local f)
    (L : Nat) (hL : L ≠ 0)
    (hlt : ∀ bs v rest, f bs = .ok (v, rest) → rest.length < bs.length)
    (hC : ∀ bs v rest, f bs = .ok (v, rest) →
      nextValueSize bs (L - 1) = .ok (bs.length - rest.length)) :
    ∀ n seq total vs rest, seqWith f n seq = .ok (vs, rest) →
      totalSeqLoop seq n total L = .ok (total + (seq.length - rest.length)) := by
  intro n
  induction n with
  | zero =>
    intro seq total vs rest h
    simp only [seqWith] at h
    injection h with h; injection h with _ h2; subst h2
    rw [totalSeqLoop.eq_def]; simp
  | succ n ih =>
    intro seq total vs rest h
    simp only [seqWith] at h
    split at h
    · cases h
    · rename_i v r1 h1
      split at h
      · cases h
      · rename_i vs' r2 h2
        injection h with h; injection h with _ h4; subst h4
        have hlt1 := hlt _ _ _ h1
        obtain ⟨_, hd1⟩ := hf.suffix h1
        have hle2 := ((seqWith_local hf n).suffix h2).1
        rw [totalSeqLoop.eq_def]
        have hne : seq.isEmpty = false := by
          cases seq with
          | nil => simp at hlt1
          | cons _ _ => rfl
        simp only [hne, hL, hC _ _ _ h1, Nat.sub_le, hd1, ih _ _ _ _ h2]
        simp
        omega

theorem seq_extent {f : List Nat → Except DErr (MVal × List Nat)} (hf : Local f)
    (L : Nat) (hL : L ≠ 0)
    (hlt : ∀ bs v rest, f bs = .ok (v, rest) → rest.length < bs.length)
    (hC : ∀ bs v rest, f bs = .ok (v, rest) →
      nextValueSize bs (L - 1) = .ok (bs.length - rest.length))
    {n : Nat} {seq : List Nat} {vs : List MVal} {rest : List Nat}
    (h : seqWith f n seq = .ok (vs, rest)) :
    totalSeqSize seq n L = .ok (seq.length - rest.length) := by
  rw [totalSeqSize.eq_def, loop_extent hf L hL hlt hC n seq 0 vs rest h]; simp

theorem pairs_to_seq {f : List Nat → Except DErr (MVal × List Nat)} :
    ∀ n seq kvs rest, pairsWith f n seq = .ok (kvs, rest) →
      ∃ vs, seqWith f (n + n) seq = .ok (vs, rest) := by
  intro n
  induction n with
  | zero =>
    intro seq kvs rest h
    simp only [pairsWith] at h
    injection h with h; injection h with _ h2; subst h2
    exact ⟨[], rfl⟩
  | succ n ih =>
    intro seq kvs rest h
    simp only [pairsWith] at h
    split at h
    · cases h
    · rename_i k r1 h1
      split at h
      · cases h
      · rename_i v r2 h2
        split at h
        · cases h
        · rename_i kvs' r3 h3
          injection h with h; injection h with _ h5; subst h5
          obtain ⟨vs, hvs⟩ := ih _ _ _ h3
          have : n + 1 + (n + 1) = (n + n) + 1 + 1 := by omega
          rw [this]
          exact ⟨k :: v :: vs, by simp only [seqWith, h1, h2, hvs]⟩

theorem seq_split {f : List Nat → Except DErr (MVal × List Nat)} :
    ∀ a b seq vs rest, seqWith f (a + b) seq = .ok (vs, rest) →
      ∃ vs1 mid vs2, seqWith f a seq = .ok (vs1, mid) ∧ seqWith f b mid = .ok (vs2, rest) := by
  intro a
  induction a with
  | zero =>
    intro b seq vs rest h
    rw [Nat.zero_add] at h
    exact ⟨[], seq, vs, rfl, h⟩
  | succ a ih =>
    intro b seq vs rest h
    have : a + 1 + b = (a + b) + 1 := by omega
    rw [this] at h
    simp only [seqWith] at h
    split at h
    · cases h
    · rename_i v r1 h1
      split at h
      · cases h
      · rename_i vs' r2 h2
        injection h with h; injection h with _ h4; subst h4
        obtain ⟨vs1, mid, vs2, g1, g2⟩ := ih _ _ _ _ h2
        exact ⟨v :: vs1, mid, vs2, by simp only [seqWith, h1, g1], g2⟩

theorem map_extent {f : List Nat → Except DErr (MVal × List Nat)} (hf : Local f)
    (L : Nat) (hL : L ≠ 0)
    (hlt : ∀ bs v rest, f bs = .ok (v, rest) → rest.length < bs.length)
    (hC : ∀ bs v rest, f bs = .ok (v, rest) →
      nextValueSize bs (L - 1) = .ok (bs.length - rest.length))
    {n : Nat} {seq : List Nat} {kvs : List (MVal × MVal)} {rest : List Nat}
    (h : pairsWith f n seq = .ok (kvs, rest)) :
    totalMapSize seq n L = .ok (seq.length - rest.length) := by
  obtain ⟨vs, hvs⟩ := pairs_to_seq _ _ _ _ h
  obtain ⟨vs1, mid, vs2, g1, g2⟩ := seq_split _ _ _ _ _ hvs
  obtain ⟨hle1, hd1⟩ := (seqWith_local hf n).suffix g1
  obtain ⟨hle2, _⟩ := (seqWith_local hf n).suffix g2
  rw [totalMapSize.eq_def, seq_extent hf L hL hlt hC g1]
  simp only [sliceFrom, Nat.sub_le, ↓reduceIte, hd1, seq_extent hf L hL hlt hC g2]
  congr 1; omega



theorem tryReadLength_cons {b : Nat} {t : List Nat} {w : Nat} {x r : List Nat}
    (hr : readN w t = .ok (x, r)) : tryReadLength (b :: t) w = .ok (beNat x) := by
  unfold readN at hr
  split at hr
  · rename_i hw
    injection hr with hr; injection hr with h1 _; subst h1
    unfold tryReadLength
    have h1 : 1 + w ≤ (b :: t).length := by simp; omega
    have h2 : (List.take w (List.drop 1 (b :: t))).length = w := by
      simp [List.length_take]; omega
    simp only [h1, h2, ↓reduceIte]
    simp
  · cases hr

theorem readN_len {n : Nat} {bs x r : List Nat} (h : readN n bs = .ok (x, r)) :
    n ≤ bs.length ∧ r = bs.drop n ∧ r.length = bs.length - n := by
  unfold readN at h
  split at h
  · rename_i hn
    injection h with h; injection h with _ h2; subst h2
    exact ⟨hn, rfl, by simp⟩
  · cases h

def ExtentAt (ext : Bool) (d : Nat) : Prop :=
  ∀ L, d ≤ L → 1 ≤ L → ∀ bs v rest, decodeG ext d bs = .ok (v, rest) →
    nextValueSize bs L = .ok (bs.length - rest.length)

theorem extent_step (ext : Bool) (d : Nat) (ih : ∀ d', d' < d → ExtentAt ext d') :
    ExtentAt ext d := by
  intro L hdL hL bs v rest h
  have hL0 : L ≠ 0 := by omega
  unfold decodeG at h
  split at h
  · cases h
  · rename_i b t
    rw [nextValueSize.eq_def]
    simp only [hL0, ↓reduceIte, classify_eq_clsOf]
    unfold header at h
    cases hlay : layout (Marker.ofByte b) with
    | reserved => simp only [hlay] at h; cases h
    | imm hd =>
      simp only [hlay] at h
      cases hd with
      | scalar v' =>
        simp only at h
        injection h with h; injection h with _ h2; subst h2
        simp [clsOf]
      | str n =>
        simp only at h
        split at h
        · cases h
        · rename_i s r' hr
          injection h with h; injection h with _ h2; subst h2
          obtain ⟨g1, _, g3⟩ := readN_len hr
          simp only [clsOf, List.length_cons, g3]
          rw [if_pos (by omega)]; congr 1; omega
      | bin n =>
        simp only at h
        split at h
        · cases h
        · rename_i s r' hr
          injection h with h; injection h with _ h2; subst h2
          obtain ⟨g1, _, g3⟩ := readN_len hr
          simp only [clsOf, List.length_cons, g3]
          rw [if_pos (by omega)]; congr 1; omega
      | ext n =>
        simp only at h
        split at h
        · cases h
        · rename_i d'
          split at h
          · cases h
          · split at h
            · split at h
              · cases h
              · rename_i ty r1 hr1
                split at h
                · cases h
                · rename_i s r2 hr2
                  injection h with h; injection h with _ h2; subst h2
                  obtain ⟨g1, _, g3⟩ := readN_len hr1
                  obtain ⟨g4, _, g6⟩ := readN_len hr2
                  simp only [clsOf, List.length_cons, g6, g3]
                  rw [if_pos (by omega)]; congr 1; omega
            · cases h
      | arr n =>
        simp only at h
        split at h
        · cases h
        · rename_i d'
          split at h
          · cases h
          · rename_i hd'
            split at h
            · cases h
            · rename_i vs r' hs
              injection h with h; injection h with _ h2; subst h2
              have hloc := decodeG_local ext d'
              have hle := ((seqWith_local hloc n).suffix hs).1
              have hC := ih d' (by omega) (L - 1) (by omega) (by omega)
              have hx := seq_extent hloc L hL0 (decodeG_lt ext d') hC hs
              simp only [clsOf, sliceFrom, List.length_cons, List.drop_succ_cons, List.drop_zero,
                Nat.le_add_left, ↓reduceIte, hx]
              rw [if_pos (by omega)]; congr 1; omega
      | map n =>
        simp only at h
        split at h
        · cases h
        · rename_i d'
          split at h
          · cases h
          · rename_i hd'
            split at h
            · cases h
            · rename_i vs r' hs
              injection h with h; injection h with _ h2; subst h2
              have hloc := decodeG_local ext d'
              have hle := ((pairsWith_local hloc n).suffix hs).1
              have hC := ih d' (by omega) (L - 1) (by omega) (by omega)
              have hx := map_extent hloc L hL0 (decodeG_lt ext d') hC hs
              simp only [clsOf, sliceFrom, List.length_cons, List.drop_succ_cons, List.drop_zero,
                Nat.le_add_left, ↓reduceIte, hx]
              rw [if_pos (by omega)]; congr 1; omega
    | data k kind =>
      simp only [hlay] at h
      cases hr : readN k t with
      | error e => simp only [hr] at h; cases h
      | ok p =>
        obtain ⟨x, r⟩ := p
        simp only [hr] at h
        injection h with h; injection h with _ h2; subst h2
        obtain ⟨g1, _, g3⟩ := readN_len hr
        simp only [clsOf, List.length_cons, g3]
        rw [if_pos (by omega)]; congr 1; omega
    | len w kind =>
      simp only [hlay] at h
      cases hr : readN w t with
      | error e => simp only [hr] at h; cases h
      | ok p =>
        obtain ⟨x, r⟩ := p
        simp only [hr] at h
        obtain ⟨g1, g2, g3⟩ := readN_len hr
        have htr := tryReadLength_cons (b := b) hr
        cases kind with
        | str =>
          simp only [mkHdr] at h
          split at h
          · cases h
          · rename_i s r' hr'
            injection h with h; injection h with _ h2; subst h2
            obtain ⟨g4, _, g6⟩ := readN_len hr'
            simp only [clsOf, htr, List.length_cons, g6, g3]
            rw [if_pos (by omega)]; congr 1; omega
        | bin =>
          simp only [mkHdr] at h
          split at h
          · cases h
          · rename_i s r' hr'
            injection h with h; injection h with _ h2; subst h2
            obtain ⟨g4, _, g6⟩ := readN_len hr'
            simp only [clsOf, htr, List.length_cons, g6, g3]
            rw [if_pos (by omega)]; congr 1; omega
        | ext =>
          simp only [mkHdr] at h
          split at h
          · cases h
          · rename_i d'
            split at h
            · cases h
            · split at h
              · split at h
                · cases h
                · rename_i ty r1 hr1
                  split at h
                  · cases h
                  · rename_i s r2 hr2
                    injection h with h; injection h with _ h2; subst h2
                    obtain ⟨g4, _, g6⟩ := readN_len hr1
                    obtain ⟨g7, _, g9⟩ := readN_len hr2
                    simp only [clsOf, htr, List.length_cons, g9, g6, g3]
                    rw [if_pos (by omega)]; congr 1; omega
              · cases h
        | arr =>
          simp only [mkHdr] at h
          split at h
          · cases h
          · rename_i d'
            split at h
            · cases h
            · rename_i hd'
              split at h
              · cases h
              · rename_i vs r' hs
                injection h with h; injection h with _ h2; subst h2
                have hloc := decodeG_local ext d'
                have hle := ((seqWith_local hloc _).suffix hs).1
                have hC := ih d' (by omega) (L - 1) (by omega) (by omega)
                have hx := seq_extent hloc L hL0 (decodeG_lt ext d') hC hs
                have hdrop : List.drop (1 + w) (b :: t) = r := by
                  rw [g2, Nat.add_comm]; rfl
                have hsl : 1 + w ≤ (b :: t).length := by simp only [List.length_cons]; omega
                simp only [clsOf, htr, sliceFrom, hsl, ↓reduceIte, hdrop, hx]
                simp only [List.length_cons]
                rw [if_pos (by omega)]; congr 1; omega
        | map =>
          simp only [mkHdr] at h
          split at h
          · cases h
          · rename_i d'
            split at h
            · cases h
            · rename_i hd'
              split at h
              · cases h
              · rename_i vs r' hs
                injection h with h; injection h with _ h2; subst h2
                have hloc := decodeG_local ext d'
                have hle := ((pairsWith_local hloc _).suffix hs).1
                have hC := ih d' (by omega) (L - 1) (by omega) (by omega)
                have hx := map_extent hloc L hL0 (decodeG_lt ext d') hC hs
                have hdrop : List.drop (1 + w) (b :: t) = r := by
                  rw [g2, Nat.add_comm]; rfl
                have hsl : 1 + w ≤ (b :: t).length := by simp only [List.length_cons]; omega
                simp only [clsOf, htr, sliceFrom, hsl, ↓reduceIte, hdrop, hx]
                simp only [List.length_cons]
                rw [if_pos (by omega)]; congr 1; omega

theorem extentAt (ext : Bool) (d : Nat) : ExtentAt ext d := by
  induction d using Nat.strongRecOn with
  | _ d ih => exact extent_step ext d ih


/-! ## The slice loop and the reader loop -/

theorem readerLoop_nil (ext : Bool) (d : Nat) : readerLoop ext d [] = ([], .ok) := by
  rw [readerLoop.eq_def]; simp

theorem readerLoop_ok (ext : Bool) (d : Nat) {bs : List Nat} {v : MVal} {rest : List Nat}
    (h : decodeG ext d bs = .ok (v, rest)) :
    readerLoop ext d bs = (v :: (readerLoop ext d rest).1, (readerLoop ext d rest).2) := by
  have hne : bs.isEmpty = false := by
    cases bs with
    | nil => unfold decodeG at h; cases h
    | cons _ _ => rfl
  rw [readerLoop.eq_def]
  simp only [hne, Bool.false_eq_true, ↓reduceIte]
  split
  · rename_i e he; rw [h] at he; cases he
  · rename_i v' rest' he; rw [h] at he; injection he with he; injection he with h1 h2
    subst h1; subst h2; rfl

theorem readerLoop_err (ext : Bool) (d : Nat) {bs : List Nat} {e : DErr}
    (hne : bs ≠ []) (h : decodeG ext d bs = .error e) :
    readerLoop ext d bs = ([], .decErr e) := by
  have hne' : bs.isEmpty = false := by
    cases bs with
    | nil => exact absurd rfl hne
    | cons _ _ => rfl
  rw [readerLoop.eq_def]
  simp only [hne', Bool.false_eq_true, ↓reduceIte]
  split
  · rename_i e' he; rw [h] at he; injection he with he; subst he; rfl
  · rename_i v' rest' he; rw [h] at he; cases he


theorem sliceLoop_nil (ext : Bool) (l d : Nat) : sliceLoop ext l d [] = ([], .ok) := by
  rw [sliceLoop.eq_def]; simp

theorem sliceLoop_cons (ext : Bool) (l d : Nat) {rest : List Nat} (hne : rest ≠ []) :
    sliceLoop ext l d rest =
      match nextValueSize rest l with
      | .ok n =>
        if n ≤ rest.length then
          match decodeG ext d (rest.take n) with
          | .error e => ([], .decErr e)
          | .ok (v, _) =>
            (v :: (sliceLoop ext l d (rest.drop n)).1, (sliceLoop ext l d (rest.drop n)).2)
        else ([], .panicSplitAt)
      | e => ([], .sizeErr e) := by
  have hne' : rest.isEmpty = false := by
    cases rest with
    | nil => exact absurd rfl hne
    | cons _ _ => rfl
  rw [sliceLoop.eq_def]
  simp only [hne', Bool.false_eq_true, ↓reduceIte]
  cases hs : nextValueSize rest l with
  | ok n =>
    simp only
    by_cases hn : n ≤ rest.length
    · simp only [hn, ↓reduceIte]
      split
      · rename_i e he; simp only [he]
      · rename_i v lo he; simp only [he]
    · simp only [hn, ↓reduceIte]
  | truncated => rfl
  | invalidMarker => rfl
  | depthExceeded => rfl
  | panic s => rfl

/-- The two arms of `msgpack::transcode` translate the same documents and end
with the same verdict, for every input. -/
theorem loops_agree (ext : Bool) (l d : Nat) (hdl : d ≤ l) (hl : 1 ≤ l) (bs : List Nat) :
    (sliceLoop ext l d bs).1 = (readerLoop ext d bs).1 ∧
    ((sliceLoop ext l d bs).2 = .ok ↔ (readerLoop ext d bs).2 = .ok) ∧
    (sliceLoop ext l d bs).2 ≠ .panicSplitAt ∧
    (∀ s, (sliceLoop ext l d bs).2 ≠ .sizeErr (.panic s)) := by
  induction hlen : bs.length using Nat.strongRecOn generalizing bs with
  | _ k ih =>
    cases bs with
    | nil => simp [sliceLoop_nil, readerLoop_nil]
    | cons b t =>
      have hne : (b :: t) ≠ [] := by simp
      cases hdec : decodeG ext d (b :: t) with
      | error e =>
        rw [readerLoop_err ext d hne hdec, sliceLoop_cons ext l d hne]
        cases hs : nextValueSize (b :: t) l with
        | ok n =>
          have hn := (safeAt l (b :: t)).2 n hs
          simp only [hn, ↓reduceIte]
          cases hd2 : decodeG ext d (List.take n (b :: t)) with
          | error e' => simp
          | ok p =>
            obtain ⟨v', lo⟩ := p
            exfalso
            obtain ⟨u, e1, g⟩ := decodeG_local ext d _ _ _ hd2
            have := g (lo ++ List.drop n (b :: t))
            rw [← List.append_assoc, ← e1, List.take_append_drop, hdec] at this
            cases this
        | truncated => simp
        | invalidMarker => simp
        | depthExceeded => simp
        | panic s => exact absurd hs ((safeAt l (b :: t)).1 s)
      | ok p =>
        obtain ⟨v, rest⟩ := p
        have hsz := extentAt ext d l hdl hl _ _ _ hdec
        have hlt := decodeG_lt ext d _ _ _ hdec
        obtain ⟨u, e1, g⟩ := decodeG_local ext d _ _ _ hdec
        have hn : (b :: t).length - rest.length = u.length := by rw [e1]; simp
        have htake : List.take u.length (b :: t) = u := by rw [e1]; exact List.take_left' rfl
        have hdrop : List.drop u.length (b :: t) = rest := by rw [e1]; exact List.drop_left' rfl
        have hdu : decodeG ext d u = .ok (v, []) := by simpa using g []
        have hule : u.length ≤ (b :: t).length := by rw [e1]; simp
        rw [readerLoop_ok ext d hdec, sliceLoop_cons ext l d hne, hsz, hn]
        simp only [hule, ↓reduceIte, htake, hdu, hdrop]
        obtain ⟨i1, i2, i3, i4⟩ := ih rest.length (by omega) rest rfl
        exact ⟨by rw [i1], i2, i3, i4⟩

end Xt.Msgpack
