import XtModel.Model.Translate
import XtModel.Lemmas.Input
import XtModel.Lemmas.Json
import XtModel.Lemmas.Msgpack

/-!
Lemmas about `Model/Translate.lean`: what a run of requests (`pull`) does to the
capture reader, that every trial keeps the handle invariant of
`Lemmas/Input.lean`, what `Input::from(handle)` yields under it, and that
`detectOn` is the decision list.
-/
namespace Xt.Translate
open Xt.Input Xt.Detect

/-! ## One `read` on a source without a fault -/

theorem consumed_length {orig : List Nat} {c : Cap} (h : Inv orig c) : c.consumed.length = c.pos := by
  simp only [Cap.consumed, List.length_take]
  have := h.pos
  omega

theorem pre_length_le {orig : List Nat} {c : Cap} (h : Inv orig c) : c.pre.length ≤ orig.length := by
  have := h.data
  rw [← this]
  simp

/-- A `read` with a non-empty buffer on a source that has no fault offset. -/
theorem read_step {orig : List Nat} {c c' : Cap} {n : Nat} {r : Res (List Nat)}
    (h : Inv orig c) (hnf : c.src.failAt = none) (hn : n ≠ 0)
    (hend : c.eof = true → c.pos = c.pre.length)
    (hr : c.read n = (r, c')) :
    ∃ bs, r = .ok bs ∧ Inv orig c' ∧ c'.src.failAt = none ∧ c'.pos = c.pos + bs.length ∧
      bs.length ≤ n ∧ c.pre <+: c'.pre ∧ c'.pre.length = max c.pre.length c'.pos ∧
      (bs = [] → c'.eof = true ∧ c.pos = orig.length) ∧
      (c'.eof = true → c'.pos = c'.pre.length ∧ (c.eof = false → bs.length < n)) ∧
      (c'.eof = false → c.eof = false) := by
  obtain ⟨s1, s2, s3, s4, s5, s6⟩ := Cap.read_spec h hr
  have hnf' : c'.src.failAt = none := by rw [s3]; exact hnf
  cases r with
  | panic s => exact absurd rfl (s6 s)
  | err e =>
    obtain ⟨_, _, hf, _, _⟩ := s5 e rfl
    have := Source.faulted_of_failAt_none _ hnf'
    rw [this] at hf
    simp at hf
  | ok bs =>
    obtain ⟨q1, q2, q3⟩ := s4 bs rfl
    have hl1 := consumed_length h
    have hl2 := consumed_length s1
    have hpos : c'.pos = c.pos + bs.length := by
      have := congrArg List.length q1
      simp only [List.length_append] at this
      omega
    -- now the details that `read_spec` does not state: unfold once more
    obtain ⟨hd, hp, he⟩ := h
    unfold Cap.read at hr
    have hu : c.unread = some (c.pre.length - c.pos) := by simp [Cap.unread, hp]
    rw [hu] at hr
    dsimp only at hr
    have hk : min n (c.pre.length - c.pos) ≤ n := Nat.min_le_left _ _
    have hk2 : min n (c.pre.length - c.pos) ≤ c.pre.length - c.pos := Nat.min_le_right _ _
    rw [if_neg (by omega), if_neg (by omega)] at hr
    generalize hkk : min n (c.pre.length - c.pos) = k at hr hk hk2
    have hu2 : Cap.unread { c with pos := c.pos + k } = some (c.pre.length - (c.pos + k)) := by
      simp only [Cap.unread]; rw [if_pos (by omega)]
    rw [hu2] at hr
    dsimp only at hr
    split at hr
    · -- served from the captured prefix
      rename_i hcond
      simp only [Prod.mk.injEq, Res.ok.injEq] at hr
      obtain ⟨hbs, rfl⟩ := hr
      have hbl : bs.length = k := by
        rw [← hbs]; simp only [List.length_take, List.length_drop]; omega
      refine ⟨bs, rfl, s1, hnf', hpos, q2, s2, ?_, ?_, ?_, ?_⟩
      · simp only; omega
      · intro hb
        rw [hb] at hbl
        simp only [List.length_nil] at hbl
        -- k = 0 with n ≠ 0 means nothing unread and k = n is impossible
        omega
      · intro he'
        simp only at he'
        have := hend he'
        constructor
        · simp only; omega
        · intro hce; rw [hce] at he'; simp at he'
      · intro he'; simpa using he'
    · rename_i hcond
      have hend' : c.pos + k = c.pre.length := by omega
      rw [if_neg (by omega)] at hr
      split at hr
      · simp at hr
      · rename_i sb s' hs
        obtain ⟨h1, h2, h3, _, h5, _⟩ := Source.read_ok _ _ _ _ hs
        rw [if_neg (by omega)] at hr
        simp only [Prod.mk.injEq, Res.ok.injEq] at hr
        obtain ⟨hbs, rfl⟩ := hr
        rw [hend', cursorWrite_end] at *
        have hbl : bs.length = k + sb.length := by
          rw [← hbs]; simp only [List.length_append, List.length_take, List.length_drop]; omega
        refine ⟨bs, rfl, s1, hnf', hpos, q2, s2, ?_, ?_, ?_, ?_⟩
        · simp only [List.length_append]; omega
        · intro hb
          rw [hb] at hbl
          simp only [List.length_nil] at hbl
          have hsb : sb = [] := List.eq_nil_of_length_eq_zero (by omega)
          refine ⟨by simp [hsb], ?_⟩
          have hdata := h5 hsb (by omega)
          have : c.pre.length = orig.length := by
            rw [← hd, ← h1, hsb, hdata]; simp
          omega
        · intro he'
          simp only [List.isEmpty_iff] at he'
          subst he'
          simp only [List.length_nil, Nat.add_zero] at hbl
          constructor
          · simp
          · intro _; omega
        · intro he'
          simp only [List.isEmpty_eq_false_iff] at he'
          cases hce : c.eof with
          | false => rfl
          | true =>
            have := he hce
            rw [← h1] at this
            simp at this
            exact absurd this.1 he'

/-! ## A run of requests -/

theorem request_pos (chunk want : Nat) (hw : want ≠ 0) :
    request chunk want ≠ 0 ∧ request chunk want ≤ want := by
  unfold request
  split
  · exact ⟨hw, Nat.le_refl _⟩
  · constructor <;> omega

/-- For EVERY source (schedule, fault or not), request size and demand: a run of
requests keeps the capture invariant, only adds to what is captured, reaches no
panic site, and fails only at the source's fault. -/
theorem pull_inv (orig : List Nat) (chunk : Nat) (c : Cap) (want : Nat) (h : Inv orig c) :
    Inv orig (pull chunk c want).cap ∧ c.pre <+: (pull chunk c want).cap.pre ∧
    (pull chunk c want).cap.src.failAt = c.src.failAt ∧
    (∀ s, (pull chunk c want).fin ≠ .panic s) ∧
    (∀ e, (pull chunk c want).fin = .err e → (pull chunk c want).cap.src.faulted = true) := by
  fun_induction pull chunk c want with
  | case1 c => exact ⟨h, List.prefix_refl _, rfl, by simp, by simp⟩
  | case2 c want hw c' hr =>
    obtain ⟨s1, s2, s3, _⟩ := Cap.read_spec h hr
    exact ⟨s1, s2, s3, by simp, by simp⟩
  | case3 c want hw b bs c' hr r ih =>
    obtain ⟨s1, s2, s3, _⟩ := Cap.read_spec h hr
    obtain ⟨i1, i2, i3, i4, i5⟩ := ih s1
    exact ⟨i1, List.IsPrefix.trans s2 i2, by rw [i3, s3], i4, i5⟩
  | case4 c want hw e c' hr =>
    obtain ⟨s1, s2, s3, _, s5, _⟩ := Cap.read_spec h hr
    exact ⟨s1, s2, s3, by simp, fun _ _ => (s5 e rfl).2.2.1⟩
  | case5 c want hw s c' hr =>
    obtain ⟨_, _, _, _, _, s6⟩ := Cap.read_spec h hr
    exact absurd rfl (s6 s)

/-- On a source without a fault offset, for every read schedule and every
request size: a run of requests for `want` bytes from replay position `pos`
delivers them all iff the input has that many left; then exactly
`max captured (pos + want)` bytes are captured and `source_eof` is unchanged.
Otherwise the run ends with a request answered "end of input", everything is
captured and `source_eof` is set. -/
theorem pull_spec (orig : List Nat) (chunk : Nat) (c : Cap) (want : Nat) (h : Inv orig c)
    (hnf : c.src.failAt = none) (hend : c.eof = true → c.pos = c.pre.length) :
    (want ≤ orig.length - c.pos →
      (pull chunk c want).fin = .full ∧ (pull chunk c want).cap.pos = c.pos + want ∧
      (pull chunk c want).cap.eof = c.eof ∧
      (pull chunk c want).cap.pre.length = max c.pre.length (c.pos + want)) ∧
    (orig.length - c.pos < want →
      (pull chunk c want).fin = .eof ∧ (pull chunk c want).cap.eof = true ∧
      (pull chunk c want).cap.pre = orig) := by
  fun_induction pull chunk c want with
  | case1 c =>
    have := h.pos
    refine ⟨fun _ => ⟨rfl, rfl, rfl, ?_⟩, fun hlt => by omega⟩
    simp only [Nat.add_zero]; omega
  | case2 c want hw c' hr =>
    obtain ⟨hn0, hnle⟩ := request_pos chunk want hw
    obtain ⟨bs, hbs, s1, _, _, _, _, _, s8, _, _⟩ := read_step h hnf hn0 hend hr
    simp only [Res.ok.injEq] at hbs
    subst hbs
    obtain ⟨e1, e2⟩ := s8 rfl
    refine ⟨fun hle => by omega, fun _ => ⟨rfl, e1, s1.eof_pre e1⟩⟩
  | case3 c want hw b bs c' hr r ih =>
    obtain ⟨hn0, hnle⟩ := request_pos chunk want hw
    obtain ⟨bs', hbs, s1, s2, s3, s4, s5, s6, _, s9, s10⟩ := read_step h hnf hn0 hend hr
    simp only [Res.ok.injEq] at hbs
    subst hbs
    simp only [List.length_cons] at s3 s4 s9
    obtain ⟨ih1, ih2⟩ := ih s1 s2 (fun he => (s9 he).1)
    have hpl := pre_length_le s1
    have hpos' := s1.pos
    constructor
    · intro hle
      obtain ⟨j1, j2, j3, j4⟩ := ih1 (by omega)
      refine ⟨j1, by rw [j2, s3]; omega, ?_, ?_⟩
      · rw [j3]
        cases hce' : c'.eof with
        | false => exact (s10 hce').symm
        | true =>
          cases hce : c.eof with
          | true => rfl
          | false =>
            exfalso
            obtain ⟨p1, p2⟩ := s9 hce'
            have := p2 hce
            have hpre : c'.pre = orig := s1.eof_pre hce'
            rw [hpre] at p1
            omega
      · rw [j4, s6, s3]; omega
    · intro hlt
      exact ih2 (by omega)
  | case4 c want hw e c' hr =>
    obtain ⟨hn0, _⟩ := request_pos chunk want hw
    obtain ⟨bs, hbs, _⟩ := read_step h hnf hn0 hend hr
    simp at hbs
  | case5 c want hw s c' hr =>
    obtain ⟨hn0, _⟩ := request_pos chunk want hw
    obtain ⟨bs, hbs, _⟩ := read_step h hnf hn0 hend hr
    simp at hbs

/-! ## The handle invariant through the trials -/

/-- The fault offset of the input's source (`none` for a slice). -/
def Src.fa : Src → Option Nat
  | .slice _ => none
  | .reader s => s.failAt

/-- The invariant of `Lemmas/Input.lean` lifted to handles: a slice handle is
the input; a reader handle satisfies the capture invariant for it. -/
def HInv (orig : List Nat) (fa : Option Nat) : Handle → Prop
  | .slice bs => bs = orig
  | .reader c => Inv orig c ∧ c.src.failAt = fa

theorem HInv.ofSrc (src : Src) : HInv src.bytes src.fa src.handle := by
  cases src with
  | slice bs => rfl
  | reader s => exact ⟨Inv.new s, rfl⟩

/-- In slice mode the slice view is the input. -/
theorem HInv.sliceView {orig : List Nat} {fa : Option Nat} {h : Handle} (hi : HInv orig fa h)
    (hs : sliceMode h = true) : h.sliceView = orig := by
  cases h with
  | slice bs => exact hi
  | reader c => exact hi.1.eof_pre hs

theorem borrow_slice (bs : List Nat) : (Handle.slice bs).borrow = (.slice, .slice bs) := rfl

theorem borrow_reader (c : Cap) :
    (Handle.reader c).borrow = (if c.eof then RefK.slice else RefK.reader, Handle.reader c.rewind) := rfl

/-- What every trial does with the handle. -/
structure Keeps (T : Handle → Step × Handle) : Prop where
  /-- the invariant is kept -/
  inv : ∀ orig fa h, HInv orig fa h → HInv orig fa (T h).2
  /-- no panic site of the handle is reached -/
  noPanic : ∀ orig fa h, HInv orig fa h → ∀ s, (T h).1 ≠ .panic s
  /-- slice mode is never left -/
  mode : ∀ orig fa h, HInv orig fa h → sliceMode h = true → sliceMode (T h).2 = true
  /-- what is captured only grows -/
  grows : ∀ orig fa h, HInv orig fa h → captured h ≤ captured (T h).2

theorem eof_mono_captureUpToSize {orig : List Nat} {c : Cap} (h : Inv orig c) (n : Nat)
    (he : c.eof = true) : (c.captureUpToSize n).2.eof = true := by
  obtain ⟨_, _, _, _, s5, s6, s7⟩ :=
    Cap.captureUpToSize_spec (r := (c.captureUpToSize n).1) (c' := (c.captureUpToSize n).2) h rfl
  cases hres : (c.captureUpToSize n).1 with
  | ok u =>
    rcases (s5 hres).2 with h1 | h1
    · exact h1
    · rw [h1, he]
  | err e => rw [(s6 e hres).2.2, he]
  | panic s => exact absurd hres (s7 s)

theorem mpTrialWith_keeps (chunk : Nat) : Keeps (mpTrialWith chunk) := by
  have key : ∀ orig fa h, HInv orig fa h →
      HInv orig fa (mpTrialWith chunk h).2 ∧ (∀ s, (mpTrialWith chunk h).1 ≠ .panic s) ∧
      (sliceMode h = true → sliceMode (mpTrialWith chunk h).2 = true) ∧
      captured h ≤ captured (mpTrialWith chunk h).2 := by
    intro orig fa h hi
    cases h with
    | slice bs => exact ⟨hi, by simp [mpTrialWith, borrow_slice], fun _ => rfl, Nat.le_refl _⟩
    | reader c =>
      obtain ⟨hinv, hfa⟩ := hi
      have hr := hinv.rewind
      unfold mpTrialWith
      rw [borrow_reader]
      cases hce : c.eof with
      | true =>
        simp only [↓reduceIte]
        exact ⟨⟨hr, hfa⟩, by simp, fun _ => hce, Nat.le_refl _⟩
      | false =>
        simp only [Bool.false_eq_true, ↓reduceIte]
        cases hc : c.rewind.captureUpToSize 1 with
        | mk r c1 =>
          obtain ⟨s1, s2, s3, s4, s5, s6, s7⟩ := Cap.captureUpToSize_spec hr hc
          have hfa1 : c1.src.failAt = fa := by rw [s4]; exact hfa
          have hcap : c.pre.length ≤ c1.pre.length := s2.length_le
          cases r with
          | panic s => exact absurd rfl (s7 s)
          | err e =>
            exact ⟨⟨s1, hfa1⟩, by simp, fun hs => by simp [sliceMode, hce] at hs, hcap⟩
          | ok u =>
            simp only
            split
            · exact ⟨⟨s1, hfa1⟩, by simp, fun hs => by simp [sliceMode, hce] at hs, hcap⟩
            · split
              · obtain ⟨p1, p2, p3, p4, p5⟩ := pull_inv orig chunk c1 (mpDemand (c1.pre ++ c1.src.data)) s1
                have hfa2 : (pull chunk c1 (mpDemand (c1.pre ++ c1.src.data))).cap.src.failAt = fa := by
                  rw [p3]; exact hfa1
                have hcap2 : c.pre.length ≤
                    (pull chunk c1 (mpDemand (c1.pre ++ c1.src.data))).cap.pre.length :=
                  Nat.le_trans hcap p2.length_le
                split
                · rename_i s hs; exact absurd hs (p4 s)
                · exact ⟨⟨p1, hfa2⟩, by simp, fun hs => by simp [sliceMode, hce] at hs, hcap2⟩
                · exact ⟨⟨p1, hfa2⟩, by simp, fun hs => by simp [sliceMode, hce] at hs, hcap2⟩
              · exact ⟨⟨s1, hfa1⟩, by simp, fun hs => by simp [sliceMode, hce] at hs, hcap⟩
  exact ⟨fun o f h hi => (key o f h hi).1, fun o f h hi => (key o f h hi).2.1,
    fun o f h hi => (key o f h hi).2.2.1, fun o f h hi => (key o f h hi).2.2.2⟩

theorem jsonTrialWith_keeps (chunk : Nat) : Keeps (jsonTrialWith chunk) := by
  have key : ∀ orig fa h, HInv orig fa h →
      HInv orig fa (jsonTrialWith chunk h).2 ∧ (∀ s, (jsonTrialWith chunk h).1 ≠ .panic s) ∧
      (sliceMode h = true → sliceMode (jsonTrialWith chunk h).2 = true) ∧
      captured h ≤ captured (jsonTrialWith chunk h).2 := by
    intro orig fa h hi
    cases h with
    | slice bs => exact ⟨hi, by simp [jsonTrialWith, borrow_slice], fun _ => rfl, Nat.le_refl _⟩
    | reader c =>
      obtain ⟨hinv, hfa⟩ := hi
      have hr := hinv.rewind
      unfold jsonTrialWith
      rw [borrow_reader]
      cases hce : c.eof with
      | true =>
        simp only [↓reduceIte]
        exact ⟨⟨hr, hfa⟩, by simp, fun _ => hce, Nat.le_refl _⟩
      | false =>
        simp only [Bool.false_eq_true, ↓reduceIte]
        obtain ⟨p1, p2, p3, p4, p5⟩ :=
          pull_inv orig chunk c.rewind (jsonDemand (c.rewind.pre ++ c.rewind.src.data)) hr
        have hfa2 : (pull chunk c.rewind (jsonDemand (c.rewind.pre ++ c.rewind.src.data))).cap.src.failAt = fa := by
          rw [p3]; exact hfa
        have hcap : c.pre.length ≤
            (pull chunk c.rewind (jsonDemand (c.rewind.pre ++ c.rewind.src.data))).cap.pre.length :=
          p2.length_le
        split
        · rename_i s hs; exact absurd hs (p4 s)
        · exact ⟨⟨p1, hfa2⟩, by simp, fun hs => by simp [sliceMode, hce] at hs, hcap⟩
        · exact ⟨⟨p1, hfa2⟩, by simp, fun hs => by simp [sliceMode, hce] at hs, hcap⟩
  exact ⟨fun o f h hi => (key o f h hi).1, fun o f h hi => (key o f h hi).2.1,
    fun o f h hi => (key o f h hi).2.2.1, fun o f h hi => (key o f h hi).2.2.2⟩

theorem yamlTrialWith_keeps (chunk : Nat) (E : Ext) : Keeps (yamlTrialWith chunk E) := by
  have key : ∀ orig fa h, HInv orig fa h →
      HInv orig fa (yamlTrialWith chunk E h).2 ∧ (∀ s, (yamlTrialWith chunk E h).1 ≠ .panic s) ∧
      (sliceMode h = true → sliceMode (yamlTrialWith chunk E h).2 = true) ∧
      captured h ≤ captured (yamlTrialWith chunk E h).2 := by
    intro orig fa h hi
    cases h with
    | slice bs => exact ⟨hi, by simp [yamlTrialWith, borrow_slice], fun _ => rfl, Nat.le_refl _⟩
    | reader c =>
      obtain ⟨hinv, hfa⟩ := hi
      have hr := hinv.rewind
      unfold yamlTrialWith
      rw [borrow_reader]
      cases hce : c.eof with
      | true =>
        simp only [↓reduceIte]
        exact ⟨⟨hr, hfa⟩, by simp, fun _ => hce, Nat.le_refl _⟩
      | false =>
        simp only [Bool.false_eq_true, ↓reduceIte]
        cases hc : c.rewind.captureUpToSize 4 with
        | mk r c1 =>
          obtain ⟨s1, s2, s3, s4, s5, s6, s7⟩ := Cap.captureUpToSize_spec hr hc
          have hfa1 : c1.src.failAt = fa := by rw [s4]; exact hfa
          have hcap : c.pre.length ≤ c1.pre.length := s2.length_le
          cases r with
          | panic s => exact absurd rfl (s7 s)
          | err e => exact ⟨⟨s1, hfa1⟩, by simp, fun hs => by simp [sliceMode, hce] at hs, hcap⟩
          | ok u =>
            simp only
            obtain ⟨p1, p2, p3, p4, p5⟩ :=
              pull_inv orig chunk c1 (E.yamlReader (c1.pre ++ c1.src.data)).2 s1
            have hfa2 : (pull chunk c1 (E.yamlReader (c1.pre ++ c1.src.data)).2).cap.src.failAt = fa := by
              rw [p3]; exact hfa1
            have hcap2 : c.pre.length ≤
                (pull chunk c1 (E.yamlReader (c1.pre ++ c1.src.data)).2).cap.pre.length :=
              Nat.le_trans hcap p2.length_le
            split
            · rename_i s hs; exact absurd hs (p4 s)
            · exact ⟨⟨p1, hfa2⟩, by simp, fun hs => by simp [sliceMode, hce] at hs, hcap2⟩
            · exact ⟨⟨p1, hfa2⟩, by simp, fun hs => by simp [sliceMode, hce] at hs, hcap2⟩
  exact ⟨fun o f h hi => (key o f h hi).1, fun o f h hi => (key o f h hi).2.1,
    fun o f h hi => (key o f h hi).2.2.1, fun o f h hi => (key o f h hi).2.2.2⟩

theorem tomlTrialStep_keeps (E : Ext) : Keeps (tomlTrialStep E) := by
  have key : ∀ orig fa h, HInv orig fa h →
      HInv orig fa (tomlTrialStep E h).2 ∧ (∀ s, (tomlTrialStep E h).1 ≠ .panic s) ∧
      (sliceMode h = true → sliceMode (tomlTrialStep E h).2 = true) ∧
      captured h ≤ captured (tomlTrialStep E h).2 := by
    intro orig fa h hi
    cases h with
    | slice bs => exact ⟨hi, by simp [tomlTrialStep], fun _ => rfl, Nat.le_refl _⟩
    | reader c =>
      obtain ⟨hinv, hfa⟩ := hi
      have hr := hinv.rewind
      unfold tomlTrialStep tomlTrial
      rw [borrow_reader]
      cases hce : c.eof with
      | true =>
        simp only [↓reduceIte]
        exact ⟨⟨hr, hfa⟩, by simp, fun _ => hce, Nat.le_refl _⟩
      | false =>
        simp only [Bool.false_eq_true, ↓reduceIte]
        cases hc : c.rewind.captureUpToSize sizeCutoff with
        | mk r c1 =>
          obtain ⟨s1, s2, s3, s4, s5, s6, s7⟩ := Cap.captureUpToSize_spec hr hc
          have hfa1 : c1.src.failAt = fa := by rw [s4]; exact hfa
          have hcap : c.pre.length ≤ c1.pre.length := s2.length_le
          cases r with
          | panic s => exact absurd rfl (s7 s)
          | err e => exact ⟨⟨s1, hfa1⟩, by simp, fun hs => by simp [sliceMode, hce] at hs, hcap⟩
          | ok u => exact ⟨⟨s1, hfa1⟩, by simp, fun hs => by simp [sliceMode, hce] at hs, hcap⟩
  exact ⟨fun o f h hi => (key o f h hi).1, fun o f h hi => (key o f h hi).2.1,
    fun o f h hi => (key o f h hi).2.2.1, fun o f h hi => (key o f h hi).2.2.2⟩

/-! ## `Input::from(handle)` under the invariant -/

theorem faulted_isSome' (s : Source) (h : s.faulted = true) : s.failAt.isSome = true := by
  unfold Source.faulted at h
  split at h
  · rename_i k hk; simp [hk]
  · simp at h

/-- The reader of an `Input` taken from a handle that satisfies the invariant
delivers exactly the original bytes when read to its end, and fails only at the
source's fault. -/
theorem drain_ofHandle {orig : List Nat} {c : Cap} (h : Inv orig c) (r : InReader)
    (hr : Input.ofHandle (.reader c) = .reader r) (b : Nat) (hb : b ≠ 0) :
    ((drain r b).failed = false → (drain r b).bytes = orig) ∧
    ((drain r b).failed = true → c.src.failAt.isSome = true) ∧
    (drain r b).bytes <+: orig := by
  have hrw := h.rewind
  have hd := hrw.data
  simp only [Input.ofHandle] at hr
  split at hr
  · simp at hr
  · split at hr
    · rename_i hpe
      simp only [Input.reader.injEq] at hr
      subst hr
      obtain ⟨d1, d2, d3, d4⟩ := drain_spec (.bare c.rewind.src) b hb trivial
      simp only [List.isEmpty_iff] at hpe
      rw [hpe] at hd
      simp only [List.nil_append] at hd
      have hc : (InReader.bare c.rewind.src).content = orig := by
        simp only [InReader.content]; exact hd
      rw [hc] at d1
      refine ⟨?_, ?_, ?_⟩
      · intro hf
        have := (d3 hf).1
        rw [this] at d1
        simpa using d1
      · intro hf
        have := faulted_isSome' _ (d4 hf)
        rw [d2] at this
        exact this
      · rw [← d1]; exact List.prefix_append _ _
    · simp only [Input.reader.injEq] at hr
      subst hr
      obtain ⟨d1, d2, d3, d4⟩ :=
        drain_spec (.chain (some (c.rewind.pre, c.rewind.pos)) false c.rewind.src) b hb trivial
      have hc : (InReader.chain (some (c.rewind.pre, c.rewind.pos)) false c.rewind.src).content = orig := by
        simp only [InReader.content, Cap.rewind, List.drop_zero]
        simpa [Cap.rewind] using hd
      rw [hc] at d1
      refine ⟨?_, ?_, ?_⟩
      · intro hf
        have := (d3 hf).1
        rw [this] at d1
        simpa using d1
      · intro hf
        have := faulted_isSome' _ (d4 hf)
        rw [d2] at this
        exact this
      · rw [← d1]; exact List.prefix_append _ _

/-- **What the format module is given.**  Under the handle invariant, without a
source fault: the complete original input, as a slice iff the handle is in
slice mode (a slice input, or a reader whose source has reported its end), else
as a reader that delivers exactly those bytes and does not fail. -/
theorem seenOfHandle_spec {orig : List Nat} {h : Handle} (hi : HInv orig none h) :
    seenOfHandle h = if sliceMode h then .slice orig else .reader orig false := by
  cases h with
  | slice bs => simp [seenOfHandle, Input.ofHandle, sliceMode]; exact hi
  | reader c =>
    obtain ⟨hinv, hfa⟩ := hi
    cases hce : c.eof with
    | true =>
      have hp := hinv.eof_pre hce
      simp [seenOfHandle, Input.ofHandle, Cap.rewind, hce, sliceMode, hp]
    | false =>
      have hne : ∃ r, Input.ofHandle (.reader c) = .reader r := by
        simp only [Input.ofHandle, Cap.rewind, hce, Bool.false_eq_true, ↓reduceIte]
        split
        · exact ⟨_, rfl⟩
        · exact ⟨_, rfl⟩
      obtain ⟨r, hr⟩ := hne
      obtain ⟨d1, d2, _⟩ := drain_ofHandle hinv r hr drainBuf (by decide)
      have hnf : (drain r drainBuf).failed = false := by
        cases hf : (drain r drainBuf).failed with
        | false => rfl
        | true =>
          have := d2 hf
          rw [hfa] at this
          simp at this
      simp only [seenOfHandle, hr, sliceMode, hce, Bool.false_eq_true, ↓reduceIte, hnf, d1 hnf]

/-- With a source fault the statement weakens to: a slice is the complete
input; a reader delivers a prefix of it. -/
theorem seenOfHandle_prefix {orig : List Nat} {fa : Option Nat} {h : Handle} (hi : HInv orig fa h) :
    match seenOfHandle h with
    | .slice bs => bs = orig
    | .reader bs _ => bs <+: orig := by
  cases h with
  | slice bs => simp [seenOfHandle, Input.ofHandle]; exact hi
  | reader c =>
    obtain ⟨hinv, hfa⟩ := hi
    cases hce : c.eof with
    | true =>
      have hp := hinv.eof_pre hce
      simp [seenOfHandle, Input.ofHandle, Cap.rewind, hce, hp]
    | false =>
      have hne : ∃ r, Input.ofHandle (.reader c) = .reader r := by
        simp only [Input.ofHandle, Cap.rewind, hce, Bool.false_eq_true, ↓reduceIte]
        split
        · exact ⟨_, rfl⟩
        · exact ⟨_, rfl⟩
      obtain ⟨r, hr⟩ := hne
      obtain ⟨_, _, d3⟩ := drain_ofHandle hinv r hr drainBuf (by decide)
      simp only [seenOfHandle, hr]
      exact d3

/-! ## `detect_format` is the decision list, on one handle -/

theorem decided_panic {f : Fmt} {st : Step} {s : Site} (h : decided f st = some (.panic s)) :
    st = .panic s := by
  cases st with
  | panic s' => simp [decided] at h; rw [h]
  | answer t => cases t <;> simp [decided] at h

/-- `detectOn` keeps the handle invariant and reaches no panic site, for every
source (schedule, fault or not) and every behaviour of the YAML / TOML parsers. -/
theorem detectOn_keeps (E : Ext) (orig : List Nat) (fa : Option Nat) (h : Handle)
    (hi : HInv orig fa h) :
    HInv orig fa (detectOn E h).2 ∧ (∀ s, (detectOn E h).1 ≠ .panic s) ∧
    captured h ≤ captured (detectOn E h).2 := by
  have km := mpTrialWith_keeps mpChunk
  have kj := jsonTrialWith_keeps jsonChunk
  have ky := yamlTrialWith_keeps yamlChunk E
  have kt := tomlTrialStep_keeps E
  have i1 : HInv orig fa (mpTrial h).2 := km.inv _ _ _ hi
  have i2 : HInv orig fa (jsonTrial (mpTrial h).2).2 := kj.inv _ _ _ i1
  have i3 : HInv orig fa (yamlTrial E (jsonTrial (mpTrial h).2).2).2 := ky.inv _ _ _ i2
  have i4 : HInv orig fa (tomlTrialStep E (yamlTrial E (jsonTrial (mpTrial h).2).2).2).2 :=
    kt.inv _ _ _ i3
  have g1 : captured h ≤ captured (mpTrial h).2 := km.grows _ _ _ hi
  have g2 := kj.grows _ _ _ i1
  have g3 := ky.grows _ _ _ i2
  have g4 := kt.grows _ _ _ i3
  unfold detectOn
  simp only
  split
  · rename_i r hr
    refine ⟨i1, ?_, g1⟩
    intro s hs; simp only at hs; subst hs
    exact km.noPanic _ _ _ hi s (decided_panic hr)
  · split
    · rename_i r hr
      refine ⟨i2, ?_, Nat.le_trans g1 g2⟩
      intro s hs; simp only at hs; subst hs
      exact kj.noPanic _ _ _ i1 s (decided_panic hr)
    · split
      · rename_i r hr
        refine ⟨i3, ?_, Nat.le_trans g1 (Nat.le_trans g2 g3)⟩
        intro s hs; simp only at hs; subst hs
        exact ky.noPanic _ _ _ i2 s (decided_panic hr)
      · split
        · rename_i r hr
          refine ⟨i4, ?_, Nat.le_trans g1 (Nat.le_trans g2 (Nat.le_trans g3 g4))⟩
          intro s hs; simp only at hs; subst hs
          exact kt.noPanic _ _ _ i3 s (decided_panic hr)
        · exact ⟨i4, by simp, Nat.le_trans g1 (Nat.le_trans g2 (Nat.le_trans g3 g4))⟩

/-- **`detect_format` is the decision list of `Detect.detectFormat`** over the
answers of the four trials, each run on the handle as the previous one left it
(a trial behind the deciding one is not run; its answer does not matter). -/
theorem detectOn_decision (E : Ext) (h : Handle) (tm tj ty tt : Trial)
    (hm : (mpTrial h).1 = .answer tm)
    (hj : tm = .noMatch → (jsonTrial (mpTrial h).2).1 = .answer tj)
    (hy : tm = .noMatch → tj = .noMatch →
      (yamlTrial E (jsonTrial (mpTrial h).2).2).1 = .answer ty)
    (ht : tm = .noMatch → tj = .noMatch → ty = .noMatch →
      (tomlTrialStep E (yamlTrial E (jsonTrial (mpTrial h).2).2).2).1 = .answer tt) :
    (detectOn E h).1 = .det (detectFormat tm tj ty tt) := by
  unfold detectOn
  simp only [hm]
  cases tm with
  | matched => simp [decided, detectFormat, decideList]
  | ioErr => simp [decided, detectFormat, decideList]
  | noMatch =>
    simp only [decided, hj rfl]
    cases tj with
    | matched => simp [detectFormat, decideList]
    | ioErr => simp [detectFormat, decideList]
    | noMatch =>
      simp only [hy rfl rfl]
      cases ty with
      | matched => simp [detectFormat, decideList]
      | ioErr => simp [detectFormat, decideList]
      | noMatch =>
        simp only [ht rfl rfl rfl]
        cases tt <;> simp [detectFormat, decideList]

/-- Detection selects MessagePack exactly when the first trial matches; the
handle is then as that trial left it. -/
theorem detectOn_msgpack (E : Ext) (h : Handle) :
    ((detectOn E h).1 = .det (.fmt .msgpack) ↔ (mpTrial h).1 = .answer .matched) ∧
    ((mpTrial h).1 = .answer .matched → (detectOn E h).2 = (mpTrial h).2) := by
  unfold detectOn
  simp only
  cases hm : (mpTrial h).1 with
  | panic s => simp [decided]
  | answer tm =>
    cases tm with
    | matched => simp [decided]
    | ioErr => simp [decided]
    | noMatch =>
      simp only [decided]
      refine ⟨⟨fun hd => ?_, fun hd => by simp at hd⟩, fun hd => by simp at hd⟩
      exfalso
      revert hd
      cases (jsonTrial (mpTrial h).2).1 with
      | panic s => simp
      | answer tj =>
        cases tj with
        | matched => simp
        | ioErr => simp
        | noMatch =>
          cases (yamlTrial E (jsonTrial (mpTrial h).2).2).1 with
          | panic s => simp
          | answer ty =>
            cases ty with
            | matched => simp
            | ioErr => simp
            | noMatch =>
              cases (tomlTrialStep E (yamlTrial E (jsonTrial (mpTrial h).2).2).2).1 with
              | panic s => simp
              | answer tt => cases tt <;> simp

/-- Detection selects JSON exactly when the MessagePack trial declines and the
JSON trial, on the handle as the MessagePack trial left it, matches; the handle
is then as the JSON trial left it. -/
theorem detectOn_json (E : Ext) (h : Handle) :
    ((detectOn E h).1 = .det (.fmt .json) ↔
      (mpTrial h).1 = .answer .noMatch ∧ (jsonTrial (mpTrial h).2).1 = .answer .matched) ∧
    ((mpTrial h).1 = .answer .noMatch → (jsonTrial (mpTrial h).2).1 = .answer .matched →
      (detectOn E h).2 = (jsonTrial (mpTrial h).2).2) := by
  unfold detectOn
  simp only
  cases hm : (mpTrial h).1 with
  | panic s => simp [decided]
  | answer tm =>
    cases tm with
    | matched => simp [decided]
    | ioErr => simp [decided]
    | noMatch =>
      simp only [decided]
      cases hj : (jsonTrial (mpTrial h).2).1 with
      | panic s => simp
      | answer tj =>
        cases tj with
        | matched => simp
        | ioErr => simp
        | noMatch =>
          refine ⟨⟨fun hd => ?_, fun hd => by simp at hd⟩, fun _ hd => by simp at hd⟩
          exfalso
          revert hd
          cases (yamlTrial E (jsonTrial (mpTrial h).2).2).1 with
          | panic s => simp
          | answer ty =>
            cases ty with
            | matched => simp
            | ioErr => simp
            | noMatch =>
              cases (tomlTrialStep E (yamlTrial E (jsonTrial (mpTrial h).2).2).2).1 with
              | panic s => simp
              | answer tt => cases tt <;> simp

/-! ## `prefix(n)` on a source without a fault, exactly -/

/-- `capture_up_to_size(n)` without a source fault: it succeeds, leaves the
replay position alone, and either the input has `n` bytes — then exactly
`max captured n` are captured and `source_eof` is unchanged — or it has fewer —
then everything is captured and `source_eof` is set. -/
theorem captureUpToSize_exact {orig : List Nat} {c : Cap} (n : Nat) (h : Inv orig c)
    (hnf : c.src.failAt = none) :
    (c.captureUpToSize n).1 = .ok () ∧ (c.captureUpToSize n).2.pos = c.pos ∧
    (n ≤ orig.length →
      (c.captureUpToSize n).2.pre.length = max c.pre.length n ∧ (c.captureUpToSize n).2.eof = c.eof) ∧
    (orig.length < n → (c.captureUpToSize n).2.pre = orig ∧ (c.captureUpToSize n).2.eof = true) := by
  have hpl := pre_length_le h
  obtain ⟨hd, hp, he⟩ := h
  unfold Cap.captureUpToSize
  dsimp only
  split
  · rename_i hz
    refine ⟨rfl, rfl, fun _ => ⟨by simp only; omega, rfl⟩, fun hlt => by omega⟩
  · rename_i hz
    obtain ⟨t1, t2, t3, t4, t5⟩ := takeReadToEnd_spec c.src (n - c.pre.length)
    have hnofail : (takeReadToEnd c.src (n - c.pre.length)).failed = false := by
      cases hf : (takeReadToEnd c.src (n - c.pre.length)).failed with
      | false => rfl
      | true =>
        have := Source.faulted_of_failAt_none _ (by rw [t3]; exact hnf)
        rw [t4 hf] at this
        simp at this
    have hlen : c.pre.length + (takeReadToEnd c.src (n - c.pre.length)).bytes.length +
        (takeReadToEnd c.src (n - c.pre.length)).src.data.length = orig.length := by
      rw [← hd, ← t1]; simp; omega
    rw [if_neg (by simp [hnofail])]
    split
    · rename_i hl
      have hdata := t5 hnofail hl
      rw [hdata] at hlen t1
      simp only [List.length_nil, Nat.add_zero] at hlen
      simp only [List.append_nil] at t1
      refine ⟨rfl, rfl, fun hle => by omega, fun _ => ⟨?_, rfl⟩⟩
      simp only
      rw [t1, hd]
    · rename_i hl
      refine ⟨rfl, rfl, fun _ => ⟨?_, rfl⟩, fun hlt => by omega⟩
      simp only [List.length_append]
      omega

/-! ## The answers of the two concrete trials -/

theorem msgpackMatches_head (bs bs' : List Nat) (d : MsgpackRes) (h : bs.head? = bs'.head?) :
    msgpackMatches (.ok bs) d = msgpackMatches (.ok bs') d := by
  simp only [msgpackMatches, h]

theorem markerTest_high (b : Nat) (h : markerTest b = true) : 0x80 ≤ b := by
  by_cases hb : b ≤ 0x7f
  · exfalso
    simp [markerTest, Marker.fromU8, hb, Marker.isCollection] at h
  · omega

/-- A byte ≥ 0x80 does not start a JSON value: the JSON trial declines. -/
theorem trialReader_high (b : Nat) (t : List Nat) (hb : 0x80 ≤ b) :
    Json.trialReader (b :: t) = false := by
  have hws : Json.isWs b = false := by
    simp only [Json.isWs, Bool.or_eq_false_iff, decide_eq_false_iff_not]; omega
  have hcl : Json.classify b = .other := by
    unfold Json.classify Json.isDigit
    rw [if_neg (by omega), if_neg (by omega), if_neg (by omega), if_neg (by omega)]
    rw [if_neg (by simp only [Bool.and_eq_true, decide_eq_true_eq]; omega)]
    rw [if_neg (by omega), if_neg (by omega), if_neg (by omega)]
  simp [Json.trialReader, Json.ignoreValue, Json.igValue_eq, Json.skipWs, hws, hcl]

/-- **The MessagePack trial's answer**, on every handle that satisfies the
invariant for `orig` and has no source fault — a slice, a reader at any point of
any read schedule with any request size, or a reader that has turned into a
slice: the classification of the decoder's result on `orig`. -/
theorem mpTrialWith_answer (chunk : Nat) {orig : List Nat} {h : Handle} (hi : HInv orig none h) :
    (mpTrialWith chunk h).1 = .answer (msgpackMatches (.ok orig) (mpClass (mpDecode orig))) := by
  cases h with
  | slice bs =>
    have : bs = orig := hi
    subst this
    simp [mpTrialWith, borrow_slice, Handle.sliceView]
  | reader c =>
    obtain ⟨hinv, hfa⟩ := hi
    have hr := hinv.rewind
    unfold mpTrialWith
    rw [borrow_reader]
    cases hce : c.eof with
    | true =>
      have hp : c.rewind.pre = orig := hr.eof_pre hce
      simp only [↓reduceIte, Handle.sliceView, hp]
    | false =>
      simp only [Bool.false_eq_true, ↓reduceIte]
      obtain ⟨x1, x2, x3, x4⟩ := captureUpToSize_exact 1 hr hfa
      cases hc : c.rewind.captureUpToSize 1 with
      | mk r c1 =>
        rw [hc] at x1 x2 x3 x4
        simp only at x1 x2 x3 x4
        subst x1
        obtain ⟨s1, s2, _, s4, _⟩ := Cap.captureUpToSize_spec hr hc
        have hfa1 : c1.src.failAt = none := by rw [s4]; exact hfa
        have hdata : c1.pre ++ c1.src.data = orig := s1.data
        simp only
        cases hh : c1.pre.head? with
        | none =>
          have hpe : c1.pre = [] := by cases hcp : c1.pre with
            | nil => rfl
            | cons a as => rw [hcp] at hh; simp at hh
          have horig : orig = [] := by
            by_cases hl : 1 ≤ orig.length
            · have := (x3 hl).1
              rw [hpe] at this
              simp at this
              omega
            · have := (x4 (by omega)).1
              rw [← this, hpe]
          simp [horig, msgpackMatches]
        | some b =>
          have hoh : orig.head? = some b := by
            rw [← hdata]
            cases hcp : c1.pre with
            | nil => rw [hcp] at hh; simp at hh
            | cons a as => rw [hcp] at hh; simpa using hh
          simp only
          split
          · rename_i hmt
            obtain ⟨p1, p2, p3, p4, p5⟩ := pull_inv orig chunk c1 (mpDemand (c1.pre ++ c1.src.data)) s1
            have hne : ∀ e, (pull chunk c1 (mpDemand (c1.pre ++ c1.src.data))).fin ≠ .err e := by
              intro e he
              have := faulted_isSome' _ (p5 e he)
              rw [p3, hfa1] at this
              simp at this
            split
            · rename_i s hs; exact absurd hs (p4 s)
            · rename_i e he; exact absurd he (hne e)
            · rw [hdata]
              simp only
              rw [msgpackMatches_head c1.pre orig _ (by rw [hh, hoh])]
          · rename_i hmt
            simp [msgpackMatches, hoh, hmt]

/-- **The JSON trial's answer** under the same conditions: in reader mode the
classification of `ignore_value`'s result on `orig`; in slice mode the same
behind the up-front `str::from_utf8(orig)`. -/
theorem jsonTrialWith_answer (chunk : Nat) {orig : List Nat} {h : Handle} (hi : HInv orig none h) :
    (jsonTrialWith chunk h).1 = .answer
      (jsonMatches (if sliceMode h then .slice (Json.validUtf8 orig) else .reader) (jsonClass orig)) := by
  cases h with
  | slice bs =>
    have : bs = orig := hi
    subst this
    simp [jsonTrialWith, borrow_slice, Handle.sliceView, sliceMode]
  | reader c =>
    obtain ⟨hinv, hfa⟩ := hi
    have hr := hinv.rewind
    unfold jsonTrialWith
    rw [borrow_reader]
    cases hce : c.eof with
    | true =>
      have hp : c.rewind.pre = orig := hr.eof_pre hce
      simp only [↓reduceIte, Handle.sliceView, hp, sliceMode, hce]
    | false =>
      simp only [Bool.false_eq_true, ↓reduceIte, sliceMode, hce]
      have hdata : c.rewind.pre ++ c.rewind.src.data = orig := hr.data
      obtain ⟨p1, p2, p3, p4, p5⟩ :=
        pull_inv orig chunk c.rewind (jsonDemand (c.rewind.pre ++ c.rewind.src.data)) hr
      have hne : ∀ e, (pull chunk c.rewind (jsonDemand (c.rewind.pre ++ c.rewind.src.data))).fin ≠ .err e := by
        intro e he
        have := faulted_isSome' _ (p5 e he)
        rw [p3] at this
        have hfa' : c.rewind.src.failAt = none := hfa
        rw [hfa'] at this
        simp at this
      split
      · rename_i s hs; exact absurd hs (p4 s)
      · rename_i e he; exact absurd he (hne e)
      · rw [hdata]

/-! ## How far the two concrete trials read through a reader borrow -/

/-- The demand of the whole MessagePack trial: `prefix(1)`, and the decoder's
demand when the first byte is a collection marker. -/
def mpTrialDemand (orig : List Nat) : Nat :=
  match orig.head? with
  | some b => if markerTest b then max 1 (mpDemand orig) else 1
  | none => 1

/-- **What the MessagePack trial leaves in the handle**, for a reader borrow at
any point of any read schedule, with any request size, no source fault: if the
input has as many bytes as the trial demands, exactly `max captured demand`
bytes are captured afterwards and the handle stays a reader; if the trial
demands more than there is, everything is captured and the handle has become a
slice. -/
theorem mpTrialWith_extent (chunk : Nat) {orig : List Nat} {c : Cap} (hinv : Inv orig c)
    (hfa : c.src.failAt = none) (hce : c.eof = false) :
    (mpTrialDemand orig ≤ orig.length →
      captured (mpTrialWith chunk (.reader c)).2 = max c.pre.length (mpTrialDemand orig) ∧
      sliceMode (mpTrialWith chunk (.reader c)).2 = false) ∧
    (orig.length < mpTrialDemand orig →
      captured (mpTrialWith chunk (.reader c)).2 = orig.length ∧
      sliceMode (mpTrialWith chunk (.reader c)).2 = true) := by
  have hr := hinv.rewind
  unfold mpTrialWith
  rw [borrow_reader]
  simp only [hce, Bool.false_eq_true, ↓reduceIte]
  obtain ⟨x1, x2, x3, x4⟩ := captureUpToSize_exact 1 hr hfa
  cases hc : c.rewind.captureUpToSize 1 with
  | mk r c1 =>
    rw [hc] at x1 x2 x3 x4
    simp only at x1 x2 x3 x4
    subst x1
    obtain ⟨s1, s2, _, s4, _⟩ := Cap.captureUpToSize_spec hr hc
    have hfa1 : c1.src.failAt = none := by rw [s4]; exact hfa
    have hdata : c1.pre ++ c1.src.data = orig := s1.data
    have hpos1 : c1.pos = 0 := x2
    have hrw_pre : c.rewind.pre = c.pre := rfl
    have hrw_eof : c.rewind.eof = c.eof := rfl
    simp only
    cases hh : c1.pre.head? with
    | none =>
      have hpe : c1.pre = [] := by cases hcp : c1.pre with
        | nil => rfl
        | cons a as => rw [hcp] at hh; simp at hh
      have horig : orig = [] := by
        by_cases hl : 1 ≤ orig.length
        · have := (x3 hl).1
          rw [hpe] at this
          simp at this
          omega
        · have := (x4 (by omega)).1
          rw [← this, hpe]
      have he1 : c1.eof = true := (x4 (by rw [horig]; decide)).2
      have hd0 : mpTrialDemand orig = 1 := by rw [horig]; rfl
      have hl0 : orig.length = 0 := by rw [horig]; rfl
      refine ⟨fun hle => by omega, fun _ => ⟨?_, ?_⟩⟩
      · simp only [captured, hpe, hl0, List.length_nil]
      · simp only [sliceMode, he1]
    | some b =>
      have hne : 1 ≤ orig.length := by
        rw [← hdata]
        cases hcp : c1.pre with
        | nil => rw [hcp] at hh; simp at hh
        | cons a as => simp
      have hoh : orig.head? = some b := by
        rw [← hdata]
        cases hcp : c1.pre with
        | nil => rw [hcp] at hh; simp at hh
        | cons a as => rw [hcp] at hh; simpa using hh
      obtain ⟨y1, y2⟩ := x3 hne
      rw [hrw_pre] at y1
      rw [hrw_eof, hce] at y2
      simp only
      split
      · rename_i hmt
        have hdem : mpTrialDemand orig = max 1 (mpDemand orig) := by simp [mpTrialDemand, hoh, hmt]
        rw [hdata]
        obtain ⟨q1, q2⟩ := pull_spec orig chunk c1 (mpDemand orig) s1 hfa1
          (fun he => by rw [y2] at he; simp at he)
        rw [hpos1] at q1 q2
        simp only [Nat.sub_zero, Nat.zero_add] at q1 q2
        obtain ⟨p1, p2, p3, p4, p5⟩ := pull_inv orig chunk c1 (mpDemand orig) s1
        have hnoerr : ∀ e, (pull chunk c1 (mpDemand orig)).fin ≠ .err e := by
          intro e he
          have := faulted_isSome' _ (p5 e he)
          rw [p3, hfa1] at this
          simp at this
        have main :
            (mpTrialDemand orig ≤ orig.length →
              captured (Handle.reader (pull chunk c1 (mpDemand orig)).cap) =
                max c.pre.length (mpTrialDemand orig) ∧
              sliceMode (Handle.reader (pull chunk c1 (mpDemand orig)).cap) = false) ∧
            (orig.length < mpTrialDemand orig →
              captured (Handle.reader (pull chunk c1 (mpDemand orig)).cap) = orig.length ∧
              sliceMode (Handle.reader (pull chunk c1 (mpDemand orig)).cap) = true) := by
          simp only [captured, sliceMode]
          constructor
          · intro hle
            obtain ⟨_, _, z3, z4⟩ := q1 (by omega)
            rw [z4, z3, y1, y2, hdem]
            exact ⟨by omega, rfl⟩
          · intro hlt
            obtain ⟨_, z2, z3⟩ := q2 (by omega)
            rw [z3, z2]
            exact ⟨rfl, rfl⟩
        split <;> exact main
      · rename_i hmt
        have hdem : mpTrialDemand orig = 1 := by simp [mpTrialDemand, hoh, hmt]
        rw [hdem]
        refine ⟨fun _ => ⟨?_, ?_⟩, fun hlt => by omega⟩
        · simp only [captured, y1]
        · simp only [sliceMode, y2]

/-- **What the JSON trial leaves in the handle**, likewise: exactly
`max captured demand` bytes and still a reader when the input has `demand`
bytes; everything and a slice when the trial asks beyond the end. -/
theorem jsonTrialWith_extent (chunk : Nat) {orig : List Nat} {c : Cap} (hinv : Inv orig c)
    (hfa : c.src.failAt = none) (hce : c.eof = false) :
    (jsonDemand orig ≤ orig.length →
      captured (jsonTrialWith chunk (.reader c)).2 = max c.pre.length (jsonDemand orig) ∧
      sliceMode (jsonTrialWith chunk (.reader c)).2 = false) ∧
    (orig.length < jsonDemand orig →
      captured (jsonTrialWith chunk (.reader c)).2 = orig.length ∧
      sliceMode (jsonTrialWith chunk (.reader c)).2 = true) := by
  have hr := hinv.rewind
  unfold jsonTrialWith
  rw [borrow_reader]
  simp only [hce, Bool.false_eq_true, ↓reduceIte]
  have hdata : c.rewind.pre ++ c.rewind.src.data = orig := hr.data
  rw [hdata]
  have hfa' : c.rewind.src.failAt = none := hfa
  have hpos : c.rewind.pos = 0 := rfl
  have hpre : c.rewind.pre = c.pre := rfl
  have heof : c.rewind.eof = false := hce
  obtain ⟨q1, q2⟩ := pull_spec orig chunk c.rewind (jsonDemand orig) hr hfa'
    (fun he => by rw [heof] at he; simp at he)
  rw [hpos] at q1 q2
  simp only [Nat.sub_zero, Nat.zero_add] at q1 q2
  have main :
      (jsonDemand orig ≤ orig.length →
        captured (Handle.reader (pull chunk c.rewind (jsonDemand orig)).cap) =
          max c.pre.length (jsonDemand orig) ∧
        sliceMode (Handle.reader (pull chunk c.rewind (jsonDemand orig)).cap) = false) ∧
      (orig.length < jsonDemand orig →
        captured (Handle.reader (pull chunk c.rewind (jsonDemand orig)).cap) = orig.length ∧
        sliceMode (Handle.reader (pull chunk c.rewind (jsonDemand orig)).cap) = true) := by
    simp only [captured, sliceMode]
    constructor
    · intro hle
      obtain ⟨_, _, z3, z4⟩ := q1 hle
      rw [z4, z3, hpre, heof]
      exact ⟨rfl, rfl⟩
    · intro hlt
      obtain ⟨_, z2, z3⟩ := q2 hlt
      rw [z3, z2]
      exact ⟨rfl, rfl⟩
  split <;> exact main

end Xt.Translate

/-! ## Every successful `ignore_value` consumes at least one byte -/
namespace Xt.Json

theorem doneF_le (stk r rest : List Nat)
    (hA : ∀ frame up acc rest, igAfter frame up r acc = .ok rest → rest.length < r.length)
    (h : doneF stk r = .ok rest) : rest.length ≤ r.length := by
  unfold doneF at h
  split at h
  · simp at h; subst h; exact Nat.le_refl _
  · exact Nat.le_of_lt (hA _ _ _ _ h)

theorem skipWs_cons_le {bs r : List Nat} {b : Nat} (h : skipWs bs = b :: r) : r.length < bs.length := by
  have := skipWs_length_le bs
  rw [h] at this
  simp only [List.length_cons] at this
  omega

theorem ig_lt (n : Nat) :
    (∀ stk bs rest, bs.length ≤ n → igValue stk bs = .ok rest → rest.length < bs.length) ∧
    (∀ frame up bs acc rest, bs.length ≤ n → igAfter frame up bs acc = .ok rest →
      rest.length < bs.length) := by
  induction n with
  | zero =>
    constructor
    · intro stk bs rest hl h
      have : bs = [] := List.eq_nil_of_length_eq_zero (by omega)
      subst this
      rw [igValue_eq] at h
      simp [skipWs] at h
    · intro frame up bs acc rest hl h
      have : bs = [] := List.eq_nil_of_length_eq_zero (by omega)
      subst this
      rw [igAfter_eq] at h
      simp [skipWs] at h
  | succ n ih =>
    obtain ⟨ihV, ihA⟩ := ih
    have hV : ∀ stk bs rest, bs.length ≤ n + 1 → igValue stk bs = .ok rest →
        rest.length < bs.length := by
      intro stk bs rest hl h
      rw [igValue_eq] at h
      split at h
      · simp at h
      · rename_i b r hs
        have hr := skipWs_cons_le hs
        have hdone : ∀ r', r'.length ≤ r.length → doneF stk r' = .ok rest → rest.length < bs.length := by
          intro r' hle hd
          have := doneF_le stk r' rest (fun f u a rs hh => ihA f u r' a rs (by omega) hh) hd
          omega
        split at h
        · split at h
          · simp at h
          · rename_i r' hi; exact hdone r' (ident_length hi) h
        · split at h
          · simp at h
          · rename_i r' hi; exact hdone r' (ident_length hi) h
        · split at h
          · simp at h
          · rename_i r' hi; exact hdone r' (ident_length hi) h
        · split at h
          · simp at h
          · rename_i r' hi; exact hdone r' (Nat.le_of_lt (ignoreNumber_length hi)) h
        · split at h
          · simp at h
          · rename_i r' hi
            have := ignoreNumber_length hi
            simp only [List.length_cons] at this
            exact hdone r' (by omega) h
        · split at h
          · simp at h
          · rename_i r' hi; exact hdone r' (Nat.le_of_lt (ignoreStr_length hi)) h
        · have := ihA _ _ _ _ _ (by omega) h; omega
        · have := ihA _ _ _ _ _ (by omega) h; omega
        · simp at h
    refine ⟨hV, ?_⟩
    intro frame up bs acc rest hl h
    rw [igAfter_eq] at h
    split at h
    · simp at h
    · rename_i c r hs
      have hr := skipWs_cons_le hs
      have hcr : (c :: r).length ≤ bs.length := by
        have := skipWs_length_le bs; rw [hs] at this; exact this
      have hnext : ∀ bs', bs'.length ≤ bs.length → nextF frame up bs' = .ok rest →
          rest.length < bs'.length := by
        intro bs' hle hn
        unfold nextF at hn
        split at hn
        · split at hn
          · simp at hn
          · rename_i q r1 hk
            have h1 := skipWs_cons_le hk
            split at hn
            · simp at hn
            · split at hn
              · simp at hn
              · rename_i r2 hi
                have h2 := ignoreStr_length hi
                split at hn
                · simp at hn
                · rename_i c3 r3 hc3
                  have h3 := skipWs_cons_le hc3
                  split at hn
                  · simp at hn
                  · have := hV _ _ _ (by omega) hn
                    omega
        · exact hV _ _ _ (by omega) hn
      split at h
      · have := hnext r (by omega) h; omega
      · split at h
        · have := doneF_le up r rest (fun f u a rs hh => ihA f u r a rs (by omega) hh) h
          omega
        · split at h
          · simp at h
          · have := hnext (c :: r) hcr h
            omega

/-- Every successful `ignore_value` consumes at least one byte. -/
theorem ignoreValue_lt {bs rest : List Nat} (h : ignoreValue bs = .ok rest) : rest.length < bs.length :=
  (ig_lt bs.length).1 [] bs rest (Nat.le_refl _) h

end Xt.Json

namespace Xt.Translate
open Xt.Input Xt.Detect

/-! ## The demand of a trial that matches -/

/-- A matching MessagePack trial: the first byte is a collection marker, the
decoder read a first value, and the trial's demand is exactly that value's
extent (at least one byte, within the input). -/
theorem mp_matched_demand (orig : List Nat)
    (h : msgpackMatches (.ok orig) (mpClass (mpDecode orig)) = .matched) :
    ∃ b v rest, orig.head? = some b ∧ markerTest b = true ∧ mpDecode orig = .ok (v, rest) ∧
      mpTrialDemand orig = orig.length - rest.length ∧ 1 ≤ mpTrialDemand orig ∧
      mpTrialDemand orig ≤ orig.length := by
  simp only [msgpackMatches] at h
  cases hh : orig.head? with
  | none => rw [hh] at h; simp at h
  | some b =>
    rw [hh] at h
    simp only at h
    by_cases hmt : markerTest b = true
    · simp only [hmt, ↓reduceIte] at h
      cases hd : mpDecode orig with
      | error e =>
        rw [hd] at h
        simp only [mpClass] at h
        by_cases he : mpIsEof e = true
        · simp [he] at h
        · simp [he] at h
      | ok p =>
        obtain ⟨v, rest⟩ := p
        have hlt : rest.length < orig.length := Msgpack.decodeG_lt true Msgpack.depthLimit orig v rest hd
        have hdem : mpDemand orig = orig.length - rest.length := by simp [mpDemand, hd]
        have htd : mpTrialDemand orig = orig.length - rest.length := by
          simp only [mpTrialDemand, hh, hmt, ↓reduceIte, hdem]; omega
        exact ⟨b, v, rest, rfl, hmt, rfl, htd, by omega, by omega⟩
    · simp [hmt] at h

/-- A matching JSON trial: `ignore_value` read a first value, and the trial's
demand is that value's extent plus the look-ahead byte of a number. -/
theorem json_matched_demand (orig : List Nat) (h : Json.trialReader orig = true) :
    ∃ rest, Json.ignoreValue orig = .ok rest ∧ rest.length < orig.length ∧
      jsonDemand orig = orig.length - rest.length + (if topNumber orig then 1 else 0) := by
  unfold Json.trialReader at h
  cases hi : Json.ignoreValue orig with
  | error e => rw [hi] at h; simp at h
  | ok rest => exact ⟨rest, rfl, Json.ignoreValue_lt hi, by simp [jsonDemand, hi]⟩

theorem noFault_fa {src : Src} (h : src.noFault) : src.fa = none := by
  cases src with
  | slice bs => rfl
  | reader s => exact h

theorem sliceMode_fromReader (s : Source) : sliceMode (Handle.fromReader s) = false := rfl

theorem handle_srcOf_slice (bs : List Nat) : (srcOf (.slice bs)).handle = .slice bs := rfl

/-- An explicit run on `srcOf seen` is given exactly `seen`. -/
theorem seenOfHandle_srcOf (bs : List Nat) :
    seenOfHandle (srcOf (.slice bs)).handle = .slice bs ∧
    seenOfHandle (srcOf (.reader bs false)).handle = .reader bs false := by
  constructor
  · have := seenOfHandle_spec (orig := bs) (h := .slice bs) rfl
    simp only [sliceMode, ↓reduceIte] at this
    exact this
  · have := seenOfHandle_spec (orig := bs) (h := Handle.fromReader (Source.new bs [] false none))
      ⟨Inv.new (Source.new bs [] false none), rfl⟩
    simp only [sliceMode_fromReader, Bool.false_eq_true, ↓reduceIte] at this
    exact this

end Xt.Translate
